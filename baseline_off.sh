#!/usr/bin/env bash
# Runs the repository's pinned test suite with the verif guard OFF (no -tags verif).
export GOFLAGS=-mod=mod GOPROXY=off GOTOOLCHAIN=auto
unset GOSUMDB
cd /repo && go test -mod=mod -json -vet=off -count=1 -timeout 25m ./...
