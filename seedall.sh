#!/usr/bin/env bash
# Runs every kept seeded change against the checks listed for it in seeded/MAP.tsv
# (scratch worktrees only) and rewrites seeded/results.log.
cd /verif; : > seeded/results.log.new
while IFS=$'\t' read -r d checks; do
  [ -z "$d" ] && continue
  ./seedtest.sh "seeded/$d/patch.diff" "${1:-quick}" $checks >> seeded/results.log.new 2>&1
done < seeded/MAP.tsv
mv seeded/results.log.new seeded/results.log
grep -c 'exit=1' seeded/results.log
