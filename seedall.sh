#!/usr/bin/env bash
# Runs every kept seeded change against the checks listed for it in seeded/MAP.tsv
# (scratch worktrees only, 3 at a time) and rewrites seeded/results.log.
cd /verif; rm -rf .work/seedall; mkdir -p .work/seedall
tier="${1:-quick}"
grep -v '^$' seeded/MAP.tsv | while IFS=$'\t' read -r d checks; do echo "$d|$checks"; done | \
  xargs -P 3 -I{} bash -c 'l="{}"; d="${l%%|*}"; c="${l#*|}"; ./seedtest.sh "seeded/$d/patch.diff" '"$tier"' $c > ".work/seedall/$d.log" 2>&1'
cat .work/seedall/*.log | grep '^SEEDTEST' | sort > seeded/results.log
echo "detected: $(grep -c 'exit=1' seeded/results.log)  silent: $(grep -c 'exit=0' seeded/results.log)  other: $(grep -vc 'exit=[01]' seeded/results.log)"
