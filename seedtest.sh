#!/usr/bin/env bash
# seedtest.sh <patch.diff> <tier> Cxx [Cyy ...]
# Applies a seeded change to a scratch worktree of /repo (never to /repo itself),
# runs the given checks against it (VERIF_REPO) and prints one line per check.
set -u
patch="$(realpath "$1")"; tier="$2"; shift 2
wt="/tmp/wt-mut-$$"
git -C /repo worktree add --detach "$wt" HEAD >/dev/null 2>&1 || { echo "cannot create worktree"; exit 3; }
# the check script caches its test binaries per tree path: remove the ones of this scratch tree, and its run files, on exit
h=$(echo "$wt" | md5sum | cut -c1-6)
trap 'git -C /repo worktree remove --force "$wt" >/dev/null 2>&1; rm -f /verif/.work/bin/*."$h".test; rm -rf /verif/.work/run/*.$$.* "/verif/.work/scratch-replays/$$"' EXIT
export VERIF_SCRATCH_REPLAYS="/verif/.work/scratch-replays/$$"
( cd "$wt" && git apply "$patch" ) || { echo "patch does not apply"; exit 3; }
export GOFLAGS=-mod=mod GOPROXY=off GOTOOLCHAIN=auto; unset GOSUMDB
( cd "$wt" && go build ./... ) || { echo "mutant does not build"; exit 3; }
for p in "$@"; do
  out=$(VERIF_REPO="$wt" VERIF_SCRATCH_CLEAN=1 /verif/check "$p" "$tier" 2>&1); rc=$?
  keys=$(echo "$out" | grep -oE 'key=[^ ]+' | sort -u | tr '\n' ' ')
  echo "SEEDTEST $(basename "$(dirname "$patch")")/$(basename "$patch") $p $tier exit=$rc $keys"
done
