#!/usr/bin/env bash
# sweep.sh <tier> <seed> [parallel] : runs every registered check once, prints one line per check and a summary
cd /verif
tier=${1:-quick}; seed=${2:-1}; par=${3:-1}
out=.work/sweep.$tier.$seed.log; : > "$out"
cut -d'|' -f1 checks.tbl | grep '^C' | xargs -P "$par" -I{} bash -c "VERIF_SEED=$seed ./check {} $tier 2>&1 | grep -E '^(check |VIOLATION|KNOWN-FINDING|INCONCLUSIVE|ERROR)' | sed 's/^/{}: /' >> $out"
sort "$out" | grep -E 'check C' | awk '{print $2,$3,$4,$5,$6,$7,$8}' 
echo "non-zero: $(grep -E 'check C' "$out" | grep -vc 'exit=0')  violations: $(grep -c VIOLATION "$out")  inconclusive: $(grep -c INCONCLUSIVE "$out")"
