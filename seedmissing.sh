#!/usr/bin/env bash
# Runs the (seeded change, check) pairs of seeded/MAP.tsv that have no line in seeded/results.log yet
# (or all pairs of the given seeded ids) and merges the results.
cd /verif; mkdir -p .work/seedall; touch seeded/results.log
only="$*"
grep -v '^$' seeded/MAP.tsv | while IFS=$'\t' read -r d checks; do
  todo=""
  for c in $checks; do
    if [ -n "$only" ]; then case " $only " in *" $d "*) todo="$todo $c";; esac
    elif ! grep -q "^SEEDTEST $d/patch.diff $c " seeded/results.log; then todo="$todo $c"; fi
  done
  [ -n "$todo" ] && echo "$d|$todo"
done | xargs -P 3 -I{} bash -c 'l="{}"; d="${l%%|*}"; c="${l#*|}"; ./seedtest.sh "seeded/$d/patch.diff" quick $c > ".work/seedall/$d.missing.log" 2>&1'
cat .work/seedall/*.missing.log 2>/dev/null | grep '^SEEDTEST' > .work/seedall/new.lines
# newest result wins
python3 - <<'PY'
import re
res={}
for f in ['/verif/seeded/results.log','/verif/.work/seedall/new.lines']:
    try:
        for l in open(f):
            m=re.match(r'SEEDTEST (\S+) (\S+) ',l)
            if m: res[(m.group(1),m.group(2))]=l.rstrip('\n')
    except FileNotFoundError: pass
open('/verif/seeded/results.log','w').write('\n'.join(res[k] for k in sorted(res))+'\n')
PY
rm -f .work/seedall/*.missing.log .work/seedall/new.lines
echo "detected: $(grep -c 'exit=1' seeded/results.log)  silent: $(grep -c 'exit=0' seeded/results.log)  other: $(grep -vc 'exit=[01]' seeded/results.log)"
