package idxx

import (
	"context"
	"encoding/json"
	"fmt"
	"os"
	"strings"
	"sync"
	"testing"
	"time"

	"github.com/ava-labs/avalanchego/ids"

	"github.com/ava-labs/hypersdk/api/indexer"
	"github.com/ava-labs/hypersdk/chain"
	"github.com/ava-labs/hypersdk/chain/chaintest"
	"github.com/ava-labs/hypersdk/codec"
	"github.com/ava-labs/hypersdk/fees"
	"github.com/ava-labs/hypersdk/state"
	"github.com/ava-labs/hypersdk/zzverif/kit"
)

// ---- the accepted chain the notifications are drawn from (real chain.ExecutedBlock values) ----

type c31Blk struct {
	eb    *chain.ExecutedBlock
	bytes []byte // canonical marshalled form of the executed block
	txs   []ids.ID
	res   [][]byte // marshalled results
}

const c31ChainLen = 420

var (
	c31Once   sync.Once
	c31Chain  []*c31Blk // index = height (0 = the genesis-like first block)
	c31Parser = chaintest.NewTestParser()
	c31Err    error
)

func c31Build() {
	parent := ids.ID{0xc3, 0x1}
	chainID := ids.ID{7}
	ts := int64(1_700_000_000_000)
	nonce := uint64(0)
	c31Chain = make([]*c31Blk, c31ChainLen+1)
	for h := uint64(0); h <= c31ChainLen; h++ {
		ts += int64(1 + (h*7)%900)
		ntx := int((h*2654435761 >> 7) % 4) // 0..3 txs, fixed per height
		if h == 0 {
			ntx = 2 // the first block carries transactions so that a stale height 0 is also visible through GetTransaction
		}
		txs := make([]*chain.Transaction, 0, ntx)
		results := make([]*chain.Result, 0, ntx)
		for i := 0; i < ntx; i++ {
			nonce++
			act := &chaintest.TestAction{
				NumComputeUnits:              1,
				SpecifiedStateKeys:           []string{},
				SpecifiedStateKeyPermissions: []state.Permissions{},
				ReadKeys:                     [][]byte{},
				WriteKeys:                    [][]byte{},
				WriteValues:                  [][]byte{},
				Start:                        -1,
				End:                          -1,
				Nonce:                        nonce,
			}
			auth := &chaintest.TestAuth{NumComputeUnits: 1, ActorAddress: codec.Address{1, 2, 3}, SponsorAddress: codec.Address{1, 2, 3}, Start: -1, End: -1}
			tx, err := chain.NewTransaction(chain.Base{Timestamp: (ts/1000 + 1) * 1000, ChainID: chainID, MaxFee: nonce}, []chain.Action{act}, auth)
			if err != nil {
				c31Err = err
				return
			}
			txs = append(txs, tx)
			results = append(results, &chain.Result{
				Success: nonce%3 != 0,
				Error:   []byte(fmt.Sprintf("e%d", nonce%3)),
				Outputs: [][]byte{{byte(nonce), byte(nonce >> 8)}},
				Units:   fees.Dimensions{nonce, 1, 2, 3, 4},
				Fee:     1000 + nonce,
			})
		}
		sb, err := chain.NewStatelessBlock(parent, ts, h, txs, ids.ID{byte(h)}, nil)
		if err != nil {
			c31Err = err
			return
		}
		// round trip so that only persisted members remain (as chaintest does)
		sb, err = chain.UnmarshalBlock(sb.GetBytes(), c31Parser)
		if err != nil {
			c31Err = err
			return
		}
		parent = sb.GetID()
		eb := chain.NewExecutedBlock(sb, results, fees.Dimensions{h, 1, 1, 1, 1}, fees.Dimensions{1, h, 1, 1, 1})
		b, err := eb.Marshal()
		if err != nil {
			c31Err = err
			return
		}
		cb := &c31Blk{eb: eb, bytes: b}
		for i, tx := range sb.Txs {
			cb.txs = append(cb.txs, tx.GetID())
			cb.res = append(cb.res, results[i].Marshal())
		}
		c31Chain[h] = cb
	}
}

// c31Open serialises NewIndexer calls of this process: Indexer.initBlocks
// releases its pebble iterator twice (explicitly and by defer); pebble recycles
// iterators through a process-wide pool, so the second Close can hit an
// iterator that another goroutine obtained in between and pebble then aborts
// the process ("sstable ...: refcount is not zero"). Nothing else in this
// monitor uses pebble iterators, so with this lock the second Close is a no-op.
var c31OpenMu sync.Mutex

func c31Open(dir string, w uint64) (*indexer.Indexer, error) {
	if os.Getenv("VERIF_C31_UNSERIALISED") == "" { // the knob only exists to reproduce the abort described above
		c31OpenMu.Lock()
		defer c31OpenMu.Unlock()
	}
	return indexer.NewIndexer(dir, c31Parser, w)
}

// ---- histories ----

type c31Op struct {
	Kind string `json:"op"` // notify | redeliver | reopen | crash
	H    uint64 `json:"h,omitempty"`
	K    int    `json:"k,omitempty"` // redeliver: the last K notified heights again, in order
}

type c31Case struct {
	Window uint64  `json:"window"`
	Ops    []c31Op `json:"ops"`
}

func (c c31Case) shape() string {
	var b strings.Builder
	fmt.Fprintf(&b, "w%d:", c.Window)
	for _, o := range c.Ops {
		switch o.Kind {
		case "notify":
			fmt.Fprintf(&b, "n%d,", o.H)
		case "redeliver":
			fmt.Fprintf(&b, "d%d,", o.K)
		case "reopen":
			b.WriteString("R,")
		default:
			b.WriteString("X,")
		}
	}
	return b.String()
}

func (c c31Case) hasGap() bool {
	var last uint64
	started := false
	for _, o := range c.Ops {
		if o.Kind == "notify" {
			if started && o.H != last+1 {
				return true
			}
			last, started = o.H, true
		}
	}
	return false
}

type c31Stats struct {
	notifies, gaps, redeliveries, reopens, crashes, heightProbes, txProbes     int
	servedBlocks, servedTxs, absentAnswers, evictionsObserved, reopenCompares int
	fromZero, genesisServed, genesisAbsent                                     int
}

func (s *c31Stats) add(o *c31Stats) {
	s.notifies += o.notifies
	s.gaps += o.gaps
	s.redeliveries += o.redeliveries
	s.reopens += o.reopens
	s.crashes += o.crashes
	s.heightProbes += o.heightProbes
	s.txProbes += o.txProbes
	s.servedBlocks += o.servedBlocks
	s.servedTxs += o.servedTxs
	s.absentAnswers += o.absentAnswers
	s.evictionsObserved += o.evictionsObserved
	s.reopenCompares += o.reopenCompares
	s.fromZero += o.fromZero
	s.genesisServed += o.genesisServed
	s.genesisAbsent += o.genesisAbsent
}

// c31Answers is the complete observable answer vector of an indexer over the
// heights/txs the history could have touched.
type c31Answers struct {
	latest  string
	heights map[uint64]string // height -> "" (absent) or hex digest of the served block
	byID    map[uint64]string
	txs     map[ids.ID]string
}

func c31Observe(ix *indexer.Indexer, maxH uint64, st *c31Stats) (*c31Answers, string) {
	a := &c31Answers{heights: map[uint64]string{}, byID: map[uint64]string{}, txs: map[ids.ID]string{}}
	if lb, err := ix.GetLatestBlock(); err == nil {
		b, merr := lb.Marshal()
		if merr != nil {
			return nil, "marshal latest: " + merr.Error()
		}
		a.latest = string(b)
	}
	for h := uint64(0); h <= maxH; h++ {
		if blk, err := ix.GetBlockByHeight(h); err == nil {
			b, merr := blk.Marshal()
			if merr != nil {
				return nil, "marshal: " + merr.Error()
			}
			a.heights[h] = string(b)
		}
		cb := c31Chain[h]
		if blk, err := ix.GetBlock(cb.eb.Block.GetID()); err == nil {
			b, merr := blk.Marshal()
			if merr != nil {
				return nil, "marshal: " + merr.Error()
			}
			a.byID[h] = string(b)
		}
		for _, txID := range cb.txs {
			found, tx, ts, res, err := ix.GetTransaction(txID)
			switch {
			case err != nil:
				a.txs[txID] = "error: " + err.Error()
			case found:
				a.txs[txID] = fmt.Sprintf("%s|%d|%x", tx.GetID(), ts, res.Marshal())
			}
		}
	}
	st.heightProbes += int(maxH) + 1
	return a, ""
}

// c31Judge compares an answer vector with the model (notified set, last height H, window W).
//
// started tells whether anything was notified yet (H alone cannot: height 0 is a
// legitimate notified height - a VM delivers its genesis block first). A
// notified height h is inside the window iff h > H-W, written h+W > H so that
// nothing underflows while H < W (then nothing has left the window yet).
func c31Judge(a *c31Answers, notified map[uint64]bool, started bool, H, W, maxH uint64, gap bool, when string, st *c31Stats) (string, string) {
	pfx := "C31/"
	if gap {
		pfx = "C31/height-gap/"
	}
	if !started {
		if a.latest != "" {
			return pfx + "latest-wrong", when + ": GetLatestBlock answers before any notification"
		}
	} else if a.latest != string(c31Chain[H].bytes) {
		return pfx + "latest-wrong", fmt.Sprintf("%s: GetLatestBlock is not the last notified block (height %d)", when, H)
	}
	for h := uint64(0); h <= maxH; h++ {
		want := started && notified[h] && h+W > H
		got, got2 := a.heights[h], a.byID[h]
		if !want {
			if got != "" || got2 != "" {
				if notified[h] {
					return pfx + "stale-block-served", fmt.Sprintf("%s: height %d is served (byHeight=%v byID=%v) although it is older than the window (last %d, window %d)", when, h, got != "", got2 != "", H, W)
				}
				return pfx + "never-accepted-block-served", fmt.Sprintf("%s: height %d is served but was never notified", when, h)
			}
			for _, txID := range c31Chain[h].txs {
				st.txProbes++
				if v := a.txs[txID]; v != "" {
					if notified[h] {
						return pfx + "stale-tx-served", fmt.Sprintf("%s: tx %s of height %d is reported (%s) although the block is older than the window (last %d, window %d)", when, txID, h, v[:min(len(v), 60)], H, W)
					}
					return pfx + "never-accepted-tx-served", fmt.Sprintf("%s: tx %s of never notified height %d is reported", when, txID, h)
				}
			}
			st.absentAnswers++
			if h == 0 && notified[0] {
				st.genesisAbsent++
			}
			continue
		}
		cb := c31Chain[h]
		if got == "" || got2 == "" {
			return pfx + "window-block-missing", fmt.Sprintf("%s: height %d (last %d, window %d) byHeight=%v byID=%v", when, h, H, W, got != "", got2 != "")
		}
		if got != string(cb.bytes) || got2 != string(cb.bytes) {
			return pfx + "wrong-block-served", fmt.Sprintf("%s: height %d: served block differs from the notified one", when, h)
		}
		st.servedBlocks++
		if h == 0 {
			st.genesisServed++
		}
		for i, txID := range cb.txs {
			st.txProbes++
			wantTx := fmt.Sprintf("%s|%d|%x", txID, cb.eb.Block.Tmstmp, cb.res[i])
			switch v := a.txs[txID]; {
			case v == "":
				return pfx + "window-tx-missing", fmt.Sprintf("%s: tx %d of height %d (last %d, window %d) is not reported", when, i, h, H, W)
			case v != wantTx:
				return pfx + "wrong-tx-answer", fmt.Sprintf("%s: tx %d of height %d: got %s want %s", when, i, h, v, wantTx)
			}
			st.servedTxs++
		}
	}
	return "", ""
}

func c31Diff(a, b *c31Answers, maxH uint64) string {
	if a.latest != b.latest {
		return "GetLatestBlock"
	}
	for h := uint64(0); h <= maxH; h++ {
		if a.heights[h] != b.heights[h] {
			return fmt.Sprintf("GetBlockByHeight(%d): present %v -> %v", h, a.heights[h] != "", b.heights[h] != "")
		}
		if a.byID[h] != b.byID[h] {
			return fmt.Sprintf("GetBlock(id of %d): present %v -> %v", h, a.byID[h] != "", b.byID[h] != "")
		}
		for _, txID := range c31Chain[h].txs {
			if a.txs[txID] != b.txs[txID] {
				return fmt.Sprintf("GetTransaction(tx of height %d): %q -> %q", h, a.txs[txID], b.txs[txID])
			}
		}
	}
	return ""
}

// runC31 runs one history on a fresh directory.
func runC31(c c31Case, st *c31Stats) (string, string) {
	dir, err := os.MkdirTemp("", "verif-c31-*")
	if err != nil {
		return "harness", err.Error()
	}
	defer os.RemoveAll(dir)
	ctx := context.Background()
	ix, err := c31Open(dir, c.Window)
	if err != nil {
		return "C31/open-error", "NewIndexer on an empty directory: " + err.Error()
	}
	defer func() {
		if ix != nil {
			_ = ix.Close()
		}
	}()
	var (
		W        = c.Window
		H        uint64 // last notified height, meaningful once started
		started  bool
		notified = map[uint64]bool{}
		order    []uint64
		maxH     = uint64(3)
		gap      bool
	)
	for _, o := range c.Ops {
		if o.Kind == "notify" && o.H+2 > maxH {
			maxH = o.H + 2
		}
	}
	if maxH > c31ChainLen {
		return "harness", "history beyond the prepared chain"
	}
	for i, o := range c.Ops {
		when := fmt.Sprintf("after op %d %s", i, o.Kind)
		switch o.Kind {
		case "notify":
			if started && o.H != H+1 {
				gap = true
				st.gaps++
			}
			if !started && o.H == 0 {
				st.fromZero++
			}
			if err := ix.Notify(ctx, c31Chain[o.H].eb); err != nil {
				return "C31/notify-error", fmt.Sprintf("Notify(height %d) failed: %v", o.H, err)
			}
			st.notifies++
			if o.H >= W && notified[o.H-W] {
				st.evictionsObserved++
			}
			notified[o.H] = true
			order = append(order, o.H)
			H, started = o.H, true
			when += fmt.Sprintf("(%d)", o.H)
		case "redeliver":
			k := min(o.K, len(order))
			for _, h := range order[len(order)-k:] {
				if err := ix.Notify(ctx, c31Chain[h].eb); err != nil {
					return "C31/notify-error", fmt.Sprintf("repeated Notify(height %d) failed: %v", h, err)
				}
			}
			st.redeliveries++
		case "reopen":
			before, herr := c31Observe(ix, maxH, st)
			if herr != "" {
				return "harness", herr
			}
			if err := ix.Close(); err != nil {
				ix = nil
				return "C31/close-error", "Close failed: " + err.Error()
			}
			ix, err = c31Open(dir, W)
			if err != nil {
				ix = nil
				return "C31/reopen-error", "NewIndexer over the existing directory failed: " + err.Error()
			}
			st.reopens++
			after, herr := c31Observe(ix, maxH, st)
			if herr != "" {
				return "harness", herr
			}
			st.reopenCompares++
			if d := c31Diff(before, after, maxH); d != "" {
				key := "C31/reopen-changes-answers"
				if gap {
					key = "C31/height-gap/reopen-changes-answers"
				}
				return key, fmt.Sprintf("%s: an answer changed across a clean restart: %s", when, d)
			}
		}
		a, herr := c31Observe(ix, maxH, st)
		if herr != "" {
			return "harness", herr
		}
		if k, d := c31Judge(a, notified, started, H, W, maxH, gap, when, st); d != "" {
			return k, d
		}
	}
	return "", ""
}

var c31Windows = []uint64{1, 2, 3, 5, 8}

func genC31(rng interface{ IntN(int) int }, maxOps int, gaps bool) c31Case {
	c := c31Case{Window: c31Windows[rng.IntN(len(c31Windows))]}
	W := c.Window
	// first notified height: 0 in 9 of 20 histories (a VM delivers its genesis
	// block first, so height 0 enters and must leave the window like any other),
	// else 1..3, or anywhere in 0..40
	var first uint64
	switch x := rng.IntN(20); {
	case x < 9:
		first = 0
	case x < 16:
		first = uint64(1 + rng.IntN(3))
	default:
		first = uint64(rng.IntN(41))
	}
	H := first // last notified height once notified > 0
	n := 3 + rng.IntN(maxOps)
	pGap := 0
	if gaps {
		pGap = []int{5, 15}[rng.IntN(2)]
	}
	pRe := []int{0, 8, 20}[rng.IntN(3)]
	pOpen := []int{3, 10, 20}[rng.IntN(3)]
	notified := 0
	for len(c.Ops) < n {
		x := rng.IntN(100)
		switch {
		case x < pGap && notified > 0:
			g := uint64(2 + rng.IntN(3))
			switch rng.IntN(3) {
			case 0:
				g = W + uint64(rng.IntN(3))
				if g < 2 {
					g = 2
				}
			case 1:
				g = uint64(5 + rng.IntN(40))
			}
			if H+g+uint64(n)+4 > c31ChainLen {
				g = 2
			}
			H += g
			c.Ops = append(c.Ops, c31Op{Kind: "notify", H: H})
			notified++
		case x < pGap+pRe && notified > 0:
			c.Ops = append(c.Ops, c31Op{Kind: "redeliver", K: 1 + rng.IntN(int(W)+1)})
		case x < pGap+pRe+pOpen:
			c.Ops = append(c.Ops, c31Op{Kind: "reopen"})
		default:
			if notified > 0 {
				H++
			}
			c.Ops = append(c.Ops, c31Op{Kind: "notify", H: H})
			notified++
		}
	}
	// end with a restart (and a second one: answers must be stable from restart to restart)
	c.Ops = append(c.Ops, c31Op{Kind: "reopen"})
	if rng.IntN(2) == 0 {
		c.Ops = append(c.Ops, c31Op{Kind: "reopen"})
	}
	return c
}

func c31Nontrivial(c c31Case) bool {
	// the history moves past its window and restarts or re-delivers at least once
	n := 0
	special := false
	for _, o := range c.Ops {
		if o.Kind == "notify" {
			n++
		} else {
			special = true
		}
	}
	return special && uint64(n) > c.Window
}

// TestC31Child replays the notifications of a history on a directory and exits
// WITHOUT closing the indexer (crash-style stop after the last Notify returned).
func TestC31Child(t *testing.T) {
	if role, ok := kit.IsChild(); !ok || role != "c31" {
		t.Skip("child only")
	}
	c31Once.Do(c31Build)
	if c31Err != nil {
		fmt.Println("CHILD-ERROR chain:", c31Err)
		os.Exit(3)
	}
	var c c31Case
	if err := json.Unmarshal([]byte(os.Getenv("VERIF_C31_CASE")), &c); err != nil {
		fmt.Println("CHILD-ERROR case:", err)
		os.Exit(3)
	}
	ix, err := c31Open(os.Getenv("VERIF_C31_DIR"), c.Window)
	if err != nil {
		fmt.Println("CHILD-ERROR open:", err)
		os.Exit(4)
	}
	var order []uint64
	for _, o := range c.Ops {
		switch o.Kind {
		case "notify":
			if err := ix.Notify(context.Background(), c31Chain[o.H].eb); err != nil {
				fmt.Println("CHILD-ERROR notify:", err)
				os.Exit(5)
			}
			order = append(order, o.H)
		case "redeliver":
			k := min(o.K, len(order))
			for _, h := range order[len(order)-k:] {
				if err := ix.Notify(context.Background(), c31Chain[h].eb); err != nil {
					fmt.Println("CHILD-ERROR notify:", err)
					os.Exit(5)
				}
			}
		}
	}
	fmt.Println("CHILD-DONE")
	os.Exit(0) // no Close: the process dies with the store open
}

// runC31Crash: the child process delivers the notifications and dies without
// Close; the parent reopens the directory and judges the answers.
func runC31Crash(c c31Case, st *c31Stats) (string, string) {
	dir, err := os.MkdirTemp("", "verif-c31x-*")
	if err != nil {
		return "harness", err.Error()
	}
	defer os.RemoveAll(dir)
	cb, _ := json.Marshal(c)
	res := kit.RunChild("TestC31Child", []string{"VERIF_CHILD=c31", "VERIF_C31_DIR=" + dir, "VERIF_C31_CASE=" + string(cb)}, 3*time.Minute)
	if res.TimedOut {
		return "inconclusive", "child watchdog"
	}
	if res.ExitCode == 5 {
		return "C31/notify-error", "child: " + lastLine(res.Output)
	}
	if res.ExitCode != 0 || !strings.Contains(res.Output, "CHILD-DONE") {
		return "harness", fmt.Sprintf("child exit %d: %s", res.ExitCode, lastLine(res.Output))
	}
	st.crashes++
	var (
		H        uint64
		started  bool
		notified = map[uint64]bool{}
		maxH     = uint64(3)
		gap      = c.hasGap()
	)
	for _, o := range c.Ops {
		if o.Kind == "notify" {
			if !started && o.H == 0 {
				st.fromZero++
			}
			notified[o.H] = true
			H, started = o.H, true
			if o.H+2 > maxH {
				maxH = o.H + 2
			}
		}
	}
	var prev *c31Answers
	for round := 1; round <= 2; round++ {
		ix, err := c31Open(dir, c.Window)
		if err != nil {
			return "C31/reopen-error", fmt.Sprintf("NewIndexer after a crash-style stop failed (open %d): %v", round, err)
		}
		a, herr := c31Observe(ix, maxH, st)
		_ = ix.Close()
		if herr != "" {
			return "harness", herr
		}
		if k, d := c31Judge(a, notified, started, H, c.Window, maxH, gap, fmt.Sprintf("open %d after crash-style stop", round), st); d != "" {
			return k, d
		}
		if prev != nil {
			if d := c31Diff(prev, a, maxH); d != "" {
				return "C31/reopen-changes-answers", "after crash-style stop: " + d
			}
		}
		prev = a
	}
	return "", ""
}

func lastLine(s string) string {
	lines := strings.Split(strings.TrimSpace(s), "\n")
	for i := len(lines) - 1; i >= 0; i-- {
		if strings.HasPrefix(lines[i], "CHILD-") {
			return lines[i]
		}
	}
	if len(lines) > 0 {
		return lines[len(lines)-1]
	}
	return ""
}

func TestC31(t *testing.T) {
	if _, ok := kit.IsChild(); ok {
		t.Skip("parent only")
	}
	r := kit.Start(t, "C31", "fault_enumeration")
	r.Rule("history = PRNG sequence over one chain of real chain.ExecutedBlock values (heights 0..420, 0..3 txs each, distinct results; the first notified height is 0 in ~45% of the histories - as a VM delivers its genesis block first -, else 1..3 or anywhere in 0..40): consecutive Notify, Notify after a height gap (2..4, around the window, 5..44), repeated delivery of the last 1..W+1 notified blocks in order, clean restart (Close + NewIndexer on the same directory) at any point and at the end (often twice), plus crash-style stops (child process delivers the notifications and exits without Close; parent reopens twice). Windows {1,2,3,5,8}. After every op every height 0..last+2, every block id and every tx id of the chain prefix is queried and compared with the model {notified heights, last height H}: present exactly for notified heights in (H-W, H] (height 0 included; while H < W nothing has left the window) with the exact block / result / timestamp; GetLatestBlock = block H; the full answer vector must be identical before and after each restart. Non-trivial = more notifications than the window and at least one restart or re-delivery; distinct = distinct (window, op sequence). Concurrent part (c31_conc_test.go; readers of a node run concurrently with the accept notifications): PRNG plans {window 1/2/3 (1 in half of the plans), 60..120 (thorough ..200) strictly increasing notified heights (mostly consecutive, gaps 2..W+3 with probability 0/4/10%), 2..6 readers, burst 8..64 reads per reader and notification, notifier lead 0..2}: one notifier goroutine delivers the blocks while the readers call GetLatestBlock / GetBlockByHeight / GetBlock(id) / GetTransaction for PRNG targets around the height being delivered (window edge, latest, not yet accepted, never accepted heights inside gaps), released by the announcement of each notification (so the reads run into that Notify; one epoch in four between two notifications), with Gosched / short spins in between; counts of notifications and reads are fixed by the plan. Each read records lo = newest notification whose Notify had returned before the call and hi = newest notification announced (just before Notify is called) when the read returned, from one pair of atomics shared with the notifier; lo is raised to the newest notification an earlier answer to the same reader already showed. After the join each read is judged against every state lo..hi (state j = notified heights 0..j, latest s_j, served iff notified and h+W > s_j): GetLatestBlock must succeed once lo >= first notification and return the accepted block of some s_j, lo<=j<=hi; a height/id/tx read that answers must be served in at least one of the states and carry the accepted block / tx, timestamp, result; one that does not answer must be absent in at least one of them; afterwards the quiescent answer vector is judged as in the sequential part, also across a clean restart. Non-trivial concurrent run = at least one read overlapped a Notify and more notifications than the window; distinct = distinct plan.")
	r.Assume("notified heights increase except for repeated delivery, which re-sends the most recent notified blocks in their original order (answers are judged after the re-delivery finished, not in between)",
		"the window is the same before and after a restart",
		"each tx id occurs in one block only (C09)",
		"concurrent part: one notifier (accept notifications of a node are delivered one after the other); a notification takes effect at one instant between the call and the return of Notify, a read observes one instant between its call and its return, and a reader that was shown block s_j is never afterwards answered from a state older than j")
	r.Extra("windows", c31Windows)
	c31Once.Do(c31Build)
	if c31Err != nil {
		t.Fatalf("building the block chain: %v", c31Err)
	}
	st := &c31Stats{}
	var stMu sync.Mutex
	judge := func(c c31Case, crash bool) {
		r.Eval()
		var key, d string
		local := &c31Stats{}
		defer func() {
			stMu.Lock()
			st.add(local)
			stMu.Unlock()
		}()
		r.Guard("indexer", c, func() {
			if crash {
				key, d = runC31Crash(c, local)
			} else {
				key, d = runC31(c, local)
			}
		})
		switch {
		case key == "harness":
			r.Inconclusive("harness problem: %s", d)
			return
		case key == "inconclusive":
			r.Inconclusive("%s", d)
			return
		case d != "":
			r.Violation(key, c, "%s  [history %s]", d, c.shape())
		}
		if c31Nontrivial(c) || crash {
			r.Distinct(crash, c.shape())
			r.Sample(c)
		}
	}
	if rf := r.Replay(); rf != nil && len(rf.Witness) > 0 {
		if c31ConcReplay(r, rf.Witness) {
			r.Finish(0)
			return
		}
		var c c31Case
		if err := json.Unmarshal(rf.Witness, &c); err == nil && len(c.Ops) > 0 {
			crash := false
			for _, o := range c.Ops {
				if o.Kind == "crash" {
					crash = true
				}
			}
			judge(c, crash)
			r.Finish(0)
			return
		}
	}

	// the scenario of the design probe, kept as a fixed case: window 3, heights 1,2,3,10,11, two restarts
	judge(c31Case{Window: 3, Ops: []c31Op{{Kind: "notify", H: 1}, {Kind: "notify", H: 2}, {Kind: "notify", H: 3}, {Kind: "notify", H: 10}, {Kind: "notify", H: 11}, {Kind: "reopen"}, {Kind: "reopen"}}}, false)
	// fixed cases: the chain is delivered from height 0 (as a VM does) and grows past the window, then restarts
	for _, w := range c31Windows {
		c := c31Case{Window: w}
		for h := uint64(0); h <= w+2; h++ {
			c.Ops = append(c.Ops, c31Op{Kind: "notify", H: h})
		}
		c.Ops = append(c.Ops, c31Op{Kind: "reopen"}, c31Op{Kind: "reopen"})
		judge(c, false)
	}

	// histories run concurrently (each on its own directory; pebble writes are synchronous)
	type job struct {
		c     c31Case
		crash bool
	}
	var jobs []job
	rng := r.Rand("histories")
	nCons := r.N(100, 1500)
	for i := 0; i < nCons; i++ {
		jobs = append(jobs, job{c: genC31(rng, r.N(20, 30), false)})
	}
	nGap := r.N(200, 3000)
	for i := 0; i < nGap; i++ {
		jobs = append(jobs, job{c: genC31(rng, r.N(20, 30), true)})
	}
	crng := r.Rand("crash-histories")
	nCrash := r.N(6, 60)
	for i := 0; i < nCrash; i++ {
		c := genC31(crng, 15, i%2 == 1)
		// the child ignores reopen ops; mark the case as crash-style for the replay
		var ops []c31Op
		for _, o := range c.Ops {
			if o.Kind != "reopen" {
				ops = append(ops, o)
			}
		}
		c.Ops = append(ops, c31Op{Kind: "crash"})
		jobs = append(jobs, job{c: c, crash: true})
	}
	var wg sync.WaitGroup
	ch := make(chan job)
	for w := 0; w < 8; w++ {
		wg.Add(1)
		go func() {
			defer wg.Done()
			for j := range ch {
				judge(j.c, j.crash)
			}
		}()
	}
	for _, j := range jobs {
		ch <- j
	}
	close(ch)
	wg.Wait()

	// concurrent part: readers against a running notifier (c31_conc_test.go)
	c31Concurrent(r)

	r.Count("notifications", st.notifies)
	r.Count("notifications_after_gap", st.gaps)
	r.Count("repeated_deliveries", st.redeliveries)
	r.Count("clean_restarts", st.reopens)
	r.Count("crash_style_restarts", st.crashes)
	r.Count("answer_vectors_compared_across_restart", st.reopenCompares)
	r.Count("height_probes", st.heightProbes)
	r.Count("tx_probes", st.txProbes)
	r.Count("blocks_served_and_matched", st.servedBlocks)
	r.Count("txs_served_and_matched", st.servedTxs)
	r.Count("absent_answers_confirmed", st.absentAnswers)
	r.Count("evictions_expected", st.evictionsObserved)
	r.Count("histories_starting_at_height_0", st.fromZero)
	r.Count("height_0_served_and_matched", st.genesisServed)
	r.Count("height_0_absent_after_leaving_window", st.genesisAbsent)
	r.Finish(r.N(120, 1500))
}
