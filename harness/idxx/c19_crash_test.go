package idxx

import (
	"errors"
	"fmt"
	"sort"
	"strings"
	"sync"

	"github.com/ava-labs/avalanchego/database"
	"github.com/ava-labs/avalanchego/database/memdb"
)

// ---- write-level crash enumeration for C19 ----
//
// The index is opened on a c19FaultDB (memdb underneath). The wrapper counts
// the mutating operations that reach the store - Put, Delete, and every
// non-empty batch Write as ONE operation (memdb batches are atomic, they are
// never split) - and, armed at operation k, "crashes":
//
//	variant "lost":    operation k and everything after it never reaches the store
//	variant "applied": operation k is the last one that reaches the store, but the
//	                   caller never learns that it did
//
// in both variants the caller gets errC19Crashed from operation k on. After the
// crash a NEW ChainIndex is opened on what survived in the memdb.

var errC19Crashed = errors.New("crashed: the process died, the write was not acknowledged")

type c19FaultDB struct {
	database.Database // the store that survives the crash

	mu       sync.Mutex
	ops      int  // mutating operations seen so far (up to and including the crash)
	armAt    int  // 1-based operation at which the process dies; 0 = never
	applyKth bool // variant "applied"
	dead     bool
}

func (d *c19FaultDB) isCrashed() bool {
	d.mu.Lock()
	defer d.mu.Unlock()
	return d.dead
}

func (d *c19FaultDB) opCount() int {
	d.mu.Lock()
	defer d.mu.Unlock()
	return d.ops
}

// gate is passed once by every mutating operation: may it reach the store, and
// what does the caller get to see.
func (d *c19FaultDB) gate() (apply bool, err error) {
	d.mu.Lock()
	defer d.mu.Unlock()
	if d.dead {
		return false, errC19Crashed
	}
	d.ops++
	if d.armAt > 0 && d.ops == d.armAt {
		d.dead = true
		return d.applyKth, errC19Crashed
	}
	return true, nil
}

func (d *c19FaultDB) Put(k, v []byte) error {
	apply, err := d.gate()
	if apply {
		if e := d.Database.Put(k, v); e != nil {
			return e
		}
	}
	return err
}

func (d *c19FaultDB) Delete(k []byte) error {
	apply, err := d.gate()
	if apply {
		if e := d.Database.Delete(k); e != nil {
			return e
		}
	}
	return err
}

func (d *c19FaultDB) NewBatch() database.Batch {
	return &c19FaultBatch{Batch: d.Database.NewBatch(), db: d}
}

// Compact is not a mutation of the contents; the index calls it from background
// goroutines, possibly long after the "crash" (memdb: a no-op under its lock).
func (d *c19FaultDB) Compact(start, limit []byte) error { return d.Database.Compact(start, limit) }

// Close leaves the surviving store open (the driver closes it).
func (d *c19FaultDB) Close() error { return nil }

type c19FaultBatch struct {
	database.Batch
	db *c19FaultDB
}

func (b *c19FaultBatch) Write() error {
	if b.Batch.Size() == 0 { // nothing reaches the store: not a crash point
		if b.db.isCrashed() {
			return errC19Crashed
		}
		return b.Batch.Write()
	}
	apply, err := b.db.gate()
	if apply {
		if e := b.Batch.Write(); e != nil {
			return e
		}
	}
	return err
}

func (b *c19FaultBatch) Inner() database.Batch { return b }

// ---- one crash point of one history ----

type c19CrashCase struct {
	Case    c19Case `json:"case"`
	CrashAt int     `json:"crashAt"`    // 1-based mutating store operation at which the process dies
	Variant string  `json:"variant"`    // lost | applied
	Ops     int     `json:"opsUnarmed"` // mutating store operations of the whole history without a crash
}

type c19CrashStats struct {
	pre, post                               c19Stats // work before the crash / after the reopen
	points, opsSeen, histories              int
	reopenOK                                int
	intAccept, intHist, intReopen           int
	outcomeBefore, outcomeAfter, outcomeNil int
	redone, tailOps, extraAccepts           int
	lostVariant, appliedVariant             int
}

const c19CrashTail = 10 // ops of the remaining history that are replayed after the reopen

// c19CrashKey maps the keys of the ordinary monitor to the keys of the crash phase.
func c19CrashKey(k string) string {
	switch k {
	case "harness", "":
		return k
	case "C19/accept-error", "C19/prune-target-missing":
		return "C19/crash/accept-after-reopen-fails"
	case "C19/reopen-error", "C19/open-error":
		return "C19/crash/reopen-fails"
	}
	return "C19/crash/" + strings.TrimPrefix(k, "C19/")
}

// countC19Ops runs the history un-armed on the fault store with all checks and
// returns the number of mutating store operations it performs.
func countC19Ops(c c19Case, st *c19Stats) (n int, key, detail string) {
	disk := memdb.New()
	defer func() { _ = disk.Close() }()
	fdb := &c19FaultDB{Database: disk}
	s := newC19Sess(c, st, fdb)
	if err := s.open(c.Window); err != nil {
		return 0, "C19/open-error", "New on an empty database: " + err.Error()
	}
	for i, o := range c.Ops {
		if k, d := s.step(i, o, true); d != "" {
			return fdb.opCount(), k, d
		}
	}
	return fdb.opCount(), "", ""
}

// runC19Crash replays the history on a fresh store armed at cc.CrashAt, stops at
// the crash, reopens a new index on what survived and judges it.
func runC19Crash(cc c19CrashCase, st *c19CrashStats) (string, string) {
	c := cc.Case
	disk := memdb.New()
	defer func() { _ = disk.Close() }()
	armed := &c19FaultDB{Database: disk, armAt: cc.CrashAt, applyKth: cc.Variant == "applied"}
	s := newC19Sess(c, &st.pre, armed)
	s.crashed = armed.isCrashed
	if err := s.open(c.Window); err != nil {
		return "C19/open-error", "New on an empty database: " + err.Error()
	}
	idx := -1
	for i, o := range c.Ops {
		k, d := s.step(i, o, false)
		if k == c19Crashed {
			idx = i
			break
		}
		if d != "" {
			return k, d // not crash related (also seen by the un-armed run)
		}
	}
	if idx < 0 {
		return "harness", fmt.Sprintf("armed at store operation %d of %d but the replay performed only %d", cc.CrashAt, cc.Ops, armed.opCount())
	}
	o := c.Ops[idx]
	what := fmt.Sprintf("crash (%s) at store operation %d/%d inside op %d %s(%d)", cc.Variant, cc.CrashAt, cc.Ops, idx, o.Kind, o.H+o.W)
	switch o.Kind {
	case "accept":
		st.intAccept++
	case "hist":
		st.intHist++
	default:
		st.intReopen++
	}

	// ---- restart on what survived, same configuration ----
	s.db = &c19FaultDB{Database: disk} // un-armed
	s.crashed = nil
	s.st = &st.post
	w := s.W
	if o.Kind == "reopen" {
		w = o.W // the configuration the dying process was started with
	}
	if err := s.open(w); err != nil {
		return "C19/crash/reopen-fails", fmt.Sprintf("%s: New over the surviving database with window %d failed: %v", what, w, err)
	}
	st.reopenOK++
	s.W = w
	ctx, ci := s.ctx, s.ci

	// last accepted pointer: the one before the interrupted operation or the one it was writing
	la, err := ci.GetLastAcceptedHeight(ctx)
	switch {
	case err == nil:
		blk, e1 := ci.GetBlockByHeight(ctx, la)
		if e1 != nil {
			return "C19/crash/last-accepted-block-missing", fmt.Sprintf("%s: the index claims last accepted height %d but GetBlockByHeight(%d) = %v (was %d before the interrupted operation)", what, la, la, e1, s.L)
		}
		want := c19Make(c.Salt, la)
		if blk.h != la || blk.id != want.id {
			return "C19/crash/mapping-inconsistent", fmt.Sprintf("%s: block stored at last accepted height %d is (%d,%s), want id %s", what, la, blk.h, blk.id, want.id)
		}
		if _, e2 := ci.GetBlock(ctx, blk.id); e2 != nil {
			return "C19/crash/last-accepted-block-missing", fmt.Sprintf("%s: the index claims last accepted height %d but GetBlock(%s) = %v", what, la, blk.id, e2)
		}
		before := s.accepted && la == s.L
		after := o.Kind == "accept" && la == o.H
		if !before && !after {
			return "C19/crash/last-accepted-unexpected", fmt.Sprintf("%s: last accepted height is %d after the restart; before the interrupted operation it was %d (accepted=%v)", what, la, s.L, s.accepted)
		}
		if before {
			st.outcomeBefore++
		} else {
			st.outcomeAfter++
			s.commitAccept(o.H)
		}
	case errors.Is(err, database.ErrNotFound):
		if s.accepted {
			return "C19/crash/last-accepted-lost", fmt.Sprintf("%s: no last accepted height after the restart; it was %d before the interrupted operation", what, s.L)
		}
		st.outcomeNil++
	default:
		return "C19/crash/lookup-error", fmt.Sprintf("%s: GetLastAcceptedHeight failed after the restart: %v", what, err)
	}
	// the block of the interrupted write may or may not have survived (as a whole)
	if o.Kind == "accept" || o.Kind == "hist" {
		s.ever[o.H] = true
	}
	s.prune()
	if k, d := s.check("after "+what+" and restart", s.accepted); d != "" {
		return c19CrashKey(k), d
	}

	// ---- the restarted node continues ----
	next := idx + 1
	switch {
	case o.Kind == "accept" && !(s.accepted && s.L == o.H):
		next = idx // consensus delivers the block again
		st.redone++
	case o.Kind == "hist":
		next = idx // the backfill saves the block again
		st.redone++
	}
	end := next + c19CrashTail
	if end > len(c.Ops) {
		end = len(c.Ops)
	}
	for i := next; i < end; i++ {
		st.tailOps++
		if k, d := s.step(i, c.Ops[i], true); d != "" {
			return c19CrashKey(k), fmt.Sprintf("%s; continuing after the restart: %s", what, d)
		}
	}
	h := s.L + 1
	if !s.accepted {
		h = 0
	}
	for j := uint64(0); j < s.W+2; j++ {
		st.extraAccepts++
		if k, d := s.step(len(c.Ops)+int(j), c19Op{Kind: "accept", H: h}, true); d != "" {
			return c19CrashKey(k), fmt.Sprintf("%s; accepting the next heights after the restart: %s", what, d)
		}
		h++
	}
	return "", ""
}

// c19CrashPoints selects the crash points of a history with n store operations:
// all of them when n <= all, else a PRNG sample of `sample` distinct ones
// (always including the last one).
func c19CrashPoints(rng interface{ IntN(int) int }, n, all, sample int) []int {
	if n <= all || n <= sample {
		ks := make([]int, n)
		for i := range ks {
			ks[i] = i + 1
		}
		return ks
	}
	seen := map[int]bool{n: true}
	for len(seen) < sample {
		seen[1+rng.IntN(n)] = true
	}
	ks := make([]int, 0, len(seen))
	for k := range seen {
		ks = append(ks, k)
	}
	sort.Ints(ks)
	return ks
}
