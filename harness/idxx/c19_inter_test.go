package idxx

import (
	"fmt"
	"os"
	"runtime"
	"sort"
	"sync"
	"sync/atomic"

	"github.com/ava-labs/avalanchego/database"
	"github.com/ava-labs/avalanchego/database/memdb"
	"github.com/prometheus/client_golang/prometheus"

	"github.com/ava-labs/hypersdk/internal/pebble"
)

// ---- SaveHistorical inside an in-flight UpdateLastAccepted ----
//
// In the node SaveHistorical is called by the validity-window syncer goroutine
// while the consensus thread keeps calling UpdateLastAccepted. c19HookDB sits
// between the ChainIndex and the store and, armed with a plan, runs lists of
// SaveHistorical calls at chosen store operations of the accept (deterministic
// interleavings). Un-armed it is a pass-through; in "yield" mode it only yields
// the processor at every store operation (genuinely concurrent part).

// store operations of an UpdateLastAccepted at which saves can be injected
const (
	c19PtAfterReturn = -1 // not reached while the accept was in flight: run right after it returned
	c19PtNewBatch    = 0  // first store operation of the accept (before any read)
	c19PtBeforeIter  = 1  // the prune scan is about to be opened
	c19PtAfterIter   = 2  // the prune scan has been opened, nothing read yet
	c19PtBeforeWrite = 3  // scan finished, the batch is about to be written
	c19PtAfterWrite  = 4  // the batch has been written, the accept has not returned yet
	c19PtRelease     = 5  // the scan iterator is released (last store operation of the accept)
	c19PtNext0       = 6  // +j: before the (j+1)-th read of the prune scan
	c19PtNextMax     = 3  // j in 0..c19PtNextMax
)

type c19Inj struct {
	At int      `json:"at"` // c19Pt*
	Hs []uint64 `json:"hs"` // heights saved, in this order
}

type c19HookDB struct {
	database.Database

	mu    sync.Mutex
	plan  map[int]func(actual int)
	busy  bool
	yield atomic.Bool
}

func (d *c19HookDB) arm(plan map[int]func(actual int)) {
	d.mu.Lock()
	d.plan = plan
	d.mu.Unlock()
}

// at is passed by every store operation; runs the planned action of point p once.
func (d *c19HookDB) at(p int) {
	if d.yield.Load() {
		runtime.Gosched()
		return
	}
	d.mu.Lock()
	if d.busy || len(d.plan) == 0 || d.plan[p] == nil {
		d.mu.Unlock()
		return
	}
	f := d.plan[p]
	delete(d.plan, p)
	d.busy = true
	d.mu.Unlock()
	defer func() {
		d.mu.Lock()
		d.busy = false
		d.mu.Unlock()
	}()
	f(p)
}

// flush runs what is still planned (scan points that this accept never reached):
// afterReturn == false: called when the accept's batch has been written, runs
// everything except the Release point; afterReturn == true: the accept returned.
func (d *c19HookDB) flush(afterReturn bool) {
	d.mu.Lock()
	if d.busy || len(d.plan) == 0 {
		d.mu.Unlock()
		return
	}
	var pts []int
	for p := range d.plan {
		if afterReturn || p != c19PtRelease {
			pts = append(pts, p)
		}
	}
	sort.Ints(pts)
	fs := make([]func(int), 0, len(pts))
	for _, p := range pts {
		fs = append(fs, d.plan[p])
		delete(d.plan, p)
	}
	d.busy = true
	d.mu.Unlock()
	defer func() {
		d.mu.Lock()
		d.busy = false
		d.mu.Unlock()
	}()
	actual := c19PtAfterWrite
	if afterReturn {
		actual = c19PtAfterReturn
	}
	for _, f := range fs {
		f(actual)
	}
}

func (d *c19HookDB) NewBatch() database.Batch {
	d.at(c19PtNewBatch)
	return &c19HookBatch{Batch: d.Database.NewBatch(), db: d}
}

func (d *c19HookDB) NewIteratorWithStartAndPrefix(start, prefix []byte) database.Iterator {
	d.at(c19PtBeforeIter)
	it := d.Database.NewIteratorWithStartAndPrefix(start, prefix)
	d.at(c19PtAfterIter)
	return &c19HookIter{Iterator: it, db: d}
}

type c19HookIter struct {
	database.Iterator
	db *c19HookDB
	n  int
}

func (it *c19HookIter) Next() bool {
	if it.n <= c19PtNextMax {
		it.db.at(c19PtNext0 + it.n)
	}
	it.n++
	return it.Iterator.Next()
}

func (it *c19HookIter) Release() {
	it.Iterator.Release()
	it.db.at(c19PtRelease)
}

type c19HookBatch struct {
	database.Batch
	db *c19HookDB
}

func (b *c19HookBatch) Write() error {
	b.db.at(c19PtBeforeWrite)
	err := b.Batch.Write()
	b.db.at(c19PtAfterWrite)
	b.db.flush(false)
	return err
}

func (b *c19HookBatch) Inner() database.Batch { return b }

// ---- session side ----

type c19InjFired struct {
	planned, actual int
	hs              []uint64
}

type c19InjRun struct {
	done  []uint64 // heights whose SaveHistorical returned nil, in execution order
	fired []c19InjFired
	err   string
}

type c19InterStats struct {
	accepts, pruningAccepts                                         int
	saves, savesInFlight, savesAfterReturn                          int
	atNewBatch, atBeforeIter, atAfterIter, atNext, atBeforeWrite    int
	atAfterWrite, atAfterWriteLate, atRelease                       int
	belowExpiry, atExpiry, aboveExpiry                              int
	survivedBelowWindow                                             int
	boundJudgedAfterInFlight                                        int
	hit                                                             bool // this history had an in-flight save at or below the expiry height of a pruning accept
	concCases, concAccepts, concSaves, concOverlaps, concBelowFinal int
	concSurvivors, concPostAccepts                                  int
}

// armInj plans the saves of op o on the hook store.
func (s *c19Sess) armInj(o c19Op) *c19InjRun {
	run := &c19InjRun{}
	plan := map[int]func(int){}
	for _, in := range o.Inj {
		in := in
		plan[in.At] = func(actual int) {
			for _, h := range in.Hs {
				err := s.ci.SaveHistorical(c19Make(s.c.Salt, h))
				s.st.hists++
				if err != nil {
					if run.err == "" {
						run.err = fmt.Sprintf("SaveHistorical(height %d) inside the in-flight UpdateLastAccepted(height %d) (planned store operation %d, executed at %d) failed: %v", h, o.H, in.At, actual, err)
					}
					continue
				}
				run.done = append(run.done, h)
			}
			run.fired = append(run.fired, c19InjFired{planned: in.At, actual: actual, hs: in.Hs})
		}
	}
	s.hook.arm(plan)
	return run
}

// noteInj: counters of what the monitor saw (after the model has been updated).
func (s *c19Sess) noteInj(o c19Op, run *c19InjRun) {
	is := &s.st.inter
	is.accepts++
	pruning := s.W > 0 && o.H > s.W
	if pruning {
		is.pruningAccepts++
	}
	for _, f := range run.fired {
		is.saves += len(f.hs)
		inflight := f.actual != c19PtAfterReturn
		if inflight {
			is.savesInFlight += len(f.hs)
		} else {
			is.savesAfterReturn += len(f.hs)
		}
		switch {
		case f.actual == c19PtAfterReturn:
		case f.actual != f.planned:
			is.atAfterWriteLate++
		case f.actual == c19PtNewBatch:
			is.atNewBatch++
		case f.actual == c19PtBeforeIter:
			is.atBeforeIter++
		case f.actual == c19PtAfterIter:
			is.atAfterIter++
		case f.actual == c19PtBeforeWrite:
			is.atBeforeWrite++
		case f.actual == c19PtAfterWrite:
			is.atAfterWrite++
		case f.actual == c19PtRelease:
			is.atRelease++
		default:
			is.atNext++
		}
		if !pruning {
			continue
		}
		e := o.H - s.W
		for _, h := range f.hs {
			switch {
			case h < e:
				is.belowExpiry++
			case h == e:
				is.atExpiry++
			default:
				is.aboveExpiry++
			}
			if h <= e && inflight {
				is.hit = true
				s.pendingBound = true
				if _, err := s.ci.GetBlockIDAtHeight(s.ctx, h); err == nil {
					is.survivedBelowWindow++
				}
			}
		}
	}
}

// genC19Inj: one or two injection points of the accept of height H (window W),
// each with 1..4 heights below H: a top-down run across the expiry height (what
// the syncer does), a run entirely below it, heights around it, or a top-down
// run below the contiguous stored run.
func genC19Inj(rng c19Rng, W, H uint64, stored map[uint64]bool) []c19Inj {
	if H < 2 {
		return nil
	}
	npts := 1
	if rng.IntN(5) == 0 {
		npts = 2
	}
	used := map[int]bool{}
	var out []c19Inj
	for len(out) < npts {
		at := rng.IntN(c19PtNext0 + c19PtNextMax + 1)
		if used[at] {
			continue
		}
		used[at] = true
		k := 1 + rng.IntN(4)
		var hs []uint64
		add := func(h int64) {
			if h >= 1 && uint64(h) < H {
				hs = append(hs, uint64(h))
				stored[uint64(h)] = true
			}
		}
		mode := rng.IntN(4)
		if !(W > 0 && H > W) {
			mode = 3
		}
		e := int64(H) - int64(W)
		switch mode {
		case 0:
			start := e + int64(rng.IntN(3))
			for j := 0; j < k; j++ {
				add(start - int64(j))
			}
		case 1:
			start := e - 1 - int64(rng.IntN(4))
			for j := 0; j < k; j++ {
				add(start - int64(j))
			}
		case 2:
			for j := 0; j < k; j++ {
				add(e - 3 + int64(rng.IntN(7)))
			}
		default:
			lo := H
			for lo > 1 && stored[lo-1] {
				lo--
			}
			for j := 0; j < k; j++ {
				add(int64(lo) - 1 - int64(j))
			}
		}
		if len(hs) == 0 {
			add(int64(H) - 1)
		}
		out = append(out, c19Inj{At: at, Hs: hs})
	}
	return out
}

// ---- genuinely concurrent part ----
//
// After a sequential prefix goroutine A accepts the next heights one after the
// other while goroutine B saves historical blocks top-down, as the syncer does.
// Nothing is judged while they run. At quiescence the model is brought up to
// date (all accepts, then all saves) and compared without the bound; then Post
// further accepts run alone, each judged with the bound.

type c19ConcCase struct {
	Backend  string  `json:"backend"`
	Salt     uint64  `json:"salt"`
	Window   uint64  `json:"window"`
	Freq     uint64  `json:"compactionFrequency"`
	Pre      []c19Op `json:"pre"`
	Accepts  int     `json:"concurrentAccepts"`
	HistFrom uint64  `json:"histFrom"`
	HistN    int     `json:"histCount"`
	Post     int     `json:"postAccepts"`
}

func (c c19ConcCase) shape() string {
	return fmt.Sprintf("conc/%s|A%d|H%d-%d|P%d", c19Case{Backend: c.Backend, Window: c.Window, Ops: c.Pre}.shape(), c.Accepts, c.HistFrom, c.HistN, c.Post)
}

func genC19Conc(rng c19Rng, backend string) c19ConcCase {
	ws := []uint64{1, 2, 3, 5, 8, 0}
	c := c19ConcCase{Backend: backend, Salt: rng.Uint64(), Window: ws[rng.IntN(len(ws))], Freq: []uint64{1, 4, 32}[rng.IntN(3)]}
	if backend == "pebble" {
		c.Freq = 1 << 40
	}
	W := c.Window
	c.Pre = append(c.Pre, c19Op{Kind: "accept", H: 0})
	var L uint64
	for j := rng.IntN(4); j > 0; j-- {
		L++
		c.Pre = append(c.Pre, c19Op{Kind: "accept", H: L})
	}
	// state sync target after a gap (or a chain accepted from genesis)
	if rng.IntN(5) > 0 {
		L += uint64(2*int(W) + 10 + rng.IntN(200))
		c.Pre = append(c.Pre, c19Op{Kind: "accept", H: L})
	} else {
		for j := int(W) + 3 + rng.IntN(10); j > 0; j-- {
			L++
			c.Pre = append(c.Pre, c19Op{Kind: "accept", H: L})
		}
	}
	// the syncer has already saved some blocks below the target
	lo := L
	for j := rng.IntN(int(W) + 2); j > 0 && lo > 1; j-- {
		lo--
		c.Pre = append(c.Pre, c19Op{Kind: "hist", H: lo})
	}
	c.Accepts = 2 + rng.IntN(2*int(W)+6)
	c.HistFrom = lo - 1
	c.HistN = 1 + rng.IntN(2*int(W)+8)
	c.Post = 1 + rng.IntN(int(W)+2)
	return c
}

// c19ConcNontrivial: pruning of a concurrently saved block is at stake.
func c19ConcNontrivial(c c19ConcCase) bool {
	if c.Window == 0 || c.HistFrom == 0 {
		return false
	}
	var L uint64
	for _, o := range c.Pre {
		if o.Kind == "accept" {
			L = o.H
		}
	}
	final := L + uint64(c.Accepts)
	lowest := int64(c.HistFrom) - int64(c.HistN) + 1
	if lowest < 1 {
		lowest = 1
	}
	return final > c.Window && uint64(lowest) <= final-c.Window
}

func runC19Conc(c c19ConcCase, st *c19Stats) (string, string) {
	var db database.Database
	if c.Backend == "pebble" {
		dir, err := os.MkdirTemp("", "verif-c19c-*")
		if err != nil {
			return "harness", err.Error()
		}
		defer os.RemoveAll(dir)
		p, err := pebble.New(dir, pebble.NewDefaultConfig(), prometheus.NewRegistry())
		if err != nil {
			return "harness", "open db: " + err.Error()
		}
		db = &c19DB{Database: p}
	} else {
		db = &c19DB{Database: memdb.New()}
	}
	hook := &c19HookDB{Database: db}
	s := newC19Sess(c19Case{Backend: c.Backend, Salt: c.Salt, Window: c.Window, Freq: c.Freq, Ops: c.Pre}, st, hook)
	s.hook = hook
	defer func() { _ = s.db.Close() }()
	if err := s.open(c.Window); err != nil {
		return "C19/open-error", "New on an empty database: " + err.Error()
	}
	for i, o := range c.Pre {
		if k, d := s.step(i, o, true); d != "" {
			return k, d
		}
	}
	is := &st.inter
	is.concCases++

	var (
		epoch            atomic.Uint64 // odd while an UpdateLastAccepted is in flight
		overlaps         atomic.Int64
		start            = make(chan struct{})
		wg               sync.WaitGroup
		accErr, histErr  string
		accDone, hstDone []uint64
	)
	hook.yield.Store(true)
	wg.Add(2)
	go func() { // consensus thread
		defer wg.Done()
		defer func() {
			if p := recover(); p != nil && accErr == "" {
				accErr = fmt.Sprintf("UpdateLastAccepted panicked: %v", p)
			}
		}()
		<-start
		for i := 1; i <= c.Accepts; i++ {
			h := s.L + uint64(i)
			epoch.Add(1)
			err := s.ci.UpdateLastAccepted(s.ctx, c19Make(c.Salt, h))
			epoch.Add(1)
			if err != nil {
				accErr = fmt.Sprintf("UpdateLastAccepted(height %d) with window %d, running concurrently with SaveHistorical, failed on a healthy database: %v", h, c.Window, err)
				return
			}
			accDone = append(accDone, h)
		}
	}()
	go func() { // syncer goroutine
		defer wg.Done()
		defer func() {
			if p := recover(); p != nil && histErr == "" {
				histErr = fmt.Sprintf("SaveHistorical panicked: %v", p)
			}
		}()
		<-start
		for j := 0; j < c.HistN; j++ {
			if uint64(j) >= c.HistFrom {
				return
			}
			h := c.HistFrom - uint64(j)
			before := epoch.Load()
			err := s.ci.SaveHistorical(c19Make(c.Salt, h))
			if after := epoch.Load(); before%2 == 1 || after != before {
				overlaps.Add(1)
			}
			if err != nil {
				histErr = fmt.Sprintf("SaveHistorical(height %d), running concurrently with UpdateLastAccepted, failed: %v", h, err)
				return
			}
			hstDone = append(hstDone, h)
		}
	}()
	close(start)
	wg.Wait()
	hook.yield.Store(false)

	st.accepts += len(accDone)
	st.hists += len(hstDone)
	is.concAccepts += len(accDone)
	is.concSaves += len(hstDone)
	is.concOverlaps += int(overlaps.Load())
	if accErr != "" {
		return "C19/accept-error", accErr
	}
	if histErr != "" {
		return "C19/save-historical-error", histErr
	}
	for _, h := range accDone {
		s.commitAccept(h)
	}
	for _, h := range hstDone {
		s.commitHist(h)
		if s.W > 0 && s.L > s.W && h <= s.L-s.W {
			is.concBelowFinal++
			if _, err := s.ci.GetBlockIDAtHeight(s.ctx, h); err == nil {
				is.concSurvivors++
			}
		}
	}
	if k, d := s.check("at quiescence after the concurrent phase", false); d != "" {
		return k, d
	}
	for j := 0; j < c.Post; j++ {
		is.concPostAccepts++
		if k, d := s.step(len(c.Pre)+j, c19Op{Kind: "accept", H: s.L + 1}, true); d != "" {
			return k, fmt.Sprintf("%s (accept %d of %d that run alone after the concurrent phase)", d, j+1, c.Post)
		}
	}
	return "", ""
}
