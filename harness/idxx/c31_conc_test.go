package idxx

import (
	"bytes"
	"context"
	"encoding/json"
	"fmt"
	"math/rand/v2"
	"os"
	"runtime"
	"sync"
	"sync/atomic"
	"time"

	"github.com/ava-labs/hypersdk/chain"
	"github.com/ava-labs/hypersdk/zzverif/kit"
)

// Concurrent part of C31: in a node the JSON-RPC readers of the indexer run
// concurrently with the accepted-block notifications. One notifier goroutine
// delivers accepted blocks while K readers query the indexer; every read is
// bracketed with one logical clock shared with the notifier and judged, after
// all goroutines were joined, against every state the indexer can have had
// between the call and the return of the read.

// c31ConcPlan is everything the PRNG decides about one concurrent run.
type c31ConcPlan struct {
	Conc    bool     `json:"conc"` // marks the witness for the replay
	Window  uint64   `json:"window"`
	Heights []uint64 `json:"heights"` // notified heights, strictly increasing
	Readers int      `json:"readers"`
	Burst   int      `json:"burst"` // reads per reader and epoch (epoch e = the reads released by the announcement of notification e-1)
	Lag     int      `json:"lag"`   // notification k is delivered once every reader has begun epoch k-lag
	Seed    uint64   `json:"seed"`  // seeds the readers' and the notifier's streams
}

const (
	c31kLatest = iota
	c31kHeight
	c31kID
	c31kTx
)

var c31KindName = [...]string{"GetLatestBlock", "GetBlockByHeight", "GetBlock", "GetTransaction"}

// c31Read is one recorded read. lo/hi are indices into Plan.Heights (-1 = none):
// lo = highest index whose Notify had returned before the read was called,
// hi = highest index whose Notify had been announced (just before being called) when the read had returned.
type c31Read struct {
	kind   uint8
	txi    int8
	ok     bool // block returned / transaction found
	lo, hi int32
	h      uint64 // target height (the height whose block id / tx id was asked for)
	blk    *chain.ExecutedBlock
	tx     *chain.Transaction
	ts     int64
	res    *chain.Result
	err    error
}

type c31ReadWitness struct {
	Plan   c31ConcPlan `json:"plan"`
	Reader int         `json:"reader"`
	Seq    int         `json:"read_no"`
	Call   string      `json:"call"`
	Height uint64      `json:"target_height"`
	TxIdx  int         `json:"tx_index,omitempty"`
	Lo     int         `json:"notify_returned_before_call_idx"`
	Hi     int         `json:"notify_called_before_return_idx"`
	LoH    int64       `json:"lo_height"`
	HiH    int64       `json:"hi_height"`
	Ok     bool        `json:"answered"`
	GotH   int64       `json:"answered_height"`
	Err    string      `json:"err,omitempty"`
	Conc   bool        `json:"conc"`
	// OwnFloor: the lower bound is an earlier answer to the same reader, not the notifier's clock
	OwnFloor bool `json:"lower_bound_from_readers_own_earlier_answer,omitempty"`
}

type c31ConcStats struct {
	runs, notifies, gaps, reads, overlapping, beforeFirst              int
	latestOK, latestAdvancedInside, mustServe, mustFail, eitherAllowed int
	eitherServed, eitherAbsent, txMatched, floorTightened              int
	perKind                                                            [4]int
}

func (s *c31ConcStats) add(o *c31ConcStats) {
	s.runs += o.runs
	s.notifies += o.notifies
	s.gaps += o.gaps
	s.reads += o.reads
	s.overlapping += o.overlapping
	s.beforeFirst += o.beforeFirst
	s.latestOK += o.latestOK
	s.latestAdvancedInside += o.latestAdvancedInside
	s.mustServe += o.mustServe
	s.mustFail += o.mustFail
	s.eitherAllowed += o.eitherAllowed
	s.eitherServed += o.eitherServed
	s.eitherAbsent += o.eitherAbsent
	s.txMatched += o.txMatched
	s.floorTightened += o.floorTightened
	for i := range s.perKind {
		s.perKind[i] += o.perKind[i]
	}
}

type c31PaddedInt struct {
	v atomic.Int64
	_ [56]byte
}

func genC31Conc(rng *rand.Rand, maxN int) c31ConcPlan {
	p := c31ConcPlan{Conc: true}
	// window 1 is where a read that is not one critical section loses its block with a single accept
	p.Window = []uint64{1, 1, 1, 2, 2, 3}[rng.IntN(6)]
	n := maxN/2 + rng.IntN(maxN/2+1)
	h := uint64(rng.IntN(4))
	if rng.IntN(2) == 0 {
		h = 0
	}
	pGap := []int{0, 4, 10}[rng.IntN(3)]
	for len(p.Heights) < n && h+8 < c31ChainLen {
		p.Heights = append(p.Heights, h)
		if rng.IntN(100) < pGap {
			h += 2 + uint64(rng.IntN(int(p.Window)+2))
		} else {
			h++
		}
	}
	p.Readers = 2 + rng.IntN(5)
	p.Burst = []int{8, 16, 32, 64}[rng.IntN(4)]
	p.Lag = rng.IntN(3)
	p.Seed = rng.Uint64()
	return p
}

// c31Spin is a short busy loop (schedule widening without leaving the processor).
//
//go:noinline
func c31Spin(n int) int {
	x := 0
	for i := 0; i < n; i++ {
		x += i ^ (x >> 3)
	}
	return x
}

var c31SpinSink atomic.Int64

// runC31Conc executes one concurrent run and judges it. It returns a violation
// key ("" = none, "harness"/"inconclusive" as in runC31), a description and the witness.
func runC31Conc(p c31ConcPlan, st *c31ConcStats) (string, string, any) {
	dir, err := os.MkdirTemp("", "verif-c31c-*")
	if err != nil {
		return "harness", err.Error(), p
	}
	defer os.RemoveAll(dir)
	ix, err := c31Open(dir, p.Window)
	if err != nil {
		return "C31/open-error", "NewIndexer on an empty directory: " + err.Error(), p
	}
	closeIx := true
	defer func() {
		if closeIx {
			_ = ix.Close()
		}
	}()
	N := len(p.Heights)
	if N == 0 || p.Readers <= 0 || p.Burst <= 0 {
		return "harness", "empty plan", p
	}
	idxOf := make(map[uint64]int, N)
	for i, h := range p.Heights {
		if h+2 > c31ChainLen || (i > 0 && h <= p.Heights[i-1]) {
			return "harness", "bad plan heights", p
		}
		idxOf[h] = i
	}

	var (
		called, returned atomic.Int64 // indices into p.Heights: the one logical clock of the run
		abort            atomic.Bool
		epochs           = make([]c31PaddedInt, p.Readers)
		events           = make([][]c31Read, p.Readers)
		panics           = make([]string, p.Readers)
		notifyErr        error
		notifyErrAt      = -1
		notifyPanic      string
		wg               sync.WaitGroup
	)
	called.Store(-1)
	returned.Store(-1)
	for i := range epochs {
		epochs[i].v.Store(-1)
	}
	ctx := context.Background()
	nEpochs := N + 1

	// notifier
	wg.Add(1)
	go func() {
		defer wg.Done()
		defer func() {
			if x := recover(); x != nil {
				notifyPanic = fmt.Sprint(x)
				abort.Store(true)
			}
		}()
		rng := rand.New(rand.NewPCG(p.Seed, 0))
		for k := 0; k < N; k++ {
			for !abort.Load() {
				m := int64(1 << 40)
				for i := range epochs {
					if v := epochs[i].v.Load(); v < m {
						m = v
					}
				}
				if m >= int64(k-p.Lag) {
					break
				}
				runtime.Gosched()
			}
			if abort.Load() {
				return
			}
			blk := c31Chain[p.Heights[k]].eb
			called.Store(int64(k)) // announced before the call: releases the readers' next burst
			switch rng.IntN(4) {
			case 0:
				c31SpinSink.Add(int64(c31Spin(rng.IntN(400))))
			case 1:
				runtime.Gosched()
			}
			if err := ix.Notify(ctx, blk); err != nil {
				notifyErr, notifyErrAt = err, k
				abort.Store(true)
				return
			}
			returned.Store(int64(k))
		}
	}()

	// readers
	for ri := 0; ri < p.Readers; ri++ {
		events[ri] = make([]c31Read, 0, nEpochs*p.Burst)
		wg.Add(1)
		go func(ri int) {
			defer wg.Done()
			defer func() {
				if x := recover(); x != nil {
					panics[ri] = fmt.Sprint(x)
					abort.Store(true)
				}
				epochs[ri].v.Store(1 << 40) // never hold the notifier back once gone
			}()
			rng := rand.New(rand.NewPCG(p.Seed, uint64(ri)+1))
			evs := events[ri]
			defer func() { events[ri] = evs }()
			for e := 0; e < nEpochs; e++ {
				// epoch e is released by the announcement of notification e-1 (its reads then run
				// into that Notify), in one of four epochs only by its return (reads between two
				// notifications: one possible state, so the answer is fully determined)
				gate := &called
				if rng.IntN(4) == 0 {
					gate = &returned
				}
				for gate.Load() < int64(e-1) {
					if abort.Load() {
						return
					}
					runtime.Gosched()
				}
				epochs[ri].v.Store(int64(e))
				for b := 0; b < p.Burst; b++ {
					ev := c31Read{txi: -1}
					// target: a height around the one being delivered (window edge, latest, not yet accepted, never accepted)
					t := e - 1 + 2 - rng.IntN(int(p.Window)+5)
					if t < 0 {
						t = 0
					}
					if t >= N {
						t = N - 1
					}
					ev.h = p.Heights[t]
					if rng.IntN(12) == 0 {
						ev.h++ // mostly the next notified height, a never notified one inside a gap
					}
					cb := c31Chain[ev.h]
					switch x := rng.IntN(20); {
					case x < 8:
						ev.kind = c31kLatest
					case x < 13:
						ev.kind = c31kHeight
					case x < 16 || len(cb.txs) == 0:
						ev.kind = c31kID
					default:
						ev.kind = c31kTx
						ev.txi = int8(rng.IntN(len(cb.txs)))
					}
					switch rng.IntN(16) {
					case 0:
						runtime.Gosched()
					case 1, 2:
						c31SpinSink.Add(int64(c31Spin(rng.IntN(200))))
					}
					ev.lo = int32(returned.Load())
					switch ev.kind {
					case c31kLatest:
						ev.blk, ev.err = ix.GetLatestBlock()
						ev.ok = ev.err == nil
					case c31kHeight:
						ev.blk, ev.err = ix.GetBlockByHeight(ev.h)
						ev.ok = ev.err == nil
					case c31kID:
						ev.blk, ev.err = ix.GetBlock(cb.eb.Block.GetID())
						ev.ok = ev.err == nil
					case c31kTx:
						ev.ok, ev.tx, ev.ts, ev.res, ev.err = ix.GetTransaction(cb.txs[ev.txi])
					}
					ev.hi = int32(called.Load())
					evs = append(evs, ev)
				}
			}
		}(ri)
	}

	res, stacks := kit.AwaitOrDeadlock(kit.Go(wg.Wait), []string{"hypersdk/api/indexer"}, 20*time.Second, 120*time.Second)
	if res != kit.Returned {
		abort.Store(true)
		closeIx = false // goroutines may still sit inside the indexer
		if res == kit.Deadlock {
			return "C31/concurrent/deadlock", "notifier and readers are parked inside the indexer:\n" + stacks, p
		}
		return "inconclusive", "watchdog: concurrent run did not finish", p
	}
	// ---- everything below runs after the join: the recorded events are owned by this goroutine ----
	if notifyPanic != "" {
		return "panic/indexer-notify", "panic in Notify during the concurrent run: " + notifyPanic, p
	}
	for ri, s := range panics {
		if s != "" {
			return "panic/indexer-read", fmt.Sprintf("panic in a read of reader %d during the concurrent run: %s", ri, s), p
		}
	}
	if notifyErr != nil {
		return "C31/notify-error", fmt.Sprintf("Notify(height %d) failed during the concurrent run: %v", p.Heights[notifyErrAt], notifyErr), p
	}
	st.runs++
	st.notifies += N
	for i := 1; i < N; i++ {
		if p.Heights[i] != p.Heights[i-1]+1 {
			st.gaps++
		}
	}
	W := p.Window
	// present(j,h): does the state after notifications 0..j serve height h?
	present := func(j int, h uint64) bool {
		if j < 0 {
			return false
		}
		i, ok := idxOf[h]
		return ok && i <= j && h+W > p.Heights[j]
	}
	sameBlock := func(got *chain.ExecutedBlock, h uint64) (bool, error) {
		if got == c31Chain[h].eb {
			return true, nil
		}
		b, err := got.Marshal()
		if err != nil {
			return false, err
		}
		return bytes.Equal(b, c31Chain[h].bytes), nil
	}
	hOf := func(i int32) int64 {
		if i < 0 {
			return -1
		}
		return int64(p.Heights[i])
	}
	for ri := range events {
		// floor: the newest notification this reader has already been shown by an earlier
		// answer of its own (a served block of index g proves the indexer had taken in
		// notification g). The reads of one reader follow each other and accepted blocks
		// are never taken back, so every later read of this reader starts from there.
		floor := -1
		for seq := range events[ri] {
			ev := &events[ri][seq]
			st.reads++
			st.perKind[ev.kind]++
			if ev.hi > ev.lo {
				st.overlapping++
			}
			lo, hi := int(ev.lo), int(ev.hi)
			fromOwn := ""
			if floor > lo {
				lo = floor
				fromOwn = fmt.Sprintf("; an earlier answer to this reader already showed height %d", p.Heights[floor])
				st.floorTightened++
			}
			if ev.ok {
				g, known := -1, false
				if ev.kind == c31kLatest {
					if ev.blk != nil {
						g, known = func() (int, bool) { i, ok := idxOf[ev.blk.Block.Hght]; return i, ok }()
					}
				} else {
					g, known = func() (int, bool) { i, ok := idxOf[ev.h]; return i, ok }()
				}
				if known && g > floor {
					floor = g // for the following reads (this one is judged with the old floor)
				}
			}
			if hi < lo || hi >= N {
				return "harness", fmt.Sprintf("bracket [%d,%d] out of order", lo, hi), p
			}
			wit := c31ReadWitness{Plan: p, Conc: true, Reader: ri, Seq: seq, Call: c31KindName[ev.kind], Height: ev.h, TxIdx: int(ev.txi), Lo: lo, Hi: hi, LoH: hOf(int32(lo)), HiH: hOf(ev.hi), Ok: ev.ok, GotH: -1, OwnFloor: fromOwn != ""}
			if ev.err != nil {
				wit.Err = ev.err.Error()
			}
			if ev.blk != nil {
				wit.GotH = int64(ev.blk.Block.Hght)
			}
			where := fmt.Sprintf("reader %d read %d %s (window %d; Notify had returned up to height %d before the call, had been called up to height %d at the return%s)", ri, seq, c31KindName[ev.kind], W, hOf(ev.lo), wit.HiH, fromOwn)
			if ev.kind == c31kLatest {
				if !ev.ok {
					if lo >= 0 {
						return "C31/concurrent/latest-missing", fmt.Sprintf("%s: GetLatestBlock failed (%v) although an accepted block existed during the whole call", where, ev.err), wit
					}
					st.beforeFirst++
					continue
				}
				if ev.blk == nil {
					return "C31/concurrent/latest-nil", where + ": GetLatestBlock returned neither a block nor an error", wit
				}
				g := ev.blk.Block.Hght
				gi, known := idxOf[g]
				switch {
				case hi < 0 || !known || gi > hi:
					return "C31/concurrent/latest-never-accepted", fmt.Sprintf("%s: GetLatestBlock returned height %d whose notification had not begun", where, g), wit
				case gi < lo:
					return "C31/concurrent/latest-stale", fmt.Sprintf("%s: GetLatestBlock returned height %d although the notification of a higher block had completed before the call", where, g), wit
				}
				same, merr := sameBlock(ev.blk, g)
				if merr != nil {
					return "harness", "marshal: " + merr.Error(), p
				}
				if !same {
					return "C31/concurrent/wrong-block-served", fmt.Sprintf("%s: the block returned for height %d is not the accepted one", where, g), wit
				}
				st.latestOK++
				if gi > lo {
					st.latestAdvancedInside++
				}
				continue
			}
			// reads of one height: can / must the answer exist under the states lo..hi?
			some, all := false, true
			for j := lo; j <= hi; j++ {
				if present(j, ev.h) {
					some = true
				} else {
					all = false
				}
			}
			if ev.kind == c31kTx && ev.err != nil {
				return "C31/concurrent/tx-error", fmt.Sprintf("%s: GetTransaction(tx %d of height %d) failed: %v", where, ev.txi, ev.h, ev.err), wit
			}
			what := "block"
			if ev.kind == c31kTx {
				what = "tx"
			}
			if ev.ok {
				if !some {
					i, known := idxOf[ev.h]
					switch {
					case !known || i > hi:
						return "C31/concurrent/never-accepted-" + what + "-served", fmt.Sprintf("%s: height %d is answered although its notification had not begun (or never happens)", where, ev.h), wit
					default:
						return "C31/concurrent/stale-" + what + "-served", fmt.Sprintf("%s: height %d is answered although it was older than the window during the whole call", where, ev.h), wit
					}
				}
				if ev.kind == c31kTx {
					cb := c31Chain[ev.h]
					if ev.tx == nil || ev.res == nil || ev.tx.GetID() != cb.txs[ev.txi] || ev.ts != cb.eb.Block.Tmstmp || !bytes.Equal(ev.res.Marshal(), cb.res[ev.txi]) {
						return "C31/concurrent/wrong-tx-answer", fmt.Sprintf("%s: tx %d of height %d: transaction, timestamp or result differ from the accepted ones", where, ev.txi, ev.h), wit
					}
					st.txMatched++
				} else {
					if ev.blk == nil {
						return "C31/concurrent/block-nil", where + ": neither a block nor an error", wit
					}
					if ev.blk.Block.Hght != ev.h {
						return "C31/concurrent/wrong-block-served", fmt.Sprintf("%s: asked for height %d, got height %d", where, ev.h, ev.blk.Block.Hght), wit
					}
					same, merr := sameBlock(ev.blk, ev.h)
					if merr != nil {
						return "harness", "marshal: " + merr.Error(), p
					}
					if !same {
						return "C31/concurrent/wrong-block-served", fmt.Sprintf("%s: the block returned for height %d is not the accepted one", where, ev.h), wit
					}
				}
				if all {
					st.mustServe++
				} else {
					st.eitherAllowed++
					st.eitherServed++
				}
				continue
			}
			if all {
				return "C31/concurrent/window-" + what + "-missing", fmt.Sprintf("%s: height %d was accepted and inside the window during the whole call but is not answered (%v)", where, ev.h, ev.err), wit
			}
			if some {
				st.eitherAllowed++
				st.eitherAbsent++
			} else {
				st.mustFail++
			}
		}
	}
	// quiescent end state: the sequential oracle on the complete answer vector, also across a clean restart
	var (
		seq      c31Stats
		notified = map[uint64]bool{}
		gap      bool
	)
	for i, h := range p.Heights {
		notified[h] = true
		gap = gap || (i > 0 && h != p.Heights[i-1]+1)
	}
	H := p.Heights[N-1]
	maxH := H + 2
	a, herr := c31Observe(ix, maxH, &seq)
	if herr != "" {
		return "harness", herr, p
	}
	if k, d := c31Judge(a, notified, true, H, W, maxH, gap, "after the concurrent run", &seq); d != "" {
		return k, d, p
	}
	closeIx = false
	if err := ix.Close(); err != nil {
		return "C31/close-error", "Close failed: " + err.Error(), p
	}
	ix2, err := c31Open(dir, W)
	if err != nil {
		return "C31/reopen-error", "NewIndexer over the existing directory failed: " + err.Error(), p
	}
	defer ix2.Close()
	a2, herr := c31Observe(ix2, maxH, &seq)
	if herr != "" {
		return "harness", herr, p
	}
	if d := c31Diff(a, a2, maxH); d != "" {
		return "C31/reopen-changes-answers", "restart after the concurrent run: an answer changed: " + d, p
	}
	return "", "", nil
}

func (p c31ConcPlan) shape() string {
	return fmt.Sprintf("conc:w%d:n%d:r%d:b%d:l%d:%x:%v", p.Window, len(p.Heights), p.Readers, p.Burst, p.Lag, p.Seed, p.Heights)
}

// c31ConcReplay reruns the plan of a concurrent witness (the schedule is not
// reproducible, so the plan is repeated a fixed number of times).
func c31ConcReplay(r *kit.Run, raw json.RawMessage) bool {
	var w struct {
		Conc bool         `json:"conc"`
		Plan *c31ConcPlan `json:"plan"`
	}
	if json.Unmarshal(raw, &w) != nil || !w.Conc {
		return false
	}
	var p c31ConcPlan
	if w.Plan != nil {
		p = *w.Plan
	} else if json.Unmarshal(raw, &p) != nil {
		return false
	}
	st := &c31ConcStats{}
	for i := 0; i < 40; i++ {
		r.Eval()
		if c31ConcJudge(r, p, st) {
			break
		}
	}
	c31ConcCount(r, st)
	return true
}

// c31ConcJudge runs one plan and reports; true = a violation was reported.
func c31ConcJudge(r *kit.Run, p c31ConcPlan, st *c31ConcStats) bool {
	var (
		key, d string
		wit    any
		local  c31ConcStats
	)
	r.Guard("indexer-concurrent", p, func() { key, d, wit = runC31Conc(p, &local) })
	switch {
	case key == "harness":
		r.Inconclusive("harness problem (concurrent part): %s", d)
		return false
	case key == "inconclusive":
		r.Inconclusive("%s", d)
		return false
	case key != "":
		r.Violation(key, wit, "%s", d)
		return true
	}
	st.add(&local)
	if local.overlapping > 0 && uint64(len(p.Heights)) > p.Window {
		r.Distinct(p.shape())
	}
	return false
}

func c31ConcCount(r *kit.Run, st *c31ConcStats) {
	r.Count("conc_runs", st.runs)
	r.Count("conc_notifications", st.notifies)
	r.Count("conc_notifications_after_gap", st.gaps)
	r.Count("conc_reads", st.reads)
	r.Count("conc_reads_overlapping_a_notify", st.overlapping)
	r.Count("conc_reads_GetLatestBlock", st.perKind[c31kLatest])
	r.Count("conc_reads_GetBlockByHeight", st.perKind[c31kHeight])
	r.Count("conc_reads_GetBlock", st.perKind[c31kID])
	r.Count("conc_reads_GetTransaction", st.perKind[c31kTx])
	r.Count("conc_latest_before_first_accept_absent", st.beforeFirst)
	r.Count("conc_latest_inside_bracket_and_matched", st.latestOK)
	r.Count("conc_latest_newer_than_lower_bound", st.latestAdvancedInside)
	r.Count("conc_must_be_served_and_matched", st.mustServe)
	r.Count("conc_must_be_absent_confirmed", st.mustFail)
	r.Count("conc_either_answer_allowed", st.eitherAllowed)
	r.Count("conc_either_allowed_served", st.eitherServed)
	r.Count("conc_either_allowed_absent", st.eitherAbsent)
	r.Count("conc_txs_matched", st.txMatched)
	r.Count("conc_lower_bound_raised_by_readers_own_earlier_answer", st.floorTightened)
}

// c31Concurrent is the concurrent part of TestC31.
func c31Concurrent(r *kit.Run) {
	rng := r.Rand("concurrent")
	n := r.N(30, 400)
	plans := make([]c31ConcPlan, n)
	for i := range plans {
		plans[i] = genC31Conc(rng, r.N(120, 200))
	}
	st := &c31ConcStats{}
	var (
		mu sync.Mutex
		wg sync.WaitGroup
		ch = make(chan c31ConcPlan)
	)
	for w := 0; w < 3; w++ { // few runs at a time: every run keeps up to 7 goroutines busy
		wg.Add(1)
		go func() {
			defer wg.Done()
			for p := range ch {
				local := &c31ConcStats{}
				r.Eval()
				c31ConcJudge(r, p, local)
				mu.Lock()
				st.add(local)
				mu.Unlock()
			}
		}()
	}
	for i, p := range plans {
		if i < 2 {
			r.Sample(struct {
				Conc    bool   `json:"conc"`
				Window  uint64 `json:"window"`
				N       int    `json:"notifications"`
				Readers int    `json:"readers"`
				Burst   int    `json:"burst"`
				Lag     int    `json:"lag"`
			}{true, p.Window, len(p.Heights), p.Readers, p.Burst, p.Lag})
		}
		ch <- p
	}
	close(ch)
	wg.Wait()
	c31ConcCount(r, st)
}
