package idxx

import (
	"context"
	"crypto/sha256"
	"encoding/binary"
	"encoding/json"
	"errors"
	"fmt"
	"os"
	"sort"
	"strings"
	"sync"
	"testing"

	"github.com/ava-labs/avalanchego/database"
	"github.com/ava-labs/avalanchego/database/memdb"
	"github.com/ava-labs/avalanchego/ids"
	"github.com/ava-labs/avalanchego/utils/logging"
	"github.com/prometheus/client_golang/prometheus"

	"github.com/ava-labs/hypersdk/chainindex"
	"github.com/ava-labs/hypersdk/internal/pebble"
	"github.com/ava-labs/hypersdk/zzverif/kit"
)

// ---- blocks of the one accepted chain of a history: (salt, height) -> id ----

type c19Blk struct {
	h  uint64
	id ids.ID
}

func (b *c19Blk) GetID() ids.ID     { return b.id }
func (b *c19Blk) GetHeight() uint64 { return b.h }
func (b *c19Blk) GetBytes() []byte {
	out := binary.BigEndian.AppendUint64(nil, b.h)
	return append(out, b.id[:]...)
}

func c19Make(salt uint64, h uint64) *c19Blk {
	var buf [16]byte
	binary.BigEndian.PutUint64(buf[:8], salt)
	binary.BigEndian.PutUint64(buf[8:], h)
	return &c19Blk{h: h, id: sha256.Sum256(buf[:])}
}

type c19Parser struct{}

func (c19Parser) ParseBlock(_ context.Context, b []byte) (*c19Blk, error) {
	if len(b) != 8+ids.IDLen {
		return nil, fmt.Errorf("bad block length %d", len(b))
	}
	blk := &c19Blk{h: binary.BigEndian.Uint64(b)}
	copy(blk.id[:], b[8:])
	return blk, nil
}

// c19DB wraps a database so that the index's background Compact goroutines can
// be drained before the database is closed (pebble panics on Compact after
// Close; that would be a harness artefact, not an observation).
type c19DB struct {
	database.Database
	mu     sync.Mutex
	closed bool
	wg     sync.WaitGroup
}

func (d *c19DB) Compact(start, limit []byte) error {
	d.mu.Lock()
	if d.closed {
		d.mu.Unlock()
		return database.ErrClosed
	}
	d.wg.Add(1)
	d.mu.Unlock()
	defer d.wg.Done()
	return d.Database.Compact(start, limit)
}

func (d *c19DB) Close() error {
	d.mu.Lock()
	d.closed = true
	d.mu.Unlock()
	d.wg.Wait()
	return d.Database.Close()
}

// ---- histories ----

type c19Op struct {
	Kind string `json:"op"`          // accept | hist | reopen
	H    uint64 `json:"h,omitempty"` // height for accept / hist
	W    uint64 `json:"w,omitempty"` // window for reopen
	// Inj (accept only): SaveHistorical calls executed INSIDE the in-flight
	// UpdateLastAccepted, at the given store operations (c19_inter_test.go)
	Inj []c19Inj `json:"inj,omitempty"`
}

type c19Case struct {
	Backend string  `json:"backend"` // memdb | pebble
	Salt    uint64  `json:"salt"`
	Window  uint64  `json:"window"`
	Freq    uint64  `json:"compactionFrequency"`
	Ops     []c19Op `json:"ops"`
}

func (c c19Case) shape() string {
	var b strings.Builder
	fmt.Fprintf(&b, "%s/w%d:", c.Backend, c.Window)
	for _, o := range c.Ops {
		switch o.Kind {
		case "accept":
			fmt.Fprintf(&b, "a%d", o.H)
			for _, in := range o.Inj {
				fmt.Fprintf(&b, "[@%d:%v]", in.At, in.Hs)
			}
			b.WriteByte(',')
		case "hist":
			fmt.Fprintf(&b, "h%d,", o.H)
		default:
			fmt.Fprintf(&b, "r%d,", o.W)
		}
	}
	return b.String()
}

type c19Stats struct {
	accepts, gaps, hists, reopens, reopenDiff, probes, pruned, acceptsAfterGap int
	nontrivial                                                                 bool
	inter                                                                      c19InterStats
}

// c19Crashed is the pseudo key step returns when the (fault injecting) store
// stopped during the operation; see c19_crash_test.go.
const c19Crashed = "crashed"

// c19Sess is one real ChainIndex plus the model (sets of heights) driven side by side.
type c19Sess struct {
	c   c19Case
	st  *c19Stats
	ctx context.Context
	db  database.Database
	ci  *chainindex.ChainIndex[*c19Blk]
	// reopenStore closes and reopens the store itself before a "reopen" op (pebble); nil = keep it
	reopenStore func() error
	// crashed reports that the store "died" (write-level crash enumeration); nil = healthy store
	crashed func() bool
	// hook is the store wrapper that runs SaveHistorical calls inside an in-flight accept; nil = none
	hook *c19HookDB

	// model
	pendingBound bool // an in-flight save at or below the expiry height has not yet been followed by a plain accept
	W            uint64
	L            uint64
	accepted     bool
	ever         map[uint64]bool // heights ever written (or possibly written by an interrupted operation)
	must         map[uint64]bool // heights that have to be retrievable now
	sawGap       bool
}

func newC19Sess(c c19Case, st *c19Stats, db database.Database) *c19Sess {
	return &c19Sess{c: c, st: st, ctx: context.Background(), db: db, W: c.Window, ever: map[uint64]bool{}, must: map[uint64]bool{}}
}

// open creates a new ChainIndex over the session's store with window w.
func (s *c19Sess) open(w uint64) error {
	ci, err := chainindex.New[*c19Blk](s.ctx, logging.NoLog{}, prometheus.NewRegistry(),
		chainindex.Config{AcceptedBlockWindow: w, BlockCompactionFrequency: s.c.Freq}, c19Parser{}, s.db)
	if err != nil {
		return err
	}
	s.ci = ci
	return nil
}

func (s *c19Sess) isCrashed() bool { return s.crashed != nil && s.crashed() }

// prune: everything that is at or below L-W may be gone (never genesis)
func (s *c19Sess) prune() {
	if s.W == 0 || s.L <= s.W {
		return
	}
	for h := range s.must {
		if h != 0 && h <= s.L-s.W {
			delete(s.must, h)
		}
	}
}

// check compares all four lookups of every height ever written (and its
// neighbours) with the model.
func (s *c19Sess) check(when string, bound bool) (string, string) {
	ctx, ci, c, st := s.ctx, s.ci, s.c, s.st
	if s.accepted {
		got, err := ci.GetLastAcceptedHeight(ctx)
		if err != nil || got != s.L {
			return "C19/last-accepted-mismatch", fmt.Sprintf("%s: GetLastAcceptedHeight=(%d,%v) want %d", when, got, err, s.L)
		}
	}
	probe := map[uint64]bool{}
	for h := range s.ever {
		probe[h] = true
		probe[h+1] = true
		if h > 0 {
			probe[h-1] = true
		}
	}
	hs := make([]uint64, 0, len(probe))
	for h := range probe {
		hs = append(hs, h)
	}
	sort.Slice(hs, func(i, j int) bool { return hs[i] < hs[j] })
	retained := 0
	for _, h := range hs {
		st.probes++
		want := c19Make(c.Salt, h)
		blk, e1 := ci.GetBlockByHeight(ctx, h)
		id, e2 := ci.GetBlockIDAtHeight(ctx, h)
		hh, e3 := ci.GetBlockIDHeight(ctx, want.id)
		blk2, e4 := ci.GetBlock(ctx, want.id)
		for i, e := range []error{e1, e2, e3, e4} {
			if e != nil && !errors.Is(e, database.ErrNotFound) {
				return "C19/lookup-error", fmt.Sprintf("%s: lookup %d of height %d failed with %v", when, i, h, e)
			}
		}
		p1, p2, p3, p4 := e1 == nil, e2 == nil, e3 == nil, e4 == nil
		if p1 != p2 || p1 != p3 || p1 != p4 {
			return "C19/mapping-inconsistent", fmt.Sprintf("%s: height %d: byHeight=%v idAtHeight=%v idHeight=%v byID=%v", when, h, p1, p2, p3, p4)
		}
		if p1 {
			if !s.ever[h] {
				return "C19/phantom-block", fmt.Sprintf("%s: height %d was never stored but is served", when, h)
			}
			if blk.h != h || blk.id != want.id || id != want.id || hh != h || blk2.h != h || blk2.id != want.id {
				return "C19/mapping-inconsistent", fmt.Sprintf("%s: height %d: byHeight=(%d,%s) idAtHeight=%s idHeight=%d byID=(%d,%s) want id %s",
					when, h, blk.h, blk.id, id, hh, blk2.h, blk2.id, want.id)
			}
			// a block above the last accepted height can only be the write of an
			// interrupted accept (crash enumeration); it is not counted as retained
			if h != 0 && (!s.accepted || h <= s.L) {
				retained++
			}
		} else if s.must[h] {
			if h == 0 {
				return "C19/genesis-missing", fmt.Sprintf("%s: genesis is not retrievable", when)
			}
			return "C19/window-block-missing", fmt.Sprintf("%s: height %d (last accepted %d, window %d) is not retrievable", when, h, s.L, s.W)
		}
	}
	if bound && s.W > 0 && uint64(retained) > s.W+1 {
		return "C19/retention-bound-exceeded", fmt.Sprintf("%s: %d non-genesis blocks retained with window %d (last accepted %d)", when, retained, s.W, s.L)
	}
	return "", ""
}

// commitAccept / commitHist: the model's view of a completed operation.
func (s *c19Sess) commitAccept(h uint64) {
	s.L, s.accepted = h, true
	s.ever[h], s.must[h] = true, true
	s.prune()
}

func (s *c19Sess) commitHist(h uint64) {
	s.ever[h] = true
	if s.W == 0 || h == 0 || s.L <= s.W || h > s.L-s.W {
		s.must[h] = true
	}
}

// step executes op i on the real index and on the model and (doCheck) compares
// them. Returns violation key + detail of the first disagreement, or
// (c19Crashed, "") when the store died during the operation (the model is then
// still in the state before the operation).
func (s *c19Sess) step(i int, o c19Op, doCheck bool) (string, string) {
	ctx, st := s.ctx, s.st
	when := fmt.Sprintf("after op %d %s(%d)", i, o.Kind, o.H+o.W)
	switch o.Kind {
	case "accept":
		blk := c19Make(s.c.Salt, o.H)
		gap := s.accepted && o.H != s.L+1
		var inj *c19InjRun
		if len(o.Inj) > 0 {
			if s.hook == nil {
				return "harness", "history with in-flight historical saves run on a store without the hook wrapper"
			}
			inj = s.armInj(o)
		}
		err := s.ci.UpdateLastAccepted(ctx, blk)
		if s.isCrashed() {
			return c19Crashed, ""
		}
		if inj != nil {
			s.hook.flush(true) // injections whose store operation was never reached run now (= sequentially after the accept)
		}
		st.accepts++
		if gap {
			st.gaps++
			s.sawGap = true
		} else if s.sawGap {
			st.acceptsAfterGap++
		}
		if err != nil {
			if s.W > 0 && o.H > s.W && errors.Is(err, database.ErrNotFound) {
				if _, gerr := s.ci.GetBlockIDAtHeight(ctx, o.H-s.W); errors.Is(gerr, database.ErrNotFound) {
					return "C19/prune-target-missing", fmt.Sprintf("UpdateLastAccepted(height %d) with window %d failed: %v (height %d, the block it wants to prune, was never stored or is already gone)", o.H, s.W, err, o.H-s.W)
				}
			}
			return "C19/accept-error", fmt.Sprintf("UpdateLastAccepted(height %d) with window %d failed on a healthy database: %v", o.H, s.W, err)
		}
		if s.W > 0 && o.H > s.W {
			st.pruned++
		}
		s.commitAccept(o.H)
		if inj != nil {
			if inj.err != "" {
				return "C19/save-historical-error", inj.err
			}
			// every injected save completed before or shortly after the accept did:
			// what the model requires of it is what it requires of a save right after the accept
			for _, h := range inj.done {
				s.commitHist(h)
			}
			s.noteInj(o, inj)
		} else if s.pendingBound {
			st.inter.boundJudgedAfterInFlight++
			s.pendingBound = false
		}
		if doCheck {
			// a block saved below the window while the accept was in flight may survive
			// this accept; the bound is judged from the next accept without an overlap
			return s.check(when, inj == nil)
		}
	case "hist":
		blk := c19Make(s.c.Salt, o.H)
		err := s.ci.SaveHistorical(blk)
		if s.isCrashed() {
			return c19Crashed, ""
		}
		st.hists++
		if err != nil {
			return "C19/save-historical-error", fmt.Sprintf("SaveHistorical(height %d) failed: %v", o.H, err)
		}
		s.commitHist(o.H)
		if doCheck {
			return s.check(when, false)
		}
	case "reopen":
		if s.reopenStore != nil {
			if err := s.reopenStore(); err != nil {
				return "harness", err.Error()
			}
		}
		err := s.open(o.W)
		if s.isCrashed() {
			return c19Crashed, ""
		}
		st.reopens++
		if o.W != s.W {
			st.reopenDiff++
		}
		if err != nil {
			return "C19/reopen-error", fmt.Sprintf("New over the existing database with window %d failed: %v", o.W, err)
		}
		s.W = o.W
		s.pendingBound = false // the startup cleanup restores the bound by itself
		s.prune()
		if doCheck {
			return s.check(when, s.accepted)
		}
	}
	return "", ""
}

// runC19 drives the real ChainIndex and the model (sets of heights) side by
// side. Returns violation key + detail of the first disagreement.
func runC19(c c19Case, st *c19Stats) (string, string) {
	var dir string
	openStore := func() (database.Database, error) {
		if c.Backend == "pebble" {
			p, err := pebble.New(dir, pebble.NewDefaultConfig(), prometheus.NewRegistry())
			if err != nil {
				return nil, err
			}
			return &c19DB{Database: p}, nil
		}
		return &c19DB{Database: memdb.New()}, nil
	}
	if c.Backend == "pebble" {
		d, err := os.MkdirTemp("", "verif-c19-*")
		if err != nil {
			return "harness", err.Error()
		}
		dir = d
		defer os.RemoveAll(dir)
	}
	db, err := openStore()
	if err != nil {
		return "harness", "open db: " + err.Error()
	}
	hook := &c19HookDB{Database: db}
	s := newC19Sess(c, st, hook)
	s.hook = hook
	defer func() { _ = s.db.Close() }()
	if c.Backend == "pebble" {
		s.reopenStore = func() error {
			if err := s.db.Close(); err != nil {
				return fmt.Errorf("close: %w", err)
			}
			ndb, err := openStore()
			if err != nil {
				return fmt.Errorf("reopen db: %w", err)
			}
			hook = &c19HookDB{Database: ndb}
			s.db, s.hook = hook, hook
			return nil
		}
	}
	if err := s.open(c.Window); err != nil {
		return "C19/open-error", "New on an empty database: " + err.Error()
	}
	for i, o := range c.Ops {
		if k, d := s.step(i, o, true); d != "" {
			return k, d
		}
	}
	return "", ""
}

var c19Windows = []uint64{0, 1, 2, 3, 5, 8}

// genC19 generates one history. All heights accepted are strictly increasing
// (snowman accepts a chain); historical saves are below the last accepted one.
func genC19(rng c19Rng, backend string, maxOps int) c19Case {
	return genC19x(rng, backend, maxOps, false)
}

type c19Rng interface {
	IntN(int) int
	Uint64() uint64
}

// genC19x: inter = some accepts carry SaveHistorical calls that run while the
// accept is in flight. With inter == false no additional random numbers are drawn.
func genC19x(rng c19Rng, backend string, maxOps int, inter bool) c19Case {
	c := c19Case{Backend: backend, Salt: rng.Uint64(), Window: c19Windows[rng.IntN(len(c19Windows))]}
	switch rng.IntN(3) {
	case 0:
		c.Freq = 1
	case 1:
		c.Freq = 4
	default:
		c.Freq = 32
	}
	if backend == "pebble" {
		c.Freq = 1 << 40 // no background compaction races with Close on the real store
	}
	W := c.Window
	var L uint64
	stored := map[uint64]bool{}
	c.Ops = append(c.Ops, c19Op{Kind: "accept", H: 0}) // the VM always records genesis first
	stored[0] = true
	n := 3 + rng.IntN(maxOps)
	pGap := []int{0, 5, 15}[rng.IntN(3)]
	pHist := []int{0, 10, 25}[rng.IntN(3)]
	pReopen := []int{0, 5, 15}[rng.IntN(3)]
	pInter := 0
	if inter {
		pInter = []int{15, 35, 60}[rng.IntN(3)]
	}
	accept := func() {
		op := c19Op{Kind: "accept", H: L}
		if inter && rng.IntN(100) < pInter {
			op.Inj = genC19Inj(rng, W, L, stored)
		}
		c.Ops = append(c.Ops, op)
		stored[L] = true
	}
	for len(c.Ops) < n {
		x := rng.IntN(100)
		switch {
		case x < pGap:
			gap := uint64(2 + rng.IntN(4))
			switch rng.IntN(3) {
			case 0:
				gap = W + uint64(rng.IntN(3)) // around the window
				if gap < 2 {
					gap = 2
				}
			case 1:
				gap = uint64(10 + rng.IntN(300))
			}
			L += gap
			accept()
		case x < pGap+pHist && L > 1:
			// backfill run: descending from below the contiguous run that ends at L
			lo := L
			for lo > 0 && stored[lo-1] {
				lo--
			}
			k := 1 + rng.IntN(int(2*W)+4)
			if rng.IntN(4) == 0 { // or arbitrary older heights
				lo = 1 + uint64(rng.IntN(int(L)))
				k = 1 + rng.IntN(3)
			}
			for j := 0; j < k && lo > 0 && len(c.Ops) < n+8; j++ {
				lo--
				c.Ops = append(c.Ops, c19Op{Kind: "hist", H: lo})
				stored[lo] = true
			}
		case x < pGap+pHist+pReopen:
			w := W
			if rng.IntN(2) == 0 {
				w = c19Windows[rng.IntN(len(c19Windows))]
			}
			c.Ops = append(c.Ops, c19Op{Kind: "reopen", W: w})
			W = w
		default:
			L++
			accept()
		}
	}
	// always finish with a few consecutive accepts so that the consequences of
	// gaps / saves / reopen are observed by later accepts
	for j := 0; j < 1+rng.IntN(int(W)+3); j++ {
		L++
		c.Ops = append(c.Ops, c19Op{Kind: "accept", H: L})
	}
	return c
}

func c19Nontrivial(c c19Case) bool {
	// a gap, a historical save or a reopen with a different window, followed by an accept
	W := c.Window
	var last uint64
	trigger := false
	for i, o := range c.Ops {
		switch o.Kind {
		case "accept":
			if trigger {
				return true
			}
			if i > 0 && o.H != last+1 {
				trigger = true
			}
			last = o.H
		case "hist":
			trigger = true
		case "reopen":
			if o.W != W {
				trigger = true
			}
			W = o.W
		}
	}
	return false
}

func TestC19(t *testing.T) {
	r := kit.Start(t, "C19", "fault_enumeration")
	r.Rule("history = accept genesis, then a PRNG sequence of consecutive accepts, accepts after a height gap (2..5, around the window, 10..310), SaveHistorical runs (descending below the contiguous stored run, or arbitrary older heights), reopen of the index on the same database with the same or another window from {0,1,2,3,5,8}; memdb and pebble. After every op all four lookups of every height ever written (and its neighbours) are compared with a set model: no accept error, window blocks and genesis present, mappings mutually consistent, nothing never-stored served, at most window+1 non-genesis blocks after each accept/reopen (window>0). Non-trivial = a gap, historical save or window change is followed by a later accept; distinct = distinct (backend, window, op sequence). Write-level crash enumeration: further PRNG histories (and fixed scenarios) run on a fault-injecting store (memdb underneath) that counts the mutating operations reaching the store (Put, Delete, each non-empty batch Write as one atomic operation); the history is run once un-armed (N operations), then for every k in 1..N (all k for short histories and the fixed scenarios, a PRNG sample of k otherwise) and both variants (operation k lost / operation k applied but not acknowledged; everything later dropped) it is replayed on a fresh store armed at k, stopped at the crash, and a NEW index is opened on what survived with the same configuration: New succeeds, the last accepted height is the one before the interrupted operation or the one it was writing and its block is retrievable by height and by id, all mappings of all heights ever written are consistent with the model (genesis and the window of the surviving last accepted height present, nothing else served, at most window+1 non-genesis blocks at or below the last accepted height), the interrupted operation is delivered again, up to 10 further ops of the history and window+2 next heights are accepted with all checks. Non-trivial crash point = the store was not empty (k>1); distinct = distinct (history, k, variant). Interleaved histories (SaveHistorical runs on the syncer goroutine while consensus accepts): the same generator additionally attaches to 15/35/60 % of the accepts one or two injections = (store operation of the in-flight UpdateLastAccepted, list of 1..4 heights below the accepted one: a top-down run across the expiry height, a run entirely below it, heights within 3 of it, or a top-down run below the contiguous stored run); a wrapping database executes the SaveHistorical calls synchronously at exactly that store operation of the accept - NewBatch (before the first read), before / after the prune scan is opened, before the 1st..4th scan read, before / after batch.Write, iterator Release; a scan operation the accept never reaches is executed right after its batch.Write instead (still in flight), a Release never reached right after the accept returned. Fixed regression: state sync onto height 100, window 5, saves of 96,95,94 inside the accept of 102 at each of the 10 store operations. After the interleaved accept everything except the bound is judged (no error of either call, genesis and window complete - including in-flight saved blocks above the expiry height -, mappings consistent, nothing never-stored served); the bound is judged again after every later accept without injection and after every reopen. Non-trivial interleaved history = a save at or below the expiry height ran inside a pruning accept; distinct = distinct (backend, window, op sequence with injection points and heights). Concurrent cases: after a sequential prefix (genesis, state-sync target after a gap or a chain from genesis, a few sequential saves) goroutine A accepts 2..2W+7 next heights while goroutine B saves 1..2W+8 blocks top-down below the saved run (every store operation of both yields the processor); nothing is judged while they run; at quiescence the model applies all accepts, then all saves, and is compared without the bound, then 1..W+2 accepts run alone, each judged with the bound. Non-trivial concurrent case = window>0 and the lowest concurrently saved height is at or below the final expiry height; distinct = distinct (prefix, counts).")
	r.Assume("accepted heights strictly increase (snowman accepts one chain); historical saves are below the last accepted height",
		"window 0 means unbounded retention (documented in chain_index.go); the bound is not judged for it",
		"a block at or below last-window may be pruned at any time (statement only requires the most recent window); the bound is judged after accepts and reopens, not between historical saves",
		"background Compact goroutines are drained before a pebble database is closed",
		"crash model: the store applies single Put/Delete calls and whole batches atomically and in order (memdb; pebble batches are atomic as well); a crash loses a suffix of the store operations; Compact is not a mutation",
		"after a crash the node restarts with the configuration it was running with; consensus re-delivers the block whose index update was lost and a backfill repeats the interrupted historical save",
		"a whole block stored above the surviving last accepted height (the write of the interrupted accept) is tolerated and not counted as retained",
		"a historical block saved at or below the expiry height while an UpdateLastAccepted is in flight may survive that accept (the accept scans a snapshot taken before the save); the pinned algorithm rescans from height 1 in every pruning accept, so ONE further accept that does not overlap a save restores the bound: the bound is judged at quiescent points from the first such accept (or a restart) on, never after an accept that overlapped a save and never mid-flight",
		"injected saves run synchronously on the accepting goroutine inside the store wrapper (equivalent to a syncer goroutine that is scheduled exactly there); the store itself (memdb / pebble) is thread safe and scans iterate over a snapshot",
		"concurrent cases are judged only at quiescence; their outcome may depend on the schedule, so a replay of such a witness repeats the case up to 200 times")
	r.Extra("windows", c19Windows)

	var stats c19Stats
	judge := func(c c19Case) {
		r.Eval()
		var key, d string
		r.Guard("chainindex", c, func() { key, d = runC19(c, &stats) })
		if key == "harness" {
			r.Inconclusive("harness problem: %s", d)
			return
		}
		if d != "" {
			r.Violation(key, c, "%s  [history %s]", d, c.shape())
		}
		if c19Nontrivial(c) {
			r.Distinct(c.shape())
			r.Sample(c)
		}
	}
	// histories with SaveHistorical calls inside in-flight accepts (c19_inter_test.go)
	interN := 0
	judgeInter := func(c c19Case) {
		r.Eval()
		stats.inter.hit = false
		var key, d string
		r.Guard("chainindex-interleaved", c, func() { key, d = runC19(c, &stats) })
		if key == "harness" {
			r.Inconclusive("harness problem: %s", d)
			return
		}
		if d != "" {
			r.Violation(key, c, "%s  [history %s]", d, c.shape())
		}
		if stats.inter.hit { // a save at or below the expiry height ran inside a pruning accept
			r.Distinct("inter", c.shape())
			if interN++; interN%200 == 1 {
				r.Sample(c)
			}
		}
	}
	concN := 0
	judgeConc := func(c c19ConcCase) {
		r.Eval()
		var key, d string
		r.Guard("chainindex-concurrent", c, func() { key, d = runC19Conc(c, &stats) })
		if key == "harness" {
			r.Inconclusive("harness problem: %s", d)
			return
		}
		if d != "" {
			r.Violation(key, c, "%s  [%s; judged at quiescence, the outcome may depend on the schedule]", d, c.shape())
		}
		if c19ConcNontrivial(c) {
			r.Distinct(c.shape())
			if concN++; concN%100 == 1 {
				r.Sample(c)
			}
		}
	}
	// write-level crash enumeration (c19_crash_test.go)
	var cstats c19CrashStats
	judgeCrash := func(cc c19CrashCase) bool {
		r.Eval()
		cstats.points++
		if cc.Variant == "applied" {
			cstats.appliedVariant++
		} else {
			cstats.lostVariant++
		}
		var key, d string
		r.Guard("chainindex-crash", cc, func() { key, d = runC19Crash(cc, &cstats) })
		if key == "harness" {
			r.Inconclusive("harness problem: %s", d)
			return false
		}
		if d != "" {
			r.Violation(key, cc, "%s  [history %s]", d, cc.Case.shape())
			return false
		}
		if cc.CrashAt > 1 { // the store was not empty when the process died
			r.Distinct("crash", cc.Case.shape(), cc.CrashAt, cc.Variant)
		}
		return true
	}
	crashEnum := func(c c19Case, krng interface{ IntN(int) int }, all, sample int) {
		r.Eval()
		var (
			n      int
			key, d string
		)
		r.Guard("chainindex", c, func() { n, key, d = countC19Ops(c, &stats) })
		if key == "harness" {
			r.Inconclusive("harness problem: %s", d)
			return
		}
		if d != "" { // broken without any crash: reported under the ordinary key, nothing to enumerate
			r.Violation(key, c, "%s  [history %s]", d, c.shape())
			return
		}
		cstats.histories++
		cstats.opsSeen += n
		sampled := false
		for _, k := range c19CrashPoints(krng, n, all, sample) {
			for _, v := range []string{"lost", "applied"} {
				cc := c19CrashCase{Case: c, CrashAt: k, Variant: v, Ops: n}
				if judgeCrash(cc) && !sampled && k > 2 {
					sampled = true
					if cstats.histories%50 == 1 {
						r.Sample(cc)
					}
				}
			}
		}
	}
	if rf := r.Replay(); rf != nil && len(rf.Witness) > 0 {
		var cc c19CrashCase
		if err := json.Unmarshal(rf.Witness, &cc); err == nil && cc.CrashAt > 0 && len(cc.Case.Ops) > 0 {
			judgeCrash(cc)
			r.Finish(0)
			return
		}
		var kc c19ConcCase
		if err := json.Unmarshal(rf.Witness, &kc); err == nil && kc.Accepts > 0 && len(kc.Pre) > 0 {
			for i := 0; i < 200 && r.Violations() == 0; i++ { // schedule dependent: try a number of times
				judgeConc(kc)
			}
			r.Finish(0)
			return
		}
		var c c19Case
		if err := json.Unmarshal(rf.Witness, &c); err == nil && len(c.Ops) > 0 {
			judgeInter(c)
			r.Finish(0)
			return
		}
	}

	// the minimal scenarios named in the design (kept as fixed regression cases)
	judge(c19Case{Backend: "memdb", Salt: 1, Window: 3, Freq: 8, Ops: []c19Op{
		{Kind: "accept", H: 0}, {Kind: "accept", H: 1}, {Kind: "accept", H: 2}, {Kind: "accept", H: 100}, {Kind: "accept", H: 101},
	}})
	judge(c19Case{Backend: "memdb", Salt: 2, Window: 1, Freq: 8, Ops: []c19Op{
		{Kind: "accept", H: 0}, {Kind: "accept", H: 1}, {Kind: "accept", H: 2}, {Kind: "accept", H: 3}, {Kind: "reopen", W: 3}, {Kind: "accept", H: 4}, {Kind: "accept", H: 5},
	}})
	judge(c19Case{Backend: "memdb", Salt: 3, Window: 2, Freq: 8, Ops: []c19Op{
		{Kind: "accept", H: 0}, {Kind: "accept", H: 50}, {Kind: "hist", H: 49}, {Kind: "hist", H: 48}, {Kind: "hist", H: 47}, {Kind: "hist", H: 46}, {Kind: "hist", H: 45},
		{Kind: "accept", H: 51}, {Kind: "accept", H: 52}, {Kind: "accept", H: 53},
	}})

	// state sync onto height 100 with window 5; the syncer saves 96, 95, 94 while the accept of 102
	// (expiry height 97) is in flight - once at every store operation of that accept
	for at := c19PtNewBatch; at <= c19PtNext0+c19PtNextMax; at++ {
		ops := []c19Op{{Kind: "accept", H: 0}, {Kind: "accept", H: 100}, {Kind: "hist", H: 99}, {Kind: "hist", H: 98}, {Kind: "hist", H: 97},
			{Kind: "accept", H: 101}, {Kind: "accept", H: 102, Inj: []c19Inj{{At: at, Hs: []uint64{96, 95, 94}}}}}
		for h := uint64(103); h <= 110; h++ {
			ops = append(ops, c19Op{Kind: "accept", H: h})
		}
		judgeInter(c19Case{Backend: "memdb", Salt: 9, Window: 5, Freq: 8, Ops: ops})
	}

	rng := r.Rand("histories")
	n := r.N(4000, 100000)
	for i := 0; i < n; i++ {
		judge(genC19(rng, "memdb", r.N(30, 60)))
	}
	np := r.N(25, 300)
	prng := r.Rand("pebble-histories")
	for i := 0; i < np; i++ {
		judge(genC19(prng, "pebble", 25))
	}
	// interleaved histories: SaveHistorical inside in-flight accepts, deterministic
	irng := r.Rand("interleaved-histories")
	for i, ni := 0, r.N(4000, 40000); i < ni; i++ {
		judgeInter(genC19x(irng, "memdb", r.N(30, 60), true))
	}
	iprng := r.Rand("interleaved-pebble-histories")
	nip := r.N(15, 150)
	for i := 0; i < nip; i++ {
		judgeInter(genC19x(iprng, "pebble", 25, true))
	}
	// two goroutines (consensus accepts, syncer saves top-down), judged at quiescence
	grng := r.Rand("concurrent-cases")
	for i, ng := 0, r.N(400, 4000); i < ng; i++ {
		judgeConc(genC19Conc(grng, "memdb"))
	}
	ngp := r.N(5, 50)
	for i := 0; i < ngp; i++ {
		judgeConc(genC19Conc(grng, "pebble"))
	}
	// crash points: every store operation of the fixed scenarios and of short
	// histories, a PRNG sample of the store operations of longer ones
	krng := r.Rand("crash-points")
	for _, c := range []c19Case{
		{Backend: "memdb", Salt: 4, Window: 0, Freq: 1 << 40, Ops: []c19Op{
			{Kind: "accept", H: 0}, {Kind: "accept", H: 1}, {Kind: "accept", H: 2}, {Kind: "accept", H: 3},
		}},
		{Backend: "memdb", Salt: 5, Window: 2, Freq: 1, Ops: []c19Op{
			{Kind: "accept", H: 0}, {Kind: "accept", H: 1}, {Kind: "accept", H: 2}, {Kind: "accept", H: 3}, {Kind: "accept", H: 4}, {Kind: "accept", H: 5},
		}},
		{Backend: "memdb", Salt: 6, Window: 3, Freq: 8, Ops: []c19Op{
			{Kind: "accept", H: 0}, {Kind: "accept", H: 1}, {Kind: "accept", H: 2}, {Kind: "accept", H: 100}, {Kind: "accept", H: 101},
		}},
		{Backend: "memdb", Salt: 7, Window: 1, Freq: 8, Ops: []c19Op{
			{Kind: "accept", H: 0}, {Kind: "accept", H: 1}, {Kind: "accept", H: 2}, {Kind: "accept", H: 3}, {Kind: "reopen", W: 3}, {Kind: "accept", H: 4}, {Kind: "accept", H: 5},
		}},
		{Backend: "memdb", Salt: 8, Window: 2, Freq: 8, Ops: []c19Op{
			{Kind: "accept", H: 0}, {Kind: "accept", H: 50}, {Kind: "hist", H: 49}, {Kind: "hist", H: 48}, {Kind: "hist", H: 47}, {Kind: "hist", H: 46}, {Kind: "hist", H: 45},
			{Kind: "reopen", W: 2}, {Kind: "accept", H: 51}, {Kind: "accept", H: 52}, {Kind: "accept", H: 53},
		}},
	} {
		crashEnum(c, krng, 1<<30, 0)
	}
	crng := r.Rand("crash-histories")
	nc := r.N(1000, 6000)
	for i := 0; i < nc; i++ {
		crashEnum(genC19(crng, "memdb", r.N(20, 40)), krng, r.N(16, 48), r.N(10, 24))
	}
	r.Count("crash_histories", cstats.histories)
	r.Count("crash_store_operations_seen", cstats.opsSeen)
	r.Count("crash_points_enumerated", cstats.points)
	r.Count("crash_points_operation_lost", cstats.lostVariant)
	r.Count("crash_points_operation_applied_unacknowledged", cstats.appliedVariant)
	r.Count("crash_reopen_successes", cstats.reopenOK)
	r.Count("crash_interrupted_accepts", cstats.intAccept)
	r.Count("crash_interrupted_historical_saves", cstats.intHist)
	r.Count("crash_interrupted_reopens", cstats.intReopen)
	r.Count("crash_last_accepted_is_previous", cstats.outcomeBefore)
	r.Count("crash_last_accepted_is_interrupted_one", cstats.outcomeAfter)
	r.Count("crash_no_last_accepted_yet", cstats.outcomeNil)
	r.Count("crash_interrupted_ops_redone", cstats.redone)
	r.Count("crash_history_ops_continued", cstats.tailOps)
	r.Count("crash_next_heights_accepted", cstats.extraAccepts)
	r.Count("crash_height_probes_after_reopen", cstats.post.probes)
	r.Count("accepts", stats.accepts)
	r.Count("accepts_after_gap_or_jump", stats.gaps)
	r.Count("accepts_following_a_gap", stats.acceptsAfterGap)
	r.Count("accepts_that_had_to_prune", stats.pruned)
	r.Count("historical_saves", stats.hists)
	r.Count("reopens", stats.reopens)
	r.Count("reopens_with_other_window", stats.reopenDiff)
	r.Count("height_probes", stats.probes)
	r.Count("pebble_histories", np+nip+ngp)
	is := stats.inter
	r.Count("inflight_accepts_with_injected_saves", is.accepts)
	r.Count("inflight_accepts_that_had_to_prune", is.pruningAccepts)
	r.Count("inflight_saves", is.savesInFlight)
	r.Count("inflight_saves_point_not_reached_run_after_return", is.savesAfterReturn)
	r.Count("inflight_injection_at_new_batch_before_first_read", is.atNewBatch)
	r.Count("inflight_injection_before_scan_opened", is.atBeforeIter)
	r.Count("inflight_injection_after_scan_opened", is.atAfterIter)
	r.Count("inflight_injection_between_scan_reads", is.atNext)
	r.Count("inflight_injection_before_batch_write", is.atBeforeWrite)
	r.Count("inflight_injection_after_batch_write", is.atAfterWrite)
	r.Count("inflight_injection_scan_point_not_reached_run_after_batch_write", is.atAfterWriteLate)
	r.Count("inflight_injection_at_iterator_release", is.atRelease)
	r.Count("inflight_saves_below_expiry_height", is.belowExpiry)
	r.Count("inflight_saves_at_expiry_height", is.atExpiry)
	r.Count("inflight_saves_above_expiry_height", is.aboveExpiry)
	r.Count("inflight_saves_below_window_that_survived_their_accept", is.survivedBelowWindow)
	r.Count("bound_judged_at_first_plain_accept_after_inflight_save_below_window", is.boundJudgedAfterInFlight)
	r.Count("concurrent_cases", is.concCases)
	r.Count("concurrent_accepts", is.concAccepts)
	r.Count("concurrent_saves", is.concSaves)
	r.Count("concurrent_saves_overlapping_an_inflight_accept", is.concOverlaps)
	r.Count("concurrent_saves_below_final_window", is.concBelowFinal)
	r.Count("concurrent_saves_below_final_window_present_at_quiescence", is.concSurvivors)
	r.Count("concurrent_post_accepts_judged_with_bound", is.concPostAccepts)
	r.Finish(r.N(500, 5000))
}
