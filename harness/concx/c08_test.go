package concx

import (
	"errors"
	"fmt"
	"math"
	"math/rand/v2"
	"runtime"
	"sort"
	"strings"
	"sync/atomic"
	"testing"
	"time"

	"github.com/ava-labs/hypersdk/internal/executor"
	"github.com/ava-labs/hypersdk/state"
	"github.com/ava-labs/hypersdk/zzverif/kit"
	"github.com/ava-labs/hypersdk/zzverif/kit/hooks"
)

// ---- case description (JSON witness) ----

type c08Task struct {
	Keys  []string `json:"keys,omitempty"` // "<key index>:<R|A|W|X>"  (X = all permissions)
	Delay int      `json:"delay,omitempty"`
	Fail  bool     `json:"fail,omitempty"`
	Stop  bool     `json:"stop,omitempty"` // the task body calls Executor.Stop
}

type c08Case struct {
	Workers   int       `json:"workers"`
	MaxDeps   int64     `json:"max_deps"`
	Tasks     []c08Task `json:"tasks"`
	StopAt    int       `json:"stop_at"`              // -1: never; k: Stop is issued when k tasks have been queued (k = len(tasks): before Wait)
	StopAsync int       `json:"stop_async,omitempty"` // >0: Stop is issued from a concurrent goroutine after that many yields (joined before Wait)
	SubmitGap int       `json:"submit_gap,omitempty"` // every n-th Run is followed by a yield of the submitting goroutine
	Profile   int       `json:"profile"`              // hook perturbation profile
}

var c08Perm = map[byte]state.Permissions{'R': state.Read, 'A': state.Allocate, 'W': state.Write, 'X': state.All}

func (t c08Task) keys() (state.Keys, error) {
	ks := state.Keys{}
	for _, s := range t.Keys {
		i := strings.IndexByte(s, ':')
		if i < 0 || i+2 != len(s) {
			return nil, fmt.Errorf("bad key spec %q", s)
		}
		p, ok := c08Perm[s[i+1]]
		if !ok {
			return nil, fmt.Errorf("bad permission in %q", s)
		}
		ks["key"+s[:i]] = p
	}
	return ks, nil
}

// conflict: the two tasks share a key and at least one needs more than Read.
func c08Conflict(a, b state.Keys) (conflict bool, sharedRead bool) {
	for k, pa := range a {
		if pb, ok := b[k]; ok {
			if pa != state.Read || pb != state.Read {
				conflict = true
			} else {
				sharedRead = true
			}
		}
	}
	return
}

func c08Shape(c c08Case) string {
	var b strings.Builder
	fmt.Fprintf(&b, "s%d/%d|", c.StopAt, c.StopAsync)
	for _, t := range c.Tasks {
		b.WriteString(strings.Join(t.Keys, ","))
		if t.Fail {
			b.WriteByte('!')
		}
		if t.Stop {
			b.WriteByte('#')
		}
		b.WriteByte(';')
	}
	return b.String()
}

type c08Metrics struct{ blocked, executable atomic.Int64 }

func (m *c08Metrics) RecordBlocked()    { m.blocked.Add(1) }
func (m *c08Metrics) RecordExecutable() { m.executable.Add(1) }

func c08Delay(kind int) {
	switch kind {
	case 1:
		runtime.Gosched()
	case 2:
		for i := 0; i < 8; i++ {
			runtime.Gosched()
		}
	case 3:
		x := 0
		for i := 0; i < 3000; i++ {
			x += i * i
		}
		_ = x
	case 4:
		time.Sleep(20 * time.Microsecond)
	case 5:
		time.Sleep(150 * time.Microsecond)
	}
}

// c08Obs is what one execution of a case let the monitor observe.
type c08Obs struct {
	ran        []int32
	start, end []int64
	stopLo     int64 // logical time just before Stop was called (0: no Stop)
	stopHi     int64 // logical time just after Stop returned
	waitErr    error
	waitRes    kit.WaitResult
	stacks     string
	blocked    int64
	executable int64
}

var c08Errs []error

func init() {
	for i := 0; i < 256; i++ {
		c08Errs = append(c08Errs, fmt.Errorf("task %d failed", i))
	}
}

// c08Run drives the real executor with the case once.
func c08Run(c c08Case) (*c08Obs, error) {
	n := len(c.Tasks)
	keysets := make([]state.Keys, n)
	for i, t := range c.Tasks {
		ks, err := t.keys()
		if err != nil {
			return nil, err
		}
		keysets[i] = ks
	}
	var clock kit.Clock
	ran := make([]atomic.Int32, n)
	start := make([]atomic.Int64, n)
	end := make([]atomic.Int64, n)
	var stopLo, stopHi atomic.Int64
	met := &c08Metrics{}
	e := executor.New(n, c.Workers, c.MaxDeps, met)
	doStop := func() {
		stopLo.CompareAndSwap(0, clock.Tick())
		e.Stop()
		stopHi.CompareAndSwap(0, clock.Tick())
	}
	var asyncDone <-chan struct{}
	for i := 0; i <= n; i++ {
		if c.StopAt == i {
			if c.StopAsync > 0 {
				y := c.StopAsync
				asyncDone = kit.Go(func() {
					for k := 0; k < y; k++ {
						runtime.Gosched()
					}
					doStop()
				})
			} else {
				doStop()
			}
		}
		if i == n {
			break
		}
		i := i
		t := c.Tasks[i]
		e.Run(keysets[i], func() error {
			ran[i].Add(1)
			start[i].Store(clock.Tick())
			c08Delay(t.Delay)
			if t.Stop {
				doStop()
			}
			end[i].Store(clock.Tick())
			if t.Fail {
				return c08Errs[i]
			}
			return nil
		})
		if c.SubmitGap > 0 && i%c.SubmitGap == 0 {
			runtime.Gosched()
		}
	}
	if asyncDone != nil {
		<-asyncDone // Stop has returned before Wait is called
	}
	o := &c08Obs{ran: make([]int32, n), start: make([]int64, n), end: make([]int64, n)}
	var werr error
	done := kit.Go(func() { werr = e.Wait() })
	o.waitRes, o.stacks = awaitCall(done, []string{"internal/executor"}, []string{"executor.(*Executor).Wait"}, 2*time.Second, 120*time.Second)
	if o.waitRes == kit.Returned {
		o.waitErr = werr
	}
	for i := 0; i < n; i++ {
		o.ran[i] = ran[i].Load()
		o.start[i] = start[i].Load()
		o.end[i] = end[i].Load()
	}
	o.stopLo, o.stopHi = stopLo.Load(), stopHi.Load()
	o.blocked, o.executable = met.blocked.Load(), met.executable.Load()
	return o, nil
}

type c08Finding struct{ key, detail string }

type c08Stats struct {
	conflictPairs, overlaps, readOverlaps, tasksRun, tasksSkipped int
	startOrder                                                    string
}

// c08Judge is the offline oracle over one observed execution.
func c08Judge(c c08Case, o *c08Obs) ([]c08Finding, c08Stats) {
	var out []c08Finding
	var st c08Stats
	add := func(key, f string, a ...any) { out = append(out, c08Finding{key, fmt.Sprintf(f, a...)}) }
	n := len(c.Tasks)
	if o.waitRes == kit.Deadlock {
		add("C08/wait-deadlock", "Wait never returned: every executor goroutine is parked (deadlock witness)\n%s", o.stacks)
		return out, st
	}
	keysets := make([]state.Keys, n)
	for i, t := range c.Tasks {
		keysets[i], _ = t.keys()
	}
	stopped := o.stopLo != 0
	var failed []int // tasks that ran and returned an error
	for i := 0; i < n; i++ {
		switch {
		case o.ran[i] > 1:
			add("C08/task-ran-twice", "task %d ran %d times", i, o.ran[i])
		case o.ran[i] == 1:
			st.tasksRun++
			if c.Tasks[i].Fail {
				failed = append(failed, i)
			}
		default:
			st.tasksSkipped++
		}
	}
	if len(failed) == 0 && !stopped {
		for i := 0; i < n; i++ {
			if o.ran[i] == 0 {
				add("C08/task-skipped-without-failure", "task %d never ran although no task failed and Stop was not called", i)
			}
		}
	}
	for i := 0; i < n; i++ {
		for j := i + 1; j < n; j++ {
			conflict, sharedRead := c08Conflict(keysets[i], keysets[j])
			ri, rj := o.ran[i] >= 1, o.ran[j] >= 1
			if !conflict {
				if ri && rj && o.start[i] < o.end[j] && o.start[j] < o.end[i] {
					st.overlaps++
					if sharedRead {
						st.readOverlaps++
					}
				}
				continue
			}
			st.conflictPairs++
			if ri && rj && o.ran[i] == 1 && o.ran[j] == 1 {
				switch {
				case o.end[i] < o.start[j]:
				case o.end[j] < o.start[i]:
					add("C08/conflict-reordered", "tasks %d %v and %d %v conflict but %d ran [%d,%d] before %d [%d,%d]", i, c.Tasks[i].Keys, j, c.Tasks[j].Keys, j, o.start[j], o.end[j], i, o.start[i], o.end[i])
				default:
					add("C08/conflict-overlap", "tasks %d %v and %d %v conflict but ran concurrently: [%d,%d] and [%d,%d]", i, c.Tasks[i].Keys, j, c.Tasks[j].Keys, o.start[i], o.end[i], o.start[j], o.end[j])
				}
			}
			if rj && !ri {
				add("C08/ran-without-predecessor", "task %d %v ran although the earlier conflicting task %d %v never ran", j, c.Tasks[j].Keys, i, c.Tasks[i].Keys)
			}
			if ri && rj && c.Tasks[i].Fail {
				add("C08/ran-after-failed-predecessor", "task %d %v ran although the earlier conflicting task %d %v failed", j, c.Tasks[j].Keys, i, c.Tasks[i].Keys)
			}
		}
	}
	if o.waitRes != kit.Returned {
		return out, st // inconclusive, reported by the caller
	}
	// Wait result
	switch {
	case len(failed) == 0 && !stopped:
		if o.waitErr != nil {
			add("C08/wait-spurious-error", "Wait returned %v although no task failed and Stop was not called", o.waitErr)
		}
	case o.waitErr == nil:
		add("C08/wait-lost-error", "Wait returned nil although failed tasks=%v stop=%v", failed, stopped)
	default:
		// candidates: an error event x may be "the first" unless another error
		// event certainly completed before x could have been recorded.
		type evt struct {
			err    error
			lo, hi int64
		}
		var evs []evt
		for _, i := range failed {
			hi := int64(math.MaxInt64)
			if c.Workers == 1 { // one worker: the failure is recorded before that worker starts anything else
				for k := 0; k < n; k++ {
					if o.ran[k] >= 1 && o.start[k] > o.end[i] && o.start[k] < hi {
						hi = o.start[k]
					}
				}
			}
			evs = append(evs, evt{c08Errs[i], o.end[i], hi})
		}
		if stopped {
			evs = append(evs, evt{executor.ErrStopped, o.stopLo, o.stopHi})
		}
		var got *evt
		for k := range evs {
			if errors.Is(o.waitErr, evs[k].err) {
				got = &evs[k]
			}
		}
		if got == nil {
			add("C08/wait-foreign-error", "Wait returned %v which is neither ErrStopped (stop=%v) nor the error of an executed failing task %v", o.waitErr, stopped, failed)
		} else {
			for _, y := range evs {
				if y.hi < got.lo {
					add("C08/wait-not-first-error", "Wait returned %v (recorded after logical time %d) although %v had been recorded by logical time %d", o.waitErr, got.lo, y.err, y.hi)
					break
				}
			}
		}
	}
	// fingerprint of the observed schedule: order of task starts
	type se struct {
		t int64
		i int
	}
	var ord []se
	for i := 0; i < n; i++ {
		if o.ran[i] >= 1 {
			ord = append(ord, se{o.start[i], i})
		}
	}
	sort.Slice(ord, func(a, b int) bool { return ord[a].t < ord[b].t })
	var b strings.Builder
	for _, x := range ord {
		fmt.Fprintf(&b, "%d,", x.i)
	}
	st.startOrder = b.String()
	return out, st
}

func c08Gen(rng *rand.Rand) c08Case {
	n := 1 + rng.IntN(12)
	switch rng.IntN(10) {
	case 0, 1, 2:
		n = 1 + rng.IntN(64)
	case 3:
		n = 2 + rng.IntN(4)
	}
	K := 1 + rng.IntN(6)
	pKey := []float64{0.15, 0.3, 0.5, 0.8}[rng.IntN(4)]
	perms := []string{"RRRRRW", "RRWAX", "RWAX", "WAX", "RRRRRRRRX"}[rng.IntN(5)]
	delays := [][]int{{0}, {0, 1, 2, 3}, {0, 1, 2, 3, 4}, {1, 3, 4, 5}, {0, 0, 0, 5}}[rng.IntN(5)]
	c := c08Case{Workers: 1 + rng.IntN(16), StopAt: -1, Profile: rng.IntN(4)}
	if rng.IntN(4) == 0 {
		c.Workers = 1 + rng.IntN(3)
	}
	for i := 0; i < n; i++ {
		t := c08Task{Delay: delays[rng.IntN(len(delays))]}
		for k := 0; k < K; k++ {
			if rng.Float64() < pKey {
				t.Keys = append(t.Keys, fmt.Sprintf("%d:%c", k, perms[rng.IntN(len(perms))]))
			}
		}
		c.Tasks = append(c.Tasks, t)
	}
	switch rng.IntN(6) {
	case 0: // one failing task
		c.Tasks[rng.IntN(n)].Fail = true
	case 1: // several
		for k := 0; k < 1+rng.IntN(3); k++ {
			c.Tasks[rng.IntN(n)].Fail = true
		}
	}
	switch rng.IntN(12) {
	case 0:
		c.StopAt = rng.IntN(n + 1)
	case 1:
		c.StopAt = rng.IntN(n + 1)
		c.StopAsync = 1 + rng.IntN(200)
	case 2:
		c.Tasks[rng.IntN(n)].Stop = true
	}
	if rng.IntN(2) == 0 {
		c.SubmitGap = 1 + rng.IntN(8)
	}
	if rng.IntN(2) == 0 {
		c.MaxDeps = int64(n) + 1 // tight: any task has at most n-1 dependencies
	} else {
		c.MaxDeps = 100_000_000 // the value chain/ uses
	}
	return c
}

// c08Profiles returns one hook handler per perturbation profile (handlers are
// never mutated after creation: a case selects one with Install).
func c08Profiles(r *kit.Run) []*hooks.Perturb {
	var out []*hooks.Perturb
	for i, pr := range [][3]float64{{0, 0, 0}, {0.4, 0, 0}, {0.3, 0.15, 0.03}, {0.2, 0.3, 0.1}} {
		p := hooks.NewPerturb(r.Rand(fmt.Sprintf("hooks%d", i)))
		p.MaxSleep = 100 * time.Microsecond
		p.PYield, p.PSpin, p.PSleep = pr[0], pr[1], pr[2]
		out = append(out, p)
	}
	return out
}

func TestC08(t *testing.T) {
	r := kit.Start(t, "C08", "exploration")
	r.Rule("case = task list (1..64 tasks over 1..6 keys, each key Read/Allocate/Write/All, failing tasks, Stop before a chosen Run / from a concurrent goroutine / from inside a task), run several times with 1..16 workers, PRNG delays in the task bodies and PRNG yield/spin/sleep at the four executor hook points; per task start/end are stamped by one atomic logical clock and judged offline. A case is non-trivial when at least two tasks conflict; distinct = distinct (key/permission sets, failing set, stop point) of the task list; distinct observed start orders are counted separately.")
	r.Assume(
		"maxDependencies is strictly larger than any task's number of dependencies (documented precondition of executor.New)",
		"Run is called from one goroutine and Wait after the last Run (documented usage); Stop may be called from anywhere but has returned before Wait is called",
		"'skipped after a failure' is judged only for tasks that conflict with the failed task (the Run comment says callers must not rely on exactly when skipping begins); 'first error' is judged only where the order of two error events is observable through the logical clock",
	)
	profiles := c08Profiles(r)
	defer hooks.Uninstall()

	orders := map[uint64]struct{}{}
	deadlocks := 0
	judge := func(c c08Case) {
		profiles[((c.Profile%len(profiles))+len(profiles))%len(profiles)].Install()
		var o *c08Obs
		var err error
		r.Eval()
		r.Guard("executor", c, func() { o, err = c08Run(c) })
		if err != nil {
			r.Inconclusive("bad case: %v", err)
			return
		}
		if o == nil {
			return // panic already reported
		}
		if o.waitRes == kit.Unknown {
			r.Inconclusive("Wait did not return within the watchdog and no deadlock witness was obtained (case %s)", c08Shape(c))
		}
		finds, st := c08Judge(c, o)
		for _, f := range finds {
			r.Violation(f.key, c, "%s", f.detail)
			if f.key == "C08/wait-deadlock" {
				deadlocks++
			}
		}
		r.Count("tasks_run", st.tasksRun)
		r.Count("tasks_skipped", st.tasksSkipped)
		r.Count("conflicting_pairs_judged", st.conflictPairs)
		r.Count("overlaps_of_nonconflicting_tasks_observed", st.overlaps)
		r.Count("overlaps_of_readers_of_a_shared_key_observed", st.readOverlaps)
		r.Count("run_blocked", int(o.blocked))
		r.Count("run_executable", int(o.executable))
		if o.stopLo != 0 {
			r.Count("executions_with_stop", 1)
		}
		if o.waitErr != nil {
			r.Count("wait_returned_error", 1)
		}
		if st.conflictPairs > 0 {
			r.Distinct(c08Shape(c))
			r.Sample(c)
			if st.startOrder != "" {
				orders[fnv64(c08Shape(c)+"|"+st.startOrder)] = struct{}{}
			}
		}
	}
	if rf := r.Replay(); rf != nil && len(rf.Witness) > 0 {
		var c c08Case
		if err := jsonUnmarshal(rf.Witness, &c); err == nil && len(c.Tasks) > 0 {
			for i := 0; i < 200 && r.Violations() == 0; i++ {
				judge(c)
			}
			r.Finish(0)
			return
		}
	}

	rng := r.Rand("tasklists")
	n := r.N(4000, 50000)
	reps := 3
	for i := 0; i < n && r.Violations() < 20 && deadlocks < 3; i++ {
		c := c08Gen(rng)
		for k := 0; k < reps; k++ {
			if k > 0 { // same task list, another worker count / perturbation profile
				c.Workers = 1 + rng.IntN(16)
				c.Profile = rng.IntN(4)
			}
			judge(c)
		}
	}
	for _, p := range profiles {
		for name, h := range p.Hits() {
			r.Count("hook_hits/"+name, int(h))
		}
	}
	r.Count("distinct_observed_start_orders", len(orders))
	if r.Counter("overlaps_of_nonconflicting_tasks_observed") == 0 {
		r.Inconclusive("no two non-conflicting tasks were ever observed running concurrently: the monitor did not see parallelism")
	}
	if deadlocks >= 3 {
		r.Finish(0)
		return
	}
	r.Finish(500)
}
