package concx

import (
	"bytes"
	"fmt"
	"math/rand/v2"
	"strings"
	"sync"
	"sync/atomic"
	"testing"
	"time"

	"github.com/ava-labs/avalanchego/utils/logging"

	"github.com/ava-labs/hypersdk/pubsub"
	"github.com/ava-labs/hypersdk/zzverif/kit"
)

// ---- case description (JSON witness) ----

// c32Op kinds: send(N = message size) | read(N = max batches taken from Queue, non-blocking) |
// waitflush (logical wait until the last accepted message was emitted) | close
type c32Op struct {
	K string `json:"op"`
	N int    `json:"n,omitempty"`
}

type c32Case struct {
	MaxSize  int     `json:"max_size"`
	QueueCap int     `json:"queue_cap"`
	Timer    bool    `json:"timer"` // true: 1ms flush timeout; false: one hour (no timer flush during the case)
	Ops      []c32Op `json:"ops,omitempty"`
	// end-to-end cases (c32e2e_test.go): "c2s-raw" | "c2s-pubsub" | "s2c"; Ops are send(payload size) | blocks | pause(microseconds)
	E2E      string `json:"e2e,omitempty"`
	LateRead bool   `json:"late_read,omitempty"` // c2s-raw: the peer starts reading only after Close was called
	Received []int  `json:"received,omitempty"`  // witness only: sizes of the messages that arrived at the peer
	// concurrent cases
	Senders   [][]int `json:"senders,omitempty"`    // message sizes per sender
	CloseAt   int     `json:"close_at,omitempty"`   // >0: Close is called by the monitor after that many accepted sends (else after all senders finished)
	Batches   [][]int `json:"batches,omitempty"`    // witness only: sizes of the emitted batches' messages
	BatchLens []int   `json:"batch_lens,omitempty"` // witness only: encoded length of every emitted batch
	Accepted  []int   `json:"accepted,omitempty"`   // witness only: sizes of the accepted messages
}

func c32Shape(c c32Case) string {
	var b strings.Builder
	fmt.Fprintf(&b, "%s%v%d/%d/%v|", c.E2E, c.LateRead, c.MaxSize, c.QueueCap, c.Timer)
	for _, o := range c.Ops {
		fmt.Fprintf(&b, "%s%d,", o.K, o.N)
	}
	for _, s := range c.Senders {
		fmt.Fprintf(&b, "%v;", s)
	}
	fmt.Fprintf(&b, "c%d", c.CloseAt)
	return b.String()
}

// c32Msg builds a message of the given size whose content is unique within
// the case: sizes >= 3 carry (sender, seq); smaller ones are made unique by
// the caller (at most one empty message, 256 one-byte and 65536 two-byte ones).
func c32Msg(size, sender, seq int) []byte {
	m := make([]byte, size)
	for i := range m {
		m[i] = byte(0xA0 + i%7)
	}
	switch {
	case size >= 4:
		m[0], m[1], m[2], m[3] = byte(sender), byte(seq>>16), byte(seq>>8), byte(seq)
	case size == 3:
		m[0], m[1], m[2] = byte(sender<<4|(seq>>16)&0xF), byte(seq>>8), byte(seq)
	case size == 2:
		m[0], m[1] = byte(seq>>8), byte(seq)
	case size == 1:
		m[0] = byte(seq)
	}
	return m
}

type c32Accepted struct {
	msg    []byte
	accObs int  // number of queue observations made before the message was accepted
	grew   bool // a batch was put on the queue while the Send call ran (overflow flush, or a timer flush racing with it)
}

type c32Batch struct {
	raw     []byte
	readObs int // index of the observation made right before the batch was read
}

// c32Trace is everything the monitor recorded in a sequential case.
type c32Trace struct {
	maxSize  int
	accepted []c32Accepted
	batches  []c32Batch
	fullObs  []int // indices of observations that saw the queue full
	nObs     int
}

func (t *c32Trace) observe(q chan []byte) {
	if len(q) == cap(q) {
		t.fullObs = append(t.fullObs, t.nObs)
	}
	t.nObs++
}

func (t *c32Trace) fullBetween(lo, hi int) bool {
	for _, f := range t.fullObs {
		if f >= lo && f <= hi {
			return true
		}
	}
	return false
}

type c32Finding struct{ key, detail string }

type c32Stats struct {
	accepted, emitted, justifiedDrops, batches, maxBatch, nearLimitBatches int
}

// c32Judge is the oracle of the statement: the decoded concatenation of the
// emitted batches is the sequence of accepted messages, each once and in
// order, except for runs that were dropped while the queue was full; every
// batch is at most maxSize long and decodes back.
func c32Judge(t *c32Trace) ([]c32Finding, c32Stats) {
	var out []c32Finding
	var st c32Stats
	add := func(k, f string, a ...any) { out = append(out, c32Finding{k, fmt.Sprintf(f, a...)}) }
	st.accepted = len(t.accepted)
	p := 0 // next accepted message not yet accounted for
	checkGap := func(from, to int, hiObs int, where string) {
		if from >= to {
			return
		}
		if t.fullBetween(t.accepted[from].accObs, hiObs) {
			st.justifiedDrops += to - from
			return
		}
		add("C32/accepted-message-not-emitted", "accepted messages #%d..#%d (sizes %v) were never emitted %s although the outgoing queue was never seen full in between", from, to-1, c32Sizes(t.accepted[from:to]), where)
	}
	for bi, b := range t.batches {
		st.batches++
		if len(b.raw) > st.maxBatch {
			st.maxBatch = len(b.raw)
		}
		if len(b.raw) > t.maxSize-4 {
			st.nearLimitBatches++
		}
		msgs, err := pubsub.ParseBatchMessage(b.raw)
		if err != nil {
			add("C32/batch-undecodable", "emitted batch %d (%d bytes) does not decode: %v", bi, len(b.raw), err)
			continue
		}
		if len(b.raw) > t.maxSize {
			kind := "multi-message"
			if len(msgs) == 1 {
				kind = "single-message"
			}
			var sz []int
			for _, m := range msgs {
				sz = append(sz, len(m))
			}
			add("C32/batch-exceeds-max-size/"+kind, "emitted batch %d encodes to %d bytes, configured maximum %d (message sizes %v)", bi, len(b.raw), t.maxSize, sz)
		}
		if re := pubsub.CreateBatchMessage(msgs); !bytes.Equal(re, b.raw) && len(msgs) > 0 {
			add("C32/batch-not-canonical", "emitted batch %d does not re-encode to itself", bi)
		}
		for mi, m := range msgs {
			q := -1
			for k := p; k < len(t.accepted); k++ {
				if bytes.Equal(t.accepted[k].msg, m) {
					q = k
					break
				}
			}
			if q < 0 {
				// duplicate, out of order, or never accepted
				kind := "never-accepted"
				for k := 0; k < p && k < len(t.accepted); k++ {
					if bytes.Equal(t.accepted[k].msg, m) {
						kind = "duplicate-or-reordered"
					}
				}
				add("C32/unexpected-message/"+kind, "batch %d message %d (%d bytes) is not the next accepted message (%s)", bi, mi, len(m), kind)
				continue
			}
			if q > p {
				if mi > 0 {
					add("C32/message-missing-inside-batch", "batch %d skips accepted messages #%d..#%d between two of its messages", bi, p, q-1)
				} else {
					checkGap(p, q, b.readObs, fmt.Sprintf("before batch %d", bi))
				}
			}
			p = q + 1
			st.emitted++
		}
	}
	checkGap(p, len(t.accepted), t.nObs-1, "by the end")
	return out, st
}

func c32Sizes(a []c32Accepted) []int {
	var s []int
	for _, x := range a {
		s = append(s, len(x.msg))
	}
	if len(s) > 12 {
		s = s[:12]
	}
	return s
}

const c32Watchdog = 45 * time.Second

type c32RunInfo struct {
	closeDeadlock bool
	inconclusive  string
	timerFlushes  int
	rejected      int
	// timer-flush waits (see c32RefChain)
	findings           []c32Finding // violations witnessed while the case ran (not by the trace judge)
	overflowQuietWaits int          // waits for a batch that was started by a Send during which a batch was emitted (overflow flush)
	maxRefTimeouts     int64        // largest number of reference timeouts that elapsed during a successful wait
	timerStuck         int
}

// c32RefChain is the logical clock of the timer-flush waits: a chain of
// reference timers of the same Go runtime, each with the duration of the
// buffer's flush timeout, armed one after the other (the next one is armed
// when the previous one fired). The chain is started after the Send whose
// flush is awaited returned, i.e. after the buffer's own flush timer had to be
// (re-)armed. The runtime fires timers in deadline order, so "K reference
// timers, each armed later and with the same duration, have fired one after
// the other and the batch is still pending" witnesses that the batch is not
// going to be flushed by its timer: the verdict counts timer firings, it does
// not read the wall clock.
type c32RefChain struct {
	d     time.Duration
	fired atomic.Int64
	stop  atomic.Bool
}

func c32StartRefChain(d time.Duration) *c32RefChain {
	c := &c32RefChain{d: d}
	c.arm()
	return c
}

func (c *c32RefChain) arm() {
	time.AfterFunc(c.d, func() {
		c.fired.Add(1)
		if !c.stop.Load() {
			c.arm()
		}
	})
}

// c32RefTimeouts (K): a pending batch must have been flushed by its timer
// long before K consecutive reference timeouts have elapsed (on the reference
// tree the most ever seen in ~135000 successful waits, on a loaded machine, was 72).
const c32RefTimeouts = 1500

// c32RunSeq drives one sequential case (the monitor is the only sender and the only reader).
func c32RunSeq(c c32Case) (*c32Trace, c32RunInfo) {
	timeout := time.Hour
	if c.Timer {
		timeout = time.Millisecond
	}
	mb := pubsub.NewMessageBuffer(logging.NoLog{}, c.QueueCap, c.MaxSize, timeout)
	t := &c32Trace{maxSize: c.MaxSize}
	var info c32RunInfo
	closed := false
	seq, tiny1, tiny2, empties := 0, 0, 0, 0
	readOne := func() bool { // non-blocking
		t.observe(mb.Queue)
		select {
		case b, ok := <-mb.Queue:
			if !ok {
				return false
			}
			t.batches = append(t.batches, c32Batch{raw: b, readObs: t.nObs - 1})
			return true
		default:
			return false
		}
	}
	delivered := func(msg []byte) bool {
		for i := len(t.batches) - 1; i >= 0; i-- {
			if ms, err := pubsub.ParseBatchMessage(t.batches[i].raw); err == nil {
				for _, m := range ms {
					if bytes.Equal(m, msg) {
						return true
					}
				}
			}
		}
		return false
	}
	doClose := func() {
		if closed {
			_ = mb.Close() // ErrClosed
			return
		}
		closed = true
		done := kit.Go(func() { _ = mb.Close() })
		res, _ := awaitCall(done, []string{"pubsub.(*MessageBuffer)", "pubsub.NewMessageBuffer"}, []string{"pubsub.(*MessageBuffer).Close"}, time.Second, c32Watchdog)
		switch res {
		case kit.Deadlock:
			info.closeDeadlock = true
		case kit.Unknown:
			info.inconclusive = "Close did not return within the watchdog"
		}
	}
	for _, op := range c.Ops {
		switch op.K {
		case "send":
			size := op.N
			// keep tiny contents unique
			switch size {
			case 0:
				if empties > 0 {
					size = 1
				}
			}
			if size == 1 && tiny1 >= 256 {
				size = 2
			}
			if size == 2 && tiny2 >= 65536 {
				size = 3
			}
			var msg []byte
			switch size {
			case 0:
				msg = []byte{}
			case 1:
				msg = c32Msg(1, 0, tiny1)
			case 2:
				msg = c32Msg(2, 0, tiny2)
			default:
				msg = c32Msg(size, 0, seq)
			}
			acc := t.nObs
			qBefore := len(mb.Queue)
			if err := mb.Send(msg); err == nil {
				t.accepted = append(t.accepted, c32Accepted{msg: msg, accObs: acc, grew: len(mb.Queue) > qBefore})
				switch size {
				case 0:
					empties++
				case 1:
					tiny1++
				case 2:
					tiny2++
				}
				seq++
			} else {
				info.rejected++
			}
		case "read":
			for k := 0; k < op.N; k++ {
				if !readOne() {
					break
				}
			}
		case "waitflush":
			// logical wait for the timer flush: only when the last accepted message cannot have been dropped
			// (the queue was not seen full since it was accepted and has room now)
			if !c.Timer || closed || len(t.accepted) == 0 || info.timerStuck > 0 {
				continue // (after one stuck batch was witnessed the case only goes on to Close)
			}
			last := t.accepted[len(t.accepted)-1]
			t.observe(mb.Queue)
			if t.fullBetween(last.accObs, t.nObs-1) || delivered(last.msg) {
				continue
			}
			// The buffer's flush timer for the pending batch was (re-)armed by a Send that has returned;
			// every reference timer is armed later and has the same duration.
			ref := c32StartRefChain(timeout)
			deadline := time.Now().Add(c32Watchdog)
			stuck := false
			for !delivered(last.msg) {
				if readOne() {
					continue
				}
				if n := ref.fired.Load(); n >= c32RefTimeouts {
					if readOne() { // observation made after the K-th reference timeout
						continue
					}
					stuck = true
					info.timerStuck++
					info.findings = append(info.findings, c32Finding{"C32/accepted-message-not-flushed-by-timer", fmt.Sprintf(
						"accepted message #%d (%d bytes) is still pending after %d consecutive reference timers of the flush timeout (%v), all armed after the Send returned, have fired; the buffer is open, the queue was never seen full since the message was accepted and is empty now (accepted so far: %v)",
						len(t.accepted)-1, len(last.msg), n, timeout, c32Sizes(t.accepted))})
					break
				}
				if time.Now().After(deadline) {
					info.inconclusive = "timer flush not observed within the watchdog"
					break
				}
				time.Sleep(200 * time.Microsecond)
			}
			ref.stop.Store(true)
			if n := ref.fired.Load(); !stuck && info.inconclusive == "" {
				if n > info.maxRefTimeouts {
					info.maxRefTimeouts = n
				}
				// which Send started the batch that carried the awaited message?
				if first := c32FirstOfBatchWith(t, last.msg); first != nil {
					for k := len(t.accepted) - 1; k >= 0; k-- {
						if bytes.Equal(t.accepted[k].msg, first) {
							if t.accepted[k].grew {
								info.overflowQuietWaits++
							}
							break
						}
					}
				}
			}
			info.timerFlushes++
		case "close":
			doClose()
		}
		if info.closeDeadlock || info.inconclusive != "" {
			break // the buffer lock is held forever by the hung Close: no further calls
		}
	}
	if !closed {
		doClose()
	}
	// drain what is left (the channel is closed unless Close hung)
	for {
		t.observe(mb.Queue)
		select {
		case b, ok := <-mb.Queue:
			if ok {
				t.batches = append(t.batches, c32Batch{raw: b, readObs: t.nObs - 1})
				continue
			}
		default:
		}
		break
	}
	return t, info
}

// c32FirstOfBatchWith returns the first message of the (latest) read batch that contains msg.
func c32FirstOfBatchWith(t *c32Trace, msg []byte) []byte {
	for i := len(t.batches) - 1; i >= 0; i-- {
		if ms, err := pubsub.ParseBatchMessage(t.batches[i].raw); err == nil {
			for _, m := range ms {
				if bytes.Equal(m, msg) {
					return ms[0]
				}
			}
		}
	}
	return nil
}

func c32GenSize(rng *rand.Rand, max int) int {
	switch rng.IntN(12) {
	case 0:
		return 0
	case 1:
		return 1 + rng.IntN(3)
	case 2, 3:
		return max - rng.IntN(5) // at / just below the limit
	case 4:
		return max + 1 + rng.IntN(3) // too large
	case 5, 6:
		return max/2 + rng.IntN(5) - 2
	case 7:
		return max / 3
	default:
		return rng.IntN(max + 1)
	}
}

var c32Maxes = []int{8, 16, 33, 64, 100, 126, 127, 128, 129, 130, 131, 200, 255, 256, 300, 1000, 16383, 16384, 16390, 20000}

func c32GenSeq(rng *rand.Rand) c32Case {
	c := c32Case{MaxSize: c32Maxes[rng.IntN(len(c32Maxes))], QueueCap: 1 + rng.IntN(6), Timer: rng.IntN(3) == 0}
	if rng.IntN(3) == 0 {
		c.QueueCap = 16 + rng.IntN(32)
	}
	ln := 3 + rng.IntN(30)
	for i := 0; i < ln; i++ {
		switch x := rng.IntN(20); {
		case x < 14:
			sz := c32GenSize(rng, c.MaxSize)
			if sz < 0 {
				sz = 0
			}
			c.Ops = append(c.Ops, c32Op{K: "send", N: sz})
		case x < 17:
			c.Ops = append(c.Ops, c32Op{K: "read", N: 1 + rng.IntN(3)})
		case x < 19:
			if c.Timer {
				c.Ops = append(c.Ops, c32Op{K: "waitflush"})
			} else {
				c.Ops = append(c.Ops, c32Op{K: "read", N: 8})
			}
		default:
			c.Ops = append(c.Ops, c32Op{K: "close"})
		}
	}
	return c
}

// c32GenOverflowQuiet generates the overflow-then-quiet scenario on a buffer
// with a flush timer: a non-empty pending batch, a Send that does not fit (the
// old batch is emitted by the overflow path and the new message starts the
// next batch), possibly a few tiny messages that still fit, then silence - no
// further overflow, no Close - until the timer must have flushed; 1..2 rounds,
// Close (explicit or implied) only at the end.
func c32GenOverflowQuiet(rng *rand.Rand) c32Case {
	c := c32Case{MaxSize: c32Maxes[rng.IntN(len(c32Maxes))], QueueCap: 6 + rng.IntN(40), Timer: true}
	half := func() int { return c.MaxSize/2 + rng.IntN(c.MaxSize/4+1) } // two of these never fit together, one always fits
	rounds := 1 + rng.IntN(2)
	for r := 0; r < rounds; r++ {
		switch rng.IntN(3) {
		case 0: // the pending batch is one message
			c.Ops = append(c.Ops, c32Op{K: "send", N: half()})
		case 1: // the pending batch is several small messages
			for k := 0; k < 2+rng.IntN(3); k++ {
				c.Ops = append(c.Ops, c32Op{K: "send", N: 1 + rng.IntN(c.MaxSize/8+1)})
			}
			c.Ops = append(c.Ops, c32Op{K: "send", N: c.MaxSize / 2})
		default: // left over from a previous overflow
			c.Ops = append(c.Ops, c32Op{K: "send", N: half()}, c32Op{K: "send", N: half()})
		}
		// the Send that does not fit
		if rng.IntN(4) == 0 {
			c.Ops = append(c.Ops, c32Op{K: "send", N: c.MaxSize - 3 - rng.IntN(3)}) // at the limit (may also be too large for small maxima)
		}
		c.Ops = append(c.Ops, c32Op{K: "send", N: half()})
		for k := rng.IntN(3); k > 0; k-- {
			c.Ops = append(c.Ops, c32Op{K: "send", N: rng.IntN(3)})
		}
		if rng.IntN(3) == 0 {
			c.Ops = append(c.Ops, c32Op{K: "read", N: 1 + rng.IntN(2)})
		}
		c.Ops = append(c.Ops, c32Op{K: "waitflush"})
	}
	if rng.IntN(2) == 0 {
		c.Ops = append(c.Ops, c32Op{K: "close"})
	}
	return c
}

// c32RunConc: several senders, one reader, queue large enough never to be full:
// every accepted message must be emitted exactly once, per sender in order.
func c32RunConc(c c32Case) (findings []c32Finding, st c32Stats, info c32RunInfo, batchLens []int) {
	timeout := time.Hour
	if c.Timer {
		timeout = time.Millisecond
	}
	total := 0
	for _, s := range c.Senders {
		total += len(s)
	}
	mb := pubsub.NewMessageBuffer(logging.NoLog{}, total+4, c.MaxSize, timeout)
	var mu sync.Mutex
	acceptedBy := make([][][]byte, len(c.Senders))
	var nAccepted atomic.Int64
	var sendersDone atomic.Int32
	var raws [][]byte
	readerDone := kit.Go(func() {
		for b := range mb.Queue {
			raws = append(raws, b)
		}
	})
	var wg sync.WaitGroup
	gate := make(chan struct{})
	for si, sizes := range c.Senders {
		wg.Add(1)
		go func(si int, sizes []int) {
			defer wg.Done()
			defer sendersDone.Add(1)
			<-gate
			for k, sz := range sizes {
				if sz < 4 {
					sz = 4
				}
				msg := c32Msg(sz, si+1, k)
				if err := mb.Send(msg); err == nil {
					mu.Lock()
					acceptedBy[si] = append(acceptedBy[si], msg)
					mu.Unlock()
					nAccepted.Add(1)
				}
			}
		}(si, sizes)
	}
	close(gate)
	if c.CloseAt > 0 {
		for nAccepted.Load() < int64(c.CloseAt) && sendersDone.Load() < int32(len(c.Senders)) {
			time.Sleep(20 * time.Microsecond)
		}
	} else {
		wg.Wait()
	}
	closeDone := kit.Go(func() { _ = mb.Close() })
	res, _ := awaitCall(closeDone, []string{"pubsub.(*MessageBuffer)", "pubsub.NewMessageBuffer"}, []string{"pubsub.(*MessageBuffer).Close"}, time.Second, c32Watchdog)
	wg.Wait()
	if res != kit.Returned {
		if res == kit.Deadlock {
			info.closeDeadlock = true
		} else {
			info.inconclusive = "Close did not return within the watchdog"
		}
		return // the reader never sees the channel closed; emission cannot be judged completely
	}
	<-readerDone
	add := func(k, f string, a ...any) { findings = append(findings, c32Finding{k, fmt.Sprintf(f, a...)}) }
	next := make([]int, len(c.Senders))
	for bi, raw := range raws {
		batchLens = append(batchLens, len(raw))
		st.batches++
		if len(raw) > st.maxBatch {
			st.maxBatch = len(raw)
		}
		msgs, err := pubsub.ParseBatchMessage(raw)
		if err != nil {
			add("C32/batch-undecodable", "emitted batch %d (%d bytes) does not decode: %v", bi, len(raw), err)
			continue
		}
		if len(raw) > c.MaxSize {
			kind := "multi-message"
			if len(msgs) == 1 {
				kind = "single-message"
			}
			add("C32/batch-exceeds-max-size/"+kind, "emitted batch %d encodes to %d bytes, configured maximum %d (%d messages)", bi, len(raw), c.MaxSize, len(msgs))
		}
		for _, m := range msgs {
			si := -1
			if len(m) >= 4 {
				si = int(m[0]) - 1
			}
			if si < 0 || si >= len(c.Senders) {
				add("C32/unexpected-message/never-accepted", "batch %d carries a message no sender sent", bi)
				continue
			}
			if next[si] >= len(acceptedBy[si]) || !bytes.Equal(acceptedBy[si][next[si]], m) {
				add("C32/unexpected-message/duplicate-or-reordered", "batch %d: message of sender %d is not that sender's next accepted message #%d", bi, si, next[si])
				continue
			}
			next[si]++
			st.emitted++
		}
	}
	for si := range c.Senders {
		st.accepted += len(acceptedBy[si])
		if next[si] != len(acceptedBy[si]) {
			add("C32/accepted-message-not-emitted", "sender %d: %d accepted messages, only %d emitted although the queue (capacity %d) can never have been full", si, len(acceptedBy[si]), next[si], total+4)
		}
	}
	return
}

func TestC32(t *testing.T) {
	r := kit.Start(t, "C32", "exploration")
	r.Rule("(1) sequential cases: a MessageBuffer with max size from a boundary-biased pool (8..20000, around the 1- and 2-byte length-prefix boundaries), queue capacity 1..47, flush timeout 1 ms or none; 3..32 ops send(size 0 / tiny / half / at and just below the limit / too large) | read up to n batches | logical wait for the timer flush | close anywhere; every 6th case is the overflow-then-quiet scenario (non-empty pending batch, a Send that does not fit, possibly tiny sends that fit, then silence and no Close until the flush timer must have emitted the batch; 1..2 rounds, then Close). The monitor is the only sender and reader and samples len(Queue) before every read. (2) concurrent cases: 2..5 senders x 3..40 messages, one reader, queue never full, Close after all senders or in the middle. (3) end-to-end cases over loopback websockets on random free ports: the real api/ws WebSocketClient (max size 64..65536, a few cases with 64-128 KiB messages and a peer that only starts reading after Close was called) sends 1..80 messages (RegisterRawTx with payloads biased to the limits, RegisterBlocks, bursts of batch-filling messages that leave a backlog of batches, short pauses, rarely one longer than the 50 ms flush timeout, often a small last message that only Close flushes) and is closed; the peer is a frame-recording gorilla/websocket server or the real pubsub.Server (message callback) and reads the connection to its end; and the reverse direction: the real pubsub.Server Connection.Send (1 ms flush timeout) + writePump to a frame-recording client, nothing closed until everything arrived. Oracle from the statement: decoded emitted batches = accepted messages, once and in order (per sender), missing runs only where the queue was observed full (end-to-end: the queue capacity exceeds the number of sends, so nothing may be missing); every batch/frame <= max size, decodes (and re-encodes to itself). Non-trivial = at least 2 messages accepted; distinct = distinct (kind, sizes, ops) of the case.")
	r.Assume(
		"a Send that returns an error did not accept the message; which sizes are accepted is not part of the property",
		"a dropped batch is justified when the queue was observed full at some queue observation between the acceptance of its first message and the read of the next emitted batch (the monitor is the only reader, so the queue length only grows between its reads)",
		"timer flushes are awaited logically: after the last Send returned the monitor arms a chain of reference timers of the same Go runtime, each with the buffer's flush timeout and armed when the previous one fired; the runtime fires timers in deadline order, so a batch that is still pending (buffer open, queue never seen full, queue empty) after 1500 consecutive later-armed reference timeouts have fired is reported as C32/accepted-message-not-flushed-by-timer (on the reference tree at most a few dozen elapse); the 45 s wall-clock watchdog only yields inconclusive",
		"end to end: a Register* call that returned nil accepted the message; after WebSocketClient.Close returned and the peer has read the connection to its end (TCP delivers everything written before the close), everything accepted must have arrived; in the server-to-client direction a missing tail is only inconclusive (watchdog), duplicates/reordering/gaps/oversized frames are violations",
		"liveness of Close is not part of the statement: a Close that blocks in timer.Stop while the timer callback waits for the buffer lock is counted (close_hangs_outside_statement) but not reported as a violation",
	)
	closeHangs, gaveUp := 0, false
	var maxRef int64 // most reference timeouts that elapsed during a successful timer-flush wait (margin to c32RefTimeouts)
	stuckTotal := 0  // witnessing one stuck batch takes c32RefTimeouts flush timeouts: two witnesses are enough
	nFindings := 0   // (kit keeps at most 3 witnesses per key, so r.Violations() alone does not bound the run)
	report := func(c c32Case, finds []c32Finding) {
		nFindings += len(finds)
		for _, f := range finds {
			r.Violation(f.key, c, "%s", f.detail)
		}
	}
	judgeSeq := func(c c32Case) {
		r.Eval()
		var tr *c32Trace
		var info c32RunInfo
		r.Guard("MessageBuffer", c, func() { tr, info = c32RunSeq(c) })
		if tr == nil {
			return
		}
		if info.inconclusive != "" {
			r.Inconclusive("%s (case %s)", info.inconclusive, c32Shape(c))
			gaveUp = true // a watchdog fired: the verdict is inconclusive anyway, do not spend more watchdogs
			return
		}
		if info.closeDeadlock {
			closeHangs++
			r.Count("close_hangs_outside_statement", 1)
		}
		finds, st := c32Judge(tr)
		finds = append(info.findings, finds...)
		stuckTotal += info.timerStuck
		w := c
		for _, a := range tr.accepted {
			w.Accepted = append(w.Accepted, len(a.msg))
		}
		for _, b := range tr.batches {
			w.BatchLens = append(w.BatchLens, len(b.raw))
		}
		report(w, finds)
		r.Count("seq_messages_accepted", st.accepted)
		r.Count("seq_messages_emitted", st.emitted)
		r.Count("seq_messages_dropped_with_full_queue", st.justifiedDrops)
		r.Count("seq_sends_rejected", info.rejected)
		r.Count("seq_batches", st.batches)
		r.Count("seq_batches_within_4_bytes_of_max", st.nearLimitBatches)
		r.Count("seq_timer_flush_waits", info.timerFlushes)
		r.Count("seq_timer_flush_waits_for_batch_started_by_overflowing_send", info.overflowQuietWaits)
		if info.maxRefTimeouts > maxRef {
			maxRef = info.maxRefTimeouts
		}
		if st.accepted >= 2 {
			r.Distinct(c32Shape(c))
			r.Sample(c)
		}
	}
	judgeConc := func(c c32Case) {
		r.Eval()
		var finds []c32Finding
		var st c32Stats
		var info c32RunInfo
		var lens []int
		r.Guard("MessageBuffer-concurrent", c, func() { finds, st, info, lens = c32RunConc(c) })
		if info.inconclusive != "" {
			r.Inconclusive("%s (case %s)", info.inconclusive, c32Shape(c))
			gaveUp = true
			return
		}
		if info.closeDeadlock {
			closeHangs++
			r.Count("close_hangs_outside_statement", 1)
			return
		}
		w := c
		w.BatchLens = lens
		report(w, finds)
		r.Count("conc_messages_accepted", st.accepted)
		r.Count("conc_messages_emitted", st.emitted)
		r.Count("conc_batches", st.batches)
		if st.accepted >= 2 {
			r.Distinct(c32Shape(c))
		}
	}
	var rawSrv *c32RawServer
	defer func() {
		if rawSrv != nil {
			rawSrv.hs.Close()
		}
	}()
	judgeE2E := func(c c32Case) {
		r.Eval()
		if rawSrv == nil {
			rawSrv = c32NewRawServer()
		}
		var res c32E2EResult
		ran := false
		r.Guard("websocket-end-to-end", c, func() {
			if c.E2E == "s2c" {
				res = c32RunS2C(c)
			} else {
				res = c32RunC2S(c, rawSrv)
			}
			ran = true
		})
		if !ran {
			return
		}
		if res.inconclusive != "" {
			r.Inconclusive("%s (case %s)", res.inconclusive, c32Shape(c))
			gaveUp = true
			return
		}
		finds, st, sizes := c32JudgeE2E(c, res)
		w := c
		for _, a := range res.accepted {
			w.Accepted = append(w.Accepted, len(a))
		}
		w.Received = sizes
		for _, f := range res.frames {
			w.BatchLens = append(w.BatchLens, len(f))
		}
		report(w, finds)
		r.Count("e2e_cases", 1)
		r.Count("e2e_cases_"+strings.ReplaceAll(c.E2E, "-", "_"), 1)
		if c.LateRead {
			r.Count("e2e_cases_peer_reads_only_after_close", 1)
		}
		r.Count("e2e_messages_accepted", len(res.accepted))
		r.Count("e2e_messages_received_by_peer", st.received)
		r.Count("e2e_sends_rejected", res.rejected)
		r.Count("e2e_frames_received_by_peer", st.frames)
		r.Count("e2e_frames_within_4_bytes_of_max", st.nearLimitFrames)
		if st.frames >= 4 {
			r.Count("e2e_cases_with_4_or_more_frames", 1)
		}
		if len(res.accepted) >= 2 {
			r.Distinct(c32Shape(c))
			if c.MaxSize < 1000 && len(c.Ops) < 12 {
				r.Sample(c)
			}
		}
	}
	if rf := r.Replay(); rf != nil && len(rf.Witness) > 0 {
		var c c32Case
		if err := jsonUnmarshal(rf.Witness, &c); err == nil && c.MaxSize > 0 {
			c.Accepted, c.BatchLens, c.Batches, c.Received = nil, nil, nil, nil
			tries := 20
			if c.E2E != "" {
				tries = 200 // the outcome depends on a race inside the client
			}
			for i := 0; i < tries && r.Violations() == 0; i++ {
				if c.E2E != "" {
					judgeE2E(c)
				} else if len(c.Senders) > 0 {
					judgeConc(c)
				} else {
					judgeSeq(c)
				}
			}
			r.Finish(0)
			return
		}
	}
	rng := r.Rand("sequential")
	n := r.N(6000, 180000)
	for i := 0; i < n && nFindings < 6 && stuckTotal < 2 && closeHangs < 20 && !gaveUp; i++ {
		if i%6 == 5 {
			judgeSeq(c32GenOverflowQuiet(rng))
		} else {
			judgeSeq(c32GenSeq(rng))
		}
	}
	r.Extra("timer_wait_reference_timeouts", map[string]int64{"max_elapsed_in_a_successful_wait": maxRef, "violation_threshold": c32RefTimeouts})
	crng := r.Rand("concurrent")
	m := r.N(600, 30000)
	for i := 0; i < m && nFindings < 6 && closeHangs < 20 && !gaveUp; i++ {
		c := c32Case{MaxSize: c32Maxes[crng.IntN(len(c32Maxes))], Timer: crng.IntN(2) == 0}
		if c.MaxSize < 16 {
			c.MaxSize = 16
		}
		total := 0
		for s := 0; s < 2+crng.IntN(4); s++ {
			var sizes []int
			for k := 0; k < 3+crng.IntN(38); k++ {
				sizes = append(sizes, c32GenSize(crng, c.MaxSize))
			}
			total += len(sizes)
			c.Senders = append(c.Senders, sizes)
		}
		if crng.IntN(3) == 0 {
			c.CloseAt = 1 + crng.IntN(total)
		}
		judgeConc(c)
	}
	erng := r.Rand("end-to-end")
	e := r.N(400, 10000)
	nBig := r.N(2, 20) // c2s-raw cases with a few MB of 64-128 KiB messages (slow under -race)
	for i := 0; i < e && nFindings < 6 && !gaveUp; i++ {
		kind := []string{"c2s-raw", "c2s-raw", "c2s-pubsub", "c2s-raw", "s2c"}[i%5]
		judgeE2E(c32GenE2E(erng, kind, kind == "c2s-raw" && i/5 < nBig && i%5 == 0))
	}
	if r.Violations() > 0 || gaveUp {
		r.Finish(0) // cut short
		return
	}
	r.Finish(1000)
}
