package concx

import (
	"encoding/json"
	"hash/fnv"
	"strings"
	"time"

	"github.com/ava-labs/hypersdk/zzverif/kit"
)

func jsonUnmarshal(b []byte, v any) error { return json.Unmarshal(b, v) }

func fnv64(s string) uint64 {
	h := fnv.New64a()
	_, _ = h.Write([]byte(s))
	return h.Sum64()
}

// awaitCall waits for done (closed when the awaited call into the code under
// test returned). A Deadlock verdict of the quiescence detector is only
// accepted when (a) the stack dump shows the awaited call itself parked inside
// the code under test (every fragment of mustSee appears in the dump) and
// (b) a second, independent quiescence observation agrees; anything else is
// Unknown (inconclusive). No verdict depends on how long the call took.
func awaitCall(done <-chan struct{}, pkgs []string, mustSee []string, grace, watchdog time.Duration) (kit.WaitResult, string) {
	res, stacks := kit.AwaitOrDeadlock(done, pkgs, grace, watchdog)
	if res != kit.Deadlock {
		return res, stacks
	}
	for _, f := range mustSee {
		if !strings.Contains(stacks, f) {
			// quiescent, but the awaited call is not (yet) parked where we expect it
			res2, stacks2 := kit.AwaitOrDeadlock(done, pkgs, grace, watchdog)
			if res2 != kit.Deadlock {
				return res2, stacks2
			}
			if !strings.Contains(stacks2, f) {
				return kit.Unknown, stacks2
			}
			stacks = stacks2
		}
	}
	// confirm with a second observation
	res2, stacks2 := kit.AwaitOrDeadlock(done, pkgs, 100*time.Millisecond, watchdog)
	if res2 != kit.Deadlock {
		return res2, stacks2
	}
	return kit.Deadlock, trimStacks(stacks2, pkgs)
}

// trimStacks keeps only the goroutines whose stack mentions one of pkgs
// (the witness), to keep replay files small.
func trimStacks(all string, pkgs []string) string {
	var keep []string
	for _, g := range strings.Split(all, "\n\n") {
		for _, p := range pkgs {
			if strings.Contains(g, p) {
				keep = append(keep, g)
				break
			}
		}
	}
	out := strings.Join(keep, "\n\n")
	if len(out) > 24000 {
		out = out[:24000] + "\n…"
	}
	return out
}
