package concx

import (
	"fmt"
	"math/rand/v2"
	"runtime"
	"sort"
	"strings"
	"sync"
	"testing"
	"time"

	"github.com/anishathalye/porcupine"
	"github.com/ava-labs/avalanchego/ids"
	"github.com/ava-labs/avalanchego/utils/set"

	"github.com/ava-labs/hypersdk/internal/eheap"
	"github.com/ava-labs/hypersdk/internal/emap"
	"github.com/ava-labs/hypersdk/internal/heap"
	"github.com/ava-labs/hypersdk/zzverif/kit"
)

type exItem struct {
	id  ids.ID
	exp int64
}

func (e exItem) GetID() ids.ID    { return e.id }
func (e exItem) GetExpiry() int64 { return e.exp }

func exID(i int) ids.ID { return ids.ID{byte(i + 1), 0x25} }

// c25Op is one step of a history (JSON witness). IDs and Exps are parallel.
//
//	emap:  add(IDs,Exps) any(IDs) contains(IDs,Marker,Stop) setmin(T)
//	eheap: add(ID,Exp) has(ID) remove(ID) peek pop setmin(T) len
//	heap:  push(ID,Val) pop remove(Index) first get(ID) has(ID)
type c25Op struct {
	K      string  `json:"op"`
	IDs    []int   `json:"ids,omitempty"`
	Exps   []int64 `json:"exps,omitempty"`
	T      int64   `json:"t,omitempty"`
	Marker []int   `json:"marker,omitempty"`
	Stop   bool    `json:"stop,omitempty"`
}

type c25Case struct {
	Kind    string      `json:"kind"` // emap | eheap | minheap | maxheap | emap-concurrent
	Ops     []c25Op     `json:"ops,omitempty"`
	History []c25HistOp `json:"history,omitempty"`
}

type c25HistOp struct {
	Client int    `json:"client"`
	Op     c25Op  `json:"op"`
	Out    string `json:"out"`
	Call   int64  `json:"call"`
	Ret    int64  `json:"ret"`
}

func c25Shape(c c25Case) string {
	var b strings.Builder
	b.WriteString(c.Kind)
	for _, o := range c.Ops {
		fmt.Fprintf(&b, "|%s%v%v%d%v%v", o.K, o.IDs, o.Exps, o.T, o.Marker, o.Stop)
	}
	return b.String()
}

func sortedInts(l []int) []int {
	o := append([]int{}, l...)
	sort.Ints(o)
	return o
}

// ---- EMap: model = map id -> expiry (expiry 0 never tracked) ----

type emModel map[int]int64

func (m emModel) add(ids []int, exps []int64) {
	for i, id := range ids {
		if exps[i] == 0 {
			continue
		}
		if _, ok := m[id]; !ok {
			m[id] = exps[i]
		}
	}
}

func (m emModel) setMin(t int64) []int {
	var out []int
	for id, e := range m {
		if e < t {
			out = append(out, id)
		}
	}
	for _, id := range out {
		delete(m, id)
	}
	return sortedInts(out)
}

func (m emModel) any(ids []int) bool {
	for _, id := range ids {
		if _, ok := m[id]; ok {
			return true
		}
	}
	return false
}

// contains returns the indices that must be marked afterwards.
func (m emModel) contains(ids []int, marker []int, stop bool) []int {
	marked := map[int]bool{}
	for _, i := range marker {
		marked[i] = true
	}
	for i, id := range ids {
		if marked[i] {
			continue
		}
		if _, ok := m[id]; ok {
			marked[i] = true
			if stop {
				break
			}
		}
	}
	var out []int
	for i := range marked {
		out = append(out, i)
	}
	return sortedInts(out)
}

func exItems(ids []int, exps []int64) []exItem {
	var out []exItem
	for i, id := range ids {
		e := int64(1)
		if i < len(exps) {
			e = exps[i]
		}
		out = append(out, exItem{exID(id), e})
	}
	return out
}

func idOf(id ids.ID) int { return int(id[0]) - 1 }

// emApply runs one op on the real EMap and renders the answer canonically.
func emApply(e *emap.EMap[exItem], o c25Op) string {
	switch o.K {
	case "add":
		e.Add(exItems(o.IDs, o.Exps))
		return ""
	case "any":
		return fmt.Sprint(e.Any(exItems(o.IDs, nil)))
	case "contains":
		bits := e.Contains(exItems(o.IDs, nil), set.NewBits(o.Marker...), o.Stop)
		var got []int
		for i := 0; i < len(o.IDs)+8; i++ {
			if bits.Contains(i) {
				got = append(got, i)
			}
		}
		return fmt.Sprint(got)
	case "setmin":
		var got []int
		for _, id := range e.SetMin(o.T) {
			got = append(got, idOf(id))
		}
		return fmt.Sprint(sortedInts(got))
	}
	return "?"
}

func emExpect(m emModel, o c25Op) string {
	switch o.K {
	case "add":
		m.add(o.IDs, o.Exps)
		return ""
	case "any":
		return fmt.Sprint(m.any(o.IDs))
	case "contains":
		return fmt.Sprint(m.contains(o.IDs, o.Marker, o.Stop))
	case "setmin":
		return fmt.Sprint(m.setMin(o.T))
	}
	return "?"
}

const c25IDs = 8

func c25RunEMap(c c25Case) (string, string) {
	e := emap.NewEMap[exItem]()
	m := emModel{}
	var tr []string
	for _, o := range c.Ops {
		got := emApply(e, o)
		want := emExpect(m, o)
		tr = append(tr, fmt.Sprintf("%s%v%v t=%d -> %s", o.K, o.IDs, o.Exps, o.T, got))
		if got != want {
			return "C25/emap-" + o.K, fmt.Sprintf("history %v: EMap answered %s, a set ordered by expiry answers %s", tr, got, want)
		}
		// membership of every id after every step
		for id := 0; id < c25IDs; id++ {
			_, in := m[id]
			if e.Any([]exItem{{exID(id), 1}}) != in {
				return "C25/emap-membership", fmt.Sprintf("history %v: membership of id %d is %v, want %v", tr, id, !in, in)
			}
		}
	}
	return "", ""
}

// ---- ExpiryHeap: model = map id -> expiry ----

func c25RunEHeap(c c25Case) (string, string) {
	h := eheap.New[exItem](0)
	m := map[int]int64{}
	var tr []string
	minOf := func() (int64, bool) {
		first := true
		var mn int64
		for _, e := range m {
			if first || e < mn {
				mn, first = e, false
			}
		}
		return mn, !first
	}
	for _, o := range c.Ops {
		bad := ""
		desc := o.K
		switch o.K {
		case "add":
			desc = fmt.Sprintf("add(%d@%d)", o.IDs[0], o.Exps[0])
			h.Add(exItem{exID(o.IDs[0]), o.Exps[0]})
			if _, ok := m[o.IDs[0]]; !ok {
				m[o.IDs[0]] = o.Exps[0]
			}
		case "remove":
			desc = fmt.Sprintf("remove(%d)", o.IDs[0])
			it, ok := h.Remove(exID(o.IDs[0]))
			want, had := m[o.IDs[0]]
			if ok != had || (ok && (idOf(it.id) != o.IDs[0] || it.exp != want)) {
				bad = fmt.Sprintf("Remove returned (%d@%d,%v), want present=%v expiry=%d", idOf(it.id), it.exp, ok, had, want)
			}
			delete(m, o.IDs[0])
		case "peek", "pop":
			var it exItem
			var ok bool
			if o.K == "peek" {
				it, ok = h.PeekMin()
			} else {
				it, ok = h.PopMin()
			}
			mn, any := minOf()
			switch {
			case ok != any:
				bad = fmt.Sprintf("%s returned ok=%v on a set of %d", o.K, ok, len(m))
			case ok:
				if e, had := m[idOf(it.id)]; !had || e != it.exp || it.exp != mn {
					bad = fmt.Sprintf("%s returned %d@%d, the minimum expiry is %d (held=%v)", o.K, idOf(it.id), it.exp, mn, had)
				}
				if o.K == "pop" {
					delete(m, idOf(it.id))
				}
			}
		case "setmin":
			desc = fmt.Sprintf("setmin(%d)", o.T)
			var got, want []int
			for _, it := range h.SetMin(o.T) {
				got = append(got, idOf(it.id))
			}
			for id, e := range m {
				if e < o.T {
					want = append(want, id)
				}
			}
			for _, id := range want {
				delete(m, id)
			}
			if fmt.Sprint(sortedInts(got)) != fmt.Sprint(sortedInts(want)) {
				bad = fmt.Sprintf("SetMin(%d) removed %v, want %v", o.T, sortedInts(got), sortedInts(want))
			}
		}
		tr = append(tr, desc)
		if bad == "" && h.Len() != len(m) {
			bad = fmt.Sprintf("Len()=%d, want %d", h.Len(), len(m))
		}
		for id := 0; id < c25IDs && bad == ""; id++ {
			if _, in := m[id]; h.Has(exID(id)) != in {
				bad = fmt.Sprintf("Has(%d)=%v, want %v", id, !in, in)
			}
		}
		if bad == "" {
			it, ok := h.PeekMin()
			mn, any := minOf()
			if ok != any || (ok && it.exp != mn) {
				bad = fmt.Sprintf("PeekMin()=(%d@%d,%v), minimum expiry of the set is %d (non-empty=%v)", idOf(it.id), it.exp, ok, mn, any)
			}
		}
		if bad != "" {
			return "C25/eheap-" + o.K, fmt.Sprintf("history %v: %s", tr, bad)
		}
	}
	return "", ""
}

// ---- generic heap (min and max) ----

func c25RunHeap(c c25Case) (string, string) {
	isMin := c.Kind == "minheap"
	h := heap.New[int, int64](0, isMin)
	m := map[int]int64{}
	var tr []string
	best := func() (int64, bool) {
		first := true
		var b int64
		for _, v := range m {
			if first || (isMin && v < b) || (!isMin && v > b) {
				b, first = v, false
			}
		}
		return b, !first
	}
	for _, o := range c.Ops {
		bad := ""
		desc := o.K
		switch o.K {
		case "push":
			desc = fmt.Sprintf("push(%d=%d)", o.IDs[0], o.Exps[0])
			h.Push(&heap.Entry[int, int64]{ID: exID(o.IDs[0]), Item: o.IDs[0], Val: o.Exps[0], Index: h.Len()})
			if _, ok := m[o.IDs[0]]; !ok {
				m[o.IDs[0]] = o.Exps[0]
			}
		case "pop":
			e := h.Pop()
			b, any := best()
			switch {
			case (e != nil) != any:
				bad = fmt.Sprintf("Pop returned nil=%v on %d entries", e == nil, len(m))
			case e != nil:
				if v, had := m[e.Item]; !had || v != e.Val || e.Val != b {
					bad = fmt.Sprintf("Pop returned %d=%d, the first value is %d (held=%v)", e.Item, e.Val, b, had)
				}
				delete(m, e.Item)
			}
		case "remove":
			idx := int(o.T)
			desc = fmt.Sprintf("remove(#%d)", idx)
			var want *heap.Entry[int, int64]
			if items := h.Items(); idx < len(items) {
				want = items[idx]
			}
			e := h.Remove(idx)
			if e != want {
				bad = fmt.Sprintf("Remove(%d) returned %v, the entry at that index was %v", idx, e, want)
			} else if e != nil {
				if v, had := m[e.Item]; !had || v != e.Val {
					bad = fmt.Sprintf("Remove(%d) returned %d=%d which the set does not hold like that", idx, e.Item, e.Val)
				}
				delete(m, e.Item)
			}
		}
		tr = append(tr, desc)
		if bad == "" && h.Len() != len(m) {
			bad = fmt.Sprintf("Len()=%d, want %d", h.Len(), len(m))
		}
		for id := 0; id < c25IDs && bad == ""; id++ {
			v, in := m[id]
			e, ok := h.Get(exID(id))
			if ok != in || h.Has(exID(id)) != in {
				bad = fmt.Sprintf("Get/Has(%d)=%v, want %v", id, ok, in)
			} else if ok {
				items := h.Items()
				if e.Val != v || e.Index < 0 || e.Index >= len(items) || items[e.Index] != e {
					bad = fmt.Sprintf("entry of id %d has value %d index %d; want value %d and Items()[index] to be the entry", id, e.Val, e.Index, v)
				}
			}
		}
		if bad == "" {
			f := h.First()
			b, any := best()
			if (f != nil) != any || (f != nil && f.Val != b) {
				bad = fmt.Sprintf("First()=%v, want value %d (non-empty=%v)", f, b, any)
			}
		}
		if bad != "" {
			return "C25/" + c.Kind + "-" + o.K, fmt.Sprintf("history %v: %s", tr, bad)
		}
	}
	return "", ""
}

// ---- generators ----

func c25IDList(rng *rand.Rand, maxN int) ([]int, []int64) {
	n := 1 + rng.IntN(maxN)
	var l []int
	var e []int64
	sharedExp := c25Exp(rng)
	for i := 0; i < n; i++ {
		l = append(l, rng.IntN(c25IDs))
		if rng.IntN(2) == 0 {
			e = append(e, sharedExp) // many ids sharing an expiry
		} else {
			e = append(e, c25Exp(rng))
		}
	}
	return l, e
}

func c25GenEMapOp(rng *rand.Rand) c25Op {
	switch x := rng.IntN(10); {
	case x < 5:
		l, e := c25IDList(rng, 4)
		return c25Op{K: "add", IDs: l, Exps: e}
	case x < 7:
		return c25Op{K: "setmin", T: c25Exp(rng) + int64(rng.IntN(2))}
	case x < 8:
		l, _ := c25IDList(rng, 3)
		return c25Op{K: "any", IDs: l}
	default:
		l, _ := c25IDList(rng, 4)
		var mk []int
		for i := range l {
			if rng.IntN(4) == 0 {
				mk = append(mk, i)
			}
		}
		return c25Op{K: "contains", IDs: l, Marker: mk, Stop: rng.IntN(2) == 0}
	}
}

func c25Gen(rng *rand.Rand, kind string) c25Case {
	c := c25Case{Kind: kind}
	ln := 3 + rng.IntN(20)
	if rng.IntN(10) == 0 {
		ln = 20 + rng.IntN(60)
	}
	size := 0 // rough size, to aim removals by index
	for s := 0; s < ln; s++ {
		switch kind {
		case "emap":
			c.Ops = append(c.Ops, c25GenEMapOp(rng))
		case "eheap":
			switch x := rng.IntN(12); {
			case x < 5:
				c.Ops = append(c.Ops, c25Op{K: "add", IDs: []int{rng.IntN(c25IDs)}, Exps: []int64{c25Exp(rng)}})
			case x < 8:
				c.Ops = append(c.Ops, c25Op{K: "remove", IDs: []int{rng.IntN(c25IDs)}})
			case x < 9:
				c.Ops = append(c.Ops, c25Op{K: "peek"})
			case x < 10:
				c.Ops = append(c.Ops, c25Op{K: "pop"})
			default:
				c.Ops = append(c.Ops, c25Op{K: "setmin", T: c25Exp(rng) + int64(rng.IntN(2))})
			}
		default:
			switch x := rng.IntN(10); {
			case x < 5:
				c.Ops = append(c.Ops, c25Op{K: "push", IDs: []int{rng.IntN(c25IDs)}, Exps: []int64{c25Exp(rng)}})
				size++
			case x < 7:
				c.Ops = append(c.Ops, c25Op{K: "pop"})
				size = max(0, size-1)
			default:
				c.Ops = append(c.Ops, c25Op{K: "remove", T: int64(rng.IntN(size + 2))})
				size = max(0, size-1)
			}
		}
	}
	return c
}

// ---- concurrent EMap histories ----

// state of the sequential specification: canonical "id@exp," list sorted by id
func emStateString(m emModel) string {
	var ks []int
	for id := range m {
		ks = append(ks, id)
	}
	sort.Ints(ks)
	var b strings.Builder
	for _, id := range ks {
		fmt.Fprintf(&b, "%d@%d,", id, m[id])
	}
	return b.String()
}

func emParse(s string) emModel {
	m := emModel{}
	for _, p := range strings.Split(s, ",") {
		var id int
		var e int64
		if _, err := fmt.Sscanf(p, "%d@%d", &id, &e); err == nil {
			m[id] = e
		}
	}
	return m
}

var c25Porcupine = porcupine.Model{
	Init: func() interface{} { return "" },
	Step: func(state, input, output interface{}) (bool, interface{}) {
		m := emParse(state.(string))
		want := emExpect(m, input.(c25Op))
		return want == output.(string), emStateString(m)
	},
	DescribeOperation: func(in, out interface{}) string {
		o := in.(c25Op)
		return fmt.Sprintf("%s%v%v t=%d -> %s", o.K, o.IDs, o.Exps, o.T, out.(string))
	},
}

func c25RunConc(rng *rand.Rand) []c25HistOp {
	e := emap.NewEMap[exItem]()
	var clock kit.Clock
	var mu sync.Mutex
	var hist []c25HistOp
	gate := make(chan struct{})
	var wg sync.WaitGroup
	nClients := 2 + rng.IntN(5)
	for cl := 0; cl < nClients; cl++ {
		var ops []c25Op
		var yields []int
		for k := 0; k < 2+rng.IntN(5); k++ {
			ops = append(ops, c25GenEMapOp(rng))
			yields = append(yields, rng.IntN(4))
		}
		wg.Add(1)
		go func(cl int, ops []c25Op) {
			defer wg.Done()
			<-gate
			for k, o := range ops {
				call := clock.Tick()
				if yields[k] == 0 {
					runtime.Gosched() // widen the window between invocation stamp and call
				}
				out := emApply(e, o)
				ret := clock.Tick()
				mu.Lock()
				hist = append(hist, c25HistOp{Client: cl, Op: o, Out: out, Call: call, Ret: ret})
				mu.Unlock()
			}
		}(cl, ops)
	}
	close(gate)
	wg.Wait()
	sort.Slice(hist, func(i, j int) bool { return hist[i].Call < hist[j].Call })
	return hist
}

func c25CheckHistory(hist []c25HistOp) (porcupine.CheckResult, int) {
	var ops []porcupine.Operation
	overlaps := 0
	for i, h := range hist {
		ops = append(ops, porcupine.Operation{ClientId: h.Client, Input: h.Op, Call: h.Call, Output: h.Out, Return: h.Ret})
		for j := 0; j < i; j++ {
			if hist[j].Ret > h.Call && hist[j].Client != h.Client {
				overlaps++
			}
		}
	}
	return porcupine.CheckOperationsTimeout(c25Porcupine, ops, 60*time.Second), overlaps
}

func c25Judge(c c25Case) (string, string) {
	switch c.Kind {
	case "emap":
		return c25RunEMap(c)
	case "eheap":
		return c25RunEHeap(c)
	case "minheap", "maxheap":
		return c25RunHeap(c)
	}
	return "C25/bad-case", "unknown kind " + c.Kind
}

func TestC25(t *testing.T) {
	r := kit.Start(t, "C25", "exploration")
	r.Rule("sequential histories of 3..80 ops over 8 ids and expiries 0..6 (duplicate ids with different expiries, many ids per expiry, expiry 0) on EMap (Add/Any/Contains with markers and stop/SetMin), ExpiryHeap (Add/Has/Remove/PeekMin/PopMin/SetMin/Len) and the generic min- and max-heap (Push/Pop/Remove(index)/First/Get/Has/Items); after every op every answer, the membership of every id, Len and the minimum are compared with a plain map id->expiry; plus concurrent EMap histories (2..6 clients x 2..6 ops, one atomic logical clock) checked linearizable against the same map with porcupine. Every history is non-trivial (it mutates the set); distinct = distinct (structure, op sequence) resp. distinct recorded history with overlapping calls.")
	r.Assume(
		"first Add of an id wins: a later Add of the same id with another expiry is ignored (idempotent per id)",
		"EMap ignores expiry 0 (statement: non-zero expiry only)",
		"ties: any entry with the minimum expiry may be returned by PeekMin/PopMin/First/Pop",
		"heap.Push is called with Entry.Index = Len() as ExpiryHeap and EMap do",
	)
	if rf := r.Replay(); rf != nil && len(rf.Witness) > 0 {
		var c c25Case
		if err := jsonUnmarshal(rf.Witness, &c); err == nil && c.Kind != "" {
			r.Eval()
			if c.Kind == "emap-concurrent" {
				if res, _ := c25CheckHistory(c.History); res == porcupine.Illegal {
					r.Violation("C25/emap-not-linearizable", c, "recorded concurrent EMap history is not linearizable")
				}
			} else {
				var key, d string
				r.Guard(c.Kind, c, func() { key, d = c25Judge(c) })
				if key != "" {
					r.Violation(key, c, "%s", d)
				}
			}
			r.Finish(0)
			return
		}
	}
	rng := r.Rand("sequential")
	n := r.N(60000, 1200000)
	kinds := []string{"emap", "eheap", "minheap", "maxheap", "emap", "eheap"}
	for i := 0; i < n && r.Violations() < 10; i++ {
		c := c25Gen(rng, kinds[i%len(kinds)])
		r.Eval()
		var key, d string
		r.Guard(c.Kind, c, func() { key, d = c25Judge(c) })
		if key != "" {
			r.Violation(key, c, "%s", d)
		}
		r.Count("histories_"+c.Kind, 1)
		r.Count("ops_compared", len(c.Ops))
		r.Distinct(c25Shape(c))
		if i%997 == 0 {
			r.Sample(c)
		}
	}
	crng := r.Rand("concurrent")
	m := r.N(4000, 60000)
	for i := 0; i < m && r.Violations() < 10; i++ {
		r.Eval()
		var hist []c25HistOp
		r.Guard("emap-concurrent", nil, func() { hist = c25RunConc(crng) })
		if hist == nil {
			continue
		}
		res, overlaps := c25CheckHistory(hist)
		r.Count("conc_ops", len(hist))
		r.Count("conc_overlapping_call_pairs", overlaps)
		switch res {
		case porcupine.Illegal:
			r.Violation("C25/emap-not-linearizable", c25Case{Kind: "emap-concurrent", History: hist}, "concurrent EMap history of %d calls is not linearizable w.r.t. a set ordered by expiry", len(hist))
		case porcupine.Unknown:
			r.Inconclusive("porcupine timed out on an EMap history of %d calls", len(hist))
		}
		if overlaps > 0 {
			var b strings.Builder
			for _, h := range hist {
				fmt.Fprintf(&b, "%d:%s%v%v%d->%s|", h.Client, h.Op.K, h.Op.IDs, h.Op.Exps, h.Op.T, h.Out)
			}
			r.Distinct("conc", b.String())
		}
	}
	if r.Violations() > 0 {
		r.Finish(0) // cut short by the violation cap
		return
	}
	r.Finish(5000)
}

// c25Exp draws an expiry: mostly 0..6, sometimes negative (a non-zero expiry like any other).
func c25Exp(rng *rand.Rand) int64 {
	if rng.IntN(5) == 0 {
		return -int64(1 + rng.IntN(3))
	}
	return int64(rng.IntN(7))
}
