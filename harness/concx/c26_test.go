package concx

import (
	"errors"
	"fmt"
	"math/rand/v2"
	"runtime"
	"sort"
	"strings"
	"sync"
	"sync/atomic"
	"testing"
	"time"

	"github.com/ava-labs/hypersdk/internal/workers"
	"github.com/ava-labs/hypersdk/zzverif/kit"
)

// ---- case description (JSON witness) ----

type c26Job struct {
	Tasks    int   `json:"tasks"`
	Fail     []int `json:"fail,omitempty"`      // indices of failing tasks
	Backlog  int   `json:"backlog"`             // NewJob(taskBacklog)
	DelayMix int   `json:"delay_mix,omitempty"` // which delay profile the task bodies use
	Callback bool  `json:"callback,omitempty"`  // Done(f) with a completion callback
	// Late jobs (only mode "par" with stop "conc", always after the regular jobs) are submitted by a second
	// goroutine, one after the other after LateYields yields each, concurrently with Stop.
	Late       bool `json:"late,omitempty"`
	LateYields int  `json:"late_yields,omitempty"`
	// mode "waitfirst": yields of the filling goroutine before its first Go and between Gos
	FillYields int `json:"fill_yields,omitempty"`
}

type c26Case struct {
	Serial  bool     `json:"serial,omitempty"`
	Workers int      `json:"workers"`
	MaxJobs int      `json:"max_jobs"`
	Jobs    []c26Job `json:"jobs"`
	// Mode: "seq" = NewJob, Go…, Done, Wait one job after the other;
	// "pipe" = all jobs are created, filled and Done first, then waited;
	// "par" = jobs are created in order, then one goroutine per job fills, Dones and Waits it;
	// "waitfirst" = per job the driver calls Wait right after NewJob while a second goroutine adds the tasks and calls Done.
	Mode string `json:"mode"`
	// Stop: "end" = after every job was waited; "mid" = from the driver after all jobs are Done, before any Wait
	// (modes pipe/par); "conc" = from a concurrent goroutine after StopYields yields while the jobs are being filled.
	Stop       string `json:"stop"`
	StopYields int    `json:"stop_yields,omitempty"`
	Seed       uint64 `json:"seed"` // PRNG seed of the per-task delays
}

func c26Shape(c c26Case) string {
	var b strings.Builder
	fmt.Fprintf(&b, "ser=%v w=%d mj=%d %s %s|", c.Serial, c.Workers, c.MaxJobs, c.Mode, c.Stop)
	for _, j := range c.Jobs {
		fmt.Fprintf(&b, "%d/%v/%d/%v/%v;", j.Tasks, j.Fail, j.Backlog, j.Callback, j.Late)
	}
	return b.String()
}

var c26Delays = [][]int{{0}, {0, 1, 2, 3}, {0, 0, 1, 4}, {3, 4, 5}, {0, 0, 0, 0, 5}}

// ---- observation ----

type c26JobObs struct {
	created    bool
	newJobErr  error
	counts     []atomic.Int32
	start, end []atomic.Int64
	doneLo     atomic.Int64 // logical time just before Done was called
	waited     atomic.Bool
	waitErr    error // valid when waited
	waitTick   int64
	cbCount    atomic.Int32
	cbTick     atomic.Int64
	cbDone     chan struct{}
}

type c26Obs struct {
	clock        kit.Clock
	jobs         []*c26JobObs
	stopLo       atomic.Int64
	stopHi       atomic.Int64
	futureErr    error // NewJob after Stop returned
	futureJobNil bool
	futureTried  bool

	mu     sync.Mutex
	phases map[string]string // driver goroutine -> call it is currently inside ("" = none)
	panics []string          // "<call>: <panic value>" of driver goroutines that panicked inside the code under test
}

// guard runs f (one driver goroutine's part of the scenario) and records a
// panic together with the call into internal/workers it happened in.
func (o *c26Obs) guard(g string, f func()) {
	defer func() {
		if p := recover(); p != nil {
			o.mu.Lock()
			o.panics = append(o.panics, fmt.Sprintf("%s: %v", o.phases[g], p))
			o.phases[g] = ""
			o.mu.Unlock()
		}
	}()
	f()
}

func (o *c26Obs) panicked() []string {
	o.mu.Lock()
	defer o.mu.Unlock()
	return append([]string(nil), o.panics...)
}

func (o *c26Obs) enter(g, call string) {
	o.mu.Lock()
	o.phases[g] = call
	o.mu.Unlock()
}

func (o *c26Obs) blockedIn() []string {
	o.mu.Lock()
	defer o.mu.Unlock()
	var out []string
	for _, c := range o.phases {
		if c != "" {
			out = append(out, c)
		}
	}
	sort.Strings(out)
	return out
}

var c26TaskErrs []error

func init() {
	for i := 0; i < 256; i++ {
		c26TaskErrs = append(c26TaskErrs, fmt.Errorf("job task %d failed", i))
	}
}

func c26TaskErr(job, task int) error { return fmt.Errorf("job %d: %w", job, c26TaskErrs[task%256]) }

// c26Drive runs the scenario against a fresh pool. It may block forever on
// broken code: the caller runs it in a goroutine and awaits it with the
// quiescence detector.
func c26Drive(c c26Case, o *c26Obs) {
	var w workers.Workers
	if c.Serial {
		w = workers.NewSerial()
	} else {
		w = workers.NewParallel(c.Workers, c.MaxJobs)
	}
	rng := rand.New(rand.NewPCG(c.Seed, 26))
	jobs := make([]workers.Job, len(c.Jobs))
	delays := make([][]int, len(c.Jobs))
	failSet := make([]map[int]bool, len(c.Jobs))
	for ji, j := range c.Jobs {
		mix := c26Delays[j.DelayMix%len(c26Delays)]
		delays[ji] = make([]int, j.Tasks)
		for t := range delays[ji] {
			delays[ji][t] = mix[rng.IntN(len(mix))]
		}
		failSet[ji] = map[int]bool{}
		for _, f := range j.Fail {
			failSet[ji][f] = true
		}
	}
	newJob := func(g string, ji int) bool {
		o.enter(g, "Workers).NewJob")
		j, err := w.NewJob(c.Jobs[ji].Backlog)
		o.enter(g, "")
		o.jobs[ji].newJobErr = err
		if err != nil || j == nil {
			return false
		}
		jobs[ji] = j
		o.jobs[ji].created = true
		return true
	}
	fill := func(g string, ji int) {
		jo := o.jobs[ji]
		for t := 0; t < c.Jobs[ji].Tasks; t++ {
			t := t
			d := delays[ji][t]
			fail := failSet[ji][t]
			if c.Mode == "waitfirst" {
				for k := 0; k < c.Jobs[ji].FillYields; k++ {
					runtime.Gosched()
				}
			}
			o.enter(g, "Job).Go")
			jobs[ji].Go(func() error {
				jo.counts[t].Add(1)
				jo.start[t].Store(o.clock.Tick())
				c08Delay(d)
				jo.end[t].Store(o.clock.Tick())
				if fail {
					return c26TaskErr(ji, t)
				}
				return nil
			})
		}
		o.enter(g, "Job).Done")
		jo.doneLo.Store(o.clock.Tick())
		if c.Jobs[ji].Callback {
			jobs[ji].Done(func() {
				jo.cbTick.Store(o.clock.Tick())
				if jo.cbCount.Add(1) == 1 {
					close(jo.cbDone)
				}
			})
		} else {
			jobs[ji].Done(nil)
		}
		o.enter(g, "")
	}
	wait := func(g string, ji int) {
		o.enter(g, "Job).Wait")
		err := jobs[ji].Wait()
		o.jobs[ji].waitTick = o.clock.Tick()
		o.enter(g, "")
		o.jobs[ji].waitErr = err
		o.jobs[ji].waited.Store(true)
	}
	stop := func(g string) {
		o.enter(g, "Workers).Stop")
		o.stopLo.Store(o.clock.Tick())
		w.Stop()
		o.stopHi.Store(o.clock.Tick())
		o.enter(g, "")
	}
	const drv = "driver"
	switch c.Mode {
	case "seq":
		for ji := range c.Jobs {
			if !newJob(drv, ji) {
				continue
			}
			fill(drv, ji)
			wait(drv, ji)
		}
	case "waitfirst":
		for ji := range c.Jobs {
			if !newJob(drv, ji) {
				continue
			}
			ji := ji
			g := fmt.Sprintf("filler%d", ji)
			fillerDone := kit.Go(func() {
				o.guard(g, func() {
					for k := 0; k < c.Jobs[ji].FillYields; k++ {
						runtime.Gosched()
					}
					fill(g, ji)
				})
			})
			wait(drv, ji)
			<-fillerDone
		}
	case "pipe":
		for ji := range c.Jobs {
			if newJob(drv, ji) {
				fill(drv, ji)
			}
		}
		if c.Stop == "mid" {
			stop(drv)
		}
		for ji := range c.Jobs {
			if o.jobs[ji].created {
				wait(drv, ji)
			}
		}
	case "par":
		for ji := range c.Jobs {
			if !c.Jobs[ji].Late {
				newJob(drv, ji)
			}
		}
		var stopDone, lateDone <-chan struct{}
		if c.Stop == "conc" {
			y := c.StopYields
			stopDone = kit.Go(func() {
				o.guard("stopper", func() {
					for k := 0; k < y; k++ {
						runtime.Gosched()
					}
					stop("stopper")
				})
			})
			lateDone = kit.Go(func() {
				for ji := range c.Jobs {
					if !c.Jobs[ji].Late {
						continue
					}
					ji := ji
					o.guard("late", func() {
						for k := 0; k < c.Jobs[ji].LateYields; k++ {
							runtime.Gosched()
						}
						if newJob("late", ji) {
							fill("late", ji)
							wait("late", ji)
						}
					})
				}
			})
		}
		var wg sync.WaitGroup
		filled := make([]chan struct{}, len(c.Jobs))
		for ji := range c.Jobs {
			filled[ji] = make(chan struct{})
			if c.Jobs[ji].Late || !o.jobs[ji].created {
				close(filled[ji])
				continue
			}
			wg.Add(1)
			ji := ji
			g := fmt.Sprintf("job%d", ji)
			go func() {
				defer wg.Done()
				o.guard(g, func() {
					fill(g, ji)
					close(filled[ji])
					if c.Stop == "mid" {
						return // waited by the driver after Stop
					}
					wait(g, ji)
				})
			}()
		}
		if c.Stop == "mid" {
			for ji := range c.Jobs {
				<-filled[ji]
			}
			stop(drv)
			for ji := range c.Jobs {
				if o.jobs[ji].created {
					wait(drv, ji)
				}
			}
		}
		wg.Wait()
		if stopDone != nil {
			<-stopDone
			<-lateDone
		}
	}
	if c.Stop == "end" {
		stop(drv)
	}
	// a future job: submitted after Stop has returned
	o.enter(drv, "Workers).NewJob")
	j, err := w.NewJob(1)
	o.enter(drv, "")
	o.futureTried = true
	o.futureErr = err
	o.futureJobNil = j == nil
}

type c26Stats struct {
	tasksRun, tasksSkipped, jobsShutdown, jobsFailed, jobsOK, jobOrderPairs, lateRejected, lateAccepted int
}

// c26Judge is the offline oracle (only atomics / fields published by the
// driver before it finished are read; after a hang only atomics are used).
func c26Judge(c c26Case, o *c26Obs, finished bool) ([]c08Finding, c26Stats) {
	var out []c08Finding
	var st c26Stats
	add := func(key, f string, a ...any) { out = append(out, c08Finding{key, fmt.Sprintf(f, a...)}) }
	stopLo, stopHi := o.stopLo.Load(), o.stopHi.Load()
	type span struct {
		first, last int64
		ran         int
	}
	spans := make([]span, len(c.Jobs))
	for ji, jo := range o.jobs {
		sp := span{}
		failedRan := []int{}
		for t := range jo.counts {
			n := jo.counts[t].Load()
			if n > 1 {
				add("C26/task-ran-twice", "job %d task %d ran %d times", ji, t, n)
			}
			if n == 0 {
				st.tasksSkipped++
				continue
			}
			st.tasksRun++
			s, e := jo.start[t].Load(), jo.end[t].Load()
			if sp.ran == 0 || s < sp.first {
				sp.first = s
			}
			if e > sp.last {
				sp.last = e
			}
			sp.ran++
			if stopHi != 0 && s > stopHi && !c.Serial {
				add("C26/task-started-after-stop-returned", "job %d task %d started at logical time %d, after Stop had returned (%d)", ji, t, s, stopHi)
			}
			for _, f := range c.Jobs[ji].Fail {
				if f == t {
					failedRan = append(failedRan, t)
				}
			}
		}
		spans[ji] = sp
		if !jo.waited.Load() {
			continue
		}
		// the job's Wait returned: judge its result
		err := jo.waitErr
		if errors.Is(err, workers.ErrShutdown) {
			st.jobsShutdown++
			if stopLo == 0 || jo.waitTick < stopLo {
				add("C26/shutdown-without-stop", "job %d reported ErrShutdown although Stop had not been called", ji)
			}
			if sp.ran > 0 {
				add("C26/shutdown-job-ran-tasks", "job %d reported ErrShutdown although %d of its tasks were executed", ji, sp.ran)
			}
			if c.Serial {
				add("C26/shutdown-without-stop", "serial job %d reported ErrShutdown", ji)
			}
			continue
		}
		if len(failedRan) == 0 {
			if err != nil {
				add("C26/spurious-error", "job %d Wait returned %v although no executed task failed", ji, err)
			} else {
				st.jobsOK++
				for t := range jo.counts {
					if jo.counts[t].Load() == 0 {
						add("C26/task-not-run", "job %d: no executed task failed but task %d of %d never ran", ji, t, c.Jobs[ji].Tasks)
						break
					}
				}
			}
		} else {
			st.jobsFailed++
			if err == nil {
				add("C26/lost-error", "job %d Wait returned nil although executed tasks %v failed", ji, failedRan)
			} else {
				own := false
				for _, t := range failedRan {
					if errors.Is(err, c26TaskErrs[t%256]) && strings.HasPrefix(err.Error(), fmt.Sprintf("job %d:", ji)) {
						own = true
					}
				}
				if !own {
					add("C26/foreign-error", "job %d Wait returned %q which is not the error of one of its executed failing tasks %v", ji, err.Error(), failedRan)
				}
			}
		}
		if e := jo.waitTick; sp.ran > 0 && e < sp.last {
			add("C26/wait-before-tasks-ended", "job %d Wait returned at logical time %d before its last task ended (%d)", ji, e, sp.last)
		}
		if d := jo.doneLo.Load(); d == 0 || jo.waitTick < d {
			add("C26/wait-returned-before-done", "job %d Wait returned at logical time %d, before Done was called (%d; 0 = not yet called) while tasks could still be added", ji, jo.waitTick, d)
		}
		if n := jo.cbCount.Load(); n > 1 {
			add("C26/callback-twice", "job %d completion callback ran %d times", ji, n)
		} else if n == 1 && sp.ran > 0 && jo.cbTick.Load() < sp.last {
			add("C26/callback-before-tasks-ended", "job %d completion callback ran at %d before its last task ended (%d)", ji, jo.cbTick.Load(), sp.last)
		}
	}
	// job i completes before job i+1 starts; once a job was shut down no later job runs
	for i := 0; i < len(spans); i++ {
		for j := i + 1; j < len(spans); j++ {
			if spans[i].ran > 0 && spans[j].ran > 0 {
				st.jobOrderPairs++
				if !(spans[i].last < spans[j].first) {
					add("C26/jobs-overlap", "job %d (tasks ran in [%d,%d]) had not completed when job %d started (first task at %d)", i, spans[i].first, spans[i].last, j, spans[j].first)
				}
			}
			if !c.Serial && o.jobs[i].waited.Load() && errors.Is(o.jobs[i].waitErr, workers.ErrShutdown) && spans[j].ran > 0 {
				add("C26/job-ran-after-shutdown", "job %d reported ErrShutdown but the later job %d executed %d tasks", i, j, spans[j].ran)
			}
		}
	}
	if !finished || c.Serial {
		return out, st
	}
	rejected := -1
	for ji, jo := range o.jobs {
		switch {
		case jo.created:
			if c.Jobs[ji].Late {
				st.lateAccepted++
			}
			if rejected >= 0 && c.Jobs[ji].Late {
				add("C26/job-accepted-after-shutdown", "late job %d was accepted by NewJob although the earlier NewJob of job %d had already reported ErrShutdown", ji, rejected)
			}
		case c.Jobs[ji].Late && stopLo != 0 && errors.Is(jo.newJobErr, workers.ErrShutdown):
			st.lateRejected++ // submitted while / after Stop: a future job
			rejected = ji
		case c.Jobs[ji].Late && jo.newJobErr == nil:
			// its submitter panicked inside NewJob (reported separately)
		default: // every other NewJob of the scenario precedes the call of Stop
			add("C26/newjob-error", "NewJob for job %d failed with %v (stop called: %v)", ji, jo.newJobErr, stopLo != 0)
		}
	}
	if o.futureTried {
		if !errors.Is(o.futureErr, workers.ErrShutdown) {
			add("C26/future-job-not-shutdown", "NewJob after Stop returned gave (job nil=%v, err=%v), want ErrShutdown", o.futureJobNil, o.futureErr)
		}
	}
	return out, st
}

func c26Gen(rng *rand.Rand) c26Case {
	c := c26Case{Workers: 1 + rng.IntN(16), Seed: rng.Uint64()}
	if rng.IntN(3) == 0 {
		c.Workers = 1 + rng.IntN(3)
	}
	nj := 1 + rng.IntN(5)
	c.Mode = []string{"seq", "pipe", "par", "waitfirst"}[rng.IntN(4)]
	c.Stop = "end"
	if c.Mode == "pipe" || c.Mode == "par" {
		switch rng.IntN(4) {
		case 0:
			c.Stop = "mid"
		case 1:
			if c.Mode == "par" {
				c.Stop = "conc"
				c.StopYields = rng.IntN(400)
			}
		}
	}
	c.MaxJobs = nj + rng.IntN(4)
	failMode := rng.IntN(8) // 0..3: no failures
	for i := 0; i < nj; i++ {
		j := c26Job{Tasks: rng.IntN(12), DelayMix: rng.IntN(len(c26Delays)), Callback: rng.IntN(3) == 0}
		switch rng.IntN(10) {
		case 0:
			j.Tasks = 0
		case 1, 2:
			j.Tasks = rng.IntN(201)
		case 3:
			j.Tasks = 1 + rng.IntN(3)
		}
		j.Backlog = j.Tasks + rng.IntN(3)
		if c.Mode == "waitfirst" {
			j.FillYields = rng.IntN(40)
		}
		if c.Stop == "end" && rng.IntN(4) == 0 {
			j.Backlog = rng.IntN(j.Tasks + 1) // Go blocks until the pool picks the job's tasks up
		}
		if j.Tasks > 0 {
			switch failMode {
			case 4: // one failing task in one job
				if i == 0 || rng.IntN(nj) == 0 {
					j.Fail = []int{rng.IntN(j.Tasks)}
				}
			case 5: // first task of every job fails
				j.Fail = []int{0}
			case 6: // several
				for k := 0; k < 1+rng.IntN(3); k++ {
					j.Fail = append(j.Fail, rng.IntN(j.Tasks))
				}
				sort.Ints(j.Fail)
			case 7: // all tasks of some jobs fail
				if rng.IntN(2) == 0 {
					for t := 0; t < j.Tasks; t++ {
						j.Fail = append(j.Fail, t)
					}
				}
			}
		}
		c.Jobs = append(c.Jobs, j)
	}
	if c.Stop == "conc" && rng.IntN(3) > 0 {
		// jobs submitted concurrently with Stop
		for k := 0; k < 1+rng.IntN(3); k++ {
			j := c26Job{Tasks: rng.IntN(6), DelayMix: rng.IntN(len(c26Delays)), Late: true, LateYields: rng.IntN(300)}
			if rng.IntN(2) == 0 {
				j.LateYields = c.StopYields + rng.IntN(9) - 4
				if j.LateYields < 0 {
					j.LateYields = 0
				}
			}
			j.Backlog = j.Tasks + 1
			if j.Tasks > 0 && rng.IntN(4) == 0 {
				j.Fail = []int{rng.IntN(j.Tasks)}
			}
			c.Jobs = append(c.Jobs, j)
		}
		c.MaxJobs = len(c.Jobs) + rng.IntN(4)
	}
	return c
}

// c26PoolGoroutines counts live goroutines of any ParallelWorkers pool
// (workers and queue processors) in the process.
func c26PoolGoroutines() (n int, parkedAll bool, dump string) {
	buf := make([]byte, 16<<20)
	buf = buf[:runtime.Stack(buf, true)]
	parkedAll = true
	var keep []string
	for _, g := range strings.Split(string(buf), "\n\n") {
		if strings.Contains(g, "ParallelWorkers).startWorker") || strings.Contains(g, "ParallelWorkers).processQueue") {
			n++
			keep = append(keep, g)
			if !(strings.Contains(g, "[select") || strings.Contains(g, "[chan receive") || strings.Contains(g, "[chan send") || strings.Contains(g, "[sync.")) {
				parkedAll = false
			}
		}
	}
	return n, parkedAll, strings.Join(keep, "\n\n")
}

func c26NewObs(c c26Case) *c26Obs {
	o := &c26Obs{phases: map[string]string{}}
	for _, j := range c.Jobs {
		o.jobs = append(o.jobs, &c26JobObs{
			counts: make([]atomic.Int32, j.Tasks),
			start:  make([]atomic.Int64, j.Tasks),
			end:    make([]atomic.Int64, j.Tasks),
			cbDone: make(chan struct{}),
		})
	}
	return o
}

func TestC26(t *testing.T) {
	r := kit.Start(t, "C26", "exploration")
	r.Rule("case = a fresh pool (1..16 workers, or the serial implementation) and 1..5 jobs of 0..200 tasks with failing tasks anywhere, task backlogs above and below the task count, optional completion callbacks, PRNG delays in the tasks; jobs are submitted one after the other, pipelined, filled and waited by one goroutine per job, or waited by the driver while a second goroutine still adds tasks and calls Done; Stop comes after all waits, between Done and Wait, or from a concurrent goroutine; afterwards a future NewJob is tried. Task start/end, Wait and Stop returns are stamped by one atomic logical clock and judged offline; anything that does not return is judged by the quiescence (deadlock-witness) detector. Non-trivial = at least two tasks ran; distinct = distinct (pool size, mode, stop placement, per-job task count / failing set / backlog).")
	r.Assume(
		"NewJob is not called concurrently with Stop (jobs are either submitted before Stop is called = pending/running, or after it returned = future); Stop is called once",
		"a job that reports ErrShutdown is a job none of whose tasks ran; a job whose first task started before Stop was called is not 'pending' and reports its normal result",
		"the shutdown sentence is judged on ParallelWorkers only: SerialWorkers has no pool (its Stop is a no-op and jobs run inside Go)",
		"task backlog >= number of tasks whenever Stop may overtake the submission (documented: Go blocks otherwise)",
	)
	hangs, evals, poisoned := 0, 0, false
	judge := func(c c26Case) {
		r.Eval()
		o := c26NewObs(c)
		done := kit.Go(func() { o.guard("driver", func() { c26Drive(c, o) }) })
		// A Deadlock verdict is accepted only when two consecutive quiescence
		// observations both show every driver goroutine parked inside the very
		// call into internal/workers it had entered.
		var res kit.WaitResult
		var stacks string
		var blocked []string
		prevOK, prevBlocked := false, ""
		grace := 1500 * time.Millisecond
		for try := 0; try < 6; try++ {
			res, stacks = kit.AwaitOrDeadlock(done, []string{"internal/workers"}, grace, 120*time.Second)
			grace = 200 * time.Millisecond
			if res != kit.Deadlock {
				break
			}
			blocked = o.blockedIn()
			ok := len(blocked) > 0
			for _, b := range blocked {
				if !strings.Contains(stacks, b) {
					ok = false
				}
			}
			if ok && prevOK && prevBlocked == fmt.Sprint(blocked) {
				break
			}
			prevOK, prevBlocked = ok, fmt.Sprint(blocked)
			res = kit.Unknown
		}
		finished := res == kit.Returned
		for _, pv := range o.panicked() {
			finished = false // the scenario was cut short: only the per-task / per-job facts are judged
			key := "panic/workers"
			if strings.HasPrefix(pv, "Workers).NewJob") && c.Stop == "conc" {
				key = "C26/newjob-concurrent-with-stop-panics"
			}
			r.Violation(key, c, "panic inside %s", pv)
		}
		finds, st := c26Judge(c, o, finished)
		switch res {
		case kit.Deadlock:
			hangs++
			anyFailed := false
			for ji, jo := range o.jobs {
				for _, f := range c.Jobs[ji].Fail {
					if jo.counts[f].Load() > 0 {
						anyFailed = true
					}
				}
			}
			calls := map[string]bool{}
			for _, b := range blocked {
				calls[strings.ToLower(b[strings.LastIndexByte(b, '.')+1:])] = true
			}
			var cl []string
			for k := range calls {
				cl = append(cl, k)
			}
			sort.Strings(cl)
			key := "C26/hang/" + strings.Join(cl, "+")
			if anyFailed {
				key = "C26/hang-after-task-error/" + strings.Join(cl, "+")
			}
			r.Violation(key, c, "deadlock witness: %v never return(s); every goroutine of internal/workers is parked and nothing can wake it\n%s", blocked, trimStacks(stacks, []string{"internal/workers"}))
		case kit.Unknown:
			r.Inconclusive("scenario %s did not finish within the watchdog and no deadlock witness was obtained (blocked in %v)", c26Shape(c), o.blockedIn())
		}
		for _, f := range finds {
			r.Violation(f.key, c, "%s", f.detail)
		}
		if finished {
			// completion callbacks of completed jobs run asynchronously: logical wait
			for ji, jo := range o.jobs {
				if !c.Jobs[ji].Callback || !jo.created || !jo.waited.Load() || errors.Is(jo.waitErr, workers.ErrShutdown) {
					continue
				}
				select {
				case <-jo.cbDone:
					r.Count("completion_callbacks_seen", 1)
				case <-time.After(60 * time.Second):
					r.Inconclusive("completion callback of job %d not observed within the watchdog", ji)
				}
			}
		}
		if !finished {
			poisoned = true // an unfinished scenario may leave its pool behind
		}
		if finished && !c.Serial && !poisoned && (evals%8 == 0 && evals < 2000 || evals%250 == 0) {
			// "Stop returns once all workers exit": every scenario so far has stopped its pool, so no pool
			// goroutine may stay alive (goroutines on their way out are awaited logically).
			deadline := time.Now().Add(30 * time.Second)
			for {
				n, parked, dump := c26PoolGoroutines()
				if n == 0 {
					r.Count("stop_left_no_pool_goroutine_checks", 1)
					break
				}
				if time.Now().After(deadline) {
					if parked {
						r.Violation("C26/pool-goroutines-alive-after-stop", c, "%d worker/queue goroutines are still parked although Stop returned for every pool\n%s", n, dump)
					} else {
						r.Inconclusive("%d pool goroutines still running 30s after Stop returned", n)
					}
					break
				}
				time.Sleep(2 * time.Millisecond)
			}
		}
		evals++
		r.Count("late_jobs_rejected_by_newjob", st.lateRejected)
		r.Count("late_jobs_accepted", st.lateAccepted)
		r.Count("tasks_run", st.tasksRun)
		r.Count("tasks_skipped", st.tasksSkipped)
		r.Count("jobs_ok", st.jobsOK)
		r.Count("jobs_failed", st.jobsFailed)
		r.Count("jobs_reported_shutdown", st.jobsShutdown)
		r.Count("job_order_pairs_judged", st.jobOrderPairs)
		if finished {
			r.Count("scenarios_finished", 1)
			if o.stopHi.Load() != 0 {
				r.Count("stop_returned", 1)
			}
		}
		if c.Serial {
			r.Count("serial_scenarios", 1)
		}
		if st.tasksRun >= 2 {
			r.Distinct(c26Shape(c))
			r.Sample(c)
		}
	}
	if rf := r.Replay(); rf != nil && len(rf.Witness) > 0 {
		var c c26Case
		if err := jsonUnmarshal(rf.Witness, &c); err == nil && len(c.Jobs) > 0 {
			for i := 0; i < 50 && r.Violations() == 0; i++ {
				judge(c)
			}
			r.Finish(0)
			return
		}
	}
	rng := r.Rand("scenarios")
	n := r.N(3000, 25000)
	for i := 0; i < n && hangs < 3 && r.Violations() < 20; i++ {
		c := c26Gen(rng)
		if i%10 == 9 {
			c.Serial, c.Stop = true, "end"
			if c.Mode != "waitfirst" {
				c.Mode = "seq"
			}
			for k := range c.Jobs {
				c.Jobs[k].Late = false
			}
		}
		judge(c)
	}
	if hangs >= 3 {
		r.Count("stopped_early_after_hang_witnesses", hangs)
		r.Finish(0)
		return
	}
	r.Finish(500)
}
