package concx

import (
	"bytes"
	"fmt"
	"math/rand/v2"
	"net/http"
	"net/http/httptest"
	"strings"
	"sync"
	"sync/atomic"
	"time"

	"github.com/ava-labs/avalanchego/utils/logging"
	"github.com/gorilla/websocket"

	"github.com/ava-labs/hypersdk/api/ws"
	"github.com/ava-labs/hypersdk/pubsub"
	"github.com/ava-labs/hypersdk/zzverif/kit"
)

// End-to-end part of C32: the real api/ws WebSocketClient (MessageBuffer +
// writer goroutine + Close) against a peer that records what arrives, and the
// real pubsub.Server/Connection (MessageBuffer + writePump) against a recording
// websocket client. All servers listen on a random free loopback port
// (httptest).

// c32Session is what the recording peer saw on one websocket connection.
type c32Session struct {
	start chan struct{} // reading starts when closed
	done  chan struct{} // closed when the read loop ended (connection closed by the other side)

	mu     sync.Mutex
	frames [][]byte // c2s-raw / s2c: every binary frame as received
	msgs   [][]byte // c2s-pubsub: every message handed to the server callback
	nMsgs  atomic.Int64
}

func (s *c32Session) addFrame(f []byte) {
	n := 0
	if ms, err := pubsub.ParseBatchMessage(f); err == nil {
		n = len(ms)
	}
	s.mu.Lock()
	s.frames = append(s.frames, f)
	s.mu.Unlock()
	s.nMsgs.Add(int64(n))
}

// c32RawServer is a minimal gorilla/websocket server that records the frames
// of every connection; one instance serves all c2s-raw cases of a run.
type c32RawServer struct {
	hs       *httptest.Server
	sessions chan *c32Session
}

func c32NewRawServer() *c32RawServer {
	rs := &c32RawServer{sessions: make(chan *c32Session, 16)}
	up := websocket.Upgrader{CheckOrigin: func(*http.Request) bool { return true }, ReadBufferSize: 64 << 10, WriteBufferSize: 4 << 10}
	rs.hs = httptest.NewServer(http.HandlerFunc(func(w http.ResponseWriter, r *http.Request) {
		conn, err := up.Upgrade(w, r, nil)
		if err != nil {
			return
		}
		s := &c32Session{start: make(chan struct{}), done: make(chan struct{})}
		rs.sessions <- s
		go func() {
			defer close(s.done)
			defer conn.Close()
			<-s.start
			for {
				mt, data, err := conn.ReadMessage()
				if err != nil {
					return
				}
				if mt == websocket.BinaryMessage {
					s.addFrame(data)
				}
			}
		}()
	}))
	return rs
}

func c32Await(ch <-chan struct{}) bool {
	select {
	case <-ch:
		return true
	case <-time.After(c32Watchdog):
		return false
	}
}

type c32E2EResult struct {
	accepted     [][]byte
	rejected     int
	frames       [][]byte // nil for c2s-pubsub
	msgs         [][]byte // c2s-pubsub only
	tailAwaited  bool     // s2c: arrival of everything accepted was awaited (no Close on that side)
	inconclusive string
}

// c32RunC2S: the real WebSocketClient sends the case's messages and is closed;
// the peer is the recording raw server or the real pubsub.Server.
func c32RunC2S(c c32Case, raw *c32RawServer) (res c32E2EResult) {
	var (
		url  string
		sess *c32Session
		srv  *pubsub.Server
	)
	added := make(chan struct{}, 4)
	if c.E2E == "c2s-raw" {
		url = raw.hs.URL
	} else {
		sess = &c32Session{done: make(chan struct{})}
		srv = pubsub.New(logging.NoLog{}, pubsub.NewDefaultServerConfig(), func(msg []byte, _ *pubsub.Connection) {
			sess.mu.Lock()
			sess.msgs = append(sess.msgs, bytes.Clone(msg))
			sess.mu.Unlock()
		})
		hs := httptest.NewServer(http.HandlerFunc(func(w http.ResponseWriter, r *http.Request) {
			srv.ServeHTTP(w, r) // returns after the connection was added and its pumps were started
			added <- struct{}{}
		}))
		defer hs.Close()
		url = hs.URL
	}
	cli, err := ws.NewWebSocketClient(url, ws.DefaultHandshakeTimeout, c.QueueCap, c.MaxSize)
	if err != nil {
		res.inconclusive = "cannot connect the websocket client to the local server: " + err.Error()
		return
	}
	if c.E2E == "c2s-raw" {
		select {
		case sess = <-raw.sessions:
		case <-time.After(c32Watchdog):
			res.inconclusive = "the local server never saw the connection"
			return
		}
		if !c.LateRead {
			close(sess.start)
		}
	} else {
		select {
		case <-added:
		case <-time.After(c32Watchdog):
			res.inconclusive = "the pubsub server never added the connection"
			return
		}
	}
	seq := 0
	for _, op := range c.Ops {
		switch op.K {
		case "send":
			size := op.N
			if size < 4 {
				size = 4
			}
			payload := c32Msg(size, 1, seq)
			seq++
			if err := cli.RegisterRawTx(payload); err == nil {
				res.accepted = append(res.accepted, append([]byte{ws.TxMode}, payload...))
			} else {
				res.rejected++
			}
		case "blocks":
			if err := cli.RegisterBlocks(); err == nil {
				res.accepted = append(res.accepted, []byte{ws.BlockMode})
			} else {
				res.rejected++
			}
		case "pause": // schedule perturbation only
			time.Sleep(time.Duration(op.N) * time.Microsecond)
		}
	}
	closed := kit.Go(func() { _ = cli.Close() })
	if c.E2E == "c2s-raw" && c.LateRead {
		time.Sleep(300 * time.Microsecond)
		close(sess.start)
	}
	if !c32Await(closed) {
		res.inconclusive = "WebSocketClient.Close did not return within the watchdog"
		return
	}
	// The peer has everything that was written once it saw the end of the connection.
	if c.E2E == "c2s-raw" {
		if !c32Await(sess.done) {
			res.inconclusive = "the peer did not see the connection end within the watchdog"
			return
		}
		sess.mu.Lock()
		res.frames = sess.frames
		sess.mu.Unlock()
		return
	}
	deadline := time.Now().Add(c32Watchdog)
	for srv.Connections().Len() != 0 { // removed by readPump after its last callback
		if time.Now().After(deadline) {
			res.inconclusive = "the pubsub server did not drop the closed connection within the watchdog"
			return
		}
		time.Sleep(100 * time.Microsecond)
	}
	sess.mu.Lock()
	res.msgs = sess.msgs
	sess.mu.Unlock()
	return
}

// c32RunS2C: the real pubsub.Server sends the case's messages over its
// Connection (MessageBuffer with a 1 ms flush timeout + writePump) to a
// recording websocket client; nothing is closed until everything arrived.
func c32RunS2C(c c32Case) (res c32E2EResult) {
	cfg := pubsub.NewDefaultServerConfig()
	cfg.MaxWriteMessageSize = c.MaxSize
	cfg.MaxPendingMessages = c.QueueCap
	cfg.MaxMessageWait = time.Millisecond
	srv := pubsub.New(logging.NoLog{}, cfg, nil)
	added := make(chan struct{}, 4)
	hs := httptest.NewServer(http.HandlerFunc(func(w http.ResponseWriter, r *http.Request) {
		srv.ServeHTTP(w, r)
		added <- struct{}{}
	}))
	defer hs.Close()
	conn, resp, err := websocket.DefaultDialer.Dial("ws"+strings.TrimPrefix(hs.URL, "http"), nil)
	if err != nil {
		res.inconclusive = "cannot connect to the local pubsub server: " + err.Error()
		return
	}
	resp.Body.Close()
	sess := &c32Session{done: make(chan struct{})}
	go func() {
		defer close(sess.done)
		for {
			mt, data, err := conn.ReadMessage()
			if err != nil {
				return
			}
			if mt == websocket.BinaryMessage {
				sess.addFrame(data)
			}
		}
	}()
	defer func() {
		_ = conn.Close()
		<-sess.done
	}()
	select {
	case <-added:
	case <-time.After(c32Watchdog):
		res.inconclusive = "the pubsub server never added the connection"
		return
	}
	conns := srv.Connections().Conns()
	if len(conns) != 1 {
		res.inconclusive = fmt.Sprintf("the pubsub server has %d connections instead of 1", len(conns))
		return
	}
	seq := 0
	for _, op := range c.Ops {
		switch op.K {
		case "send":
			size := op.N
			if size < 4 {
				size = 4
			}
			msg := c32Msg(size, 1, seq)
			seq++
			if conns[0].Send(msg) {
				res.accepted = append(res.accepted, msg)
			} else {
				res.rejected++
			}
		case "pause":
			time.Sleep(time.Duration(op.N) * time.Microsecond)
		}
	}
	// quiet: the flush timer and the write pump have to deliver the rest
	deadline := time.Now().Add(c32Watchdog)
	for sess.nMsgs.Load() < int64(len(res.accepted)) {
		if time.Now().After(deadline) {
			res.inconclusive = fmt.Sprintf("only %d of %d accepted messages arrived at the peer within the watchdog", sess.nMsgs.Load(), len(res.accepted))
			return
		}
		time.Sleep(200 * time.Microsecond)
	}
	res.tailAwaited = true
	sess.mu.Lock()
	res.frames = append([][]byte(nil), sess.frames...)
	sess.mu.Unlock()
	return
}

type c32E2EStats struct {
	received, frames, nearLimitFrames, maxFrame int
}

// c32JudgeE2E: the queue of the sending MessageBuffer can never have been full
// (its capacity exceeds the number of sends), so the decoded frames that
// arrived at the peer must be exactly the accepted messages, in order; every
// frame is at most maxSize long and decodes.
func c32JudgeE2E(c c32Case, res c32E2EResult) ([]c32Finding, c32E2EStats, []int) {
	var out []c32Finding
	var st c32E2EStats
	add := func(k, f string, a ...any) { out = append(out, c32Finding{k, fmt.Sprintf(f, a...)}) }
	got := res.msgs
	for fi, f := range res.frames {
		st.frames++
		if len(f) > st.maxFrame {
			st.maxFrame = len(f)
		}
		if len(f) > c.MaxSize-4 {
			st.nearLimitFrames++
		}
		ms, err := pubsub.ParseBatchMessage(f)
		if err != nil {
			add("C32/e2e/frame-undecodable", "frame %d (%d bytes) received by the peer does not decode: %v", fi, len(f), err)
			continue
		}
		if len(f) > c.MaxSize {
			add("C32/e2e/frame-exceeds-max-size", "frame %d received by the peer is %d bytes long, configured maximum %d (%d messages)", fi, len(f), c.MaxSize, len(ms))
		}
		got = append(got, ms...)
	}
	st.received = len(got)
	var sizes []int
	for _, m := range got {
		sizes = append(sizes, len(m))
	}
	p := 0
	for gi, m := range got {
		q := -1
		for k := p; k < len(res.accepted); k++ {
			if bytes.Equal(res.accepted[k], m) {
				q = k
				break
			}
		}
		if q < 0 {
			kind := "never-accepted"
			for k := 0; k < p; k++ {
				if bytes.Equal(res.accepted[k], m) {
					kind = "duplicate-or-reordered"
				}
			}
			add("C32/e2e/unexpected-message/"+kind, "message %d received by the peer (%d bytes) is not the next accepted message (%s)", gi, len(m), kind)
			continue
		}
		if q > p {
			add("C32/e2e/accepted-message-lost-in-stream", "accepted messages #%d..#%d never arrived at the peer although later ones did; the sender's queue (capacity %d) can never have been full", p, q-1, c.QueueCap)
		}
		p = q + 1
	}
	if p < len(res.accepted) {
		if c.E2E == "s2c" {
			add("C32/e2e/accepted-message-lost-in-stream", "the peer received %d messages but accepted messages #%d..#%d are not among them", len(got), p, len(res.accepted)-1)
		} else {
			add("C32/e2e/accepted-message-lost-on-close", "WebSocketClient accepted %d messages (every Register* call returned nil) and Close() returned, but the last %d (#%d..#%d) never arrived at the peer, which read the connection to its end (%d messages in %d frames arrived); the client's queue (capacity %d) can never have been full",
				len(res.accepted), len(res.accepted)-p, p, len(res.accepted)-1, len(got), len(res.frames), c.QueueCap)
		}
	}
	return out, st, sizes
}

var c32E2EMaxes = []int{64, 100, 127, 128, 129, 130, 131, 200, 255, 256, 300, 1000, 4096, 16383, 16384, 16390, 20000, 65536}

// c32GenE2E: 1..60 sends with payload sizes biased to the limits, bursts of
// batch-filling messages that leave a backlog of batches in the queue, short
// pauses (rarely one longer than the client's 50 ms flush timeout), often a
// small last message that only Close flushes. big: a few dozen 64-128 KiB
// messages (more than the socket buffers take when the peer reads late).
func c32GenE2E(rng *rand.Rand, kind string, big bool) c32Case {
	c := c32Case{E2E: kind, MaxSize: c32E2EMaxes[rng.IntN(len(c32E2EMaxes))]}
	lim := c.MaxSize - 6 // payload sizes up to lim+3: the largest ones are rejected
	if kind == "s2c" {
		lim = c.MaxSize - 5
		c.Timer = true
	}
	sends := 0
	send := func(n int) {
		if n < 4 {
			n = 4
		}
		c.Ops = append(c.Ops, c32Op{K: "send", N: n})
		sends++
	}
	if big {
		c.MaxSize = 128<<10 + 64
		for k := 20 + rng.IntN(16); k > 0; k-- {
			send(64<<10 + rng.IntN(64<<10))
		}
		c.LateRead = kind == "c2s-raw" && rng.IntN(2) == 0
	} else {
		n := 1 + rng.IntN(60)
		for len(c.Ops) < n {
			switch x := rng.IntN(24); {
			case x < 15:
				send(c32GenSize(rng, lim+3))
			case x < 17:
				if kind != "s2c" {
					c.Ops = append(c.Ops, c32Op{K: "blocks"})
					sends++
				} else {
					send(4 + rng.IntN(4))
				}
			case x < 20:
				c.Ops = append(c.Ops, c32Op{K: "pause", N: rng.IntN(300)})
			case x < 23: // burst: every message fills a batch of its own
				for k := 5 + rng.IntN(16); k > 0; k-- {
					send(lim - rng.IntN(lim/3+1))
				}
			default:
				if rng.IntN(6) == 0 {
					c.Ops = append(c.Ops, c32Op{K: "pause", N: 60000}) // longer than the client's flush timeout
				} else {
					c.Ops = append(c.Ops, c32Op{K: "pause", N: 1500})
				}
			}
		}
		c.LateRead = kind == "c2s-raw" && rng.IntN(6) == 0
	}
	if rng.IntN(2) == 0 {
		send(4 + rng.IntN(8)) // a last partial batch
	}
	c.QueueCap = sends + 4
	return c
}
