package concx

import (
	"context"
	"fmt"
	"math/rand/v2"
	"runtime"
	"sort"
	"strings"
	"sync"
	"testing"
	"time"

	"github.com/anishathalye/porcupine"
	"github.com/ava-labs/avalanchego/ids"
	"github.com/ava-labs/avalanchego/trace"

	"github.com/ava-labs/hypersdk/codec"
	"github.com/ava-labs/hypersdk/internal/mempool"
	"github.com/ava-labs/hypersdk/zzverif/kit"
)

// ---- items ----

type mpItem struct {
	idx     int
	id      ids.ID
	exp     int64
	sponsor codec.Address
	size    int
}

func (i *mpItem) GetID() ids.ID             { return i.id }
func (i *mpItem) GetExpiry() int64          { return i.exp }
func (i *mpItem) GetSponsor() codec.Address { return i.sponsor }
func (i *mpItem) Size() int                 { return i.size }

// ---- case description (JSON witness) ----

type c23ItemSpec struct {
	Sponsor int   `json:"sponsor"`
	Size    int   `json:"size"`
	Exp     int64 `json:"exp"`
}

// c23Op kinds: add rm has len size peek pop setmin start prepare stream finish top
type c23Op struct {
	K    string `json:"op"`
	I    int    `json:"item,omitempty"`
	N    int    `json:"n,omitempty"`
	T    int64  `json:"t,omitempty"`
	Mask uint32 `json:"mask,omitempty"` // finish: which of the items streamed so far are given back; top: per position bit0=continue bit1=restore (2 bits each)
}

type c23Case struct {
	MaxSize    int           `json:"max_size"`
	MaxSponsor int           `json:"max_sponsor"`
	Items      []c23ItemSpec `json:"items"`
	Ops        []c23Op       `json:"ops,omitempty"`
	// concurrent cases: the recorded history (re-checked offline on replay)
	History []c23HistOp `json:"history,omitempty"`
}

type c23HistOp struct {
	Client int    `json:"client"`
	In     mpIn   `json:"in"`
	Out    mpOut  `json:"out"`
	Call   int64  `json:"call"`
	Ret    int64  `json:"ret"`
	Text   string `json:"text,omitempty"`
}

// ---- sequential specification (independent of the implementation) ----
//
// State: the held items are an unordered pool R of items given back after a
// build (handed out first, in any order) followed by the arrival-ordered
// queue Q; St = items handed out in the open stream; (PR,PQ) = the batch
// fetched by PrepareStream and not yet delivered by Stream.
// Items are single bytes 'a'+index. The model is nondeterministic where the
// statement is silent (order among given-back items, which given-back items
// are dropped when a limit binds): Step returns every allowed next state.

type mpS struct {
	R, Q, St, PR, PQ string
	On, Pset         bool
}

type mpIn struct {
	K   string `json:"op"`
	I   int    `json:"item,omitempty"`
	N   int    `json:"n,omitempty"`
	T   int64  `json:"t,omitempty"`
	L   []int  `json:"list,omitempty"`   // finish: items given back
	Dec []int  `json:"decide,omitempty"` // top: per position bit0=continue bit1=restore
}

type mpOut struct {
	B bool  `json:"b,omitempty"`
	N int   `json:"n,omitempty"`
	L []int `json:"list,omitempty"`
}

type mpCfg struct {
	maxSize, maxSp int
	items          []c23ItemSpec
}

func bItem(i int) byte { return byte('a' + i) }

func setAdd(set string, b byte) string {
	if strings.IndexByte(set, b) >= 0 {
		return set
	}
	bs := append([]byte(set), b)
	sort.Slice(bs, func(i, j int) bool { return bs[i] < bs[j] })
	return string(bs)
}

func strDel(s string, b byte) string {
	i := strings.IndexByte(s, b)
	if i < 0 {
		return s
	}
	return s[:i] + s[i+1:]
}

func (c *mpCfg) held(s mpS, b byte) bool {
	return strings.IndexByte(s.R, b) >= 0 || strings.IndexByte(s.Q, b) >= 0
}

func (c *mpCfg) spCount(s mpS, sp int) int {
	n := 0
	for _, b := range []byte(s.R + s.Q) {
		if c.items[b-'a'].Sponsor == sp {
			n++
		}
	}
	return n
}

func (c *mpCfg) bytesHeld(s mpS) int {
	n := 0
	for _, b := range []byte(s.R + s.Q) {
		n += c.items[b-'a'].Size
	}
	return n
}

// takeObserved removes the observed hand-out sequence L from s if it is a legal
// hand-out order: given-back items first (any order), then arrival order.
func (c *mpCfg) takeObserved(s mpS, L []int) (mpS, bool) {
	for _, x := range L {
		if x < 0 || x >= len(c.items) {
			return s, false
		}
		b := bItem(x)
		if len(s.R) > 0 {
			if strings.IndexByte(s.R, b) < 0 {
				return s, false
			}
			s.R = strDel(s.R, b)
		} else {
			if len(s.Q) == 0 || s.Q[0] != b {
				return s, false
			}
			s.Q = s.Q[1:]
		}
	}
	return s, true
}

type mpTake struct {
	s      mpS
	pr, pq string
}

// takeBlind enumerates every legal way of handing out k items without seeing them.
func (c *mpCfg) takeBlind(s mpS, k int) []mpTake {
	a := min(k, len(s.R))
	q := min(k-a, len(s.Q))
	var out []mpTake
	r := len(s.R)
	for mask := 0; mask < 1<<r; mask++ {
		cnt := 0
		for i := 0; i < r; i++ {
			if mask&(1<<i) != 0 {
				cnt++
			}
		}
		if cnt != a {
			continue
		}
		ns := s
		var pr, keep []byte
		for i := 0; i < r; i++ {
			if mask&(1<<i) != 0 {
				pr = append(pr, s.R[i])
			} else {
				keep = append(keep, s.R[i])
			}
		}
		ns.R = string(keep)
		pq := s.Q[:q]
		ns.Q = s.Q[q:]
		out = append(out, mpTake{ns, string(pr), pq})
	}
	return out
}

// giveBack enumerates the allowed results of giving the items C back: any
// subset may be re-admitted as long as no limit is exceeded and an item is
// left out only if there is no room for it in the end.
func (c *mpCfg) giveBack(s mpS, C []byte) []mpS {
	var cand []byte
	for _, b := range C {
		if !c.held(s, b) && strings.IndexByte(string(cand), b) < 0 {
			cand = append(cand, b)
		}
	}
	var out []mpS
	for mask := 0; mask < 1<<len(cand); mask++ {
		ns := s
		for i, b := range cand {
			if mask&(1<<i) != 0 {
				ns.R = setAdd(ns.R, b)
			}
		}
		ok := len(ns.R)+len(ns.Q) <= c.maxSize
		for sp := 0; sp < 3 && ok; sp++ {
			if c.spCount(ns, sp) > c.maxSp {
				ok = false
			}
		}
		for i, b := range cand {
			if !ok || mask&(1<<i) != 0 {
				continue
			}
			room := len(ns.R)+len(ns.Q) < c.maxSize && c.spCount(ns, c.items[b-'a'].Sponsor) < c.maxSp
			if room {
				ok = false
			}
		}
		if ok {
			out = append(out, ns)
		}
	}
	return out
}

func sameSet(a []int, want []int) bool {
	if len(a) != len(want) {
		return false
	}
	x := append([]int(nil), a...)
	y := append([]int(nil), want...)
	sort.Ints(x)
	sort.Ints(y)
	for i := range x {
		if x[i] != y[i] {
			return false
		}
	}
	return true
}

// step is the nondeterministic sequential specification.
func (c *mpCfg) step(s mpS, in mpIn, out mpOut) []mpS {
	one := func(ns mpS) []mpS { return []mpS{ns} }
	switch in.K {
	case "add":
		b := bItem(in.I)
		it := c.items[in.I]
		switch {
		case c.held(s, b):
		case s.On && strings.IndexByte(s.St, b) >= 0: // handed out in the open stream: cannot be re-added
		case c.spCount(s, it.Sponsor) >= c.maxSp:
		case len(s.R)+len(s.Q) >= c.maxSize:
		default:
			s.Q += string(b)
		}
		return one(s)
	case "rm":
		b := bItem(in.I)
		s.R, s.Q = strDel(s.R, b), strDel(s.Q, b)
		return one(s)
	case "has":
		if out.B != c.held(s, bItem(in.I)) {
			return nil
		}
		return one(s)
	case "len":
		if out.N != len(s.R)+len(s.Q) {
			return nil
		}
		return one(s)
	case "size":
		if out.N != c.bytesHeld(s) {
			return nil
		}
		return one(s)
	case "peek":
		if len(s.R)+len(s.Q) == 0 {
			if len(out.L) != 0 {
				return nil
			}
			return one(s)
		}
		if len(out.L) != 1 {
			return nil
		}
		if _, ok := c.takeObserved(s, out.L); !ok {
			return nil
		}
		return one(s)
	case "pop":
		if len(s.R)+len(s.Q) == 0 {
			if len(out.L) != 0 {
				return nil
			}
			return one(s)
		}
		if len(out.L) != 1 {
			return nil
		}
		ns, ok := c.takeObserved(s, out.L)
		if !ok {
			return nil
		}
		return one(ns)
	case "setmin":
		var want []int
		for _, b := range []byte(s.R + s.Q) {
			if c.items[b-'a'].Exp < in.T {
				want = append(want, int(b-'a'))
			}
		}
		if !sameSet(out.L, want) {
			return nil
		}
		for _, x := range want {
			s.R, s.Q = strDel(s.R, bItem(x)), strDel(s.Q, bItem(x))
		}
		return one(s)
	case "start":
		s.On, s.St, s.PR, s.PQ, s.Pset = true, "", "", "", false
		return one(s)
	case "prepare":
		var outS []mpS
		for _, t := range c.takeBlind(s, in.N) {
			ns := t.s
			ns.PR, ns.PQ, ns.Pset = t.pr, t.pq, true
			for _, b := range []byte(t.pr + t.pq) {
				ns.St = setAdd(ns.St, b)
			}
			outS = append(outS, ns)
		}
		return outS
	case "stream":
		if s.Pset {
			// the prepared batch is delivered: given-back part in any order, then the arrival-ordered part
			n := len(s.PR)
			if len(out.L) != n+len(s.PQ) {
				return nil
			}
			var got []byte
			for _, x := range out.L[:n] {
				if x < 0 || x >= len(c.items) {
					return nil
				}
				got = append(got, bItem(x))
			}
			sort.Slice(got, func(i, j int) bool { return got[i] < got[j] })
			if string(got) != s.PR {
				return nil
			}
			for i, x := range out.L[n:] {
				if x < 0 || x >= len(c.items) || bItem(x) != s.PQ[i] {
					return nil
				}
			}
			s.PR, s.PQ, s.Pset = "", "", false
			return one(s)
		}
		if len(out.L) != min(in.N, len(s.R)+len(s.Q)) {
			return nil
		}
		ns, ok := c.takeObserved(s, out.L)
		if !ok {
			return nil
		}
		for _, x := range out.L {
			ns.St = setAdd(ns.St, bItem(x))
		}
		return one(ns)
	case "finish":
		var C []byte
		for _, x := range in.L {
			C = append(C, bItem(x))
		}
		if s.Pset {
			C = append(C, []byte(s.PR+s.PQ)...)
		}
		s.On, s.St, s.PR, s.PQ, s.Pset = false, "", "", "", false
		return c.giveBack(s, C)
	case "top":
		// items are handed to the callback in hand-out order until it says stop or nothing is left
		var back []byte
		ns := s
		i := 0
		for len(ns.R)+len(ns.Q) > 0 {
			if i >= len(out.L) {
				return nil // stopped early
			}
			var ok bool
			ns, ok = c.takeObserved(ns, out.L[i:i+1])
			if !ok {
				return nil
			}
			d := 1
			if i < len(in.Dec) {
				d = in.Dec[i]
			}
			if d&2 != 0 {
				back = append(back, bItem(out.L[i]))
			}
			i++
			if d&1 == 0 {
				break
			}
		}
		if i != len(out.L) {
			return nil
		}
		return c.giveBack(ns, back)
	}
	return nil
}

func (c *mpCfg) describe(in mpIn, out mpOut) string {
	name := func(l []int) string {
		var b []byte
		for _, x := range l {
			b = append(b, bItem(x))
		}
		return string(b)
	}
	switch in.K {
	case "add", "rm":
		return fmt.Sprintf("%s(%c)", in.K, bItem(in.I))
	case "has":
		return fmt.Sprintf("has(%c)=%v", bItem(in.I), out.B)
	case "len", "size":
		return fmt.Sprintf("%s=%d", in.K, out.N)
	case "peek", "pop":
		return fmt.Sprintf("%s=[%s]", in.K, name(out.L))
	case "setmin":
		return fmt.Sprintf("setmin(%d)=[%s]", in.T, name(out.L))
	case "prepare":
		return fmt.Sprintf("prepare(%d)", in.N)
	case "stream":
		return fmt.Sprintf("stream(%d)=[%s]", in.N, name(out.L))
	case "finish":
		return fmt.Sprintf("finish(back=[%s])", name(in.L))
	case "top":
		return fmt.Sprintf("top(%v)=[%s]", in.Dec, name(out.L))
	}
	return in.K
}

// ---- driving the real mempool ----

type c23Real struct {
	cfg   *mpCfg
	m     *mempool.Mempool[*mpItem]
	items []*mpItem
}

func c23New(c c23Case) *c23Real {
	r := &c23Real{cfg: &mpCfg{maxSize: c.MaxSize, maxSp: c.MaxSponsor, items: c.Items}}
	for i, sp := range c.Items {
		r.items = append(r.items, &mpItem{idx: i, id: ids.ID{byte(i + 1), 0xC2, 0x3}, exp: sp.Exp, sponsor: codec.Address{byte(sp.Sponsor + 1)}, size: sp.Size})
	}
	r.m = mempool.New[*mpItem](trace.Noop, c.MaxSize, c.MaxSponsor)
	return r
}

func idxs(l []*mpItem) []int {
	var out []int
	for _, x := range l {
		if x == nil {
			out = append(out, -1)
		} else {
			out = append(out, x.idx)
		}
	}
	return out
}

// apply calls the real mempool.
func (r *c23Real) apply(in mpIn) mpOut {
	ctx := context.Background()
	switch in.K {
	case "add":
		r.m.Add(ctx, []*mpItem{r.items[in.I]})
	case "rm":
		r.m.Remove(ctx, []*mpItem{r.items[in.I]})
	case "has":
		return mpOut{B: r.m.Has(ctx, r.items[in.I].id)}
	case "len":
		return mpOut{N: r.m.Len(ctx)}
	case "size":
		return mpOut{N: r.m.Size(ctx)}
	case "peek":
		if it, ok := r.m.PeekNext(ctx); ok {
			return mpOut{L: idxs([]*mpItem{it})}
		}
	case "pop":
		if it, ok := r.m.PopNext(ctx); ok {
			return mpOut{L: idxs([]*mpItem{it})}
		}
	case "setmin":
		return mpOut{L: idxs(r.m.SetMinTimestamp(ctx, in.T))}
	case "start":
		r.m.StartStreaming(ctx)
	case "prepare":
		r.m.PrepareStream(ctx, in.N)
	case "stream":
		return mpOut{L: idxs(r.m.Stream(ctx, in.N))}
	case "finish":
		var back []*mpItem
		for _, x := range in.L {
			back = append(back, r.items[x])
		}
		return mpOut{N: r.m.FinishStreaming(ctx, back)}
	case "top":
		var seen []*mpItem
		// the duration bound is one hour: the call takes microseconds, so the clock never cuts the iteration short
		_ = r.m.Top(ctx, time.Hour, func(_ context.Context, it *mpItem) (bool, bool, error) {
			d := 1
			if len(seen) < len(in.Dec) {
				d = in.Dec[len(seen)]
			}
			seen = append(seen, it)
			return d&1 != 0, d&2 != 0, nil
		})
		return mpOut{L: idxs(seen)}
	}
	return mpOut{}
}

type c23SeqStats struct {
	rejectedByLimit, blockedByStream, givenBack, expired, streamedItems, ops int
	maxStates                                                                int
}

// c23RunSeq drives one sequential history; returns the violation key/detail ("" = agreed).
func c23RunSeq(c c23Case) (key, detail string, st c23SeqStats) {
	real := c23New(c)
	cfg := real.cfg
	states := []mpS{{}}
	streaming, prepared := false, false
	var handed []int // items delivered by Stream in the open stream
	type io struct {
		in  mpIn
		out mpOut
	}
	var log []io
	trace := func() []string {
		var t []string
		for _, e := range log {
			t = append(t, cfg.describe(e.in, e.out))
		}
		return t
	}
	do := func(in mpIn) (mpOut, bool) {
		out := real.apply(in)
		var next []mpS
		if len(states) == 1 {
			next = cfg.step(states[0], in, out)
		} else {
			for _, s := range states {
				next = append(next, cfg.step(s, in, out)...)
			}
		}
		if len(next) > 1 { // merge equal states
			seen := make(map[mpS]bool, len(next))
			k := 0
			for _, ns := range next {
				if !seen[ns] {
					seen[ns] = true
					next[k] = ns
					k++
				}
			}
			next = next[:k]
		}
		log = append(log, io{in, out})
		st.ops++
		if len(next) == 0 {
			return out, false
		}
		states = next
		if len(states) > st.maxStates {
			st.maxStates = len(states)
		}
		return out, true
	}
	fail := func(kind string, in mpIn) (string, string, c23SeqStats) {
		var poss []string
		for _, s := range states {
			poss = append(poss, fmt.Sprintf("{back:%q queue:%q streaming:%v streamed:%q prepared:%q+%q}", s.R, s.Q, s.On, s.St, s.PR, s.PQ))
		}
		tr := trace()
		pre := tr[:len(tr)-1]
		if len(pre) > 40 {
			pre = append([]string{"…"}, pre[len(pre)-40:]...)
		}
		return "C23/" + kind, fmt.Sprintf("after %v the answer %s is impossible for a mempool (max %d items, %d per sponsor) whose state is one of %v", pre, tr[len(tr)-1], c.MaxSize, c.MaxSponsor, poss), st
	}
	kindOf := map[string]string{"has": "membership", "len": "len", "size": "size-not-sum-of-held", "peek": "handout-order", "pop": "handout-order", "stream": "handout-order", "top": "handout-order", "setmin": "expiry-set"}
	// observe queries Len, Size, PeekNext and Has of every item; it returns the
	// first answer the specification cannot explain plus the raw answers.
	observe := func() (kind string, bad mpIn, n int, has []bool) {
		note := func(in mpIn, ok bool) {
			if !ok && kind == "" {
				kind, bad = kindOf[in.K], in
			}
		}
		for _, in := range []mpIn{{K: "len"}, {K: "size"}, {K: "peek"}} {
			if kind != "" {
				break
			}
			out, ok := do(in)
			note(in, ok)
			if in.K == "len" {
				n = out.N
			}
		}
		for i := range c.Items {
			in := mpIn{K: "has", I: i}
			if kind != "" {
				has = append(has, real.apply(in).B)
				continue
			}
			out, ok := do(in)
			note(in, ok)
			has = append(has, out.B)
		}
		return
	}
	for _, op := range c.Ops {
		in := mpIn{K: op.K, I: op.I, N: op.N, T: op.T}
		// keep to the streaming protocol (one open stream, Prepare followed by Stream)
		switch op.K {
		case "add", "rm", "has":
			if op.I < 0 || op.I >= len(c.Items) {
				continue
			}
		case "start":
			if streaming {
				continue
			}
		case "prepare":
			if !streaming || prepared {
				continue
			}
		case "stream":
			if !streaming {
				continue
			}
		case "finish":
			if !streaming {
				continue
			}
			for i, x := range handed {
				if op.Mask&(1<<uint(i%32)) != 0 {
					in.L = append(in.L, x)
				}
			}
		case "top":
			if streaming {
				continue // Top would give items back in front of an open stream; the builder never mixes the two
			}
			for i := 0; i < 16; i++ {
				in.Dec = append(in.Dec, int(op.Mask>>(2*uint(i)))&3)
			}
		}
		// evidence about what the history exercises (from the model's point of view, before the op)
		if op.K == "add" {
			s := states[0]
			b := bItem(op.I)
			if !cfg.held(s, b) {
				if s.On && strings.IndexByte(s.St, b) >= 0 {
					st.blockedByStream++
				} else if cfg.spCount(s, c.Items[op.I].Sponsor) >= cfg.maxSp || len(s.R)+len(s.Q) >= cfg.maxSize {
					st.rejectedByLimit++
				}
			}
		}
		out, ok := do(in)
		if !ok {
			k := kindOf[op.K]
			if k == "" {
				k = "op-" + op.K
			}
			return fail(k, in)
		}
		switch op.K {
		case "start":
			streaming, prepared, handed = true, false, nil
		case "prepare":
			prepared = true
		case "stream":
			prepared = false
			for _, x := range out.L {
				for _, y := range handed {
					if x == y {
						return "C23/handed-out-twice-in-one-stream", fmt.Sprintf("after %v item %c was handed out a second time in the same stream", trace(), bItem(x)), st
					}
				}
				handed = append(handed, x)
				st.streamedItems++
			}
		case "finish":
			streaming, prepared = false, false
			st.givenBack += len(in.L)
		case "setmin":
			st.expired += len(out.L)
		}
		k, bad, n, has := observe()
		// bounds, straight from the statement (keyed specifically, judged before the model's verdict)
		if n > c.MaxSize {
			return "C23/item-limit-exceeded", fmt.Sprintf("after %v the mempool holds %d items, limit %d", trace(), n, c.MaxSize), st
		}
		var per [3]int
		for i, it := range c.Items {
			if has[i] {
				per[it.Sponsor]++
			}
		}
		for sp, cnt := range per {
			if cnt > c.MaxSponsor {
				return "C23/sponsor-limit-exceeded", fmt.Sprintf("after %v sponsor %d holds %d items, limit %d", trace(), sp, cnt, c.MaxSponsor), st
			}
		}
		if k != "" {
			return fail("after-"+op.K+"/"+k, bad)
		}
	}
	if streaming {
		real.apply(mpIn{K: "finish"})
	}
	return "", "", st
}

func c23GenItems(rng *rand.Rand, n int) []c23ItemSpec {
	var out []c23ItemSpec
	sizes := []int{1, 7, 7, 10, 100, 1000}
	for i := 0; i < n; i++ {
		out = append(out, c23ItemSpec{Sponsor: rng.IntN(3), Size: sizes[rng.IntN(len(sizes))], Exp: int64(1 + rng.IntN(6))})
	}
	return out
}

func c23GenLimits(rng *rand.Rand, nItems int) (int, int) {
	maxSize := 1 + rng.IntN(nItems+1)
	if rng.IntN(6) == 0 {
		maxSize = 1
	}
	maxSp := 1 + rng.IntN(maxSize)
	if rng.IntN(4) == 0 {
		maxSp = maxSize // sponsor limit = total limit
	}
	return maxSize, maxSp
}

func c23GenSeq(rng *rand.Rand) c23Case {
	n := 2 + rng.IntN(7)
	c := c23Case{Items: c23GenItems(rng, n)}
	c.MaxSize, c.MaxSponsor = c23GenLimits(rng, n)
	ln := 4 + rng.IntN(20)
	if rng.IntN(8) == 0 {
		ln = 20 + rng.IntN(40)
	}
	streaming, prepared := false, false
	pick := func(w []int) int {
		tot := 0
		for _, x := range w {
			tot += x
		}
		x := rng.IntN(tot)
		for i, v := range w {
			if x < v {
				return i
			}
			x -= v
		}
		return 0
	}
	for s := 0; s < ln; s++ {
		var op c23Op
		//            add rm setmin pop top start prepare stream finish
		w := []int{8, 2, 1, 1, 1, 3, 0, 0, 0}
		if streaming {
			w = []int{6, 2, 1, 1, 0, 0, 2, 4, 2}
			if prepared {
				w[6] = 0
			}
		}
		switch pick(w) {
		case 0:
			op = c23Op{K: "add", I: rng.IntN(n)}
		case 1:
			op = c23Op{K: "rm", I: rng.IntN(n)}
		case 2:
			op = c23Op{K: "setmin", T: int64(rng.IntN(8))}
		case 3:
			op = c23Op{K: "pop"}
		case 4:
			op = c23Op{K: "top", Mask: rng.Uint32()}
		case 5:
			op = c23Op{K: "start"}
			streaming, prepared = true, false
		case 6:
			op = c23Op{K: "prepare", N: rng.IntN(4)}
			prepared = true
		case 7:
			op = c23Op{K: "stream", N: rng.IntN(4)}
			prepared = false
		case 8:
			op = c23Op{K: "finish", Mask: rng.Uint32()}
			streaming, prepared = false, false
		}
		c.Ops = append(c.Ops, op)
	}
	return c
}

func c23SeqShape(c c23Case) string {
	var b strings.Builder
	fmt.Fprintf(&b, "%d/%d|", c.MaxSize, c.MaxSponsor)
	for _, it := range c.Items {
		fmt.Fprintf(&b, "%d.%d.%d,", it.Sponsor, it.Size, it.Exp)
	}
	for _, o := range c.Ops {
		fmt.Fprintf(&b, "%s%d.%d.%d.%d;", o.K, o.I, o.N, o.T, o.Mask)
	}
	return b.String()
}

// ---- concurrent histories ----

func (c *mpCfg) porcupineModel() porcupine.Model {
	nm := porcupine.NondeterministicModel{
		Init: func() []interface{} { return []interface{}{mpS{}} },
		Step: func(state, input, output interface{}) []interface{} {
			var out []interface{}
			for _, ns := range c.step(state.(mpS), input.(mpIn), output.(mpOut)) {
				out = append(out, ns)
			}
			return out
		},
		Equal: func(a, b interface{}) bool { return a.(mpS) == b.(mpS) },
		Hash:  func(a interface{}) uint64 { return fnv64(fmt.Sprintf("%#v", a.(mpS))) },
		DescribeOperation: func(in, out interface{}) string {
			return c.describe(in.(mpIn), out.(mpOut))
		},
	}
	return nm.ToModel()
}

// c23RunConc runs clients concurrently against one mempool and returns the recorded history.
func c23RunConc(c c23Case, rng *rand.Rand) []c23HistOp {
	real := c23New(c)
	var clock kit.Clock
	var mu sync.Mutex
	var hist []c23HistOp
	record := func(client int, in mpIn, f func() mpOut) mpOut {
		call := clock.Tick()
		if (call+int64(client))%3 == 0 {
			runtime.Gosched() // widen the window between invocation stamp and call
		}
		out := f()
		ret := clock.Tick()
		mu.Lock()
		hist = append(hist, c23HistOp{Client: client, In: in, Out: out, Call: call, Ret: ret})
		mu.Unlock()
		return out
	}
	nClients := 2 + rng.IntN(3)
	builder := rng.IntN(3) > 0
	n := len(c.Items)
	startGate := make(chan struct{})
	var wg sync.WaitGroup
	for cl := 0; cl < nClients; cl++ {
		var ops []mpIn
		for k := 0; k < 2+rng.IntN(4); k++ {
			switch x := rng.IntN(14); {
			case x < 5:
				ops = append(ops, mpIn{K: "add", I: rng.IntN(n)})
			case x < 7:
				ops = append(ops, mpIn{K: "rm", I: rng.IntN(n)})
			case x < 8:
				ops = append(ops, mpIn{K: "has", I: rng.IntN(n)})
			case x < 9:
				ops = append(ops, mpIn{K: "len"})
			case x < 10:
				ops = append(ops, mpIn{K: "size"})
			case x < 11:
				ops = append(ops, mpIn{K: "peek"})
			case x < 12:
				ops = append(ops, mpIn{K: "pop"})
			default:
				ops = append(ops, mpIn{K: "setmin", T: int64(rng.IntN(8))})
			}
		}
		wg.Add(1)
		go func(cl int, ops []mpIn) {
			defer wg.Done()
			<-startGate
			for _, in := range ops {
				in := in
				record(cl, in, func() mpOut { return real.apply(in) })
			}
		}(cl, ops)
	}
	if builder {
		// one builder-like client: a single stream open at a time (a second StartStreaming before
		// FinishStreaming blocks the whole mempool by design of its stream lock)
		brng := rand.New(rand.NewPCG(rng.Uint64(), 23))
		rounds := 1 + brng.IntN(2)
		wg.Add(1)
		go func() {
			defer wg.Done()
			<-startGate
			cl := nClients
			for r := 0; r < rounds; r++ {
				record(cl, mpIn{K: "start"}, func() mpOut { return real.apply(mpIn{K: "start"}) })
				var handed []int
				for b := 0; b < 1+brng.IntN(2); b++ {
					in := mpIn{K: "stream", N: 1 + brng.IntN(2)}
					out := record(cl, in, func() mpOut { return real.apply(in) })
					handed = append(handed, out.L...)
					if brng.IntN(2) == 0 {
						pin := mpIn{K: "prepare", N: 1 + brng.IntN(2)}
						record(cl, pin, func() mpOut { return real.apply(pin) })
						if brng.IntN(2) == 0 {
							sin := mpIn{K: "stream", N: 1}
							o2 := record(cl, sin, func() mpOut { return real.apply(sin) })
							handed = append(handed, o2.L...)
						}
					}
				}
				fin := mpIn{K: "finish"}
				for _, x := range handed {
					if brng.IntN(2) == 0 {
						fin.L = append(fin.L, x)
					}
				}
				record(cl, fin, func() mpOut { out := real.apply(fin); out.N = 0; return out })
			}
		}()
	}
	close(startGate)
	wg.Wait()
	sort.Slice(hist, func(i, j int) bool { return hist[i].Call < hist[j].Call })
	return hist
}

func c23CheckHistory(c c23Case, hist []c23HistOp) (porcupine.CheckResult, int) {
	cfg := &mpCfg{maxSize: c.MaxSize, maxSp: c.MaxSponsor, items: c.Items}
	var ops []porcupine.Operation
	overlaps := 0
	for i, h := range hist {
		ops = append(ops, porcupine.Operation{ClientId: h.Client, Input: h.In, Call: h.Call, Output: h.Out, Return: h.Ret})
		for j := 0; j < i; j++ {
			if hist[j].Ret > h.Call && hist[j].Client != h.Client {
				overlaps++
			}
		}
	}
	return porcupine.CheckOperationsTimeout(cfg.porcupineModel(), ops, 60*time.Second), overlaps
}

func TestC23(t *testing.T) {
	r := kit.Start(t, "C23", "exploration")
	r.Rule("(1) sequential histories: 4..60 ops (add/remove/expire/pop/peek/start/prepare/stream/finish with a PRNG subset given back/top) over 2..8 items of 3 sponsors, item limit 1..n+1 (incl. 1), sponsor limit 1..limit (incl. = limit); after every op Len, Size, PeekNext and Has of every item are compared with a nondeterministic sequential specification (set of allowed states) and the limits are checked directly. (2) concurrent histories: 2..4 clients x 2..5 ops plus one builder-like client (start/stream/prepare/finish), stamped with one atomic logical clock and checked linearizable against the same specification with porcupine. A sequential case is non-trivial when an add was refused by a limit or by the open stream, items were given back, or items expired; a concurrent one when calls of different clients overlapped. distinct = distinct (limits, items, op sequence) resp. distinct recorded history.")
	r.Assume(
		"Add admits an item iff it is not held, was not handed out in the open stream, and neither limit is reached (doc comment of Add); items given back after a build may be dropped only when a limit leaves no room for them",
		"the order among items given back is unspecified (any of them may be handed out first); every given-back item precedes every item in arrival order",
		"streaming protocol of chain/builder.go: one open stream at a time, PrepareStream is followed by Stream before the next PrepareStream, Top is not used while a stream is open (a second StartStreaming before FinishStreaming blocks on the stream lock by design and is not part of the property)",
		"Mempool.Top is given a one-hour duration so that its wall-clock cut-off never triggers",
	)
	if rf := r.Replay(); rf != nil && len(rf.Witness) > 0 {
		var c c23Case
		if err := jsonUnmarshal(rf.Witness, &c); err == nil && len(c.Items) > 0 {
			r.Eval()
			if len(c.History) > 0 {
				if res, _ := c23CheckHistory(c, c.History); res == porcupine.Illegal {
					r.Violation("C23/not-linearizable", c, "recorded concurrent history is not linearizable w.r.t. the mempool specification")
				}
			} else {
				var key, d string
				r.Guard("mempool", c, func() { key, d, _ = c23RunSeq(c) })
				if key != "" {
					r.Violation(key, c, "%s", d)
				}
			}
			r.Finish(0)
			return
		}
	}

	// (1) sequential
	rng := r.Rand("sequential")
	n := r.N(25000, 300000)
	maxStates := 0
	for i := 0; i < n && r.Violations() < 10; i++ {
		c := c23GenSeq(rng)
		r.Eval()
		var key, d string
		var st c23SeqStats
		r.Guard("mempool", c, func() { key, d, st = c23RunSeq(c) })
		if key != "" {
			r.Violation(key, c, "%s", d)
		}
		r.Count("seq_ops_compared", st.ops)
		r.Count("seq_adds_refused_by_limit", st.rejectedByLimit)
		r.Count("seq_adds_blocked_by_open_stream", st.blockedByStream)
		r.Count("seq_items_given_back", st.givenBack)
		r.Count("seq_items_expired", st.expired)
		r.Count("seq_items_streamed", st.streamedItems)
		if st.maxStates > maxStates {
			maxStates = st.maxStates
		}
		if st.rejectedByLimit+st.blockedByStream+st.givenBack+st.expired > 0 {
			r.Distinct(c23SeqShape(c))
			r.Sample(c)
		}
	}
	r.Extra("max_simultaneous_model_states", maxStates)

	// (2) concurrent
	crng := r.Rand("concurrent")
	m := r.N(2000, 20000)
	for i := 0; i < m && r.Violations() < 10; i++ {
		nItems := 2 + crng.IntN(4)
		c := c23Case{Items: c23GenItems(crng, nItems)}
		c.MaxSize, c.MaxSponsor = c23GenLimits(crng, nItems)
		r.Eval()
		var hist []c23HistOp
		r.Guard("mempool-concurrent", c, func() { hist = c23RunConc(c, crng) })
		if hist == nil {
			continue
		}
		res, overlaps := c23CheckHistory(c, hist)
		r.Count("conc_ops", len(hist))
		r.Count("conc_overlapping_call_pairs", overlaps)
		switch res {
		case porcupine.Illegal:
			cfg := &mpCfg{maxSize: c.MaxSize, maxSp: c.MaxSponsor, items: c.Items}
			for k := range hist {
				hist[k].Text = cfg.describe(hist[k].In, hist[k].Out)
			}
			c.History = hist
			r.Violation("C23/not-linearizable", c, "concurrent history of %d calls is not linearizable w.r.t. the mempool specification", len(hist))
		case porcupine.Unknown:
			r.Inconclusive("porcupine timed out on a history of %d calls", len(hist))
		}
		if overlaps > 0 {
			var b strings.Builder
			for _, h := range hist {
				fmt.Fprintf(&b, "%d:%s:%d:%d:%d:%v|", h.Client, h.In.K, h.In.I, h.In.N, h.In.T, h.Out)
			}
			r.Distinct("conc", c.MaxSize, c.MaxSponsor, b.String())
		}
	}
	if r.Violations() > 0 {
		r.Finish(0) // cut short by the violation cap
		return
	}
	r.Finish(2000)
}
