// Package bondx holds the monitor of C38 (fee bonds are released exactly once
// per bonded transaction).
package bondx

import (
	"context"
	"encoding/binary"
	"encoding/json"
	"errors"
	"fmt"
	"math"
	"math/big"
	"math/rand/v2"
	"sort"
	"strings"
	"testing"

	"github.com/ava-labs/avalanchego/database"
	"github.com/ava-labs/avalanchego/database/memdb"
	"github.com/ava-labs/avalanchego/ids"

	"github.com/ava-labs/hypersdk/chain"
	"github.com/ava-labs/hypersdk/chain/chaintest"
	"github.com/ava-labs/hypersdk/codec"
	ichain "github.com/ava-labs/hypersdk/internal/chain"
	"github.com/ava-labs/hypersdk/state"
	"github.com/ava-labs/hypersdk/x/dsmr"
	"github.com/ava-labs/hypersdk/x/fdsmr"
	"github.com/ava-labs/hypersdk/zzverif/kit"
)

// ---------------------------------------------------------------------------
// fixed universe: 3 sponsors x 5 transactions of different sizes and expiries.
// Accounts 0..2 are the sponsors, accounts 3..5 are pure actors that never
// sponsor (and therefore never bond) anything. Three of the five transactions
// of every sponsor are fee-delegated (Auth.Actor() != Auth.Sponsor()).
// ---------------------------------------------------------------------------

const (
	c38Sponsors      = 3
	c38TxsPerSponsor = 5
	c38Accounts      = 2 * c38Sponsors // sponsors + pure actors
)

type c38Tx struct {
	tx      *chain.Transaction
	sponsor int
	actor   int // account index of Auth.Actor(); == sponsor for self-paid txs
	size    uint64
	expiry  int64
}

// c38ActorOf fixes who acts in transaction j of sponsor s:
//
//	j=0,3: the sponsor itself
//	j=1:   the next sponsor (an account that has bonds of its own)
//	j=2:   pure actor account 3+s (never has a pending bond)
//	j=4:   the previous sponsor
func c38ActorOf(s, j int) int {
	switch j {
	case 1:
		return (s + 1) % c38Sponsors
	case 2:
		return c38Sponsors + s
	case 4:
		return (s + c38Sponsors - 1) % c38Sponsors
	}
	return s
}

var c38Pool []c38Tx // index = sponsor*c38TxsPerSponsor + j

func c38Sponsor(i int) codec.Address {
	a := codec.Address{}
	a[0] = 7
	a[1] = byte(i + 1)
	return a
}

func c38BuildPool() error {
	if c38Pool != nil {
		return nil
	}
	pool := make([]c38Tx, 0, c38Sponsors*c38TxsPerSponsor)
	for s := 0; s < c38Sponsors; s++ {
		for j := 0; j < c38TxsPerSponsor; j++ {
			auth := &chaintest.TestAuth{
				NumComputeUnits: 1,
				ActorAddress:    c38Sponsor(c38ActorOf(s, j)),
				SponsorAddress:  c38Sponsor(s),
				Start:           -1,
				End:             -1,
			}
			action := &chaintest.TestAction{
				NumComputeUnits:              1,
				SpecifiedStateKeys:           []string{},
				SpecifiedStateKeyPermissions: []state.Permissions{},
				ReadKeys:                     [][]byte{},
				WriteKeys:                    [][]byte{},
				WriteValues:                  [][]byte{make([]byte, 13*j)}, // different sizes
				Nonce:                        uint64(100*s + j),
				Start:                        -1,
				End:                          -1,
			}
			expiry := int64(10 * (j + 1)) // 10,20,..,50
			tx, err := chain.NewTransaction(
				chain.Base{Timestamp: expiry, ChainID: ids.ID{1}, MaxFee: 1},
				[]chain.Action{action},
				auth,
			)
			if err != nil {
				return err
			}
			a := c38ActorOf(s, j)
			if tx.GetSponsor() != c38Sponsor(s) || tx.Auth.Sponsor() != c38Sponsor(s) || tx.Auth.Actor() != c38Sponsor(a) || tx.GetExpiry() != expiry || tx.Size() <= 0 {
				return fmt.Errorf("pool tx %d/%d has unexpected sponsor/actor/expiry/size", s, j)
			}
			pool = append(pool, c38Tx{tx: tx, sponsor: s, actor: a, size: uint64(tx.Size()), expiry: expiry})
		}
	}
	seen := map[ids.ID]bool{}
	for _, p := range pool {
		if seen[p.tx.GetID()] {
			return errors.New("pool tx ids are not unique")
		}
		seen[p.tx.GetID()] = true
	}
	c38Pool = pool
	return nil
}

// ---------------------------------------------------------------------------
// histories
// ---------------------------------------------------------------------------

// c38Op is one step of a history. Direct histories use setmax/bond/unbond,
// node histories use setmax/chunk/accept.
type c38Op struct {
	Kind     string  `json:"op"`
	Sponsor  int     `json:"sponsor,omitempty"`  // setmax
	Max      uint64  `json:"max,omitempty"`      // setmax
	Tx       int     `json:"tx,omitempty"`       // bond / unbond (pool index)
	Rate     uint64  `json:"rate,omitempty"`     // bond / chunk
	Txs      []int   `json:"txs,omitempty"`      // chunk (pool indices, duplicates allowed)
	InnerErr bool    `json:"innerErr,omitempty"` // chunk / accept: the scripted inner DSMR fails
	TS       int64   `json:"ts,omitempty"`       // accept: block timestamp
	Chunks   [][]int `json:"chunks,omitempty"`   // accept: executed chunks (pool indices)
}

func (o c38Op) String() string {
	switch o.Kind {
	case "setmax":
		return fmt.Sprintf("setmax(s%d,%d)", o.Sponsor, o.Max)
	case "bond":
		return fmt.Sprintf("bond(t%d,r%d)", o.Tx, o.Rate)
	case "unbond":
		return fmt.Sprintf("unbond(t%d)", o.Tx)
	case "chunk":
		e := ""
		if o.InnerErr {
			e = ",innerErr"
		}
		return fmt.Sprintf("chunk(%v,r%d%s)", o.Txs, o.Rate, e)
	case "accept":
		e := ""
		if o.InnerErr {
			e = ",innerErr"
		}
		return fmt.Sprintf("accept(ts%d,%v%s)", o.TS, o.Chunks, e)
	}
	return "?"
}

type c38Case struct {
	Mode string  `json:"mode"` // direct | node
	Ops  []c38Op `json:"ops"`
}

func (c c38Case) shape() string {
	var b strings.Builder
	b.WriteString(c.Mode)
	for _, o := range c.Ops {
		b.WriteByte(' ')
		b.WriteString(o.String())
	}
	return b.String()
}

// ---------------------------------------------------------------------------
// monitor: wraps the real Bonder, keeps the reference model and judges every
// Bond/Unbond call at the moment it returns
// ---------------------------------------------------------------------------

type c38Fail struct {
	key, detail string
}

type c38Stats struct {
	bondsOK, bondsRejected, dupWhileUnsettled, rebondAfterSettle int
	unbondEffective, unbondNoop                                  int
	accepts, settledByAccept, settledByExpiry, zeroChecks        int
	maxChanges, innerErrs, keptFee, replacedFee                  int
	// fee-delegated txs (actor != sponsor)
	delegBondsOK, delegReleases, delegActorLiveSponsor, delegActorNoBond, delegActorPure int
}

type c38Monitor struct {
	ctx    context.Context
	db     database.Database
	st     *chaintest.InMemoryStore
	bonder ichain.Bonder

	// model (plain maps)
	max       [c38Sponsors]uint64
	bonded    map[int]uint64 // pool index -> fee of the live bond
	everBond  map[int]bool
	dupLive   map[int]bool // the live bond of this tx was bonded again
	byID      map[ids.ID]int
	lastOKs   []int // pool indices whose Bond returned true since the last reset
	fail      *c38Fail
	stats     c38Stats
	nontrivia bool
	delegated bool // the history released the bond of a fee-delegated tx
}

var _ fdsmr.Bonder[*chain.Transaction] = (*c38Monitor)(nil)

func newC38Monitor() *c38Monitor {
	db := memdb.New()
	m := &c38Monitor{
		ctx:      context.Background(),
		db:       db,
		st:       chaintest.NewInMemoryStore(),
		bonder:   ichain.NewBonder(db),
		bonded:   map[int]uint64{},
		everBond: map[int]bool{},
		dupLive:  map[int]bool{},
		byID:     map[ids.ID]int{},
	}
	for i, p := range c38Pool {
		m.byID[p.tx.GetID()] = i
	}
	return m
}

func (m *c38Monitor) failf(key, format string, args ...any) {
	if m.fail == nil {
		m.fail = &c38Fail{key: key, detail: fmt.Sprintf(format, args...)}
	}
}

// pending reads the observation point named by the property: the pending
// balance the bonder keeps in its database under the sponsor address.
func (m *c38Monitor) pending(s int) uint64 {
	a := c38Sponsor(s)
	b, err := m.db.Get(a[:])
	if errors.Is(err, database.ErrNotFound) || len(b) == 0 {
		return 0
	}
	if err != nil || len(b) != 8 {
		m.failf("C38/pending-unreadable", "pending balance of sponsor %d unreadable: %x %v", s, b, err)
		return 0
	}
	return binary.BigEndian.Uint64(b)
}

func c38AccountName(a int) string {
	if a < c38Sponsors {
		return fmt.Sprintf("sponsor %d", a)
	}
	return fmt.Sprintf("pure actor account %d", a)
}

func (m *c38Monitor) modelSum(s int) *big.Int {
	sum := new(big.Int)
	for i, fee := range m.bonded {
		if c38Pool[i].sponsor == s {
			sum.Add(sum, new(big.Int).SetUint64(fee))
		}
	}
	return sum
}

func (m *c38Monitor) modelHasSponsor(s int) bool {
	for i := range m.bonded {
		if c38Pool[i].sponsor == s {
			return true
		}
	}
	return false
}

// checkAll compares every account's pending balance with the model (the model
// keys everything on the sponsor: pure actor accounts never have a bond).
func (m *c38Monitor) checkAll(when string) {
	for s := 0; s < c38Accounts; s++ {
		got := new(big.Int).SetUint64(m.pending(s))
		want := m.modelSum(s)
		if !m.modelHasSponsor(s) {
			m.stats.zeroChecks++
			if got.Sign() != 0 {
				m.failf("C38/pending-nonzero-when-all-settled", "%s: %s has no bonded unsettled tx but pending=%s", when, c38AccountName(s), got)
			}
			continue
		}
		if got.Cmp(want) != 0 {
			m.failf("C38/pending-mismatch", "%s: sponsor %d pending=%s, sum of fees of bonded unsettled txs=%s", when, s, got, want)
		}
	}
}

func (m *c38Monitor) SetMax(s int, max uint64) {
	if err := m.bonder.SetMaxBalance(m.ctx, m.st, c38Sponsor(s), max); err != nil {
		m.failf("C38/setmax-error", "SetMaxBalance(s%d,%d): %v", s, max, err)
		return
	}
	m.max[s] = max
	m.stats.maxChanges++
}

// Bond implements fdsmr.Bonder: real call + judgement.
func (m *c38Monitor) Bond(ctx context.Context, mutable state.Mutable, tx *chain.Transaction, rate uint64) (bool, error) {
	i, known := m.byID[tx.GetID()]
	if !known {
		m.failf("C38/harness", "Bond of a tx outside the pool")
		return false, errors.New("harness")
	}
	p := c38Pool[i]
	s := p.sponsor
	others := [c38Accounts]uint64{}
	for o := 0; o < c38Accounts; o++ {
		others[o] = m.pending(o)
	}
	before := others[s]
	ok, err := m.bonder.Bond(ctx, mutable, tx, rate)
	after := m.pending(s)
	when := fmt.Sprintf("Bond(t%d,size=%d,rate=%d)=(%v,%v) sponsor %d actor %d max=%d pending %d->%d", i, p.size, rate, ok, err, s, p.actor, m.max[s], before, after)
	for o := 0; o < c38Accounts; o++ {
		if o != s && m.pending(o) != others[o] {
			m.failf("C38/bond-changed-other-sponsor", "%s changed pending of %s: %d->%d", when, c38AccountName(o), others[o], m.pending(o))
		}
	}
	if err != nil {
		m.failf("C38/bond-error", "%s: unexpected error on a healthy db", when)
		return ok, err
	}
	fee := new(big.Int).Mul(new(big.Int).SetUint64(p.size), new(big.Int).SetUint64(rate))
	if !ok {
		m.stats.bondsRejected++
		if after != before {
			m.failf("C38/rejected-bond-changed-pending", "%s", when)
		}
		return ok, err
	}
	m.stats.bondsOK++
	if p.actor != s {
		m.stats.delegBondsOK++
	}
	m.lastOKs = append(m.lastOKs, i)
	old, live := m.bonded[i]
	if !live && !fee.IsUint64() {
		m.failf("C38/bond-ok-on-fee-overflow", "%s: fee %s does not fit 64 bits", when, fee)
		return ok, err
	}
	f := fee.Uint64() // only meaningful when the fee fits (checked where it is used)
	switch {
	case !live:
		if m.everBond[i] {
			m.stats.rebondAfterSettle++
			m.nontrivia = true
		}
		want := new(big.Int).Add(new(big.Int).SetUint64(before), fee)
		if new(big.Int).SetUint64(after).Cmp(want) != 0 {
			m.failf("C38/bond-pending-mismatch", "%s: expected pending %s after bonding fee %d", when, want, f)
		}
		m.bonded[i] = f
		m.everBond[i] = true
	default:
		// the same tx is bonded again while its bond is live: it is still ONE
		// bonded transaction; its fee is either kept or replaced.
		m.stats.dupWhileUnsettled++
		m.nontrivia = true
		m.dupLive[i] = true
		keep := before
		repl := new(big.Int).Sub(new(big.Int).SetUint64(before), new(big.Int).SetUint64(old))
		repl.Add(repl, fee)
		switch {
		case after == keep:
			m.stats.keptFee++
		case fee.IsUint64() && new(big.Int).SetUint64(after).Cmp(repl) == 0:
			m.bonded[i] = f
			m.stats.replacedFee++
		case new(big.Int).SetUint64(after).Cmp(new(big.Int).Add(new(big.Int).SetUint64(before), fee)) == 0:
			m.failf("C38/duplicate-bond-charged-twice", "%s: tx already bonded with fee %d was charged again (one release will leave %d stuck)", when, old, f)
		default:
			m.failf("C38/bond-pending-mismatch", "%s: re-bond of a live tx (fee %d) must keep (%d) or replace (%s) its fee", when, old, keep, repl)
		}
	}
	if after > before && after > m.max[s] {
		m.failf("C38/pending-exceeds-max", "%s: bond raised pending above the sponsor's maximum", when)
	}
	return ok, err
}

// Unbond implements fdsmr.Bonder: real call + judgement.
func (m *c38Monitor) Unbond(tx *chain.Transaction) error {
	i, known := m.byID[tx.GetID()]
	if !known {
		m.failf("C38/harness", "Unbond of a tx outside the pool")
		return errors.New("harness")
	}
	s, a := c38Pool[i].sponsor, c38Pool[i].actor
	others := [c38Accounts]uint64{}
	for o := 0; o < c38Accounts; o++ {
		others[o] = m.pending(o)
	}
	before := others[s]
	actorLive := a != s && a < c38Sponsors && m.modelHasSponsor(a) // before the release
	err := m.bonder.Unbond(tx)
	after := m.pending(s)
	when := fmt.Sprintf("Unbond(t%d)=%v sponsor %d actor %d pending %d->%d", i, err, s, a, before, after)
	if err != nil {
		m.failf("C38/unbond-error", "%s: unexpected error on a healthy db", when)
		return err
	}
	// a release concerns the sponsor's pending balance only
	for o := 0; o < c38Accounts; o++ {
		if now := m.pending(o); o != s && now != others[o] {
			who := ""
			if o == a {
				who = " (the tx's actor, which is not its sponsor)"
			}
			m.failf("C38/unbond-changed-other-account", "%s changed pending of %s%s: %d->%d", when, c38AccountName(o), who, others[o], now)
		}
	}
	fee, live := m.bonded[i]
	if !live {
		m.stats.unbondNoop++
		if after != before {
			m.failf("C38/unbond-of-unbonded-changed-pending", "%s", when)
		}
		return nil
	}
	m.stats.unbondEffective++
	if a != s {
		m.delegated = true
		m.stats.delegReleases++
		switch {
		case a >= c38Sponsors:
			m.stats.delegActorPure++
		case actorLive:
			m.stats.delegActorLiveSponsor++
		default:
			m.stats.delegActorNoBond++
		}
	}
	delete(m.bonded, i)
	dup := m.dupLive[i]
	delete(m.dupLive, i)
	if before < fee || after != before-fee {
		if dup {
			m.failf("C38/duplicate-bond-release-mismatch", "%s: expected release of fee %d (the tx was bonded again while its bond was live; the re-bond kept the pending balance but the release does not return the bonded fee)", when, fee)
		} else {
			m.failf("C38/unbond-release-mismatch", "%s: expected release of fee %d", when, fee)
		}
	}
	return nil
}

// ---------------------------------------------------------------------------
// scripted inner DSMR for the fdsmr.Node driver
// ---------------------------------------------------------------------------

var errC38Inner = errors.New("scripted inner dsmr error")

type c38DSMR struct {
	buildErr  bool
	acceptErr bool
	chunks    [][]int
	gotTxs    []*chain.Transaction
}

func (d *c38DSMR) BuildChunk(_ context.Context, txs []*chain.Transaction, _ int64, _ codec.Address) error {
	d.gotTxs = txs
	if d.buildErr {
		return errC38Inner
	}
	return nil
}

func (d *c38DSMR) Accept(_ context.Context, block dsmr.Block) (dsmr.ExecutedBlock[*chain.Transaction], error) {
	if d.acceptErr {
		return dsmr.ExecutedBlock[*chain.Transaction]{}, errC38Inner
	}
	out := dsmr.ExecutedBlock[*chain.Transaction]{BlockHeader: block.BlockHeader}
	for _, c := range d.chunks {
		txs := make([]*chain.Transaction, 0, len(c))
		for _, i := range c {
			txs = append(txs, c38Pool[i].tx)
		}
		out.Chunks = append(out.Chunks, dsmr.Chunk[*chain.Transaction]{
			UnsignedChunk: dsmr.UnsignedChunk[*chain.Transaction]{Txs: txs},
		})
	}
	return out, nil
}

// ---------------------------------------------------------------------------
// running one history
// ---------------------------------------------------------------------------

func sortedKeys(m map[int]bool) []int {
	out := make([]int, 0, len(m))
	for k := range m {
		out = append(out, k)
	}
	sort.Ints(out)
	return out
}

func runC38(c c38Case) (*c38Monitor, *c38Fail) {
	m := newC38Monitor()
	step := func(i int, o c38Op) string { return fmt.Sprintf("after step %d %s", i, o) }
	switch c.Mode {
	case "direct":
		for i, o := range c.Ops {
			switch o.Kind {
			case "setmax":
				m.SetMax(o.Sponsor, o.Max)
			case "bond":
				_, _ = m.Bond(m.ctx, m.st, c38Pool[o.Tx].tx, o.Rate)
			case "unbond":
				_ = m.Unbond(c38Pool[o.Tx].tx)
			default:
				m.failf("C38/harness", "bad op %s in direct history", o)
			}
			m.checkAll(step(i, o))
			if m.fail != nil {
				return m, m.fail
			}
		}
		// settle everything that is still bonded: every sponsor must be back at zero
		live := map[int]bool{}
		for i := range m.bonded {
			live[i] = true
		}
		for _, i := range sortedKeys(live) {
			_ = m.Unbond(c38Pool[i].tx)
		}
		m.checkAll("after settling every bonded tx")
	case "node":
		inner := &c38DSMR{}
		node := fdsmr.New[*c38DSMR, *chain.Transaction](inner, m)
		unsettled := map[int]bool{} // statement-level model: bonded via BuildChunk, neither accepted nor expired
		compare := func(when string) {
			for i := range unsettled {
				if _, ok := m.bonded[i]; !ok {
					m.failf("C38/node-released-unsettled-tx", "%s: t%d is bonded and neither accepted nor expired, but the node released its bond", when, i)
				}
			}
			for i := range m.bonded {
				if !unsettled[i] {
					m.failf("C38/node-missed-release", "%s: t%d (expiry %d) was accepted or expired but its bond was not released", when, i, c38Pool[i].expiry)
				}
			}
		}
		for si, o := range c.Ops {
			switch o.Kind {
			case "setmax":
				m.SetMax(o.Sponsor, o.Max)
			case "chunk":
				txs := make([]*chain.Transaction, 0, len(o.Txs))
				for _, i := range o.Txs {
					txs = append(txs, c38Pool[i].tx)
				}
				inner.buildErr = o.InnerErr
				inner.gotTxs = nil
				m.lastOKs = nil
				err := node.BuildChunk(m.ctx, m.st, txs, 1000, codec.Address{}, o.Rate)
				if o.InnerErr {
					m.stats.innerErrs++
				}
				if (err != nil) != o.InnerErr {
					m.failf("C38/node-buildchunk-error", "%s: BuildChunk returned %v", step(si, o), err)
				}
				for _, i := range m.lastOKs {
					unsettled[i] = true
				}
				// the inner DSMR must receive exactly the txs whose Bond returned true, in order
				if len(inner.gotTxs) != len(m.lastOKs) {
					m.failf("C38/node-chunk-not-bonded-txs", "%s: inner BuildChunk got %d txs, %d bonds succeeded", step(si, o), len(inner.gotTxs), len(m.lastOKs))
				} else {
					for k, tx := range inner.gotTxs {
						if m.byID[tx.GetID()] != m.lastOKs[k] {
							m.failf("C38/node-chunk-not-bonded-txs", "%s: inner BuildChunk tx %d is t%d, expected t%d", step(si, o), k, m.byID[tx.GetID()], m.lastOKs[k])
						}
					}
				}
			case "accept":
				inner.acceptErr = o.InnerErr
				inner.chunks = o.Chunks
				_, err := node.Accept(m.ctx, dsmr.Block{BlockHeader: dsmr.BlockHeader{Timestamp: o.TS}})
				m.stats.accepts++
				if o.InnerErr {
					m.stats.innerErrs++
				}
				if (err != nil) != o.InnerErr {
					m.failf("C38/node-accept-error", "%s: Accept returned %v", step(si, o), err)
				}
				if !o.InnerErr {
					for i := range unsettled {
						if c38Pool[i].expiry < o.TS {
							delete(unsettled, i)
							m.stats.settledByExpiry++
						}
					}
					for _, ch := range o.Chunks {
						for _, i := range ch {
							if unsettled[i] {
								delete(unsettled, i)
								m.stats.settledByAccept++
							}
						}
					}
				}
			default:
				m.failf("C38/harness", "bad op %s in node history", o)
			}
			compare(step(si, o))
			m.checkAll(step(si, o))
			if m.fail != nil {
				return m, m.fail
			}
		}
		// a block after every expiry settles everything
		inner.acceptErr, inner.chunks = false, nil
		if _, err := node.Accept(m.ctx, dsmr.Block{BlockHeader: dsmr.BlockHeader{Timestamp: math.MaxInt64}}); err != nil {
			m.failf("C38/node-accept-error", "final Accept returned %v", err)
		}
		unsettled = map[int]bool{}
		compare("after the final block that expires everything")
		m.checkAll("after the final block that expires everything")
	default:
		m.failf("C38/harness", "unknown mode %q", c.Mode)
	}
	return m, m.fail
}

// ---------------------------------------------------------------------------
// generators
// ---------------------------------------------------------------------------

// the rates around 2^55..2^56 and MaxUint64/size give single fees between 2^62 and 2^64 for the
// pool's transaction sizes (100..300 bytes): each fits 64 bits, two of them do not
var c38Rates = []uint64{0, 1, 1, 2, 3, 7, 1000, 1 << 40, 1 << 55, 1 << 56, math.MaxUint64 / 300, math.MaxUint64 / 200, math.MaxUint64 / 120, 1 << 57, 1 << 63, math.MaxUint64}

func c38PickRate(rng *rand.Rand, small bool) uint64 {
	if small || rng.IntN(4) != 0 {
		return c38Rates[rng.IntN(6)]
	}
	return c38Rates[rng.IntN(len(c38Rates))]
}

// c38PickMax picks a maximum around multiples of fees that can occur.
func c38PickMax(rng *rand.Rand, s int) uint64 {
	switch rng.IntN(8) {
	case 0:
		return 0
	case 1:
		return math.MaxUint64
	case 2:
		return 1 << 62
	default:
		// sum of 1..3 tx sizes of this sponsor times a small rate, +/- 1
		sum := uint64(0)
		for k := 0; k < 1+rng.IntN(3); k++ {
			sum += c38Pool[s*c38TxsPerSponsor+rng.IntN(c38TxsPerSponsor)].size
		}
		v := sum * c38Rates[1+rng.IntN(5)]
		switch rng.IntN(3) {
		case 0:
			if v > 0 {
				v--
			}
		case 1:
			v++
		}
		return v
	}
}

func c38GenDirect(rng *rand.Rand) c38Case {
	c := c38Case{Mode: "direct"}
	ns := 1 + rng.IntN(c38Sponsors)
	nt := 1 + rng.IntN(c38TxsPerSponsor)
	pick := func() int { return rng.IntN(ns)*c38TxsPerSponsor + rng.IntN(nt) }
	small := rng.IntN(3) != 0
	for s := 0; s < ns; s++ {
		if rng.IntN(6) != 0 {
			c.Ops = append(c.Ops, c38Op{Kind: "setmax", Sponsor: s, Max: c38PickMax(rng, s)})
		}
	}
	n := 3 + rng.IntN(22)
	var recent []int
	for i := 0; i < n; i++ {
		switch x := rng.IntN(20); {
		case x < 1:
			s := rng.IntN(ns)
			c.Ops = append(c.Ops, c38Op{Kind: "setmax", Sponsor: s, Max: c38PickMax(rng, s)})
		case x < 12:
			t := pick()
			if len(recent) > 0 && rng.IntN(3) == 0 {
				t = recent[rng.IntN(len(recent))] // duplicate submission
			}
			recent = append(recent, t)
			c.Ops = append(c.Ops, c38Op{Kind: "bond", Tx: t, Rate: c38PickRate(rng, small)})
		default:
			t := pick()
			if len(recent) > 0 && rng.IntN(4) != 0 {
				t = recent[rng.IntN(len(recent))]
			}
			c.Ops = append(c.Ops, c38Op{Kind: "unbond", Tx: t})
		}
	}
	return c
}

func c38GenNode(rng *rand.Rand) c38Case {
	c := c38Case{Mode: "node"}
	ns := 1 + rng.IntN(c38Sponsors)
	nt := 1 + rng.IntN(c38TxsPerSponsor)
	pick := func() int { return rng.IntN(ns)*c38TxsPerSponsor + rng.IntN(nt) }
	small := rng.IntN(3) != 0
	for s := 0; s < ns; s++ {
		if rng.IntN(6) != 0 {
			c.Ops = append(c.Ops, c38Op{Kind: "setmax", Sponsor: s, Max: c38PickMax(rng, s)})
		}
	}
	n := 2 + rng.IntN(14)
	var recent []int
	ts := int64(0)
	for i := 0; i < n; i++ {
		switch x := rng.IntN(20); {
		case x < 1:
			s := rng.IntN(ns)
			c.Ops = append(c.Ops, c38Op{Kind: "setmax", Sponsor: s, Max: c38PickMax(rng, s)})
		case x < 11:
			k := 1 + rng.IntN(4)
			txs := make([]int, 0, k)
			for j := 0; j < k; j++ {
				t := pick()
				switch {
				case len(txs) > 0 && rng.IntN(4) == 0:
					t = txs[rng.IntN(len(txs))] // duplicate within the chunk
				case len(recent) > 0 && rng.IntN(3) == 0:
					t = recent[rng.IntN(len(recent))] // duplicate across chunks
				}
				txs = append(txs, t)
				recent = append(recent, t)
			}
			c.Ops = append(c.Ops, c38Op{Kind: "chunk", Txs: txs, Rate: c38PickRate(rng, small), InnerErr: rng.IntN(12) == 0})
		default:
			// block timestamps mostly move forward through the expiries 10..50
			switch rng.IntN(6) {
			case 0:
				ts = int64(rng.IntN(62))
			case 1: // stay
			default:
				ts += int64(rng.IntN(15))
			}
			var chunks [][]int
			for k := rng.IntN(3); k > 0; k-- {
				var ch []int
				for j := 1 + rng.IntN(3); j > 0; j-- {
					t := pick()
					if len(recent) > 0 && rng.IntN(4) != 0 {
						t = recent[rng.IntN(len(recent))]
					}
					ch = append(ch, t)
				}
				chunks = append(chunks, ch)
			}
			c.Ops = append(c.Ops, c38Op{Kind: "accept", TS: ts, Chunks: chunks, InnerErr: rng.IntN(12) == 0})
		}
	}
	return c
}

// ---------------------------------------------------------------------------

func TestC38(t *testing.T) {
	r := kit.Start(t, "C38", "exploration")
	r.Rule("histories over a fixed pool of 3 sponsors x 5 transactions (different sizes, expiries 10..50; per sponsor 2 self-paid txs and 3 fee-delegated txs whose Auth.Actor() differs from Auth.Sponsor(): the actor is the next sponsor, the previous sponsor, or a pure actor account that never bonds anything): (a) every sequence up to length L of {bond t0/t1 at two rates, unbond t0/t1, set a small/large maximum} on one sponsor (exhaustive; t1 is delegated), (a2) every sequence up to length L of {bond, unbond} x {t1 (sponsor 0, actor = sponsor 1), t5 (sponsor 1, self-paid), t6 (sponsor 1, actor = sponsor 2), t7 (sponsor 1, actor never bonds)} (exhaustive), (b) random direct Bonder histories (setmax / bond / unbond, a third of the bonds and most unbonds re-use an earlier tx), (c) random fdsmr.Node histories (BuildChunk with duplicates within and across chunks, Accept with scripted executed chunks and block timestamps that expire txs, scripted inner DSMR errors) over the real Bonder on memdb. Every Bond/Unbond return value and the pending balance of every account (3 sponsors + 3 pure actors) after every step are compared with a map model keyed on the SPONSOR (sum of fees, computed with math/big, of the sponsor's bonded txs neither accepted nor expired; an account that sponsors nothing stays at zero); a Bond/Unbond call may change the pending balance of the tx's sponsor only. Non-trivial = the history bonds a tx again (while its bond is live or after it settled) or releases the bond of a fee-delegated tx; distinct = distinct op sequence.")
	r.Assume(
		"the pending balance is read from the bonder's database under the account address (the observation point named by the property); the bond of a tx belongs to its sponsor (tx.GetSponsor()), never to its actor",
		"re-bonding a tx whose bond is live may keep the first fee or replace it by the new fee (the statement fixes neither); charging it a second time is a violation because it is still one bonded transaction",
		"pending <= max is only demanded when a Bond call raised the pending balance (lowering the maximum below the pending balance is not a violation)",
		"a Bond call that returns false is never a violation by itself (the statement does not say when a bond must be granted)",
		"healthy in-memory database: Bond/Unbond never return an error",
	)
	if err := c38BuildPool(); err != nil {
		t.Fatalf("pool: %v", err)
	}
	total := c38Stats{}
	judge := func(c c38Case) {
		r.Eval()
		var m *c38Monitor
		var f *c38Fail
		r.Guard("bonder", c, func() { m, f = runC38(c) })
		if m == nil {
			return
		}
		if f != nil {
			r.Violation(f.key, c, "%s  [history: %s]", f.detail, c.shape())
		}
		s := m.stats
		total.bondsOK += s.bondsOK
		total.bondsRejected += s.bondsRejected
		total.dupWhileUnsettled += s.dupWhileUnsettled
		total.rebondAfterSettle += s.rebondAfterSettle
		total.unbondEffective += s.unbondEffective
		total.unbondNoop += s.unbondNoop
		total.accepts += s.accepts
		total.settledByAccept += s.settledByAccept
		total.settledByExpiry += s.settledByExpiry
		total.zeroChecks += s.zeroChecks
		total.maxChanges += s.maxChanges
		total.innerErrs += s.innerErrs
		total.keptFee += s.keptFee
		total.replacedFee += s.replacedFee
		total.delegBondsOK += s.delegBondsOK
		total.delegReleases += s.delegReleases
		total.delegActorLiveSponsor += s.delegActorLiveSponsor
		total.delegActorNoBond += s.delegActorNoBond
		total.delegActorPure += s.delegActorPure
		if m.nontrivia || m.delegated {
			r.Distinct(c.shape())
			r.Sample(c)
		}
	}
	finish := func(min int) {
		r.Count("bonds_granted", total.bondsOK)
		r.Count("bonds_refused", total.bondsRejected)
		r.Count("duplicate_bonds_while_live", total.dupWhileUnsettled)
		r.Count("duplicate_bond_kept_first_fee", total.keptFee)
		r.Count("duplicate_bond_replaced_fee", total.replacedFee)
		r.Count("rebonds_after_settlement", total.rebondAfterSettle)
		r.Count("unbonds_releasing", total.unbondEffective)
		r.Count("unbonds_noop", total.unbondNoop)
		r.Count("delegated_bonds_granted", total.delegBondsOK)
		r.Count("delegated_releases", total.delegReleases)
		r.Count("delegated_releases_actor_is_sponsor_with_live_bonds", total.delegActorLiveSponsor)
		r.Count("delegated_releases_actor_is_sponsor_without_bond", total.delegActorNoBond)
		r.Count("delegated_releases_actor_never_bonds", total.delegActorPure)
		r.Count("node_accepts", total.accepts)
		r.Count("node_settled_by_accept", total.settledByAccept)
		r.Count("node_settled_by_expiry", total.settledByExpiry)
		r.Count("node_inner_dsmr_errors", total.innerErrs)
		r.Count("all_settled_zero_checks", total.zeroChecks)
		r.Count("max_balance_changes", total.maxChanges)
		r.Finish(min)
	}
	if rf := r.Replay(); rf != nil && len(rf.Witness) > 0 {
		var c c38Case
		if err := json.Unmarshal(rf.Witness, &c); err == nil && len(c.Ops) > 0 {
			judge(c)
			finish(0)
			return
		}
	}

	// (a) exhaustive small scope on one sponsor, two txs
	L := r.N(5, 6)
	t0, t1 := 0, 1
	small := c38Pool[t0].size*2 + c38Pool[t1].size - 1 // fits t0 twice at rate 1, not with t1 on top
	alphabet := []c38Op{
		{Kind: "bond", Tx: t0, Rate: 1},
		{Kind: "bond", Tx: t0, Rate: 2},
		{Kind: "bond", Tx: t1, Rate: 1},
		{Kind: "unbond", Tx: t0},
		{Kind: "unbond", Tx: t1},
		{Kind: "setmax", Sponsor: 0, Max: small},
		{Kind: "setmax", Sponsor: 0, Max: 1 << 40},
	}
	exhaustive := 0
	var rec func(prefix []c38Op)
	rec = func(prefix []c38Op) {
		if r.Violations() >= 20 {
			return
		}
		if len(prefix) > 0 {
			c := c38Case{Mode: "direct", Ops: append([]c38Op{{Kind: "setmax", Sponsor: 0, Max: 1 << 40}}, prefix...)}
			judge(c)
			exhaustive++
		}
		if len(prefix) == L {
			return
		}
		for _, o := range alphabet {
			rec(append(prefix, o))
		}
	}
	rec(nil)
	r.Count("exhaustive_direct_histories", exhaustive)
	r.Extra("exhaustive_max_len", L)

	// (a2) exhaustive small scope on fee-delegated txs: t1 (sponsor 0, actor = sponsor 1),
	// t5 (sponsor 1, self-paid), t6 (sponsor 1, actor = sponsor 2), t7 (sponsor 1, actor = pure actor 4)
	d0, d1, d2, d3 := 1, c38TxsPerSponsor, c38TxsPerSponsor+1, c38TxsPerSponsor+2
	alphabet2 := []c38Op{
		{Kind: "bond", Tx: d0, Rate: 1},
		{Kind: "bond", Tx: d1, Rate: 2},
		{Kind: "bond", Tx: d2, Rate: 1},
		{Kind: "bond", Tx: d3, Rate: 1},
		{Kind: "unbond", Tx: d0},
		{Kind: "unbond", Tx: d1},
		{Kind: "unbond", Tx: d2},
		{Kind: "unbond", Tx: d3},
	}
	exhaustive2 := 0
	var rec2 func(prefix []c38Op)
	rec2 = func(prefix []c38Op) {
		if r.Violations() >= 20 {
			return
		}
		if len(prefix) > 0 {
			c := c38Case{Mode: "direct", Ops: append([]c38Op{{Kind: "setmax", Sponsor: 0, Max: 1 << 40}, {Kind: "setmax", Sponsor: 1, Max: 1 << 40}}, prefix...)}
			judge(c)
			exhaustive2++
		}
		if len(prefix) == L {
			return
		}
		for _, o := range alphabet2 {
			rec2(append(prefix, o))
		}
	}
	rec2(nil)
	r.Count("exhaustive_delegated_histories", exhaustive2)

	// (b) random direct histories, (c) random node histories
	rngD := r.Rand("direct")
	nD := r.N(30000, 600000)
	for i := 0; i < nD && r.Violations() < 20; i++ {
		judge(c38GenDirect(rngD))
	}
	rngN := r.Rand("node")
	nN := r.N(30000, 600000)
	for i := 0; i < nN && r.Violations() < 20; i++ {
		judge(c38GenNode(rngN))
	}
	finish(1000)
}
