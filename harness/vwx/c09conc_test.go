package vwx

// Concurrent part of the C09 monitor.
//
// In the real system the snow async-accepter goroutine is inside
// TimeValidityWindow.Accept(B) while the consensus goroutine verifies or builds
// descendants of B.  B is an ancestor of such a descendant at every instant
// (still "processing" for the window before the call, accepted after it), so a
// descendant repeating one of B's containers has to be rejected / flagged no
// matter how the two calls interleave.
//
// Two shapes of a concurrent window.Accept(B):
//   - hook:   the block type is the monitor's own, so B.GetContainers() - which
//     Accept calls while it updates the window - releases a verifier goroutine
//     and then lingers a bounded number of scheduler yields before returning
//     (schedule steering only: on a tree that keeps the window's mutex across
//     the whole update the verifier simply blocks on that mutex until Accept
//     is done; the hook never waits for the verifier).
//   - stress: several verifier goroutines hammer Verify/IsRepeat on children
//     while Accept runs, no steering.

import (
	"errors"
	"fmt"
	"math/rand/v2"
	"runtime"
	"runtime/debug"
	"sync/atomic"
	"time"

	"github.com/ava-labs/avalanchego/ids"

	vw "github.com/ava-labs/hypersdk/internal/validitywindow"
	"github.com/ava-labs/hypersdk/zzverif/kit"
)

const (
	c9StressVerifiers = 3
	c9StressIters     = 6  // probes per verifier: at least ...
	c9StressMaxIters  = 32 // ... at most (a verifier stops two probes after it saw Accept return)
	c9StressKids      = 4
	c9MaxYields       = 4096
)

var c9YieldChoices = []int{1, 4, 16, 64, 256, 1024}

type c9ConcStats struct {
	hookCases, stressCases                    int
	hookReached, hookNotReached               int
	hookOverlap, hookInside                   int
	stressProbes, stressOverlap, stressCasesO int
	probes, rejected, nonDup, flagged, isErrs int
	childOfAccepting, childOfDescendant       int
	boundary                                  int
}

func (s *c9ConcStats) add(o *c9ConcStats) {
	s.hookCases += o.hookCases
	s.stressCases += o.stressCases
	s.hookReached += o.hookReached
	s.hookNotReached += o.hookNotReached
	s.hookOverlap += o.hookOverlap
	s.hookInside += o.hookInside
	s.stressProbes += o.stressProbes
	s.stressOverlap += o.stressOverlap
	s.stressCasesO += o.stressCasesO
	s.probes += o.probes
	s.rejected += o.rejected
	s.nonDup += o.nonDup
	s.flagged += o.flagged
	s.isErrs += o.isErrs
	s.childOfAccepting += o.childOfAccepting
	s.childOfDescendant += o.childOfDescendant
	s.boundary += o.boundary
}

func (s *c9ConcStats) report(r *kit.Run) {
	r.Count("concurrent_accept_cases", s.hookCases+s.stressCases)
	r.Count("concurrent_accept_cases_hook", s.hookCases)
	r.Count("concurrent_accept_cases_stress", s.stressCases)
	r.Count("concurrent_hook_reached_inside_accept", s.hookReached)
	r.Count("concurrent_hook_not_reached", s.hookNotReached)
	r.Count("concurrent_hook_cases_verifier_started_before_accept_returned", s.hookOverlap)
	r.Count("concurrent_hook_cases_verifier_finished_before_accept_return_recorded", s.hookInside)
	r.Count("concurrent_stress_probes", s.stressProbes)
	r.Count("concurrent_stress_probes_overlapping_accept", s.stressOverlap)
	r.Count("concurrent_stress_cases_with_overlap", s.stressCasesO)
	r.Count("concurrent_probes", s.probes)
	r.Count("concurrent_probes_rejected_by_verify", s.rejected)
	r.Count("concurrent_probes_rejected_with_non_duplicate_error", s.nonDup)
	r.Count("concurrent_probes_flagged_by_isrepeat", s.flagged)
	r.Count("concurrent_probes_isrepeat_error", s.isErrs)
	r.Count("concurrent_child_of_block_being_accepted", s.childOfAccepting)
	r.Count("concurrent_child_of_deeper_descendant", s.childOfDescendant)
	r.Count("concurrent_child_exactly_at_window_boundary", s.boundary)
	if s.hookCases+s.stressCases == 0 {
		r.Inconclusive("no concurrent accept case was generated")
		return
	}
	if s.hookCases > 0 && (s.hookReached == 0 || s.hookOverlap == 0) {
		r.Inconclusive("hook cases never overlapped: %d hook cases, hook reached inside Accept %d times, verifier started before Accept returned %d times", s.hookCases, s.hookReached, s.hookOverlap)
	}
}

// genConc decorates a catchup op: the window.Accept of the next engine-accepted
// block B is to run concurrently with verification of a child (of the accepted
// tip or of a processing block, all of which descend from B) that repeats one
// of B's containers, B being within the child's validity window and the
// container's expiry still valid for the child.
func (h *c9Hist) genConc(rng *rand.Rand, op *c9Op, mode string) {
	if mode == "" || !h.complete || h.winAcc >= len(h.acc)-1 || rng.IntN(4) == 0 {
		return
	}
	b := h.acc[h.winAcc+1]
	if len(b.cs) == 0 {
		return
	}
	nums := []int{h.tip().n}
	for n := range h.processing {
		nums = append(nums, n)
	}
	sortInts(nums)
	type pair struct{ p, it int }
	var pairs []pair
	for _, n := range nums {
		p := h.blocks[n]
		for i, c := range b.cs {
			if p.ts <= c.exp && p.ts <= b.ts+h.W {
				pairs = append(pairs, pair{n, i})
			}
		}
	}
	if len(pairs) == 0 {
		return
	}
	pk := pairs[rng.IntN(len(pairs))]
	if rng.IntN(3) == 0 { // the accepted tip (created before every processing block): often the block being accepted itself
		var shallow []pair
		for _, q := range pairs {
			if q.p == nums[0] {
				shallow = append(shallow, q)
			}
		}
		if len(shallow) > 0 {
			pk = shallow[rng.IntN(len(shallow))]
		}
	}
	p := h.blocks[pk.p]
	hi := min(b.cs[pk.it].exp, b.ts+h.W)
	cts := p.ts
	switch rng.IntN(5) {
	case 0:
		cts = hi
	case 1:
		cts = p.ts + rng.Int64N(hi-p.ts+1)
	case 2:
		cts = min(hi, p.ts+1)
	}
	op.Conc, op.CP, op.CTS, op.CIt = mode, pk.p, cts, pk.it
	op.CFresh = rng.IntN(4)
	op.CPos = rng.IntN(op.CFresh + 1)
	if mode == "hook" {
		op.Yields = c9YieldChoices[rng.IntN(len(c9YieldChoices))]
	} else {
		op.Yields = rng.IntN(c9StressVerifiers*c9StressIters/2 + 1)
	}
}

// concParent validates the concurrent decoration of a catchup op against the
// model (scripts are replayed from witnesses) and returns the probing child's
// parent, or nil when the accept is to be performed plainly.
func (h *c9Hist) concParent(op c9Op, b *c9Blk) *c9Blk {
	if op.Conc != "hook" && op.Conc != "stress" {
		return nil
	}
	if !h.complete || op.CIt < 0 || op.CIt >= len(b.cs) || op.CP < 0 || op.CP >= len(h.blocks) {
		return nil
	}
	p := h.blocks[op.CP]
	if _, ok := h.processing[p.n]; !ok && p != h.tip() {
		return nil
	}
	// b is an ancestor of (or is) p: p is the accepted tip or descends from it, b is on the accepted chain
	if op.CTS < p.ts || op.CTS > b.ts+h.W || op.CTS > b.cs[op.CIt].exp {
		return nil
	}
	if op.CFresh < 0 || op.CFresh > 8 || op.CPos < 0 || op.CPos > op.CFresh || op.Yields < 0 || op.Yields > c9MaxYields {
		return nil
	}
	return p
}

// mkChild builds a probing block on par that carries rep at position pos among
// `fresh` never-seen containers. It is never added to the model or the index
// (it has to be rejected).
func (h *c9Hist) mkChild(par *c9Blk, ts int64, rep c9Item, pos, fresh int) *c9Blk {
	h.childN++
	c := &c9Blk{n: -h.childN, id: c9ID('c', h.childN), par: par, h: par.h + 1, ts: ts, has: map[ids.ID]struct{}{}}
	for i := 0; i <= fresh; i++ {
		it := rep
		if i != pos {
			h.freshN++
			it = c9Item{id: c9ID('f', h.freshN), exp: c9Round(ts)}
		}
		c.cs = append(c.cs, it)
		c.has[it.id] = struct{}{}
	}
	return c
}

type c9Probe struct {
	child               *c9Blk
	pos                 int
	verifyErr, isErr    error
	flagged             bool
	overlapped, inside  bool // started / finished before the accepter goroutine recorded that Accept had returned
	afterStart, touched bool
	panicked            string
}

// acceptConcurrently performs window.Accept(b) on its own goroutine while
// verifier goroutines check children of par that repeat a container of b.
func (h *c9Hist) acceptConcurrently(op c9Op, b, par *c9Blk) (string, string) {
	st := &h.st.conc
	var acceptStarted, acceptDone atomic.Bool
	run := func(p *c9Probe) {
		defer func() {
			if x := recover(); x != nil {
				p.panicked = fmt.Sprintf("%v\n%s", x, debug.Stack())
			}
		}()
		p.touched = true
		p.overlapped = !acceptDone.Load()
		p.verifyErr = h.win.VerifyExpiryReplayProtection(h.ctx, p.child)
		bits, err := h.win.IsRepeat(h.ctx, par, p.child.ts, p.child.cs)
		p.isErr = err
		p.flagged = err == nil && bits.Contains(p.pos)
		p.inside = !acceptDone.Load()
		p.afterStart = acceptStarted.Load()
	}
	var accPanic string
	accept := func() {
		defer func() {
			if x := recover(); x != nil {
				accPanic = fmt.Sprintf("%v\n%s", x, debug.Stack())
			}
		}()
		acceptStarted.Store(true)
		h.win.Accept(b)
		acceptDone.Store(true)
	}
	if par == b {
		st.childOfAccepting++
	} else {
		st.childOfDescendant++
	}
	if b.ts == op.CTS-h.W {
		st.boundary++
	}
	h.trueRepeat = true
	depth := int(par.h - b.h)
	var probes []*c9Probe

	switch op.Conc {
	case "hook":
		st.hookCases++
		fmt.Fprintf(&h.shape, "Ch%d:%d/%d:%d;", depth, op.CPos, op.CFresh, op.Yields)
		p := &c9Probe{child: h.mkChild(par, op.CTS, b.cs[op.CIt], op.CPos, op.CFresh), pos: op.CPos}
		probes = append(probes, p)
		release := make(chan struct{})
		var fired, reached, verDone atomic.Bool
		b.onGet = func() {
			if !fired.CompareAndSwap(false, true) {
				return
			}
			reached.Store(true)
			close(release) // start the verifier; never wait for it (it may need the mutex Accept holds)
			for i := 0; i < op.Yields && !verDone.Load(); i++ {
				runtime.Gosched()
			}
		}
		ver := kit.Go(func() {
			<-release
			run(p)
			verDone.Store(true)
		})
		acc := kit.Go(func() {
			accept()
			if fired.CompareAndSwap(false, true) { // Accept never read the containers: still run the verifier
				close(release)
			}
		})
		if k, d := h.join(op, b, acc, ver); d != "" || h.inconc != "" {
			return k, d
		}
		b.onGet = nil
		if reached.Load() {
			st.hookReached++
		} else {
			st.hookNotReached++
		}
		if p.overlapped {
			st.hookOverlap++
		}
		if p.inside {
			st.hookInside++
		}
	case "stress":
		st.stressCases++
		fmt.Fprintf(&h.shape, "Cs%d:%d/%d;", depth, op.CPos, op.CFresh)
		var valid []int // containers of b whose expiry is valid for the child
		first := 0
		for i, c := range b.cs {
			if c.exp >= op.CTS {
				if i == op.CIt {
					first = len(valid)
				}
				valid = append(valid, i)
			}
		}
		start := make(chan struct{})
		var progress atomic.Int64
		var chans []<-chan struct{}
		perG := make([][]*c9Probe, c9StressVerifiers)
		for g := 0; g < c9StressVerifiers; g++ {
			// a few distinct children per verifier (different containers of b), probed round-robin
			// until window.Accept was seen to have returned (at least c9StressIters, at most c9StressMaxIters probes)
			var kids []*c9Blk
			for k := 0; k < c9StressKids; k++ {
				it := valid[(first+g+k)%len(valid)]
				kids = append(kids, h.mkChild(par, op.CTS, b.cs[it], op.CPos, op.CFresh))
			}
			chans = append(chans, kit.Go(func() {
				var mine []*c9Probe
				defer func() { perG[g] = mine }()
				<-start
				after := 0
				for k := 0; k < c9StressMaxIters; k++ {
					p := &c9Probe{child: kids[k%len(kids)], pos: op.CPos}
					mine = append(mine, p)
					run(p)
					progress.Add(1)
					if p.panicked != "" {
						return
					}
					if !p.overlapped {
						if after++; after >= 2 && k+1 >= c9StressIters {
							return
						}
					}
					if k%4 == 3 {
						runtime.Gosched() // let the accepter in when everything shares one thread
					}
				}
			}))
		}
		acc := kit.Go(func() {
			<-start
			// begin once the verifiers are under way (bounded; nothing here is inside the window)
			for i := 0; i < c9MaxYields && progress.Load() < int64(op.Yields); i++ {
				runtime.Gosched()
			}
			accept()
		})
		close(start)
		if k, d := h.join(op, b, append([]<-chan struct{}{acc}, chans...)...); d != "" || h.inconc != "" {
			return k, d
		}
		for _, mine := range perG {
			probes = append(probes, mine...)
		}
		overlapped := false
		for _, p := range probes {
			if !p.touched {
				continue
			}
			st.stressProbes++
			if p.overlapped && p.afterStart {
				st.stressOverlap++
				overlapped = true
			}
		}
		if overlapped {
			st.stressCasesO++
		}
	}

	if accPanic != "" {
		return "panic/validitywindow", fmt.Sprintf("panic in window.Accept(%s) running concurrently with verification of a child: %s", b, accPanic)
	}
	for _, p := range probes {
		if p.panicked != "" {
			return "panic/validitywindow", fmt.Sprintf("panic while verifying a child of %s concurrently with window.Accept(%s): %s", par, b, p.panicked)
		}
		if !p.touched {
			continue
		}
		st.probes++
		when := "after window.Accept had returned"
		switch {
		case p.inside:
			when = "and finished before the return of window.Accept was recorded"
		case p.overlapped:
			when = "before window.Accept returned"
		}
		what := fmt.Sprintf("container #%d of the child (exp %d) is a container of %s (ts %d >= child ts %d - window %d), which is an ancestor of the child before, during and after its window.Accept; the check started %s [%s mode, child height %d on parent %s, %d containers]",
			p.pos, p.child.cs[p.pos].exp, b, b.ts, p.child.ts, h.W, when, op.Conc, p.child.h, par, len(p.child.cs))
		if p.verifyErr == nil {
			return "C09/repeat-verified-while-ancestor-being-accepted", "VerifyExpiryReplayProtection accepted a child although " + what
		}
		st.rejected++
		if !errors.Is(p.verifyErr, vw.ErrDuplicateContainer) {
			st.nonDup++
		}
		if p.isErr != nil {
			st.isErrs++
			continue
		}
		if !p.flagged {
			return "C09/isrepeat-misses-ancestor-being-accepted", fmt.Sprintf("IsRepeat(parent %s, ts %d) does not flag it although ", par, p.child.ts) + what
		}
		st.flagged++
	}
	return "", ""
}

// join waits for the goroutines of a concurrent case. A deadlock witness is a
// violation; an expired watchdog makes the history (and the run) inconclusive.
func (h *c9Hist) join(op c9Op, b *c9Blk, chs ...<-chan struct{}) (string, string) {
	for _, ch := range chs {
		select {
		case <-ch:
			continue
		default:
		}
		res, stacks := kit.AwaitOrDeadlock(ch, []string{"internal/validitywindow", "internal/emap"}, 2*time.Second, 60*time.Second)
		switch res {
		case kit.Deadlock:
			return "C09/deadlock-accept-vs-verify", fmt.Sprintf("window.Accept(%s) and a concurrent verification of a child (%s mode) never return; goroutines:\n%s", b, op.Conc, stacks)
		case kit.Unknown:
			h.inconc = fmt.Sprintf("concurrent window.Accept(%s) / verification (%s mode) not finished when the watchdog expired", b, op.Conc)
			return "", ""
		}
	}
	return "", ""
}
