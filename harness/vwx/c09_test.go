package vwx

import (
	"context"
	"encoding/binary"
	"encoding/json"
	"errors"
	"fmt"
	"math/rand/v2"
	"strings"
	"sync"
	"sync/atomic"
	"testing"

	"github.com/ava-labs/avalanchego/database"
	"github.com/ava-labs/avalanchego/ids"
	"github.com/ava-labs/avalanchego/trace"
	"github.com/ava-labs/avalanchego/utils/logging"

	vw "github.com/ava-labs/hypersdk/internal/validitywindow"
	"github.com/ava-labs/hypersdk/zzverif/kit"
)

// ---- test containers / blocks (emap.Item, validitywindow.ExecutionBlock) ----

type c9Item struct {
	id  ids.ID
	exp int64
}

func (c c9Item) GetID() ids.ID    { return c.id }
func (c c9Item) GetExpiry() int64 { return c.exp }

func c9ID(kind byte, n int) ids.ID {
	var id ids.ID
	id[0] = kind
	binary.BigEndian.PutUint64(id[8:], uint64(n)+1)
	return id
}

type c9Blk struct {
	n      int
	id     ids.ID
	par    *c9Blk
	h      uint64
	ts     int64
	cs     []c9Item
	has    map[ids.ID]struct{}
	learnt string // how the current window learnt the block: "", accept, populate, historical
	// onGet (concurrent part, c09conc_test.go): observer run when the window reads the block's
	// containers, i.e. from inside window.Accept. Set before the goroutines of a concurrent
	// case are started and cleared after they were joined.
	onGet func()
}

func (b *c9Blk) GetID() ids.ID { return b.id }
func (b *c9Blk) GetParent() ids.ID {
	if b.par == nil {
		return ids.Empty
	}
	return b.par.id
}
func (b *c9Blk) GetTimestamp() int64 { return b.ts }
func (b *c9Blk) GetHeight() uint64   { return b.h }
func (b *c9Blk) GetBytes() []byte    { return b.id[:] }
func (b *c9Blk) GetContainers() []c9Item {
	if f := b.onGet; f != nil {
		f()
	}
	return b.cs
}
func (b *c9Blk) Contains(id ids.ID) bool { _, ok := b.has[id]; return ok }
func (b *c9Blk) String() string          { return fmt.Sprintf("blk#%d(h=%d,ts=%d)", b.n, b.h, b.ts) }

type c9Index struct {
	m    map[ids.ID]*c9Blk // only read while a concurrent case runs
	gets atomic.Int64
}

func (i *c9Index) GetExecutionBlock(_ context.Context, id ids.ID) (vw.ExecutionBlock[c9Item], error) {
	i.gets.Add(1)
	b, ok := i.m[id]
	if !ok {
		return nil, database.ErrNotFound
	}
	return b, nil
}

// ---- op script (the replayable witness) ----

type c9It struct {
	N   int   `json:"n"`   // item number
	Exp int64 `json:"exp"` // expiry (ms, whole second)
}

type c9Op struct {
	K     string `json:"k"` // block | fwd | accept | catchup | restart | sync | backfill | prune
	P     int    `json:"p,omitempty"`
	TS    int64  `json:"ts,omitempty"`
	Items []c9It `json:"items,omitempty"`
	// catchup only: perform window.Accept concurrently with verification of a child (c09conc_test.go)
	Conc   string `json:"conc,omitempty"`   // "" | hook | stress
	CP     int    `json:"cp,omitempty"`     // parent of the probing child: the accepted tip or a processing block
	CTS    int64  `json:"cts,omitempty"`    // timestamp of the probing child
	CIt    int    `json:"cit,omitempty"`    // which container of the block being accepted the child repeats
	CPos   int    `json:"cpos,omitempty"`   // position of the repeated container in the child
	CFresh int    `json:"cfresh,omitempty"` // number of fresh containers around it
	Yields int    `json:"yields,omitempty"` // hook: scheduler yields GetContainers lingers inside Accept; stress: Accept starts after this many probes
}

type c9Case struct {
	W         int64  `json:"window_ms"`
	GenesisTS int64  `json:"genesis_ts"`
	Ops       []c9Op `json:"ops"`
}

type c9Stats struct {
	blocks, verifiedOK, rejected, mustReject, spurious, nonDupErrors                  int
	inBlock, ofProcessing, ofLagging, ofAccepted, ofPopulated, ofHistorical, boundary int
	crossBranchAccepted, isRepeatProbes, isRepeatFlags                                int
	accepts, catchups, restarts, syncs, backfills, prunes, fwds, rejectedByConsensus  int
	indexGets, maxLag                                                                 int
	conc                                                                              c9ConcStats
}

func (s *c9Stats) add(o *c9Stats) {
	s.blocks += o.blocks
	s.verifiedOK += o.verifiedOK
	s.rejected += o.rejected
	s.mustReject += o.mustReject
	s.spurious += o.spurious
	s.nonDupErrors += o.nonDupErrors
	s.inBlock += o.inBlock
	s.ofProcessing += o.ofProcessing
	s.ofLagging += o.ofLagging
	s.ofAccepted += o.ofAccepted
	s.ofPopulated += o.ofPopulated
	s.ofHistorical += o.ofHistorical
	s.boundary += o.boundary
	s.crossBranchAccepted += o.crossBranchAccepted
	s.isRepeatProbes += o.isRepeatProbes
	s.isRepeatFlags += o.isRepeatFlags
	s.accepts += o.accepts
	s.catchups += o.catchups
	s.restarts += o.restarts
	s.syncs += o.syncs
	s.backfills += o.backfills
	s.prunes += o.prunes
	s.fwds += o.fwds
	s.rejectedByConsensus += o.rejectedByConsensus
	s.indexGets += o.indexGets
	s.maxLag = max(s.maxLag, o.maxLag)
	s.conc.add(&o.conc)
}

// c9Hist = the model (explicit block tree, accepted prefix, what the index
// still holds) + the real window under test.
type c9Hist struct {
	W          int64
	ctx        context.Context
	idx        *c9Index
	win        *vw.TimeValidityWindow[c9Item]
	blocks     []*c9Blk // by number
	acc        []*c9Blk // engine-accepted chain, acc[0] = genesis
	processing map[int]*c9Blk
	winAcc     int  // acc[winAcc] = last block given to window.Accept (or its head)
	floor      int  // acc[floor:] are in the index
	complete   bool // false while a state-sync backfill is running
	nextFill   int
	items      []c9Item // by number
	shape      strings.Builder
	st         *c9Stats
	trueRepeat bool
	childN     int // probing children / fresh containers made by concurrent cases
	freshN     int
	inconc     string // set when a concurrent case could not be joined (watchdog): history abandoned
}

func newC9Hist(c *c9Case, st *c9Stats) (*c9Hist, error) {
	h := &c9Hist{W: c.W, ctx: context.Background(), idx: &c9Index{m: map[ids.ID]*c9Blk{}}, processing: map[int]*c9Blk{}, complete: true, st: st}
	g := &c9Blk{n: 0, id: c9ID('b', 0), ts: c.GenesisTS, has: map[ids.ID]struct{}{}}
	h.blocks = []*c9Blk{g}
	h.acc = []*c9Blk{g}
	h.idx.m[g.id] = g
	var err error
	h.win, err = h.newWindow(g)
	g.learnt = "populate"
	return h, err
}

func (h *c9Hist) newWindow(head *c9Blk) (*vw.TimeValidityWindow[c9Item], error) {
	for _, b := range h.blocks {
		b.learnt = ""
	}
	w, err := vw.NewTimeValidityWindow[c9Item](h.ctx, logging.NoLog{}, trace.Noop, h.idx, head, func(int64) int64 { return h.W })
	if err != nil {
		return nil, err
	}
	// what populate could reach: head and its ancestors still in the index, back to the first one older than the window
	oldest := max(0, head.ts-h.W)
	for b := head; b != nil; b = b.par {
		if _, ok := h.idx.m[b.id]; !ok {
			break
		}
		b.learnt = "populate"
		if b.ts < oldest {
			break
		}
	}
	return w, nil
}

func (h *c9Hist) tip() *c9Blk { return h.acc[len(h.acc)-1] }

func (h *c9Hist) mkBlock(par *c9Blk, ts int64, its []c9It) *c9Blk {
	nb := &c9Blk{n: len(h.blocks), par: par, h: par.h + 1, ts: ts, has: map[ids.ID]struct{}{}}
	nb.id = c9ID('b', nb.n)
	for _, it := range its {
		for it.N >= len(h.items) {
			h.items = append(h.items, c9Item{})
		}
		item := c9Item{id: c9ID('t', it.N), exp: it.Exp}
		h.items[it.N] = item
		nb.cs = append(nb.cs, item)
		nb.has[item.id] = struct{}{}
	}
	h.blocks = append(h.blocks, nb)
	return nb
}

func (h *c9Hist) dropProcessing() {
	for n, p := range h.processing {
		delete(h.idx.m, p.id)
		delete(h.processing, n)
	}
}

// apply executes one op on the real window and the model; returns a violation (key, detail) or "".
func (h *c9Hist) apply(op c9Op) (string, string) {
	st := h.st
	switch op.K {
	case "block":
		if !h.complete || op.P < 0 || op.P >= len(h.blocks) {
			return "", ""
		}
		par := h.blocks[op.P]
		if _, ok := h.processing[par.n]; !ok && par != h.tip() {
			return "", ""
		}
		if op.TS < par.ts {
			return "", ""
		}
		nb := h.mkBlock(par, op.TS, op.Items)
		st.blocks++
		// ---- oracle: walk the ancestors in the model ----
		inBlock := len(nb.has) != len(nb.cs)
		repeatOf := make([]*c9Blk, len(nb.cs)) // nearest in-window ancestor holding the container
		anyAnc := false
		for a := par; a != nil && a.ts >= nb.ts-h.W; a = a.par {
			for i, c := range nb.cs {
				if repeatOf[i] == nil && a.Contains(c.id) {
					repeatOf[i] = a
					anyAnc = true
				}
			}
		}
		must := inBlock || anyAnc
		lag := len(h.acc) - 1 - h.winAcc
		st.maxLag = max(st.maxLag, lag)
		// the builder's view: IsRepeat over the same containers
		bits, ierr := h.win.IsRepeat(h.ctx, par, nb.ts, nb.cs)
		st.isRepeatProbes++
		if ierr == nil {
			for i := range nb.cs {
				if repeatOf[i] != nil {
					st.isRepeatFlags++
					if !bits.Contains(i) {
						return "C09/isrepeat-misses-" + h.class(repeatOf[i]), fmt.Sprintf("IsRepeat(parent %s, ts %d) does not flag container #%d (item exp %d) although ancestor %s (%s, ts %d >= %d) contains it; window-accepted height %d, engine-accepted height %d",
							par, nb.ts, i, nb.cs[i].exp, repeatOf[i], h.class(repeatOf[i]), repeatOf[i].ts, nb.ts-h.W, h.acc[h.winAcc].h, h.tip().h)
					}
				}
			}
		}
		h.idx.m[nb.id] = nb
		err := h.win.VerifyExpiryReplayProtection(h.ctx, nb)
		fmt.Fprintf(&h.shape, "B%d:%d:%d", int(h.tip().h)-int(par.h), len(nb.cs), lag)
		if must {
			st.mustReject++
			if inBlock {
				st.inBlock++
				h.shape.WriteString("i")
			}
			for i, a := range repeatOf {
				if a == nil {
					continue
				}
				h.trueRepeat = true
				cl := h.class(a)
				h.shape.WriteString(cl[:1])
				switch cl {
				case "processing-ancestor":
					st.ofProcessing++
				case "lagging-accepted-ancestor":
					st.ofLagging++
				case "accepted-ancestor":
					st.ofAccepted++
				case "restart-populated-ancestor":
					st.ofPopulated++
				case "backfilled-ancestor":
					st.ofHistorical++
				}
				if a.ts == nb.ts-h.W {
					st.boundary++
					h.shape.WriteString("=")
				}
				_ = i
			}
			if err == nil {
				var why string
				key := "C09/repeat-verified-"
				if anyAnc {
					for i, a := range repeatOf {
						if a != nil {
							key += h.class(a)
							why = fmt.Sprintf("container #%d (exp %d) is in ancestor %s (ts %d >= %d)", i, nb.cs[i].exp, a, a.ts, nb.ts-h.W)
							break
						}
					}
				} else {
					key += "in-block"
					why = "a container occurs twice in the block"
				}
				return key, fmt.Sprintf("VerifyExpiryReplayProtection accepted %s (parent %s): %s; window-accepted height %d, engine-accepted height %d", nb, par, why, h.acc[h.winAcc].h, h.tip().h)
			}
		}
		h.shape.WriteString(";")
		if err != nil {
			st.rejected++
			if !errors.Is(err, vw.ErrDuplicateContainer) {
				st.nonDupErrors++
			}
			if !must {
				st.spurious++
			}
			delete(h.idx.m, nb.id)
			return "", ""
		}
		st.verifiedOK++
		// reuse of a container that only lives on another branch / outside the window is legitimate
		for _, c := range nb.cs {
			for _, o := range h.blocks[:nb.n] {
				if o.Contains(c.id) {
					st.crossBranchAccepted++
					break
				}
			}
		}
		h.processing[nb.n] = nb
	case "fwd": // a block of the network's chain accepted while this node is still syncing (never verified here)
		if h.complete || op.TS < h.tip().ts {
			return "", ""
		}
		nb := h.mkBlock(h.tip(), op.TS, op.Items)
		h.idx.m[nb.id] = nb
		h.acc = append(h.acc, nb)
		st.fwds++
		h.shape.WriteString("F;")
	case "accept":
		p, ok := h.processing[op.P]
		if !ok || p.par != h.tip() {
			return "", ""
		}
		delete(h.processing, p.n)
		h.acc = append(h.acc, p)
		st.accepts++
		// everything not descending from the new tip is rejected by consensus
		for changed := true; changed; {
			changed = false
			for n, q := range h.processing {
				_, parentProcessing := h.processing[q.par.n]
				if q.par != p && !parentProcessing {
					delete(h.processing, n)
					delete(h.idx.m, q.id)
					st.rejectedByConsensus++
					changed = true
				}
			}
		}
		h.shape.WriteString("A;")
	case "catchup":
		if h.winAcc >= len(h.acc)-1 {
			return "", ""
		}
		h.winAcc++
		b := h.acc[h.winAcc]
		if par := h.concParent(op, b); par != nil {
			if k, d := h.acceptConcurrently(op, b, par); d != "" || h.inconc != "" {
				return k, d
			}
		} else {
			h.win.Accept(b)
		}
		b.learnt = "accept"
		st.catchups++
		h.shape.WriteString("C;")
	case "restart":
		j := op.P
		if !h.complete || j < h.floor || j >= len(h.acc) {
			return "", ""
		}
		if h.floor != 0 && !(h.acc[h.floor].ts < h.acc[j].ts-h.W) {
			return "", "" // the surviving index would not cover the window: not normal operation
		}
		h.dropProcessing()
		w, err := h.newWindow(h.acc[j])
		if err != nil {
			return "C09/restart-error", fmt.Sprintf("NewTimeValidityWindow(head %s) failed: %v", h.acc[j], err)
		}
		h.win, h.winAcc = w, j
		st.restarts++
		fmt.Fprintf(&h.shape, "R%d;", len(h.acc)-1-j)
	case "sync": // state sync onto acc[j]: only the target and newer blocks exist locally
		j := op.P
		if !h.complete || j <= 0 || j >= len(h.acc) {
			return "", ""
		}
		h.dropProcessing()
		for _, b := range h.acc[:j] {
			delete(h.idx.m, b.id)
		}
		h.floor = j
		w, err := h.newWindow(h.acc[j])
		if err != nil {
			return "C09/restart-error", fmt.Sprintf("NewTimeValidityWindow(head %s) failed: %v", h.acc[j], err)
		}
		h.win, h.winAcc = w, j
		h.complete, h.nextFill = false, j-1
		st.syncs++
		fmt.Fprintf(&h.shape, "S%d;", len(h.acc)-1-j)
	case "backfill":
		if h.complete {
			return "", ""
		}
		b := h.acc[h.nextFill]
		h.idx.m[b.id] = b // SaveHistorical
		h.win.AcceptHistorical(b)
		b.learnt = "historical"
		h.floor = h.nextFill
		st.backfills++
		h.shape.WriteString("H;")
		// the syncer is done with the first block older than (target - window), or at genesis
		if b.h == 0 || b.ts < h.acc[h.winAcc].ts-h.W {
			if h.winAcc == len(h.acc)-1 { // every forward block was handed to the window (UpdateSyncTarget)
				h.complete = true
			}
		} else {
			h.nextFill--
		}
	case "prune":
		f := op.P
		if !h.complete || f <= h.floor || f > h.winAcc {
			return "", ""
		}
		if !(h.acc[f].ts < h.acc[h.winAcc].ts-h.W) {
			return "", ""
		}
		for _, b := range h.acc[h.floor:f] {
			delete(h.idx.m, b.id)
		}
		h.floor = f
		st.prunes++
		h.shape.WriteString("P;")
	}
	return "", ""
}

// class says through which mechanism the window has to know ancestor a.
func (h *c9Hist) class(a *c9Blk) string {
	if _, ok := h.processing[a.n]; ok {
		return "processing-ancestor"
	}
	if a.h > h.acc[h.winAcc].h {
		return "lagging-accepted-ancestor" // accepted by the engine, not yet handed to the window
	}
	switch a.learnt {
	case "populate":
		return "restart-populated-ancestor"
	case "historical":
		return "backfilled-ancestor"
	}
	return "accepted-ancestor"
}

// ---- generator ----

func c9Round(ts int64) int64 { return (ts + 999) / 1000 * 1000 }

func (h *c9Hist) genBlock(rng *rand.Rand, par *c9Blk, fresh bool) c9Op {
	W := h.W
	var delta int64
	switch rng.IntN(12) {
	case 0, 1:
		delta = 0
	case 2:
		delta = 1
	case 3, 4:
		delta = 1000
	case 5:
		delta = int64(rng.IntN(2000))
	case 6:
		delta = W / 4
	case 7:
		delta = W / 2
	case 8:
		delta = W - 1000*int64(rng.IntN(2))
	case 9:
		delta = W + int64(rng.IntN(3)) - 1
	case 10:
		delta = 1000 * int64(rng.IntN(int(W/1000)+2))
	default:
		delta = 250
	}
	ts := par.ts + max(delta, 0)
	// boundary: put the block exactly one window after an ancestor
	if !fresh && rng.IntN(6) == 0 {
		k := rng.IntN(6)
		for a := par; a != nil; a = a.par {
			if a.ts+W >= par.ts && len(a.cs) > 0 {
				if k == 0 {
					ts = a.ts + W
					break
				}
				k--
			}
		}
	}
	op := c9Op{K: "block", P: par.n, TS: ts}
	lo, hi := c9Round(ts), (ts+W)/1000*1000 // valid expiries (C10): whole seconds in [ts, ts+W]
	if lo > hi {
		return op // no valid expiry exists for this timestamp: empty block
	}
	n := rng.IntN(5)
	used := map[int]bool{}
	next := len(h.items)
	for i := 0; i < n; i++ {
		if !fresh && len(h.items) > 0 {
			switch x := rng.IntN(10); {
			case x < 4: // re-include a container of an ancestor whose expiry is still valid here
				var cands []c9It
				for a := par; a != nil && a.ts >= ts-W; a = a.par {
					for _, c := range a.cs {
						if c.exp >= ts && c.exp <= ts+W {
							cands = append(cands, c9It{N: int(binary.BigEndian.Uint64(c.id[8:])) - 1, Exp: c.exp})
						}
					}
				}
				if len(cands) > 0 {
					op.Items = append(op.Items, cands[rng.IntN(len(cands))])
					continue
				}
			case x < 6: // any known container (other branches, rejected blocks) with a valid expiry
				k := rng.IntN(len(h.items))
				if c := h.items[k]; c.exp >= ts && c.exp <= ts+W && !used[k] {
					used[k] = true
					op.Items = append(op.Items, c9It{N: k, Exp: c.exp})
					continue
				}
			case x == 6 && len(op.Items) > 0: // in-block duplicate
				op.Items = append(op.Items, op.Items[rng.IntN(len(op.Items))])
				continue
			}
		}
		exp := lo
		switch rng.IntN(3) {
		case 0:
			exp = hi
		case 1:
			exp = lo + 1000*int64(rng.IntN(int((hi-lo)/1000)+1))
		}
		op.Items = append(op.Items, c9It{N: next, Exp: exp})
		next++
	}
	return op
}

func (h *c9Hist) genOp(rng *rand.Rand, pSync, pRestart, pPrune, maxLag int) c9Op {
	if !h.complete {
		switch x := rng.IntN(10); {
		case x < 6:
			return c9Op{K: "backfill"}
		case x < 8:
			op := h.genBlock(rng, h.tip(), true)
			op.K = "fwd"
			return op
		default:
			return c9Op{K: "catchup"}
		}
	}
	lag := len(h.acc) - 1 - h.winAcc
	if lag > maxLag {
		return c9Op{K: "catchup"}
	}
	x := rng.IntN(100)
	switch {
	case x < 50:
		// parent: the tip or a processing block (prefer deep ones so that forks grow)
		cands := []*c9Blk{h.tip()}
		for _, p := range h.processing {
			cands = append(cands, p)
		}
		// map iteration order is random: pick deterministically by block number
		best := cands[0]
		pick := rng.IntN(len(cands))
		nums := make([]int, 0, len(cands))
		for _, c := range cands {
			nums = append(nums, c.n)
		}
		sortInts(nums)
		best = h.blocks[nums[pick]]
		if rng.IntN(3) == 0 { // deepest
			best = h.blocks[nums[len(nums)-1]]
		}
		return h.genBlock(rng, best, false)
	case x < 70:
		var kids []int
		for n, p := range h.processing {
			if p.par == h.tip() {
				kids = append(kids, n)
			}
		}
		if len(kids) == 0 {
			return h.genBlock(rng, h.tip(), false)
		}
		sortInts(kids)
		return c9Op{K: "accept", P: kids[rng.IntN(len(kids))]}
	case x < 85:
		return c9Op{K: "catchup"}
	case x < 85+pRestart:
		j := h.winAcc
		switch rng.IntN(4) {
		case 0:
			j = len(h.acc) - 1
		case 1:
			j = h.floor + rng.IntN(len(h.acc)-h.floor)
		}
		return c9Op{K: "restart", P: j}
	case x < 85+pRestart+pSync:
		if len(h.acc) < 3 {
			return c9Op{K: "catchup"}
		}
		return c9Op{K: "sync", P: 1 + rng.IntN(len(h.acc)-1)}
	case x < 85+pRestart+pSync+pPrune:
		// the deepest floor the window still tolerates, or something in between
		f := h.floor
		for k := h.floor + 1; k <= h.winAcc; k++ {
			if h.acc[k].ts < h.acc[h.winAcc].ts-h.W {
				f = k
			}
		}
		if f > h.floor && rng.IntN(2) == 0 {
			f = h.floor + 1 + rng.IntN(f-h.floor)
		}
		return c9Op{K: "prune", P: f}
	default:
		return c9Op{K: "catchup"}
	}
}

func sortInts(a []int) {
	for i := 1; i < len(a); i++ {
		for j := i; j > 0 && a[j] < a[j-1]; j-- {
			a[j], a[j-1] = a[j-1], a[j]
		}
	}
}

var c9Windows = []int64{1000, 5000, 60000}

func TestC09(t *testing.T) {
	r := kit.Start(t, "C09", "exploration")
	r.Rule("history = PRNG op script over an explicit block tree driven against the real TimeValidityWindow (+EMap): propose+verify a block on the accepted tip or any processing block (forks, preference flips) with fresh containers, containers re-included from in-window ancestors, containers known from other branches, in-block duplicates (expiry always a whole second in [block ts, block ts+window] as C10 requires); consensus accepts a child of the last accepted block and rejects the other branches; window.Accept lags behind (0..6 blocks); the chain index is pruned as deep as the window assumption allows; restart at any retained accepted height (NewTimeValidityWindow over the surviving index); state sync onto an accepted block followed by AcceptHistorical backfill interleaved with forward accepts. Windows {1 s, 5 s, 60 s}; timestamp steps 0, 1 ms .. 2 windows, blocks placed exactly one window after an ancestor. Oracle walks ancestors in the model: a block with an in-block duplicate or a container of an ancestor with ts >= block ts - window must be rejected by VerifyExpiryReplayProtection and every such container must be flagged by IsRepeat. Concurrent part (40% of the histories): window.Accept(B) of a block with containers runs on its own goroutine while a child of the accepted tip or of a processing block (all descend from B; B within the child's window, expiry valid for the child, the repeated container at any position among 0..3 fresh ones) is verified on another: 'hook' = B.GetContainers(), called from inside Accept, releases the verifier and lingers 1..1024 scheduler yields (never waits for it); 'stress' = 3 verifiers x 6..32 Verify+IsRepeat probes (each keeps going until it saw Accept return) while Accept starts after 0..9 probes. B is an ancestor at every instant, so every probe must be rejected and flagged whatever the interleaving; both goroutines joined with a deadlock witness. Non-trivial = the history contains at least one block repeating an in-window ancestor's container; distinct = distinct op-script shape (op kinds, parent depth, container count, lag, repeat class, concurrent-case parameters). VM-level part (c09vm_test.go; 2..3 networks quick, 10..14 thorough, each in its own child process of the test binary): a vm/vmtest TestNetwork of real VMs (chaintest.TestAction, ed25519 auth, window 60 s or 120 s) in which one node executes every block from genesis (3..8 hand-built blocks of 1..3 transactions, verified and accepted on every VM), a second node joins through dynamic state sync (GetLastStateSummary / ParseStateSummary / Accept, chain kept moving 1..3 blocks per round until SyncClient.Wait returns, SetState Bootstrapping+NormalOp, HealthCheck), 1..7 more blocks are accepted, optionally one block is left verified-but-not-accepted, and one of the two nodes (PRNG) is finally restarted from its disk directory. Every node in normal operation is offered a hand-built child (chain.NewStatelessBlock: parent id/root, height+1, ts = max(now, parent ts)) of its preferred block that carries, at a PRNG position among 0..3 fresh transactions, a transaction accepted before the sync point / while the sync ran / after the node reached normal operation / sitting in the still-processing parent / occurring twice in the block itself: Verify must fail with chain.ErrDuplicateTx whenever the recorded data say the ancestor's timestamp is >= block ts - window and the expiry is valid for the block, and the control block (same block, a fresh transaction in its place) must verify and execute, otherwise the probe is not judged. Builder clause: the repeated transaction is put straight into the node's mempool next to a fresh one; the block the node builds must not contain it. Distinct VM cases = (route, where the repeated transaction sits, block size, position, blocks/txs-per-block/minBlocks/window of the network).")
	r.Assume("only the stated direction (repeat => rejected/flagged) is asserted; spurious rejections are counted, not judged",
		"the chain index holds every accepted block within one window of the restart head plus one older block (the assumption documented on TimeValidityWindow); verification is not judged while a state-sync backfill is incomplete",
		"consensus only verifies children of the last accepted block or of processing blocks, timestamps never decrease along a chain, genesis carries no containers",
		"generic emap.Item containers stand in for chain.Transaction (the window only uses GetID/GetExpiry)",
		"VM-level part: a network whose setup does not complete (vmtest require failing, state sync not finishing within the 60 s watchdog, child process dying or hanging) is counted (vm_network_setup_failure_*), retried once and otherwise skipped - never judged; the run is inconclusive if no genesis-route or no state-synced node could be judged at all. Blocks are hand-built instead of going through the VM's builder because back-to-back builds on one VM can drop the submitted transaction or deadlock between Mempool.StartStreaming and the asynchronous FinishStreaming of the previous build (what makes the repository's own state-sync tests flaky); the builder is only used once per node, for the builder clause. The in-process restart disables the (optional) indexer extension, whose database Shutdown does not close",
		"concurrent part: one accepter goroutine (window.Accept is only called from the async accepter) against verifier/builder goroutines; interleavings are those the Go scheduler produces under the GetContainers linger / the stress start offset, not an enumeration")
	r.Extra("windows_ms", c9Windows)

	total := &c9Stats{}
	var mu sync.Mutex
	runScript := func(c *c9Case) (string, string, *c9Hist, *c9Stats) {
		st := &c9Stats{}
		h, err := newC9Hist(c, st)
		if err != nil {
			return "C09/restart-error", err.Error(), h, st
		}
		for _, op := range c.Ops {
			if k, d := h.apply(op); d != "" || h.inconc != "" {
				return k, d, h, st
			}
		}
		return "", "", h, st
	}
	if rf := r.Replay(); rf != nil && len(rf.Witness) > 0 {
		if c9vmReplay(r, rf) { // witness of the VM-level part (c09vm_test.go)
			r.Finish(0)
			return
		}
		var c c9Case
		if err := json.Unmarshal(rf.Witness, &c); err == nil && len(c.Ops) > 0 {
			r.Eval()
			var k, d string
			var h *c9Hist
			r.Guard("validitywindow", c, func() { k, d, h, _ = runScript(&c) })
			if d != "" {
				r.Violation(k, c, "%s", d)
			} else if h != nil && h.inconc != "" {
				r.Inconclusive("%s", h.inconc)
			}
			r.Finish(0)
			return
		}
	}

	n := r.N(15000, 1200000)
	steps := r.N(70, 90)
	workers := 8
	seeds := make([][2]uint64, n)
	srng := r.Rand("histories")
	for i := range seeds {
		seeds[i] = [2]uint64{srng.Uint64(), srng.Uint64()}
	}
	var wg sync.WaitGroup
	next := make(chan int)
	for w := 0; w < workers; w++ {
		wg.Add(1)
		go func() {
			defer wg.Done()
			for i := range next {
				rng := rand.New(rand.NewPCG(seeds[i][0], seeds[i][1]))
				c := &c9Case{W: c9Windows[rng.IntN(len(c9Windows))], GenesisTS: 1_000_000_000 + 1000*int64(rng.IntN(1000))}
				if rng.IntN(4) == 0 {
					c.GenesisTS += int64(rng.IntN(1000))
				}
				pSync := []int{0, 2, 5}[rng.IntN(3)]
				pRestart := []int{0, 3, 6}[rng.IntN(3)]
				pPrune := []int{0, 2, 4}[rng.IntN(3)]
				maxLag := []int{0, 1, 3, 6}[rng.IntN(4)]
				concMode := []string{"", "", "", "", "", "", "hook", "hook", "hook", "stress"}[rng.IntN(10)]
				st := &c9Stats{}
				var (
					h    *c9Hist
					k, d string
				)
				r.Eval()
				r.Guard("validitywindow", c, func() {
					var err error
					h, err = newC9Hist(c, st)
					if err != nil {
						k, d = "C09/restart-error", err.Error()
						return
					}
					for s := 0; s < steps && d == "" && h.inconc == ""; s++ {
						op := h.genOp(rng, pSync, pRestart, pPrune, maxLag)
						if op.K == "catchup" && concMode != "" {
							h.genConc(rng, &op, concMode)
						}
						c.Ops = append(c.Ops, op)
						k, d = h.apply(op)
					}
				})
				if d != "" {
					r.Violation(k, c, "%s  [window %d ms, %d ops]", d, c.W, len(c.Ops))
				}
				if h != nil && h.inconc != "" {
					r.Inconclusive("%s", h.inconc)
				}
				if h != nil {
					st.indexGets = int(h.idx.gets.Load())
					if h.trueRepeat {
						r.Distinct(c.W, h.shape.String())
						if st.ofAccepted+st.ofPopulated+st.ofHistorical+st.ofLagging > 0 {
							r.Sample(c)
						}
					}
				}
				mu.Lock()
				total.add(st)
				mu.Unlock()
			}
		}()
	}
	for i := 0; i < n; i++ {
		next <- i
	}
	close(next)
	wg.Wait()

	st := total
	r.Count("blocks_proposed", st.blocks)
	r.Count("blocks_verified_ok", st.verifiedOK)
	r.Count("blocks_rejected", st.rejected)
	r.Count("blocks_with_true_repeat", st.mustReject)
	r.Count("spurious_rejects", st.spurious)
	r.Count("rejects_with_non_duplicate_error", st.nonDupErrors)
	r.Count("repeat_in_block", st.inBlock)
	r.Count("repeat_of_processing_ancestor", st.ofProcessing)
	r.Count("repeat_of_engine_accepted_ancestor_not_yet_in_window", st.ofLagging)
	r.Count("repeat_of_window_accepted_ancestor", st.ofAccepted)
	r.Count("repeat_of_ancestor_known_from_restart_populate", st.ofPopulated)
	r.Count("repeat_of_backfilled_ancestor", st.ofHistorical)
	r.Count("repeat_exactly_at_window_boundary", st.boundary)
	r.Count("cross_branch_or_expired_reuse_verified_ok", st.crossBranchAccepted)
	r.Count("isrepeat_calls", st.isRepeatProbes)
	r.Count("isrepeat_containers_that_had_to_be_flagged", st.isRepeatFlags)
	r.Count("consensus_accepts", st.accepts)
	r.Count("blocks_rejected_by_consensus", st.rejectedByConsensus)
	r.Count("window_accepts", st.catchups)
	r.Count("restarts", st.restarts)
	r.Count("state_syncs", st.syncs)
	r.Count("backfilled_blocks", st.backfills)
	r.Count("forward_blocks_during_sync", st.fwds)
	r.Count("index_prunes", st.prunes)
	r.Count("index_lookups_by_window", st.indexGets)
	r.Count("max_window_lag_blocks", st.maxLag)
	st.conc.report(r)
	if st.ofProcessing == 0 || st.ofAccepted == 0 || st.ofLagging == 0 || st.ofPopulated == 0 || st.ofHistorical == 0 || st.inBlock == 0 || st.boundary == 0 {
		r.Inconclusive("a repeat class was never generated: %+v", *st)
	}
	c9RunVMPart(r) // VM-level part: real VMs reaching normal operation by every route (c09vm_test.go)
	r.Finish(r.N(2000, 100000))
}
