package vwx

import (
	"context"
	"crypto/sha256"
	"encoding/binary"
	"encoding/json"
	"errors"
	"fmt"
	"math"
	"math/rand/v2"
	"strings"
	"sync"
	"sync/atomic"
	"testing"
	"time"

	"github.com/ava-labs/avalanchego/database"
	"github.com/ava-labs/avalanchego/ids"
	"github.com/ava-labs/avalanchego/trace"
	"github.com/ava-labs/avalanchego/utils/logging"

	vw "github.com/ava-labs/hypersdk/internal/validitywindow"
	"github.com/ava-labs/hypersdk/zzverif/kit"
)

// ---- byte-encoded, hash-identified blocks ----

type c22Blk struct {
	h      uint64
	ts     int64
	parent ids.ID
	items  []c9Item
	bytes  []byte
	id     ids.ID
}

func (b *c22Blk) GetID() ids.ID           { return b.id }
func (b *c22Blk) GetParent() ids.ID       { return b.parent }
func (b *c22Blk) GetTimestamp() int64     { return b.ts }
func (b *c22Blk) GetHeight() uint64       { return b.h }
func (b *c22Blk) GetBytes() []byte        { return b.bytes }
func (b *c22Blk) GetContainers() []c9Item { return b.items }
func (b *c22Blk) Contains(id ids.ID) bool {
	for _, c := range b.items {
		if c.id == id {
			return true
		}
	}
	return false
}
func (b *c22Blk) String() string { return fmt.Sprintf("blk(h=%d,ts=%d,%s)", b.h, b.ts, b.id) }

func c22New(h uint64, ts int64, parent ids.ID, items []c9Item) *c22Blk {
	buf := make([]byte, 0, 50+40*len(items))
	buf = binary.BigEndian.AppendUint64(buf, h)
	buf = binary.BigEndian.AppendUint64(buf, uint64(ts))
	buf = append(buf, parent[:]...)
	buf = binary.BigEndian.AppendUint16(buf, uint16(len(items)))
	for _, it := range items {
		buf = append(buf, it.id[:]...)
		buf = binary.BigEndian.AppendUint64(buf, uint64(it.exp))
	}
	return &c22Blk{h: h, ts: ts, parent: parent, items: items, bytes: buf, id: sha256.Sum256(buf)}
}

type c22Parser struct{}

var errC22Parse = errors.New("malformed block")

func (c22Parser) ParseBlock(_ context.Context, b []byte) (*c22Blk, error) {
	if len(b) < 50 {
		return nil, errC22Parse
	}
	n := int(binary.BigEndian.Uint16(b[48:50]))
	if len(b) != 50+40*n {
		return nil, errC22Parse
	}
	blk := &c22Blk{h: binary.BigEndian.Uint64(b), ts: int64(binary.BigEndian.Uint64(b[8:])), bytes: append([]byte(nil), b...)}
	copy(blk.parent[:], b[16:48])
	for i := 0; i < n; i++ {
		var it c9Item
		copy(it.id[:], b[50+40*i:])
		it.exp = int64(binary.BigEndian.Uint64(b[50+40*i+32:]))
		blk.items = append(blk.items, it)
	}
	blk.id = sha256.Sum256(b)
	return blk, nil
}

// ---- scenario ----

type c22Case struct {
	Seed [2]uint64 `json:"seed"`
	// everything below is derived from Seed; kept in the witness for the reader
	W          int64    `json:"window"`
	TS         []int64  `json:"timestamps"` // true chain, index = height; the sync target is height Target
	Target     int      `json:"target"`
	Local      int      `json:"local_ancestors"` // contiguous ancestors of the target already in the local store
	Faulty     int      `json:"faulty_requests"` // requests answered by PRNG-chosen (mis)behaviour before peers turn correct
	Forward    []int    `json:"forward_at_request,omitempty"`
	Requests   []string `json:"request_log,omitempty"`
	Saved      []uint64 `json:"saved_heights,omitempty"`
	GenesisIn  bool     `json:"genesis_inside_window"`
	MinInitial int64    `json:"min_timestamp_initial"`
	// Kind: random | boundary (sync targets at oldestLocal.ts + window -1/0/+1 while the peers are silent)
	// | pruned (peers hold nothing below PrunedBelow; the minimum is moved past already fetched blocks)
	Kind         string  `json:"kind"`
	Silent       bool    `json:"silent_faults,omitempty"`         // the faulty requests are only silent/slow ones (boundary)
	EdgeDeltas   []int64 `json:"forward_ts_minus_edge,omitempty"` // per forward block: ts - (reference block ts + window)
	PrunedBelow  int     `json:"pruned_below,omitempty"`          // while pruned, peers have no block lower than this height
	PrunedRounds int     `json:"pruned_rounds,omitempty"`         // requests below PrunedBelow that fail before an archival peer appears
	FwdAtPruned  []int   `json:"forward_at_pruned_failure,omitempty"`
	// Kind cancel: the context the backfill was started with (Syncer.Start) is cancelled at a logical point - before
	// Start, when request #CancelAt arrives (CancelAt requests were answered before), or just after the peer produced
	// its answer to request #CancelAt - while the peers have only served faulty / truncated answers
	CancelAt   int    `json:"cancel_at_request,omitempty"`
	CancelWhen string `json:"cancel_when,omitempty"` // before-start | on-arrival | after-answer
	Cancelled  string `json:"cancelled,omitempty"`   // what the monitor saw when it cancelled the context
}

// c22CancelGrace bounds how long a scenario keeps listening for a completion signal after the start context was
// cancelled (6 back-off periods of the client). Its expiry ends the scenario WITHOUT a verdict: a cancelled backfill
// that never reports completion is fine.
const c22CancelGrace = 3 * time.Second

// c22Run is the live state of one scenario (store, peers, model).
type c22Run struct {
	c     *c22Case
	rng   *rand.Rand
	chain []*c22Blk // true chain 0..len-1 (beyond Target = blocks that arrive from consensus during the sync)

	mu           sync.Mutex
	store        map[ids.ID]*c22Blk
	saved        []*c22Blk
	served       map[ids.ID]bool // forged items ever put on the wire
	forgedIt     []c9Item
	reqs         int
	prevHeight   uint64
	havePrev     bool
	minNow       int64
	fwdNext      int
	fwdDone      bool
	latest       *c22Blk
	behaviours   map[string]int
	viol         chan [2]string
	syncer       *vw.Syncer[c9Item, *c22Blk]
	handler      *vw.BlockFetcherHandler[*c22Blk]
	pruned       *vw.BlockFetcherHandler[*c22Blk] // serving side of peers that pruned everything below PrunedBelow
	archival     bool                             // an archival peer has appeared: requests are served from the whole chain
	prunedFails  int
	fwdPNext     int
	afterCovered int // requests issued although the recorded ancestry already reached past the current minimum
	edgeSeen     map[int64]int
	oldest       *c22Blk
	cancel       context.CancelFunc
	stopped      bool // set once the scenario has been judged: the peers go silent and the witness is frozen
	inflight     sync.WaitGroup

	startCancel        context.CancelFunc // cancels the context handed to Syncer.Start (kind cancel)
	cancelledCh        chan struct{}
	cancelled          bool
	notCoveredAtCancel bool        // at the cancellation the recorded ancestry did not reach past the minimum / genesis
	doneBeforeCancel   bool        // Wait had already returned when the context was cancelled
	waitReturned       atomic.Bool // set by the goroutine blocked in Syncer.Wait
}

// cancelStart cancels the context the backfill was started with (once) and records what was known at that point.
func (s *c22Run) cancelStart(where string) {
	s.mu.Lock()
	if s.cancelled || s.stopped {
		s.mu.Unlock()
		return
	}
	s.cancelled = true
	s.doneBeforeCancel = s.waitReturned.Load()
	cov := s.lastKnownLocked()
	s.notCoveredAtCancel = !s.fwdDone && !(cov.h == 0 || cov.ts < s.minNow)
	s.c.Cancelled = fmt.Sprintf("start context cancelled %s; oldest recorded ancestor then %s, minimum timestamp %d, %d block(s) recorded, completion already reported=%v", where, cov, s.minNow, len(s.saved), s.doneBeforeCancel)
	s.c.Requests = append(s.c.Requests, "-- start context cancelled "+where)
	s.mu.Unlock()
	s.startCancel()
	close(s.cancelledCh)
}

// chain index seen by the TimeValidityWindow
func (s *c22Run) GetExecutionBlock(_ context.Context, id ids.ID) (vw.ExecutionBlock[c9Item], error) {
	s.mu.Lock()
	defer s.mu.Unlock()
	if b, ok := s.store[id]; ok {
		return b, nil
	}
	return nil, database.ErrNotFound
}

// block store written by the Syncer
func (s *c22Run) SaveHistorical(b *c22Blk) error {
	s.mu.Lock()
	defer s.mu.Unlock()
	s.saved = append(s.saved, b)
	s.store[b.id] = b
	return nil
}

// retriever of the serving side (a correct peer holds the whole true chain)
type c22Retriever struct {
	chain  []*c22Blk
	lowest uint64 // blocks below this height have been pruned
}

func (r c22Retriever) GetBlockByHeight(_ context.Context, h uint64) (*c22Blk, error) {
	if h >= uint64(len(r.chain)) || h < r.lowest {
		return nil, database.ErrNotFound
	}
	return r.chain[h], nil
}

type c22Sampler struct{ s *c22Run }

func (p c22Sampler) Sample(context.Context, int) []ids.NodeID {
	s := p.s
	s.mu.Lock()
	defer s.mu.Unlock()
	if s.reqs < s.c.Faulty && s.rng.IntN(25) == 0 {
		s.behaviours["no-peer-sampled"]++
		return nil
	}
	return []ids.NodeID{{byte(1 + s.rng.IntN(5))}}
}

// lastKnownLocked is the oldest ancestor recorded so far (the oldest local block when nothing was fetched yet).
func (s *c22Run) lastKnownLocked() *c22Blk {
	if len(s.saved) > 0 {
		return s.saved[len(s.saved)-1]
	}
	return s.oldest
}

func (s *c22Run) flag(key, detail string) {
	select {
	case s.viol <- [2]string{key, detail}:
	default:
	}
}

// correct answers come from the real handler (request and response go through their canoto encoding)
func (s *c22Run) correct(ctx context.Context, height uint64, minTS int64) ([][]byte, error) {
	return s.correctFrom(ctx, s.handler, height, minTS)
}

func (s *c22Run) correctFrom(ctx context.Context, h *vw.BlockFetcherHandler[*c22Blk], height uint64, minTS int64) ([][]byte, error) {
	req := &vw.BlockFetchRequest{BlockHeight: height, MinTimestamp: minTS}
	out, appErr := h.AppRequest(ctx, ids.EmptyNodeID, time.Time{}, req.MarshalCanoto())
	if appErr != nil {
		return nil, appErr
	}
	resp := new(vw.BlockFetchResponse)
	if err := resp.UnmarshalCanoto(out); err != nil {
		return nil, err
	}
	return resp.Blocks, nil
}

func (s *c22Run) forge(orig *c22Blk) *c22Blk {
	// parsable, right height, but not the block the ancestry commits to
	it := c9Item{id: c9ID('f', len(s.forgedIt)), exp: orig.ts + 3_600_000}
	s.forgedIt = append(s.forgedIt, it)
	items := append(append([]c9Item(nil), orig.items...), it)
	switch s.rng.IntN(3) {
	case 0:
		return c22New(orig.h, orig.ts, orig.parent, items)
	case 1:
		return c22New(orig.h, orig.ts-1, orig.parent, []c9Item{it})
	default:
		return c22New(orig.h, orig.ts, ids.ID{0xbd}, items)
	}
}

// FetchBlocksFromPeer = the scripted network.
func (s *c22Run) FetchBlocksFromPeer(ctx context.Context, _ ids.NodeID, r *vw.BlockFetchRequest) (*vw.BlockFetchResponse, error) {
	s.mu.Lock()
	if s.stopped {
		s.mu.Unlock()
		return nil, errors.New("scenario over")
	}
	s.inflight.Add(1)
	defer s.inflight.Done()
	n := s.reqs
	s.reqs++
	// requested heights never go up again; after height 0 there is nothing left to ask for
	if s.havePrev && r.BlockHeight > s.prevHeight || r.BlockHeight >= s.oldest.h {
		key, what := "C22/request-height-increased", "a later request asks for a higher block"
		if r.BlockHeight == math.MaxUint64 || len(s.saved) > 0 && s.saved[len(s.saved)-1].h == 0 { // 0 - 1
			key, what = "C22/request-past-genesis", "genesis (inside the validity window) was delivered and the client keeps walking down"
		}
		s.c.Requests = append(s.c.Requests, fmt.Sprintf("#%d height=%d <-- %s", n, r.BlockHeight, what))
		s.mu.Unlock()
		s.flag(key, fmt.Sprintf("request #%d asks for height %d after height %d (%s); saved so far: %d blocks", n, r.BlockHeight, s.prevHeight, what, len(s.saved)))
		return nil, errors.New("no such block")
	}
	s.prevHeight, s.havePrev = r.BlockHeight, true
	// requests that honest peers cannot serve because they pruned the block do not count as served rounds
	bound := s.c.Faulty + int(s.oldest.h) + 2 + s.prunedFails
	if n > bound {
		s.mu.Unlock()
		s.flag("C22/no-progress", fmt.Sprintf("request #%d: correct peers have answered every request since #%d (%d of them for blocks they pruned) but the backfill of %d blocks is not done", n, s.c.Faulty, s.prunedFails, s.oldest.h))
		return nil, errors.New("gone")
	}
	// bounded progress once the needed ancestry has been served: the blocks recorded so far (a subset of what the
	// client accepted) already reach back past the current minimum, so nothing more is needed from any peer
	if cov := s.lastKnownLocked(); !s.fwdDone && cov.h > 0 && cov.ts < s.minNow {
		s.afterCovered++
		if s.afterCovered > 2 {
			s.c.Requests = append(s.c.Requests, fmt.Sprintf("#%d height=%d <-- request #%d after the window was covered", n, r.BlockHeight, s.afterCovered))
			s.mu.Unlock()
			s.flag("C22/not-done-after-window-covered", fmt.Sprintf("request #%d asks for height %d: it is the %d. request issued although the recorded ancestry already ends at %s, older than the current minimum timestamp %d; peers served everything the window needs but the backfill does not complete", n, r.BlockHeight, s.afterCovered, cov, s.minNow))
			return nil, errors.New("gone")
		}
	}
	// consensus may move the sync target between two requests
	var fwd []*c22Blk
	nextFwd := func() {
		if nb := int(s.latest.h) + 1; nb < len(s.chain) {
			fwd = append(fwd, s.chain[nb])
			s.latest = s.chain[nb]
		}
	}
	for s.fwdNext < len(s.c.Forward) && s.c.Forward[s.fwdNext] <= n {
		s.fwdNext++
		nextFwd()
	}
	// peers that pruned everything below PrunedBelow cannot serve this request (until an archival peer appears)
	hnd := s.handler
	prunedFail := false
	if s.c.PrunedBelow > 0 && !s.archival {
		hnd = s.pruned
		if r.BlockHeight < uint64(s.c.PrunedBelow) {
			prunedFail = true
			s.prunedFails++
			for s.fwdPNext < len(s.c.FwdAtPruned) && s.c.FwdAtPruned[s.fwdPNext] <= s.prunedFails {
				s.fwdPNext++
				nextFwd()
			}
			if s.prunedFails >= s.c.PrunedRounds {
				s.archival = true // from the next request on
			}
		}
	}
	correct := func(ctx context.Context, height uint64, minTS int64) ([][]byte, error) {
		return s.correctFrom(ctx, hnd, height, minTS)
	}
	faulty := n < s.c.Faulty
	mode := "correct"
	cancelNow := s.c.Kind == "cancel" && !s.cancelled && n >= s.c.CancelAt
	switch {
	case prunedFail:
		mode = "pruned"
	case faulty && s.c.Kind == "cancel": // never the whole needed ancestry
		mode = []string{"error", "error", "empty", "unparsable", "slow", "timeout", "partial", "partial", "partial", "truncated", "truncated", "reordered", "forged-first", "forged-later", "wrong-height", "duplicate"}[s.rng.IntN(16)]
	case faulty && s.c.Silent:
		mode = []string{"error", "error", "error", "empty", "empty", "unparsable", "slow", "slow", "timeout"}[s.rng.IntN(9)]
	case faulty:
		mode = []string{"correct", "partial", "partial", "truncated", "reordered", "forged-first", "forged-later", "unparsable", "empty", "error", "slow", "timeout", "wrong-height", "beyond-minimum", "duplicate"}[s.rng.IntN(15)]
	}
	s.behaviours[mode]++
	pick := s.rng.IntN(1 << 20)
	s.c.Requests = append(s.c.Requests, fmt.Sprintf("#%d height=%d min=%d -> %s", n, r.BlockHeight, r.MinTimestamp, mode))
	s.mu.Unlock()

	if cancelNow {
		if s.c.CancelWhen == "after-answer" { // the peer's answer is handed to a client whose context is already cancelled
			defer s.cancelStart(fmt.Sprintf("just after the peer produced its answer to request #%d", n))
		} else {
			s.cancelStart(fmt.Sprintf("when request #%d arrived (%d answered before)", n, n))
		}
	}
	for _, nb := range fwd {
		// the model is updated first: UpdateSyncTarget may signal "done" (forward criterion) before it returns
		s.mu.Lock()
		s.store[nb.id] = nb
		s.minNow = max(0, nb.ts-s.c.W)
		if nb.ts-s.oldest.ts > s.c.W {
			s.fwdDone = true
		}
		ref := s.oldest // boundary: the forward criterion's edge; pruned: the edge of the lowest block the peers hold
		if s.c.PrunedBelow > 0 {
			ref = s.chain[s.c.PrunedBelow]
		}
		s.edgeSeen[nb.ts-ref.ts-s.c.W]++
		s.mu.Unlock()
		if err := s.syncer.UpdateSyncTarget(ctx, nb); err != nil {
			s.flag("C22/syncer-error", "UpdateSyncTarget: "+err.Error())
		}
	}
	if len(fwd) > 0 {
		s.mu.Lock()
		over := s.fwdDone
		s.mu.Unlock()
		if over { // consensus filled the window going forward: the syncer has cancelled the backfill
			return nil, errors.New("peer failed")
		}
	}
	if prunedFail {
		if pick%3 == 0 {
			return &vw.BlockFetchResponse{}, nil
		}
		return nil, errors.New("no blocks found: pruned")
	}

	blocks, err := correct(ctx, r.BlockHeight, r.MinTimestamp)
	switch mode {
	case "correct":
	case "partial":
		if len(blocks) > 1 {
			blocks = blocks[:1+pick%min(len(blocks)-1, 3)]
		}
	case "truncated":
		if len(blocks) > 0 {
			i := pick % len(blocks)
			blocks = append([][]byte(nil), blocks[:i+1]...)
			blocks[i] = blocks[i][:len(blocks[i])-1-pick%7]
		}
	case "reordered":
		if len(blocks) > 1 {
			blocks = append([][]byte(nil), blocks...)
			if pick%2 == 0 {
				for i, j := 0, len(blocks)-1; i < j; i, j = i+1, j-1 {
					blocks[i], blocks[j] = blocks[j], blocks[i]
				}
			} else {
				blocks[0], blocks[len(blocks)-1] = blocks[len(blocks)-1], blocks[0]
			}
		} else if r.BlockHeight > 0 { // a single block: answer with its parent instead
			blocks, err = correct(ctx, r.BlockHeight-1, r.MinTimestamp)
		}
	case "forged-first", "forged-later":
		if len(blocks) > 0 {
			i := 0
			if mode == "forged-later" {
				i = pick % len(blocks)
			}
			blocks = append([][]byte(nil), blocks...)
			s.mu.Lock()
			if r.BlockHeight-uint64(i) < uint64(len(s.chain)) {
				blocks[i] = s.forge(s.chain[r.BlockHeight-uint64(i)]).bytes
			}
			s.mu.Unlock()
		}
	case "unparsable":
		junk := make([]byte, 1+pick%90)
		for i := range junk {
			junk[i] = byte(pick >> (i % 16))
		}
		blocks, err = [][]byte{junk}, nil
	case "empty":
		blocks, err = nil, nil
	case "error":
		return nil, errors.New("peer failed")
	case "slow":
		time.Sleep(time.Duration(5+pick%60) * time.Millisecond)
	case "timeout":
		<-ctx.Done()
		return nil, ctx.Err()
	case "wrong-height":
		d := uint64(1 + pick%3)
		if pick%2 == 0 && r.BlockHeight >= d {
			blocks, err = correct(ctx, r.BlockHeight-d, r.MinTimestamp)
		} else {
			blocks, err = correct(ctx, r.BlockHeight+d, r.MinTimestamp)
		}
	case "beyond-minimum": // a peer that ignores the requested minimum and serves the whole history
		blocks, err = correct(ctx, r.BlockHeight, math.MinInt64)
		if r.BlockHeight > 0 && len(blocks) > 0 && pick%2 == 0 { // ... including genesis
			if g, gerr := correct(ctx, 0, math.MinInt64); gerr == nil && uint64(len(blocks)) == r.BlockHeight {
				blocks = append(append([][]byte(nil), blocks...), g...)
			}
		}
	case "duplicate":
		if len(blocks) > 0 {
			blocks = append([][]byte{blocks[0]}, blocks...)
		}
	}
	if err != nil {
		return nil, err
	}
	return &vw.BlockFetchResponse{Blocks: blocks}, nil
}

func c22Gen(seed [2]uint64) (*c22Case, *rand.Rand) {
	rng := rand.New(rand.NewPCG(seed[0], seed[1]))
	c := &c22Case{Seed: seed}
	switch k := rng.IntN(100); {
	case k < 52:
		c22GenRandom(c, rng)
	case k < 64:
		c22GenCancel(c, rng)
	case k < 83:
		c22GenBoundary(c, rng)
	default:
		c22GenPruned(c, rng)
	}
	c.MinInitial = max(0, c.TS[c.Target]-c.W)
	c.GenesisIn = c.TS[0] >= c.MinInitial
	return c, rng
}

// c22GenBoundary: the local blocks L..T do not cover the window (the block below L - after 0..3 ancestors that
// share L's timestamp - is the first one older than every minimum used), the peers are silent or slow for the first
// requests, and meanwhile consensus delivers sync targets whose timestamps are L.ts + window - 1 / + 0 / + 1: only
// a target MORE than one window newer than L lets the blocks the node has reach back past the window.
func c22GenBoundary(c *c22Case, rng *rand.Rand) {
	c.Kind, c.Silent = "boundary", true
	c.W = []int64{1000, 5000, 60000}[rng.IntN(3)]
	ts := int64(10 + rng.IntN(50))
	if rng.IntN(2) == 0 {
		ts = 1_700_000_000_000
	}
	for k := rng.IntN(4); k > 0; k-- { // blocks older than the boundary block
		c.TS = append(c.TS, ts)
		ts += rng.Int64N(c.W/2 + 1)
	}
	c.TS = append(c.TS, ts) // the boundary block (genesis when nothing is older)
	tL := ts + []int64{1, 1, 2, c.W / 3}[rng.IntN(4)]
	for k := rng.IntN(4); k > 0; k-- { // ancestors of L with L's timestamp
		c.TS = append(c.TS, tL)
	}
	c.TS = append(c.TS, tL) // L, the oldest local block
	c.Local = rng.IntN(4)
	t := tL
	for i := 0; i < c.Local; i++ {
		switch rng.IntN(3) {
		case 0:
		case 1:
			t++
		default:
			t += rng.Int64N(c.W / 4)
		}
		t = min(t, tL+c.W-2)
		c.TS = append(c.TS, t)
	}
	c.Target = len(c.TS) - 1
	var deltas []int64
	if rng.IntN(3) == 0 { // an earlier target well inside the window
		deltas = append(deltas, t+rng.Int64N(tL+c.W-1-t)-tL-c.W)
	}
	deltas = append(deltas, [][]int64{{0}, {0}, {-1, 0}, {-1, 0, 1}, {0, 1}, {1}, {-1}, {0, 0}, {-1, 1}}[rng.IntN(9)]...)
	c.EdgeDeltas = deltas
	at := rng.IntN(2)
	for i, d := range deltas {
		c.TS = append(c.TS, tL+c.W+d)
		if i > 0 && rng.IntN(6) > 0 {
			at += 1 + rng.IntN(2) // usually one target per request: each is judged on its own
		}
		c.Forward = append(c.Forward, at)
	}
	c.Faulty = max(0, at-1+rng.IntN(4))
}

// c22GenPruned: honest peers hold the chain only from height P up. The node fetches L-1..P, every request for P-1
// fails, and consensus then moves the sync target so that the minimum lands on P.ts (P is ON the edge: more is
// needed, an archival peer appears later) or beyond it (P is past the window: everything needed was served).
func c22GenPruned(c *c22Case, rng *rand.Rand) {
	c.Kind = "pruned"
	c.W = []int64{1000, 5000, 60000}[rng.IntN(3)]
	ts := int64(10 + rng.IntN(50))
	if rng.IntN(2) == 0 {
		ts = 1_700_000_000_000
	}
	c.PrunedBelow = 1 + rng.IntN(4)
	for h := 0; h < c.PrunedBelow; h++ {
		c.TS = append(c.TS, ts)
		if h < c.PrunedBelow-1 || rng.IntN(3) > 0 { // P-1 sometimes shares P's timestamp
			ts += 1 + rng.Int64N(c.W/2)
		}
	}
	tP := ts
	c.TS = append(c.TS, tP)
	nFetch := 1 + rng.IntN(5) // heights P..L-1
	c.Local = rng.IntN(4)
	cnt := nFetch + c.Local
	for i := 0; i < cnt; i++ { // P+1..T, all within one window of P: at Start, P is not past the window
		ts += 1 + rng.Int64N((c.W-1)/int64(cnt))
		c.TS = append(c.TS, ts)
	}
	c.Target = len(c.TS) - 1
	var deltas []int64
	if rng.IntN(3) == 0 {
		deltas = append(deltas, ts+rng.Int64N(tP+c.W-ts)-tP-c.W) // minimum still at or below ... P.ts - 1
	}
	d := []int64{0, 0, 1, 1, 1, 2, 1 + c.W/4}[rng.IntN(7)]
	deltas = append(deltas, d)
	if rng.IntN(4) == 0 {
		deltas = append(deltas, d+1+rng.Int64N(5))
	}
	c.EdgeDeltas = deltas
	at := 1 + rng.IntN(3)
	for i, d := range deltas {
		c.TS = append(c.TS, tP+c.W+d)
		if i > 0 && rng.IntN(2) == 0 {
			at++
		}
		c.FwdAtPruned = append(c.FwdAtPruned, at)
	}
	// when P stays on the edge the node rightly keeps asking: an archival peer turns up a few rounds later
	c.PrunedRounds = at + 3 + rng.IntN(2)
	c.Faulty = rng.IntN(3)
}

// c22GenCancel: the window reaches back over several..all of the 7..26 blocks, at most 2 ancestors are local, every
// request is answered by a peer that errors, is slow or serves only a truncated / partly forged ancestry, and the
// context the backfill was started with is cancelled before Start (10%) or at request #0..4 (on arrival, or just after
// the peer produced its answer). Sometimes consensus has moved the sync target before.
func c22GenCancel(c *c22Case, rng *rand.Rand) {
	c.Kind = "cancel"
	c.W = []int64{1000, 5000, 60000}[rng.IntN(3)]
	c.Target = 6 + rng.IntN(20)
	nfwd := 0
	if rng.IntN(3) == 0 {
		nfwd = 1 + rng.IntN(2)
	}
	n := c.Target + 1 + nfwd
	base := int64(rng.IntN(3)) * c.W * int64(rng.IntN(4))
	if rng.IntN(3) == 0 {
		base = 1_700_000_000_000
	}
	scale := []int64{c.W / 40, c.W / 20, c.W / 5, c.W / 2}[rng.IntN(4)]
	ts := base
	for i := 0; i < n; i++ {
		if i > 0 {
			switch rng.IntN(6) {
			case 0:
			case 1:
				ts++
			default:
				ts += rng.Int64N(scale + 1)
			}
		}
		c.TS = append(c.TS, ts)
	}
	if rng.IntN(3) == 0 {
		c.Local = 1 + rng.IntN(2)
	}
	c.CancelAt = rng.IntN(5)
	switch k := rng.IntN(10); {
	case k == 0:
		c.CancelWhen, c.CancelAt = "before-start", 0
	case k < 6:
		c.CancelWhen = "on-arrival"
	default:
		c.CancelWhen = "after-answer"
	}
	c.Faulty = c.CancelAt + 1 + rng.IntN(3)
	for i := 0; i < nfwd; i++ {
		c.Forward = append(c.Forward, rng.IntN(c.CancelAt+1))
	}
	sortInts(c.Forward)
}

func c22GenRandom(c *c22Case, rng *rand.Rand) {
	c.Kind = "random"
	c.W = []int64{1000, 5000, 60000}[rng.IntN(3)]
	c.Target = 2 + rng.IntN(24)
	nfwd := rng.IntN(4)
	if rng.IntN(2) == 0 {
		nfwd = 0
	}
	n := c.Target + 1 + nfwd
	base := int64(rng.IntN(3)) * c.W * int64(rng.IntN(4)) // small bases: the minimum clamps at 0
	if rng.IntN(3) == 0 {
		base = 1_700_000_000_000
	}
	// timestamp steps relative to the window so that the window covers 1..all blocks
	scale := []int64{c.W / 20, c.W / 5, c.W / 2, c.W * 2}[rng.IntN(4)]
	ts := base
	for i := 0; i < n; i++ {
		if i > 0 {
			switch rng.IntN(6) {
			case 0: // equal timestamps
			case 1:
				ts++
			default:
				ts += rng.Int64N(scale + 1)
			}
		}
		c.TS = append(c.TS, ts)
	}
	c.Local = 0
	if rng.IntN(3) == 0 {
		c.Local = rng.IntN(c.Target)
	}
	c.Faulty = rng.IntN(7)
	for i := 0; i < nfwd; i++ {
		c.Forward = append(c.Forward, rng.IntN(c.Faulty+3))
	}
	sortInts(c.Forward)
}

type c22Stats struct {
	mu                                                                sync.Mutex
	scenarios, genesisIn, immediate, requests, saved, probes, tracked int
	forgedProbes, fwdTargets, fwdDone, endAtGenesis, endPastWindow    int
	behaviours                                                        map[string]int
	kinds, edge                                                       map[string]int
	prunedFails, doneAfterMinRaised, afterCovered, sameTSFetched      int
	// kind cancel
	cancels, cancelNotCovered, cancelNoCompletion, cancelWaitError, cancelThenCovered, cancelAfterDone int
	cancelWhen                                                                                         map[string]int
}

// runC22 runs one scenario to completion (logical rounds; the watchdog only yields "inconclusive").
func runC22(c *c22Case, rng *rand.Rand, st *c22Stats) (key, detail string) {
	s := &c22Run{c: c, rng: rng, store: map[ids.ID]*c22Blk{}, served: map[ids.ID]bool{}, behaviours: map[string]int{}, viol: make(chan [2]string, 4), edgeSeen: map[int64]int{}, cancelledCh: make(chan struct{})}
	// true chain with a few containers per block (expiries far in the future: nothing expires during the scenario)
	parent := ids.Empty
	itemN := 0
	far := c.TS[len(c.TS)-1] + 3_600_000
	for h, ts := range c.TS {
		var items []c9Item
		k := rng.IntN(4)
		if k == 0 && c.Kind != "random" {
			k = 1 // boundary / pruned scenarios: every ancestor carries a transaction, so a missing one is visible
		}
		for ; k > 0 && h > 0; k-- {
			items = append(items, c9Item{id: c9ID('t', itemN), exp: far})
			itemN++
		}
		b := c22New(uint64(h), ts, parent, items)
		s.chain = append(s.chain, b)
		parent = b.id
	}
	target := s.chain[c.Target]
	s.latest = target
	s.minNow = c.MinInitial
	for h := c.Target - c.Local; h <= c.Target; h++ {
		s.store[s.chain[h].id] = s.chain[h]
	}
	s.handler = vw.NewBlockFetcherHandler[*c22Blk](c22Retriever{chain: s.chain})
	s.pruned = vw.NewBlockFetcherHandler[*c22Blk](c22Retriever{chain: s.chain, lowest: uint64(c.PrunedBelow)})
	getW := func(int64) int64 { return c.W }
	ctx, cancel := context.WithCancel(context.Background())
	defer cancel()
	s.cancel = cancel

	// the window starts empty at the target (as the VM does before state sync); the syncer populates it
	win, err := vw.NewTimeValidityWindow[c9Item](ctx, logging.NoLog{}, trace.Noop, s, target, getW)
	if err != nil {
		return "C22/syncer-error", "NewTimeValidityWindow: " + err.Error()
	}
	// model of what the local store covers
	oldest := target
	for oldest.h > 0 {
		p, ok := s.store[oldest.parent]
		if !ok {
			break
		}
		if oldest = p; oldest.ts < c.MinInitial {
			break
		}
	}
	s.oldest = oldest
	localComplete := oldest.h == 0 || oldest.ts < c.MinInitial

	client := vw.NewBlockFetcherClient[*c22Blk](s, c22Parser{}, c22Sampler{s})
	s.syncer = vw.NewSyncer[c9Item, *c22Blk](s, win, client, getW)
	// the backfill is started with its own context (kind cancel gives up on it); Wait is given one that stays live
	startCtx, startCancel := context.WithCancel(ctx)
	defer startCancel()
	s.startCancel = startCancel
	if c.Kind == "cancel" && c.CancelWhen == "before-start" {
		s.cancelStart("before Start was called")
	}
	if err := s.syncer.Start(startCtx, target); err != nil {
		return "C22/syncer-error", "Start: " + err.Error()
	}
	var waitErr error
	done := kit.Go(func() { waitErr = s.syncer.Wait(ctx); s.waitReturned.Store(true) })
	watchdog := time.NewTimer(4 * time.Minute)
	defer watchdog.Stop()
	completed := false
	cancelledCh := s.cancelledCh
	var graceC <-chan time.Time
	for waiting := true; waiting; {
		select {
		case v := <-s.viol:
			cancel()
			s.snapshot(st)
			return v[0], v[1]
		case <-watchdog.C:
			cancel()
			s.snapshot(st)
			return "inconclusive", fmt.Sprintf("watchdog: syncer neither finished nor broke a logical bound after %d requests", len(c.Requests))
		case <-done:
			completed, waiting = true, false
		case <-cancelledCh:
			// the backfill was given up: from here on completion need not be reported any more; listen for a
			// bounded time whether it is reported nevertheless
			cancelledCh = nil
			grace := time.NewTimer(c22CancelGrace)
			defer grace.Stop()
			graceC = grace.C
		case <-graceC:
			waiting = false // no verdict from time: the scenario simply ends
		}
	}
	select { // a bound may have been hit in the very last round
	case v := <-s.viol:
		s.snapshot(st)
		return v[0], v[1]
	default:
	}
	cancel()
	s.snapshot(st)
	s.inflight.Wait() // a request that was being answered when "done" was signalled (forward criterion) has finished

	s.mu.Lock()
	saved := append([]*c22Blk(nil), s.saved...)
	minFinal, fwdDone, latest := s.minNow, s.fwdDone, s.latest
	forged := append([]c9Item(nil), s.forgedIt...)
	cancelled, notCoveredAtCancel, doneBeforeCancel := s.cancelled, s.notCoveredAtCancel, s.doneBeforeCancel
	s.mu.Unlock()
	if cancelled {
		st.mu.Lock()
		st.cancels++
		st.cancelWhen[c.CancelWhen]++
		if notCoveredAtCancel {
			st.cancelNotCovered++
		}
		st.mu.Unlock()
	}

	// (1) what was recorded is exactly the hash-linked ancestry, in order, never past the minimum
	for i, b := range saved {
		wantH := int(oldest.h) - 1 - i
		if wantH < 0 || b.id != s.chain[wantH].id {
			return "C22/saved-block-not-the-ancestor", fmt.Sprintf("saved block %d is %s; the ancestry requires the true block of height %d", i, b, wantH)
		}
		if i < len(saved)-1 && (b.ts < c.MinInitial || b.h == 0) {
			return "C22/saved-beyond-window", fmt.Sprintf("block %s was already older than the minimum timestamp %d (or genesis) but %d more block(s) were recorded after it", b, c.MinInitial, len(saved)-1-i)
		}
	}
	if localComplete && len(saved) > 0 {
		return "C22/saved-beyond-window", fmt.Sprintf("the local blocks already covered the window (oldest %s, minimum %d) but %d blocks were fetched", oldest, c.MinInitial, len(saved))
	}
	last := oldest
	if len(saved) > 0 {
		last = saved[len(saved)-1]
	}
	// a backfill whose start context was cancelled may end with an error or never report completion: no verdict
	if !completed || waitErr != nil {
		st.mu.Lock()
		if completed {
			st.cancelWaitError++
		} else {
			st.cancelNoCompletion++
		}
		st.mu.Unlock()
		return "", ""
	}
	// (2) done means: the window is covered back past the minimum or to genesis (or consensus filled it going forward)
	if cancelled && !doneBeforeCancel && !fwdDone && !(last.h == 0 || last.ts < minFinal) {
		return "C22/done-after-cancel-before-window-covered", fmt.Sprintf("%s; afterwards Wait returned nil (backfill complete) although the oldest known ancestor is %s, not older than the minimum timestamp %d of the current target %s and not genesis: the ancestors below height %d that lie inside the window were never recorded or tracked - a cancelled, incomplete backfill reports successful completion", c.Cancelled, last, minFinal, latest, last.h)
	}
	if !fwdDone && last.h != 0 && last.ts == minFinal {
		return "C22/done-with-oldest-block-on-window-edge", fmt.Sprintf("syncer reported done but the oldest known ancestor %s has exactly the minimum timestamp %d of the current target %s: it sits ON the lower edge of the window, not past it - ancestors sharing that timestamp and the first older block were never fetched, recorded or tracked", last, minFinal, latest)
	}
	if !fwdDone && !(last.h == 0 || last.ts < minFinal) {
		return "C22/done-before-window-covered", fmt.Sprintf("syncer reported done but the oldest known ancestor is %s, not older than the minimum timestamp %d and not genesis", last, minFinal)
	}
	// (3) tracked transactions = those of the target, the local/forward blocks and the recorded ancestors; nothing else
	want := map[ids.ID]bool{}
	for h := int(last.h); h <= int(latest.h); h++ {
		for _, it := range s.chain[h].items {
			want[it.id] = true
		}
	}
	var probe []c9Item
	for _, b := range s.chain {
		probe = append(probe, b.items...)
	}
	nTrue := len(probe)
	probe = append(probe, forged...)
	bits, err := win.IsRepeat(context.Background(), latest, latest.ts, probe)
	if err != nil {
		return "C22/syncer-error", "IsRepeat probe: " + err.Error()
	}
	ntracked := 0
	if fwdDone {
		// the backfill was cancelled while blocks may still be in flight to the window: only judge what
		// holds at every instant (nothing forged, everything local/forward present)
		want = map[ids.ID]bool{}
		for h := int(oldest.h); h <= int(latest.h); h++ {
			for _, it := range s.chain[h].items {
				want[it.id] = true
			}
		}
	}
	for i, it := range probe {
		got := bits.Contains(i)
		if got {
			ntracked++
		}
		switch {
		case i >= nTrue && got:
			return "C22/forged-transaction-tracked", fmt.Sprintf("container %s only ever appeared in a forged block but is tracked", it.id)
		case got && !want[it.id] && !fwdDone:
			return "C22/untracked-block-transaction-tracked", fmt.Sprintf("container %s belongs to a block that was never part of the recorded ancestry (heights %d..%d) but is tracked", it.id, last.h, latest.h)
		case !got && want[it.id]:
			return "C22/ancestor-transaction-not-tracked", fmt.Sprintf("container %s of a block in heights %d..%d is not tracked after the backfill completed", it.id, last.h, latest.h)
		}
	}
	st.mu.Lock()
	st.probes += len(probe)
	st.forgedProbes += len(forged)
	st.tracked += ntracked
	if fwdDone {
		st.fwdDone++
	}
	if cancelled && doneBeforeCancel {
		st.cancelAfterDone++
	} else if cancelled {
		st.cancelThenCovered++
	}
	if len(saved) == 0 && localComplete {
		st.immediate++
	}
	if last.h == 0 {
		st.endAtGenesis++
	} else {
		st.endPastWindow++
	}
	if !fwdDone && minFinal > c.MinInitial && len(saved) > 0 {
		st.doneAfterMinRaised++
	}
	for _, b := range saved {
		if b.ts == oldest.ts {
			st.sameTSFetched++
		}
	}
	st.mu.Unlock()
	return "", ""
}

func (s *c22Run) snapshot(st *c22Stats) {
	s.mu.Lock()
	defer s.mu.Unlock()
	s.stopped = true
	s.c.Saved = s.c.Saved[:0]
	for _, b := range s.saved {
		s.c.Saved = append(s.c.Saved, b.h)
	}
	st.mu.Lock()
	st.requests += s.reqs
	st.saved += len(s.saved)
	st.fwdTargets += s.fwdNext + s.fwdPNext
	st.prunedFails += s.prunedFails
	st.afterCovered += s.afterCovered
	if s.c.Kind == "boundary" || s.c.Kind == "pruned" {
		for d, k := range s.edgeSeen {
			switch {
			case d < -1:
				st.edge[s.c.Kind+"_inside"] += k
			case d > 1:
				st.edge[s.c.Kind+"_beyond"] += k
			default:
				st.edge[fmt.Sprintf("%s_%+d", s.c.Kind, d)] += k
			}
		}
	}
	for k, v := range s.behaviours {
		st.behaviours[k] += v
	}
	st.mu.Unlock()
}

func (c *c22Case) shape() string {
	var b strings.Builder
	fmt.Fprintf(&b, "%s w%d t%d l%d f%d g%v e%v p%d/%d/%v c%d/%s/%v:", c.Kind, c.W, c.Target, c.Local, c.Faulty, c.GenesisIn, c.EdgeDeltas, c.PrunedBelow, c.PrunedRounds, c.FwdAtPruned, c.CancelAt, c.CancelWhen, c.Cancelled != "")
	for _, r := range c.Requests {
		if i := strings.LastIndex(r, "-> "); i >= 0 {
			b.WriteString(r[i+3:])
			b.WriteByte(',')
		}
	}
	fmt.Fprintf(&b, "|%v", c.Saved)
	return b.String()
}

func TestC22(t *testing.T) {
	r := kit.Start(t, "C22", "fault_enumeration")
	r.Rule("scenario = true chain of 3..26 hash-identified, byte-encoded blocks (timestamp steps 0, 1, up to 2 windows; bases near 0 and realistic; windows 1/5/60 s, so genesis lies inside or outside the window), sync target with 0..target-1 ancestors already local, real Syncer + BlockFetcherClient; every request is answered by a scripted peer whose behaviour the PRNG picks for the first 0..6 requests (correct, partial, truncated bytes, reordered, forged-but-parsable first/later block, unparsable, empty, error, slow, timeout, wrong height, ignoring the minimum incl. genesis, duplicated block, no peer sampled) and by the real BlockFetcherHandler afterwards; consensus moves the sync target (UpdateSyncTarget) between chosen requests. Oracle: blocks given to SaveHistorical are exactly the true ancestors below the oldest local block, in order, none after a block older than the minimum (or genesis); done implies the oldest known ancestor is older than the current minimum or is genesis (or the forward criterion holds); IsRepeat probes of every container of the true chain and of every forged block equal the model set; requested heights never increase and never pass genesis; with correct peers the backfill is done within (blocks to fetch + 2) requests (requests for blocks every honest peer pruned not counted); at most 2 requests are issued once the recorded ancestry already reaches back past the current minimum. 19% of the scenarios are boundary scenarios: the local blocks L..T do not cover the window, 0..3 ancestors below L share L's timestamp and carry transactions, the first requests are only answered by silent/slow peers (error, empty, unparsable, slow, timeout) while consensus delivers sync targets with timestamps L.ts + window - 1 / + 0 / + 1 (usually one per request), then peers turn correct. 17% are pruned-peer scenarios: peers hold nothing below a height P (real handler over a pruned store: partial answers down to P, error/empty below), the node fetches L-1..P, requests for P-1 fail, and at a chosen failing request consensus moves the target so that the minimum lands on P.ts (P on the edge: an archival peer appears 3..4 failures later) or past it (nothing more is needed; peers stay pruned). 12% are cancellation scenarios: the window reaches back over several..all of 7..26 blocks, at most 2 ancestors are local, every request is answered by a peer that errors, is silent/slow or serves only a partial / truncated / partly forged / misordered ancestry, and the context Syncer.Start was called with is cancelled at a PRNG-chosen logical point - before Start, when request #k arrives (k = 0..4 requests answered before), or just after the peer produced its answer to request #k (the client processes that answer under a cancelled context) - sometimes after consensus moved the sync target; Wait is given a context that stays live. Oracle there: if Wait returns nil after the cancellation, the completion clauses above must hold (oldest recorded ancestor older than the current minimum or genesis, tracked set = model), else C22/done-after-cancel-before-window-covered; an error from Wait or no completion within 6 client back-off periods (3 s) ends the scenario without a verdict. All bounds are logical request counts. Non-trivial = at least one request was made or the start context was cancelled; distinct = distinct (parameters, behaviour sequence, cancellation point, saved heights).")
	r.Assume("containers expire far in the future, so the tracked set is exactly the union of the blocks handed to the window",
		"the forward criterion (new target MORE than one window newer than the oldest local block, i.e. that block is older than the target's minimum timestamp) is accepted as completing the window: it is the statement's 'back past the validity window' applied to the blocks the node already has; a target exactly one window newer leaves that block ON the edge and completes nothing",
		"'completes once some peer serves the real ancestry' is judged in logical rounds: the blocks handed to SaveHistorical are a subset of what the client accepted, so once the last of them is older than the current minimum nothing more is needed; 2 further requests are tolerated, the 3rd is C22/not-done-after-window-covered. A peer that pruned a block answers with an error or an empty response",
		"a backfill whose start context was cancelled before the window was covered owes nothing further: it may report an error or never complete (the unchanged syncer never completes and Wait blocks until its own context ends); only a nil from Wait is read as 'the backfill completed'. The 3 s listening period after a cancellation limits what the monitor can see, its expiry is never a verdict",
		"a 4 minute watchdog per scenario only ever yields inconclusive")
	st := &c22Stats{behaviours: map[string]int{}, kinds: map[string]int{}, edge: map[string]int{}, cancelWhen: map[string]int{}}

	judge := func(seed [2]uint64) {
		c, rng := c22Gen(seed)
		r.Eval()
		var k, d string
		r.Guard("syncer", c, func() { k, d = runC22(c, rng, st) })
		switch {
		case k == "inconclusive":
			r.Inconclusive("%s [seed %v]", d, seed)
		case d != "":
			r.Violation(k, c, "%s  [window %d, target height %d, %d local ancestors, genesis inside window=%v, timestamps %v]", d, c.W, c.Target, c.Local, c.GenesisIn, c.TS)
		}
		if len(c.Requests) > 0 {
			r.Distinct(c.shape())
			if c.Faulty > 2 && (c.Kind != "cancel" || c.CancelAt > 1) {
				r.Sample(c)
			}
		}
		st.mu.Lock()
		st.scenarios++
		if c.GenesisIn {
			st.genesisIn++
		}
		st.kinds[c.Kind]++
		st.mu.Unlock()
	}
	if rf := r.Replay(); rf != nil && len(rf.Witness) > 0 {
		var c c22Case
		if err := json.Unmarshal(rf.Witness, &c); err == nil && c.Seed != [2]uint64{} {
			judge(c.Seed)
			r.Finish(0)
			return
		}
	}

	n := r.N(3000, 90000)
	conc := r.N(350, 500)
	srng := r.Rand("scenarios")
	seeds := make(chan [2]uint64)
	var wg sync.WaitGroup
	for w := 0; w < conc; w++ {
		wg.Add(1)
		go func() {
			defer wg.Done()
			for sd := range seeds {
				judge(sd)
			}
		}()
	}
	for i := 0; i < n; i++ {
		seeds <- [2]uint64{srng.Uint64() | 1, srng.Uint64()}
	}
	close(seeds)
	wg.Wait()

	r.Count("scenarios", st.scenarios)
	r.Count("scenarios_genesis_inside_window", st.genesisIn)
	r.Count("scenarios_done_from_local_blocks_only", st.immediate)
	r.Count("scenarios_completed_by_forward_criterion", st.fwdDone)
	r.Count("backfills_ending_at_genesis", st.endAtGenesis)
	r.Count("backfills_ending_past_the_window", st.endPastWindow)
	r.Count("requests_served", st.requests)
	r.Count("blocks_saved_historical", st.saved)
	r.Count("sync_target_updates", st.fwdTargets)
	r.Count("isrepeat_probes", st.probes)
	r.Count("isrepeat_probes_of_forged_containers", st.forgedProbes)
	r.Count("containers_found_tracked", st.tracked)
	for k, v := range st.behaviours {
		r.Count("peer_"+k, v)
	}
	for k, v := range st.kinds {
		r.Count("scenarios_kind_"+k, v)
	}
	for k, v := range st.edge {
		// sync targets by timestamp - (reference block's timestamp + window); reference = oldest local block
		// (boundary: the forward criterion's edge) or the lowest block the peers hold (pruned)
		r.Count("sync_targets_at_edge_"+k, v)
	}
	r.Count("requests_for_blocks_the_peers_pruned", st.prunedFails)
	r.Count("backfills_done_after_the_minimum_was_raised", st.doneAfterMinRaised)
	r.Count("requests_issued_after_the_window_was_covered", st.afterCovered)
	r.Count("fetched_ancestors_sharing_the_oldest_local_timestamp", st.sameTSFetched)
	r.Count("start_context_cancellations", st.cancels)
	r.Count("start_context_cancelled_while_window_not_covered", st.cancelNotCovered)
	r.Count("cancelled_backfills_that_never_reported_completion", st.cancelNoCompletion)
	r.Count("cancelled_backfills_ending_with_an_error", st.cancelWaitError)
	r.Count("cancelled_backfills_reporting_completion_with_the_window_covered", st.cancelThenCovered)
	r.Count("start_context_cancelled_after_completion_was_reported", st.cancelAfterDone)
	for k, v := range st.cancelWhen {
		r.Count("start_context_cancelled_"+k, v)
	}
	r.Finish(r.N(800, 20000))
}
