package vwx

import (
	"context"
	"crypto/sha256"
	"encoding/binary"
	"encoding/json"
	"errors"
	"fmt"
	"math"
	"math/rand/v2"
	"strings"
	"sync"
	"testing"
	"time"

	"github.com/ava-labs/avalanchego/database"
	"github.com/ava-labs/avalanchego/ids"
	"github.com/ava-labs/avalanchego/trace"
	"github.com/ava-labs/avalanchego/utils/logging"

	vw "github.com/ava-labs/hypersdk/internal/validitywindow"
	"github.com/ava-labs/hypersdk/zzverif/kit"
)

// ---- byte-encoded, hash-identified blocks ----

type c22Blk struct {
	h      uint64
	ts     int64
	parent ids.ID
	items  []c9Item
	bytes  []byte
	id     ids.ID
}

func (b *c22Blk) GetID() ids.ID           { return b.id }
func (b *c22Blk) GetParent() ids.ID       { return b.parent }
func (b *c22Blk) GetTimestamp() int64     { return b.ts }
func (b *c22Blk) GetHeight() uint64       { return b.h }
func (b *c22Blk) GetBytes() []byte        { return b.bytes }
func (b *c22Blk) GetContainers() []c9Item { return b.items }
func (b *c22Blk) Contains(id ids.ID) bool {
	for _, c := range b.items {
		if c.id == id {
			return true
		}
	}
	return false
}
func (b *c22Blk) String() string { return fmt.Sprintf("blk(h=%d,ts=%d,%s)", b.h, b.ts, b.id) }

func c22New(h uint64, ts int64, parent ids.ID, items []c9Item) *c22Blk {
	buf := make([]byte, 0, 50+40*len(items))
	buf = binary.BigEndian.AppendUint64(buf, h)
	buf = binary.BigEndian.AppendUint64(buf, uint64(ts))
	buf = append(buf, parent[:]...)
	buf = binary.BigEndian.AppendUint16(buf, uint16(len(items)))
	for _, it := range items {
		buf = append(buf, it.id[:]...)
		buf = binary.BigEndian.AppendUint64(buf, uint64(it.exp))
	}
	return &c22Blk{h: h, ts: ts, parent: parent, items: items, bytes: buf, id: sha256.Sum256(buf)}
}

type c22Parser struct{}

var errC22Parse = errors.New("malformed block")

func (c22Parser) ParseBlock(_ context.Context, b []byte) (*c22Blk, error) {
	if len(b) < 50 {
		return nil, errC22Parse
	}
	n := int(binary.BigEndian.Uint16(b[48:50]))
	if len(b) != 50+40*n {
		return nil, errC22Parse
	}
	blk := &c22Blk{h: binary.BigEndian.Uint64(b), ts: int64(binary.BigEndian.Uint64(b[8:])), bytes: append([]byte(nil), b...)}
	copy(blk.parent[:], b[16:48])
	for i := 0; i < n; i++ {
		var it c9Item
		copy(it.id[:], b[50+40*i:])
		it.exp = int64(binary.BigEndian.Uint64(b[50+40*i+32:]))
		blk.items = append(blk.items, it)
	}
	blk.id = sha256.Sum256(b)
	return blk, nil
}

// ---- scenario ----

type c22Case struct {
	Seed [2]uint64 `json:"seed"`
	// everything below is derived from Seed; kept in the witness for the reader
	W          int64    `json:"window"`
	TS         []int64  `json:"timestamps"` // true chain, index = height; the sync target is height Target
	Target     int      `json:"target"`
	Local      int      `json:"local_ancestors"` // contiguous ancestors of the target already in the local store
	Faulty     int      `json:"faulty_requests"` // requests answered by PRNG-chosen (mis)behaviour before peers turn correct
	Forward    []int    `json:"forward_at_request,omitempty"`
	Requests   []string `json:"request_log,omitempty"`
	Saved      []uint64 `json:"saved_heights,omitempty"`
	GenesisIn  bool     `json:"genesis_inside_window"`
	MinInitial int64    `json:"min_timestamp_initial"`
}

// c22Run is the live state of one scenario (store, peers, model).
type c22Run struct {
	c     *c22Case
	rng   *rand.Rand
	chain []*c22Blk // true chain 0..len-1 (beyond Target = blocks that arrive from consensus during the sync)

	mu         sync.Mutex
	store      map[ids.ID]*c22Blk
	saved      []*c22Blk
	served     map[ids.ID]bool // forged items ever put on the wire
	forgedIt   []c9Item
	reqs       int
	prevHeight uint64
	havePrev   bool
	minNow     int64
	fwdNext    int
	fwdDone    bool
	latest     *c22Blk
	behaviours map[string]int
	viol       chan [2]string
	syncer     *vw.Syncer[c9Item, *c22Blk]
	handler    *vw.BlockFetcherHandler[*c22Blk]
	oldest     *c22Blk
	cancel     context.CancelFunc
	stopped    bool // set once the scenario has been judged: the peers go silent and the witness is frozen
	inflight   sync.WaitGroup
}

// chain index seen by the TimeValidityWindow
func (s *c22Run) GetExecutionBlock(_ context.Context, id ids.ID) (vw.ExecutionBlock[c9Item], error) {
	s.mu.Lock()
	defer s.mu.Unlock()
	if b, ok := s.store[id]; ok {
		return b, nil
	}
	return nil, database.ErrNotFound
}

// block store written by the Syncer
func (s *c22Run) SaveHistorical(b *c22Blk) error {
	s.mu.Lock()
	defer s.mu.Unlock()
	s.saved = append(s.saved, b)
	s.store[b.id] = b
	return nil
}

// retriever of the serving side (a correct peer holds the whole true chain)
type c22Retriever struct{ chain []*c22Blk }

func (r c22Retriever) GetBlockByHeight(_ context.Context, h uint64) (*c22Blk, error) {
	if h >= uint64(len(r.chain)) {
		return nil, database.ErrNotFound
	}
	return r.chain[h], nil
}

type c22Sampler struct{ s *c22Run }

func (p c22Sampler) Sample(context.Context, int) []ids.NodeID {
	s := p.s
	s.mu.Lock()
	defer s.mu.Unlock()
	if s.reqs < s.c.Faulty && s.rng.IntN(25) == 0 {
		s.behaviours["no-peer-sampled"]++
		return nil
	}
	return []ids.NodeID{{byte(1 + s.rng.IntN(5))}}
}

func (s *c22Run) flag(key, detail string) {
	select {
	case s.viol <- [2]string{key, detail}:
	default:
	}
}

// correct answers come from the real handler (request and response go through their canoto encoding)
func (s *c22Run) correct(ctx context.Context, height uint64, minTS int64) ([][]byte, error) {
	req := &vw.BlockFetchRequest{BlockHeight: height, MinTimestamp: minTS}
	out, appErr := s.handler.AppRequest(ctx, ids.EmptyNodeID, time.Time{}, req.MarshalCanoto())
	if appErr != nil {
		return nil, appErr
	}
	resp := new(vw.BlockFetchResponse)
	if err := resp.UnmarshalCanoto(out); err != nil {
		return nil, err
	}
	return resp.Blocks, nil
}

func (s *c22Run) forge(orig *c22Blk) *c22Blk {
	// parsable, right height, but not the block the ancestry commits to
	it := c9Item{id: c9ID('f', len(s.forgedIt)), exp: orig.ts + 3_600_000}
	s.forgedIt = append(s.forgedIt, it)
	items := append(append([]c9Item(nil), orig.items...), it)
	switch s.rng.IntN(3) {
	case 0:
		return c22New(orig.h, orig.ts, orig.parent, items)
	case 1:
		return c22New(orig.h, orig.ts-1, orig.parent, []c9Item{it})
	default:
		return c22New(orig.h, orig.ts, ids.ID{0xbd}, items)
	}
}

// FetchBlocksFromPeer = the scripted network.
func (s *c22Run) FetchBlocksFromPeer(ctx context.Context, _ ids.NodeID, r *vw.BlockFetchRequest) (*vw.BlockFetchResponse, error) {
	s.mu.Lock()
	if s.stopped {
		s.mu.Unlock()
		return nil, errors.New("scenario over")
	}
	s.inflight.Add(1)
	defer s.inflight.Done()
	n := s.reqs
	s.reqs++
	// requested heights never go up again; after height 0 there is nothing left to ask for
	if s.havePrev && r.BlockHeight > s.prevHeight || r.BlockHeight >= s.oldest.h {
		key, what := "C22/request-height-increased", "a later request asks for a higher block"
		if r.BlockHeight == math.MaxUint64 || len(s.saved) > 0 && s.saved[len(s.saved)-1].h == 0 { // 0 - 1
			key, what = "C22/request-past-genesis", "genesis (inside the validity window) was delivered and the client keeps walking down"
		}
		s.c.Requests = append(s.c.Requests, fmt.Sprintf("#%d height=%d <-- %s", n, r.BlockHeight, what))
		s.mu.Unlock()
		s.flag(key, fmt.Sprintf("request #%d asks for height %d after height %d (%s); saved so far: %d blocks", n, r.BlockHeight, s.prevHeight, what, len(s.saved)))
		return nil, errors.New("no such block")
	}
	s.prevHeight, s.havePrev = r.BlockHeight, true
	bound := s.c.Faulty + int(s.oldest.h) + 2
	if n > bound {
		s.mu.Unlock()
		s.flag("C22/no-progress", fmt.Sprintf("request #%d: correct peers have answered every request since #%d but the backfill of %d blocks is not done", n, s.c.Faulty, s.oldest.h))
		return nil, errors.New("gone")
	}
	// consensus may move the sync target between two requests
	var fwd []*c22Blk
	for s.fwdNext < len(s.c.Forward) && s.c.Forward[s.fwdNext] <= n {
		s.fwdNext++
		if nb := int(s.latest.h) + 1; nb < len(s.chain) {
			fwd = append(fwd, s.chain[nb])
			s.latest = s.chain[nb]
		}
	}
	faulty := n < s.c.Faulty
	mode := "correct"
	if faulty {
		mode = []string{"correct", "partial", "partial", "truncated", "reordered", "forged-first", "forged-later", "unparsable", "empty", "error", "slow", "timeout", "wrong-height", "beyond-minimum", "duplicate"}[s.rng.IntN(15)]
	}
	s.behaviours[mode]++
	pick := s.rng.IntN(1 << 20)
	s.c.Requests = append(s.c.Requests, fmt.Sprintf("#%d height=%d min=%d -> %s", n, r.BlockHeight, r.MinTimestamp, mode))
	s.mu.Unlock()

	for _, nb := range fwd {
		// the model is updated first: UpdateSyncTarget may signal "done" (forward criterion) before it returns
		s.mu.Lock()
		s.store[nb.id] = nb
		s.minNow = max(0, nb.ts-s.c.W)
		if nb.ts-s.oldest.ts > s.c.W {
			s.fwdDone = true
		}
		s.mu.Unlock()
		if err := s.syncer.UpdateSyncTarget(ctx, nb); err != nil {
			s.flag("C22/syncer-error", "UpdateSyncTarget: "+err.Error())
		}
	}
	if len(fwd) > 0 {
		s.mu.Lock()
		over := s.fwdDone
		s.mu.Unlock()
		if over { // consensus filled the window going forward: the syncer has cancelled the backfill
			return nil, errors.New("peer failed")
		}
	}

	blocks, err := s.correct(ctx, r.BlockHeight, r.MinTimestamp)
	switch mode {
	case "correct":
	case "partial":
		if len(blocks) > 1 {
			blocks = blocks[:1+pick%min(len(blocks)-1, 3)]
		}
	case "truncated":
		if len(blocks) > 0 {
			i := pick % len(blocks)
			blocks = append([][]byte(nil), blocks[:i+1]...)
			blocks[i] = blocks[i][:len(blocks[i])-1-pick%7]
		}
	case "reordered":
		if len(blocks) > 1 {
			blocks = append([][]byte(nil), blocks...)
			if pick%2 == 0 {
				for i, j := 0, len(blocks)-1; i < j; i, j = i+1, j-1 {
					blocks[i], blocks[j] = blocks[j], blocks[i]
				}
			} else {
				blocks[0], blocks[len(blocks)-1] = blocks[len(blocks)-1], blocks[0]
			}
		} else if r.BlockHeight > 0 { // a single block: answer with its parent instead
			blocks, err = s.correct(ctx, r.BlockHeight-1, r.MinTimestamp)
		}
	case "forged-first", "forged-later":
		if len(blocks) > 0 {
			i := 0
			if mode == "forged-later" {
				i = pick % len(blocks)
			}
			blocks = append([][]byte(nil), blocks...)
			s.mu.Lock()
			if r.BlockHeight-uint64(i) < uint64(len(s.chain)) {
				blocks[i] = s.forge(s.chain[r.BlockHeight-uint64(i)]).bytes
			}
			s.mu.Unlock()
		}
	case "unparsable":
		junk := make([]byte, 1+pick%90)
		for i := range junk {
			junk[i] = byte(pick >> (i % 16))
		}
		blocks, err = [][]byte{junk}, nil
	case "empty":
		blocks, err = nil, nil
	case "error":
		return nil, errors.New("peer failed")
	case "slow":
		time.Sleep(time.Duration(5+pick%60) * time.Millisecond)
	case "timeout":
		<-ctx.Done()
		return nil, ctx.Err()
	case "wrong-height":
		d := uint64(1 + pick%3)
		if pick%2 == 0 && r.BlockHeight >= d {
			blocks, err = s.correct(ctx, r.BlockHeight-d, r.MinTimestamp)
		} else {
			blocks, err = s.correct(ctx, r.BlockHeight+d, r.MinTimestamp)
		}
	case "beyond-minimum": // a peer that ignores the requested minimum and serves the whole history
		blocks, err = s.correct(ctx, r.BlockHeight, math.MinInt64)
		if r.BlockHeight > 0 && len(blocks) > 0 && pick%2 == 0 { // ... including genesis
			if g, gerr := s.correct(ctx, 0, math.MinInt64); gerr == nil && uint64(len(blocks)) == r.BlockHeight {
				blocks = append(append([][]byte(nil), blocks...), g...)
			}
		}
	case "duplicate":
		if len(blocks) > 0 {
			blocks = append([][]byte{blocks[0]}, blocks...)
		}
	}
	if err != nil {
		return nil, err
	}
	return &vw.BlockFetchResponse{Blocks: blocks}, nil
}

func c22Gen(seed [2]uint64) (*c22Case, *rand.Rand) {
	rng := rand.New(rand.NewPCG(seed[0], seed[1]))
	c := &c22Case{Seed: seed}
	c.W = []int64{1000, 5000, 60000}[rng.IntN(3)]
	c.Target = 2 + rng.IntN(24)
	nfwd := rng.IntN(4)
	if rng.IntN(2) == 0 {
		nfwd = 0
	}
	n := c.Target + 1 + nfwd
	base := int64(rng.IntN(3)) * c.W * int64(rng.IntN(4)) // small bases: the minimum clamps at 0
	if rng.IntN(3) == 0 {
		base = 1_700_000_000_000
	}
	// timestamp steps relative to the window so that the window covers 1..all blocks
	scale := []int64{c.W / 20, c.W / 5, c.W / 2, c.W * 2}[rng.IntN(4)]
	ts := base
	for i := 0; i < n; i++ {
		if i > 0 {
			switch rng.IntN(6) {
			case 0: // equal timestamps
			case 1:
				ts++
			default:
				ts += rng.Int64N(scale + 1)
			}
		}
		c.TS = append(c.TS, ts)
	}
	c.Local = 0
	if rng.IntN(3) == 0 {
		c.Local = rng.IntN(c.Target)
	}
	c.Faulty = rng.IntN(7)
	for i := 0; i < nfwd; i++ {
		c.Forward = append(c.Forward, rng.IntN(c.Faulty+3))
	}
	sortInts(c.Forward)
	c.MinInitial = max(0, c.TS[c.Target]-c.W)
	c.GenesisIn = c.TS[0] >= c.MinInitial
	return c, rng
}

type c22Stats struct {
	mu                                                                sync.Mutex
	scenarios, genesisIn, immediate, requests, saved, probes, tracked int
	forgedProbes, fwdTargets, fwdDone, endAtGenesis, endPastWindow    int
	behaviours                                                        map[string]int
}

// runC22 runs one scenario to completion (logical rounds; the watchdog only yields "inconclusive").
func runC22(c *c22Case, rng *rand.Rand, st *c22Stats) (key, detail string) {
	s := &c22Run{c: c, rng: rng, store: map[ids.ID]*c22Blk{}, served: map[ids.ID]bool{}, behaviours: map[string]int{}, viol: make(chan [2]string, 4)}
	// true chain with a few containers per block (expiries far in the future: nothing expires during the scenario)
	parent := ids.Empty
	itemN := 0
	far := c.TS[len(c.TS)-1] + 3_600_000
	for h, ts := range c.TS {
		var items []c9Item
		for k := rng.IntN(4); k > 0 && h > 0; k-- {
			items = append(items, c9Item{id: c9ID('t', itemN), exp: far})
			itemN++
		}
		b := c22New(uint64(h), ts, parent, items)
		s.chain = append(s.chain, b)
		parent = b.id
	}
	target := s.chain[c.Target]
	s.latest = target
	s.minNow = c.MinInitial
	for h := c.Target - c.Local; h <= c.Target; h++ {
		s.store[s.chain[h].id] = s.chain[h]
	}
	s.handler = vw.NewBlockFetcherHandler[*c22Blk](c22Retriever{chain: s.chain})
	getW := func(int64) int64 { return c.W }
	ctx, cancel := context.WithCancel(context.Background())
	defer cancel()
	s.cancel = cancel

	// the window starts empty at the target (as the VM does before state sync); the syncer populates it
	win, err := vw.NewTimeValidityWindow[c9Item](ctx, logging.NoLog{}, trace.Noop, s, target, getW)
	if err != nil {
		return "C22/syncer-error", "NewTimeValidityWindow: " + err.Error()
	}
	// model of what the local store covers
	oldest := target
	for oldest.h > 0 {
		p, ok := s.store[oldest.parent]
		if !ok {
			break
		}
		if oldest = p; oldest.ts < c.MinInitial {
			break
		}
	}
	s.oldest = oldest
	localComplete := oldest.h == 0 || oldest.ts < c.MinInitial

	client := vw.NewBlockFetcherClient[*c22Blk](s, c22Parser{}, c22Sampler{s})
	s.syncer = vw.NewSyncer[c9Item, *c22Blk](s, win, client, getW)
	if err := s.syncer.Start(ctx, target); err != nil {
		return "C22/syncer-error", "Start: " + err.Error()
	}
	done := kit.Go(func() { _ = s.syncer.Wait(ctx) })
	watchdog := time.NewTimer(4 * time.Minute)
	defer watchdog.Stop()
	select {
	case v := <-s.viol:
		cancel()
		s.snapshot(st)
		return v[0], v[1]
	case <-watchdog.C:
		cancel()
		s.snapshot(st)
		return "inconclusive", fmt.Sprintf("watchdog: syncer neither finished nor broke a logical bound after %d requests", len(c.Requests))
	case <-done:
	}
	select { // a bound may have been hit in the very last round
	case v := <-s.viol:
		s.snapshot(st)
		return v[0], v[1]
	default:
	}
	cancel()
	s.snapshot(st)
	s.inflight.Wait() // a request that was being answered when "done" was signalled (forward criterion) has finished

	s.mu.Lock()
	saved := append([]*c22Blk(nil), s.saved...)
	minFinal, fwdDone, latest := s.minNow, s.fwdDone, s.latest
	forged := append([]c9Item(nil), s.forgedIt...)
	s.mu.Unlock()

	// (1) what was recorded is exactly the hash-linked ancestry, in order, never past the minimum
	for i, b := range saved {
		wantH := int(oldest.h) - 1 - i
		if wantH < 0 || b.id != s.chain[wantH].id {
			return "C22/saved-block-not-the-ancestor", fmt.Sprintf("saved block %d is %s; the ancestry requires the true block of height %d", i, b, wantH)
		}
		if i < len(saved)-1 && (b.ts < c.MinInitial || b.h == 0) {
			return "C22/saved-beyond-window", fmt.Sprintf("block %s was already older than the minimum timestamp %d (or genesis) but %d more block(s) were recorded after it", b, c.MinInitial, len(saved)-1-i)
		}
	}
	if localComplete && len(saved) > 0 {
		return "C22/saved-beyond-window", fmt.Sprintf("the local blocks already covered the window (oldest %s, minimum %d) but %d blocks were fetched", oldest, c.MinInitial, len(saved))
	}
	// (2) done means: the window is covered back past the minimum or to genesis (or consensus filled it going forward)
	last := oldest
	if len(saved) > 0 {
		last = saved[len(saved)-1]
	}
	if !fwdDone && !(last.h == 0 || last.ts < minFinal) {
		return "C22/done-before-window-covered", fmt.Sprintf("syncer reported done but the oldest known ancestor is %s, not older than the minimum timestamp %d and not genesis", last, minFinal)
	}
	// (3) tracked transactions = those of the target, the local/forward blocks and the recorded ancestors; nothing else
	want := map[ids.ID]bool{}
	for h := int(last.h); h <= int(latest.h); h++ {
		for _, it := range s.chain[h].items {
			want[it.id] = true
		}
	}
	var probe []c9Item
	for _, b := range s.chain {
		probe = append(probe, b.items...)
	}
	nTrue := len(probe)
	probe = append(probe, forged...)
	bits, err := win.IsRepeat(context.Background(), latest, latest.ts, probe)
	if err != nil {
		return "C22/syncer-error", "IsRepeat probe: " + err.Error()
	}
	ntracked := 0
	if fwdDone {
		// the backfill was cancelled while blocks may still be in flight to the window: only judge what
		// holds at every instant (nothing forged, everything local/forward present)
		want = map[ids.ID]bool{}
		for h := int(oldest.h); h <= int(latest.h); h++ {
			for _, it := range s.chain[h].items {
				want[it.id] = true
			}
		}
	}
	for i, it := range probe {
		got := bits.Contains(i)
		if got {
			ntracked++
		}
		switch {
		case i >= nTrue && got:
			return "C22/forged-transaction-tracked", fmt.Sprintf("container %s only ever appeared in a forged block but is tracked", it.id)
		case got && !want[it.id] && !fwdDone:
			return "C22/untracked-block-transaction-tracked", fmt.Sprintf("container %s belongs to a block that was never part of the recorded ancestry (heights %d..%d) but is tracked", it.id, last.h, latest.h)
		case !got && want[it.id]:
			return "C22/ancestor-transaction-not-tracked", fmt.Sprintf("container %s of a block in heights %d..%d is not tracked after the backfill completed", it.id, last.h, latest.h)
		}
	}
	st.mu.Lock()
	st.probes += len(probe)
	st.forgedProbes += len(forged)
	st.tracked += ntracked
	if fwdDone {
		st.fwdDone++
	}
	if len(saved) == 0 && localComplete {
		st.immediate++
	}
	if last.h == 0 {
		st.endAtGenesis++
	} else {
		st.endPastWindow++
	}
	st.mu.Unlock()
	return "", ""
}

func (s *c22Run) snapshot(st *c22Stats) {
	s.mu.Lock()
	defer s.mu.Unlock()
	s.stopped = true
	s.c.Saved = s.c.Saved[:0]
	for _, b := range s.saved {
		s.c.Saved = append(s.c.Saved, b.h)
	}
	st.mu.Lock()
	st.requests += s.reqs
	st.saved += len(s.saved)
	st.fwdTargets += s.fwdNext
	for k, v := range s.behaviours {
		st.behaviours[k] += v
	}
	st.mu.Unlock()
}

func (c *c22Case) shape() string {
	var b strings.Builder
	fmt.Fprintf(&b, "w%d t%d l%d f%d g%v:", c.W, c.Target, c.Local, c.Faulty, c.GenesisIn)
	for _, r := range c.Requests {
		if i := strings.LastIndex(r, "-> "); i >= 0 {
			b.WriteString(r[i+3:])
			b.WriteByte(',')
		}
	}
	fmt.Fprintf(&b, "|%v", c.Saved)
	return b.String()
}

func TestC22(t *testing.T) {
	r := kit.Start(t, "C22", "fault_enumeration")
	r.Rule("scenario = true chain of 3..26 hash-identified, byte-encoded blocks (timestamp steps 0, 1, up to 2 windows; bases near 0 and realistic; windows 1/5/60 s, so genesis lies inside or outside the window), sync target with 0..target-1 ancestors already local, real Syncer + BlockFetcherClient; every request is answered by a scripted peer whose behaviour the PRNG picks for the first 0..6 requests (correct, partial, truncated bytes, reordered, forged-but-parsable first/later block, unparsable, empty, error, slow, timeout, wrong height, ignoring the minimum incl. genesis, duplicated block, no peer sampled) and by the real BlockFetcherHandler afterwards; consensus moves the sync target (UpdateSyncTarget) between chosen requests. Oracle: blocks given to SaveHistorical are exactly the true ancestors below the oldest local block, in order, none after a block older than the minimum (or genesis); done implies the oldest known ancestor is older than the current minimum or is genesis (or the forward criterion holds); IsRepeat probes of every container of the true chain and of every forged block equal the model set; requested heights never increase and never pass genesis; with correct peers the backfill is done within (blocks to fetch + 2) requests. All bounds are logical request counts. Non-trivial = at least one request was made; distinct = distinct (parameters, behaviour sequence, saved heights).")
	r.Assume("containers expire far in the future, so the tracked set is exactly the union of the blocks handed to the window",
		"the forward criterion of Syncer.accept (new target more than one window newer than the oldest local block) is accepted as completing the window, as the code documents",
		"a 4 minute watchdog per scenario only ever yields inconclusive")
	st := &c22Stats{behaviours: map[string]int{}}

	judge := func(seed [2]uint64) {
		c, rng := c22Gen(seed)
		r.Eval()
		var k, d string
		r.Guard("syncer", c, func() { k, d = runC22(c, rng, st) })
		switch {
		case k == "inconclusive":
			r.Inconclusive("%s [seed %v]", d, seed)
		case d != "":
			r.Violation(k, c, "%s  [window %d, target height %d, %d local ancestors, genesis inside window=%v, timestamps %v]", d, c.W, c.Target, c.Local, c.GenesisIn, c.TS)
		}
		if len(c.Requests) > 0 {
			r.Distinct(c.shape())
			if c.Faulty > 2 {
				r.Sample(c)
			}
		}
		st.mu.Lock()
		st.scenarios++
		if c.GenesisIn {
			st.genesisIn++
		}
		st.mu.Unlock()
	}
	if rf := r.Replay(); rf != nil && len(rf.Witness) > 0 {
		var c c22Case
		if err := json.Unmarshal(rf.Witness, &c); err == nil && c.Seed != [2]uint64{} {
			judge(c.Seed)
			r.Finish(0)
			return
		}
	}

	n := r.N(2000, 80000)
	conc := r.N(350, 500)
	srng := r.Rand("scenarios")
	seeds := make(chan [2]uint64)
	var wg sync.WaitGroup
	for w := 0; w < conc; w++ {
		wg.Add(1)
		go func() {
			defer wg.Done()
			for sd := range seeds {
				judge(sd)
			}
		}()
	}
	for i := 0; i < n; i++ {
		seeds <- [2]uint64{srng.Uint64() | 1, srng.Uint64()}
	}
	close(seeds)
	wg.Wait()

	r.Count("scenarios", st.scenarios)
	r.Count("scenarios_genesis_inside_window", st.genesisIn)
	r.Count("scenarios_done_from_local_blocks_only", st.immediate)
	r.Count("scenarios_completed_by_forward_criterion", st.fwdDone)
	r.Count("backfills_ending_at_genesis", st.endAtGenesis)
	r.Count("backfills_ending_past_the_window", st.endPastWindow)
	r.Count("requests_served", st.requests)
	r.Count("blocks_saved_historical", st.saved)
	r.Count("sync_target_updates", st.fwdTargets)
	r.Count("isrepeat_probes", st.probes)
	r.Count("isrepeat_probes_of_forged_containers", st.forgedProbes)
	r.Count("containers_found_tracked", st.tracked)
	for k, v := range st.behaviours {
		r.Count("peer_"+k, v)
	}
	r.Finish(r.N(800, 20000))
}
