#!/usr/bin/env python3
"""Count distinct Go race-detector reports relevant to a property.

usage: racefilter.py <race log> <comma separated path fragments>
A report is relevant when any of its stack frames' file paths contains one of
the fragments.  Reports are de-duplicated by the pair of innermost frames of
the two conflicting accesses (function names, line numbers stripped).
Prints the number of distinct relevant reports.
"""
import re, sys
log = open(sys.argv[1], errors='replace').read()
frags = [f for f in sys.argv[2].split(',') if f] if len(sys.argv) > 2 else []
blocks = re.split(r'^=+\s*$', log, flags=re.M)
seen = set()
for b in blocks:
    if 'WARNING: DATA RACE' not in b:
        continue
    files = re.findall(r'^\s+(/\S+\.go):\d+', b, flags=re.M)
    if frags and not any(any(fr in f for fr in frags) for f in files):
        continue
    # first function of each access section
    secs = re.split(r'\n\n', b)
    key = []
    for s in secs[:2]:
        m = re.search(r'^\s{2}(\S+)\(', s, flags=re.M)
        key.append(m.group(1) if m else '?')
    seen.add(tuple(sorted(key)))
print(len(seen))
