package vmx

// C30: the read-only action APIs (JSON-RPC ExecuteActions / SimulateActions)
// agree with on-chain execution.
//
// Differential monitor. For every generated (actor, action list) the real
// JSON-RPC server methods are called in-process on the committed state S, then
// the same actions are signed into a transaction that is submitted, built into
// a block and accepted on the same VM (state S, zero unit prices => fee 0), and
// the replies are compared with the transaction's chain.Result.
//   phase 1: morpheusvm, Transfer lists (self transfers, zero amounts, amounts
//            above the balance, whole-balance transfers, fresh recipients);
//            the union of the simulated key sets is used as the scope of a
//            tstate view over S on which the actions are run again.
//   phase 2: hypersdk test VM (chaintest.TestAction): the key sets reported by
//            SimulateActions are *declared* (SpecifiedStateKeys) in the actions
//            of a real transaction; written values include empty / one zero
//            byte / maximal size.
//   phase 3: test VM + chainfx.ProgAction (get/put/delete, reads encoded in the
//            output) on a state with empty-valued, nil-valued, zero-byte,
//            maximal and absent keys: see c30_kv_test.go.

import (
	"bytes"
	"context"
	"encoding/binary"
	"fmt"
	"math"
	"net/http"
	"os"
	"strings"
	"testing"
	"time"

	"github.com/ava-labs/avalanchego/ids"

	"github.com/ava-labs/hypersdk/api/jsonrpc"
	"github.com/ava-labs/hypersdk/auth"
	"github.com/ava-labs/hypersdk/chain"
	"github.com/ava-labs/hypersdk/chain/chaintest"
	"github.com/ava-labs/hypersdk/codec"
	"github.com/ava-labs/hypersdk/examples/morpheusvm/actions"
	"github.com/ava-labs/hypersdk/examples/morpheusvm/storage"
	"github.com/ava-labs/hypersdk/fees"
	"github.com/ava-labs/hypersdk/genesis"
	"github.com/ava-labs/hypersdk/keys"
	"github.com/ava-labs/hypersdk/state"
	"github.com/ava-labs/hypersdk/state/tstate"
	"github.com/ava-labs/hypersdk/vm"
	"github.com/ava-labs/hypersdk/zzverif/kit"

	mvm "github.com/ava-labs/hypersdk/examples/morpheusvm/vm"
)

type c30Env struct {
	nd  *node
	srv *jsonrpc.JSONRPCServer
	ctx context.Context
	// wire: the signed transaction is serialised and parsed again with the VM's
	// parser before it is submitted (what a node does with a gossiped/issued
	// transaction): the executed actions are the parser's objects, exactly like
	// the actions the APIs execute (e.g. zero-length byte fields come back from
	// the codec, nil or empty as the codec decides)
	wire bool
}

func newC30Env(t *testing.T, f *vm.Factory, allocs []*genesis.CustomAllocation, extra ...vm.Option) (*c30Env, func(), error) {
	rules := genesis.NewDefaultRules()
	rules.MinBlockGap = 0
	rules.MinEmptyBlockGap = 0
	rules.MinUnitPrice = fees.Dimensions{0, 0, 0, 0, 0} // fee 0: the transaction runs on exactly the state the APIs read
	// prices only rise when a window consumes more than the target: never
	rules.WindowTargetUnits = fees.Dimensions{math.MaxUint64, math.MaxUint64, math.MaxUint64, math.MaxUint64, math.MaxUint64}
	rules.MaxBlockUnits = fees.Dimensions{1_800_000, math.MaxUint64, math.MaxUint64, math.MaxUint64, math.MaxUint64}
	gb, err := testGenesis(rules, allocs)
	if err != nil {
		return nil, nil, err
	}
	dir, err := os.MkdirTemp("", "verif-c30-*")
	if err != nil {
		return nil, nil, err
	}
	nd, initErr, initPanic := startNode(t, f, dir, gb, []byte(`{"chain":{"targetBuildDuration":60000000000}}`), extra...)
	if initErr != nil || initPanic != "" {
		os.RemoveAll(dir)
		return nil, nil, fmt.Errorf("initialize: %v %s", initErr, initPanic)
	}
	ctx := context.Background()
	if err := nd.normalOp(ctx); err != nil {
		os.RemoveAll(dir)
		return nil, nil, err
	}
	e := &c30Env{nd: nd, srv: jsonrpc.NewJSONRPCServer(nd.hvm), ctx: ctx}
	return e, func() { _ = nd.shutdown(ctx); os.RemoveAll(dir) }, nil
}

func (e *c30Env) req() *http.Request { return (&http.Request{}).WithContext(e.ctx) }

type c30Chain struct {
	Result *chain.Result
	Why    string // why there is no on-chain counterpart
}

// onChain executes the actions inside a transaction signed by f on the current
// state: submit, build, verify, accept (synchronously), return the tx result.
func (e *c30Env) onChain(f chain.AuthFactory, acts []chain.Action) (c30Chain, error) {
	tx, err := chain.GenerateTransaction(e.nd.hvm.GetRuleFactory(), fees.Dimensions{}, time.Now().UnixMilli(), acts, f)
	if err != nil {
		return c30Chain{Why: "generate: " + err.Error()}, nil
	}
	if e.wire {
		ptx, err := chain.UnmarshalTx(tx.Bytes(), e.nd.hvm.GetParser())
		if err != nil {
			return c30Chain{}, fmt.Errorf("re-parse of the signed transaction: %w", err)
		}
		if ptx.GetID() != tx.GetID() {
			return c30Chain{}, fmt.Errorf("re-parsed transaction has id %s, the signed one %s", ptx.GetID(), tx.GetID())
		}
		tx = ptx
	}
	if err := e.nd.hvm.Submit(e.ctx, []*chain.Transaction{tx})[0]; err != nil {
		return c30Chain{Why: "submit: " + err.Error()}, nil
	}
	blk, err := e.nd.snowVM.BuildBlock(e.ctx)
	if err != nil {
		return c30Chain{}, fmt.Errorf("build: %w", err)
	}
	if err := blk.Verify(e.ctx); err != nil {
		return c30Chain{}, fmt.Errorf("verify: %w", err)
	}
	if err := e.nd.snowVM.SetPreference(e.ctx, blk.ID()); err != nil {
		return c30Chain{}, err
	}
	awaitMempoolIdle()
	if err := blk.SyncAccept(e.ctx); err != nil {
		return c30Chain{}, fmt.Errorf("accept: %w", err)
	}
	for i, btx := range blk.Input.StatelessBlock.Txs {
		if btx.GetID() == tx.GetID() {
			return c30Chain{Result: blk.Output.ExecutionResults.Results[i]}, nil
		}
	}
	return c30Chain{Why: "transaction not included by the builder (its execution returned an error, e.g. fee deduction from an empty account)"}, nil
}

type c30API struct {
	ExecErr  string   `json:"execute_rpc_error,omitempty"`
	ExecOut  []string `json:"execute_outputs"`
	ExecFail string   `json:"execute_error,omitempty"`
	SimErr   string   `json:"simulate_rpc_error,omitempty"`
	SimOut   []string `json:"simulate_outputs"`
	SimKeys  []string `json:"simulate_keys,omitempty"`

	execOut [][]byte
	simOut  [][]byte
	simKeys []state.Keys
}

func (e *c30Env) callAPIs(actor codec.Address, acts []chain.Action) *c30API {
	a := &c30API{}
	raw := make([][]byte, len(acts))
	rawC := make([]codec.Bytes, len(acts))
	for i, act := range acts {
		raw[i] = act.Bytes()
		rawC[i] = act.Bytes()
	}
	var er jsonrpc.ExecuteActionReply
	if err := e.srv.ExecuteActions(e.req(), &jsonrpc.ExecuteActionArgs{Actor: actor, Actions: raw}, &er); err != nil {
		a.ExecErr = err.Error()
	}
	a.execOut, a.ExecFail = er.Outputs, er.Error
	for _, o := range er.Outputs {
		a.ExecOut = append(a.ExecOut, kit.Hex(o))
	}
	var sr jsonrpc.SimulateActionsReply
	if err := e.srv.SimulateActions(e.req(), &jsonrpc.SimulatActionsArgs{Actor: actor, Actions: rawC}, &sr); err != nil {
		a.SimErr = err.Error()
	} else {
		for _, ar := range sr.ActionResults {
			a.simOut = append(a.simOut, ar.Output)
			a.simKeys = append(a.simKeys, ar.StateKeys)
			a.SimOut = append(a.SimOut, kit.Hex(ar.Output))
			ks := []string{}
			for k, p := range ar.StateKeys {
				ks = append(ks, fmt.Sprintf("%x:%s", k, p))
			}
			a.SimKeys = append(a.SimKeys, strings.Join(ks, ","))
		}
	}
	return a
}

func outsEqual(a, b [][]byte) bool {
	if len(a) != len(b) {
		return false
	}
	for i := range a {
		if !bytes.Equal(a[i], b[i]) {
			return false
		}
	}
	return true
}

func hexAll(o [][]byte) []string {
	out := make([]string, len(o))
	for i := range o {
		out[i] = kit.Hex(o[i])
	}
	return out
}

// judge compares the API replies with the on-chain result. Returns false when a
// violation was recorded.
func c30Judge(r *kit.Run, w map[string]any, api *c30API, res *chain.Result) bool {
	return c30JudgeOpt(r, w, api, res, c30JudgeOpts{})
}

type c30JudgeOpts struct {
	// SimulateActions ignores the declared keys (its scope records every access);
	// when the generator under-declared on purpose, a failing transaction says
	// nothing about the simulation
	skipSimOnChainFailure bool
	// appended to the violation keys of ExecuteActions (classifies the input, e.g.
	// "/nil-valued-key": the list declares a key that is stored with a nil value)
	execKeySuffix string
}

func c30JudgeOpt(r *kit.Run, w map[string]any, api *c30API, res *chain.Result, o c30JudgeOpts) bool {
	w["chain_success"] = res.Success
	w["chain_error"] = string(res.Error)
	w["chain_outputs"] = hexAll(res.Outputs)
	w["api"] = api
	ok := true
	viol := func(key, format string, args ...any) {
		ok = false
		r.Violation(key, w, format, args...)
	}
	// ExecuteActions
	sfx := o.execKeySuffix
	switch {
	case api.ExecErr != "":
		viol("C30/execute-rpc-error"+sfx, "ExecuteActions returned an RPC error (%s) for actions the chain executed (success=%v)", api.ExecErr, res.Success)
	case res.Success && api.ExecFail != "":
		viol("C30/execute-fails-chain-succeeds"+sfx, "ExecuteActions failed at action %d (%s) but the same actions succeed in a transaction", len(api.execOut), api.ExecFail)
	case !res.Success && api.ExecFail == "":
		viol("C30/execute-succeeds-chain-fails"+sfx, "ExecuteActions succeeded but the transaction failed at action %d (%s)", len(res.Outputs), res.Error)
	case len(api.execOut) != len(res.Outputs):
		viol("C30/execute-failure-position-differs"+sfx, "ExecuteActions returned %d outputs (first failure at %d), the transaction %d", len(api.execOut), len(api.execOut), len(res.Outputs))
	case !outsEqual(api.execOut, res.Outputs):
		viol("C30/execute-outputs-differ"+sfx, "ExecuteActions outputs %v differ from the transaction's %v", hexAll(api.execOut), hexAll(res.Outputs))
	}
	// SimulateActions
	switch {
	case res.Success && api.SimErr != "":
		viol("C30/simulate-fails-chain-succeeds", "SimulateActions failed (%s) but the same actions succeed in a transaction", api.SimErr)
	case !res.Success && o.skipSimOnChainFailure:
	case !res.Success && api.SimErr == "":
		viol("C30/simulate-succeeds-chain-fails", "SimulateActions succeeded but the transaction failed at action %d (%s)", len(res.Outputs), res.Error)
	case res.Success && !outsEqual(api.simOut, res.Outputs):
		viol("C30/simulate-outputs-differ", "SimulateActions outputs %v differ from the transaction's %v", hexAll(api.simOut), hexAll(res.Outputs))
	}
	return ok
}

// ---------------- phase 1: morpheusvm transfers ----------------

type c30Transfer struct {
	To    string `json:"to"`    // pool index or "fresh:<hex>"
	Value uint64 `json:"value"` //
	Memo  string `json:"memo"`
	Class string `json:"class"`
}

func c30Phase1(t *testing.T, r *kit.Run, cases int) {
	const nActors = 7 // 0..4 have keys and funds, 5..6 have keys but empty accounts
	factories := make([]chain.AuthFactory, nActors)
	addrs := make([]codec.Address, nActors)
	for i := range factories {
		f := auth.NewED25519Factory(keyFromSeed("c30", i))
		factories[i], addrs[i] = f, f.Address()
	}
	allocs := []*genesis.CustomAllocation{
		{Address: addrs[0], Balance: 1 << 63},
		{Address: addrs[1], Balance: 1<<63 - 100_000},
		{Address: addrs[2], Balance: 50_000},
		{Address: addrs[3], Balance: 7},
		{Address: addrs[4], Balance: 1},
	}
	env, done, err := newC30Env(t, mvm.NewFactory(), allocs, vm.WithManual())
	if err != nil {
		r.Inconclusive("phase 1 set-up: %v", err)
		return
	}
	defer done()
	rng := r.Rand("transfers")
	inPool := map[codec.Address]bool{}
	for _, a := range addrs {
		inPool[a] = true
	}
	balance := func(a codec.Address) uint64 {
		vals, errs := env.nd.hvm.ReadState(env.ctx, [][]byte{storage.BalanceKey(a)})
		if errs[0] != nil || len(vals[0]) != 8 {
			return 0
		}
		return binary.BigEndian.Uint64(vals[0])
	}
	for c := 0; c < cases; c++ {
		// mostly an actor that currently owns funds (only those can transact),
		// sometimes any of the seven (empty accounts included)
		ai := rng.IntN(nActors)
		if rng.IntN(100) >= 6 {
			var funded []int
			for i, a := range addrs {
				if balance(a) > 0 {
					funded = append(funded, i)
				}
			}
			if len(funded) > 0 {
				ai = funded[rng.IntN(len(funded))]
			}
		}
		actor := addrs[ai]
		bal := balance(actor)
		n := 1 + rng.IntN(4)
		switch x := rng.IntN(100); {
		case x < 15:
			n = 16
		case x < 45:
			n = 5 + rng.IntN(12)
		}
		// budget mode: keep the whole list affordable, or let it run dry in the middle
		overdraw := rng.IntN(100) < 35
		remaining := bal
		var acts []chain.Action
		var desc []c30Transfer
		var shape strings.Builder
		fmt.Fprintf(&shape, "a%d:", ai)
		touched := map[string]int{}
		for i := 0; i < n; i++ {
			var to codec.Address
			toName := ""
			switch x := rng.IntN(100); {
			case x < 12:
				to, toName = actor, "self"
			case x < 75:
				j := rng.IntN(nActors)
				to, toName = addrs[j], fmt.Sprintf("p%d", j)
			case x < 85 && i > 0:
				prev := acts[rng.IntN(len(acts))].(*actions.Transfer)
				to, toName = prev.To, "again"
			default:
				var raw [codec.AddressLen]byte
				for k := range raw {
					raw[k] = byte(rng.IntN(256))
				}
				to, toName = codec.Address(raw), "fresh"
			}
			var v uint64
			class := ""
			switch x := rng.IntN(100); {
			case x < 4:
				v, class = 0, "zero"
			case x < 10:
				v, class = math.MaxUint64-uint64(rng.IntN(3)), "max"
			case x < 16:
				v, class = remaining+1, "rem+1"
			case x < 26:
				v, class = remaining, "all"
			case x < 50:
				v, class = 1+uint64(rng.IntN(3)), "tiny"
			case x < 75 && remaining > 1:
				v, class = 1+rng.Uint64N(remaining/uint64(n-i)+1), "share"
			default:
				if remaining > 0 {
					v, class = 1+rng.Uint64N(remaining), "part"
				} else {
					v, class = 1, "tiny"
				}
			}
			if !overdraw && class != "zero" && v > remaining && rng.IntN(10) > 0 {
				if remaining == 0 {
					break
				}
				v, class = 1+rng.Uint64N(remaining), "part"
			}
			// funds sent to a fresh address leave the pool of actors for good:
			// keep such transfers small so that the pool stays funded over a long run
			if !inPool[to] && v <= remaining && v > 1000 {
				v, class = 1+rng.Uint64N(1000), "small"
			}
			memo := []byte(fmt.Sprintf("c30/%d/%d/%d", r.Seed(), c, i))
			if rng.IntN(20) == 0 {
				memo = append(memo, bytes.Repeat([]byte{'m'}, rng.IntN(actions.MaxMemoSize-len(memo)+1))...)
			}
			acts = append(acts, &actions.Transfer{To: to, Value: v, Memo: memo})
			desc = append(desc, c30Transfer{To: toName, Value: v, Memo: string(memo[:min(len(memo), 24)]), Class: class})
			fmt.Fprintf(&shape, "%s/%s,", toName, class)
			touched[string(to[:])]++
			if v <= remaining && to != actor {
				remaining -= v
			}
		}
		if len(acts) == 0 {
			continue
		}
		w := map[string]any{"phase": 1, "case": c, "actor": ai, "actor_balance": bal, "transfers": desc}
		var api *c30API
		r.Guard("jsonrpc-apis", w, func() { api = env.callAPIs(actor, acts) })
		if api == nil {
			continue
		}
		// scope replay on the same state S with the union of the simulated keys
		var scopeOut [][]byte
		scopeErr := ""
		scopeAt := -1
		if api.SimErr == "" {
			union := state.Keys{}
			for _, ks := range api.simKeys {
				for k, p := range ks {
					union[k] |= p
				}
			}
			im, err := env.nd.hvm.ImmutableState(env.ctx)
			if err != nil {
				r.Inconclusive("ImmutableState: %v", err)
				return
			}
			now := time.Now().UnixMilli()
			rules := env.nd.hvm.GetRuleFactory().GetRules(now)
			tsv := tstate.New(0).NewView(union, im, len(union))
			r.Guard("scope-replay", w, func() {
				for i, a := range acts {
					out, err := a.Execute(env.ctx, rules, tsv, now, actor, chain.CreateActionID(ids.Empty, uint8(i)))
					if err != nil {
						scopeErr, scopeAt = err.Error(), i
						return
					}
					scopeOut = append(scopeOut, out)
				}
			})
		}
		var oc c30Chain
		if balance(actor) == 0 {
			// no balance record: even a zero fee cannot be deducted, the transaction
			// is invalid (and makes BuildBlock fail), so it cannot exist on chain
			oc.Why = "actor has no balance record"
		} else if oc, err = env.onChain(factories[ai], acts); err != nil {
			r.Inconclusive("phase 1 case %d: chain harness error: %v", c, err)
			return
		}
		r.Eval()
		if oc.Result == nil {
			r.Count("p1_no_onchain_counterpart", 1)
			w["why"] = oc.Why
			// A transaction that cannot exist on chain has no outputs to compare.
			continue
		}
		res := oc.Result
		if res.Fee != 0 {
			r.Inconclusive("phase 1 case %d: fee %d is not zero, the 'same state' premise is void", c, res.Fee)
			return
		}
		r.Count("p1_onchain_txs", 1)
		if res.Success {
			r.Count("p1_chain_success", 1)
		} else {
			r.Count("p1_chain_failed_at_action>0", btoi(len(res.Outputs) > 0))
			r.Count("p1_chain_failed_at_action0", btoi(len(res.Outputs) == 0))
		}
		ok := c30Judge(r, w, api, res)
		if res.Success && api.SimErr == "" {
			w["scope_outputs"] = hexAll(scopeOut)
			switch {
			case scopeErr != "":
				ok = false
				r.Violation("C30/simulated-keys-insufficient", w, "with the union of the simulated keys as scope, action %d fails (%s) although the transaction succeeds", scopeAt, scopeErr)
			case !outsEqual(scopeOut, res.Outputs):
				ok = false
				r.Violation("C30/simulated-keys-outputs-differ", w, "under the simulated scope the outputs %v differ from the transaction's %v", hexAll(scopeOut), hexAll(res.Outputs))
			default:
				r.Count("p1_scope_replays_ok", 1)
			}
		}
		dep := false
		for _, k := range touched {
			if k > 1 {
				dep = true
			}
		}
		if len(acts) >= 2 {
			if dep || touched[string(actor[:])] > 0 {
				r.Count("p1_lists_with_dependent_actions", 1)
			}
			r.Distinct("p1", shape.String(), res.Success, len(res.Outputs))
		}
		if ok && c%97 == 0 {
			r.Sample(w)
		}
	}
}

func btoi(b bool) int {
	if b {
		return 1
	}
	return 0
}

// ---------------- phase 2: test actions with declared (simulated) keys ----------------

type c30TA struct {
	Reads  []int    `json:"reads"`
	Writes []int    `json:"writes"`
	Vals   []string `json:"values,omitempty"` // class of each written value
	Fail   bool     `json:"fail,omitempty"`
}

func c30Phase2(t *testing.T, r *kit.Run, cases int) {
	f := auth.NewED25519Factory(keyFromSeed("c30t", 0))
	fac, err := testVMFactory()
	if err != nil {
		r.Inconclusive("phase 2 factory: %v", err)
		return
	}
	env, done, err := newC30Env(t, fac, []*genesis.CustomAllocation{{Address: f.Address(), Balance: 1_000_000_000}})
	if err != nil {
		r.Inconclusive("phase 2 set-up: %v", err)
		return
	}
	defer done()
	rng := r.Rand("testactions")
	const nKeys = 10
	pool := make([][]byte, nKeys)
	for i := range pool {
		pool[i] = keys.EncodeChunks([]byte(fmt.Sprintf("\x7fc30-key-%d", i)), 1)
	}
	exists := func(k []byte) (bool, bool) { // generation aid only (not an oracle): present, present with an empty value
		vals, errs := env.nd.hvm.ReadState(env.ctx, [][]byte{k})
		return errs[0] == nil, errs[0] == nil && len(vals[0]) == 0
	}
	mk := func(d c30TA, nonce uint64, declared state.Keys, val func() []byte) *chaintest.TestAction {
		a := &chaintest.TestAction{
			NumComputeUnits: 1, Nonce: nonce, Start: -1, End: -1, ExecuteErr: d.Fail,
			SpecifiedStateKeys: []string{}, SpecifiedStateKeyPermissions: []state.Permissions{},
			ReadKeys: [][]byte{}, WriteKeys: [][]byte{}, WriteValues: [][]byte{},
		}
		for _, i := range d.Reads {
			a.ReadKeys = append(a.ReadKeys, pool[i])
		}
		for _, i := range d.Writes {
			a.WriteKeys = append(a.WriteKeys, pool[i])
			a.WriteValues = append(a.WriteValues, val())
		}
		for k, p := range declared {
			a.SpecifiedStateKeys = append(a.SpecifiedStateKeys, k)
			a.SpecifiedStateKeyPermissions = append(a.SpecifiedStateKeyPermissions, p)
		}
		return a
	}
	for c := 0; c < cases; c++ {
		n := 1 + rng.IntN(5)
		if rng.IntN(4) == 0 {
			n = 6 + rng.IntN(11)
		}
		present := map[int]bool{}
		emptyNow := map[int]bool{}
		for i := range pool {
			present[i], emptyNow[i] = exists(pool[i])
		}
		// half of the transactions are parsed back from their wire form before submission
		env.wire = rng.IntN(2) == 0
		descs := make([]c30TA, n)
		vals := make([][][]byte, n)
		var shape strings.Builder
		for i := range descs {
			var d c30TA
			for k := 0; k < rng.IntN(4); k++ {
				j := rng.IntN(nKeys)
				if !present[j] && rng.IntN(12) > 0 { // mostly readable keys; sometimes a missing one (the action then fails)
					continue
				}
				d.Reads = append(d.Reads, j)
			}
			for k := 0; k < rng.IntN(4); k++ {
				j := rng.IntN(nKeys)
				d.Writes = append(d.Writes, j)
				// boundary values: empty (a key that exists with a zero-length value),
				// a single zero byte, the largest value a 1-chunk key admits (63 bytes)
				switch x := rng.IntN(100); {
				case x < 22:
					vals[i] = append(vals[i], []byte{})
					d.Vals = append(d.Vals, "empty")
				case x < 30:
					vals[i] = append(vals[i], []byte{0})
					d.Vals = append(d.Vals, "zero")
				case x < 38:
					vals[i] = append(vals[i], bytes.Repeat([]byte{byte(c)}, 63))
					d.Vals = append(d.Vals, "full")
				default:
					vals[i] = append(vals[i], []byte(fmt.Sprintf("v%d.%d.%d.%s", c, i, k, strings.Repeat("x", rng.IntN(30)))))
					d.Vals = append(d.Vals, "some")
				}
			}
			missing := false
			for _, j := range d.Reads {
				if !present[j] {
					missing = true
				}
			}
			d.Fail = rng.IntN(40) == 0
			if !missing && !d.Fail {
				for _, j := range d.Writes {
					present[j] = true
				}
			}
			descs[i] = d
			fmt.Fprintf(&shape, "r%vw%v%v%v;", d.Reads, d.Writes, d.Vals, d.Fail)
		}
		w := map[string]any{"phase": 2, "case": c, "actions": descs}
		valOf := func(i int) func() []byte {
			k := 0
			return func() []byte { v := vals[i][k]; k++; return v }
		}
		// 1. simulate the actions without any declared key
		undeclared := make([]chain.Action, n)
		for i, d := range descs {
			undeclared[i] = mk(d, uint64(c)<<8|uint64(i), nil, valOf(i))
		}
		var sim *c30API
		r.Guard("jsonrpc-simulate", w, func() { sim = env.callAPIs(f.Address(), undeclared) })
		if sim == nil {
			continue
		}
		if sim.SimErr != "" {
			// nothing was reported that could be declared; the transaction below
			// cannot be formed. Count and move on.
			r.Count("p2_simulation_failed_lists", 1)
			r.Eval()
			continue
		}
		// 2. declare exactly the simulated keys, per action, and run for real
		declared := make([]chain.Action, n)
		for i, d := range descs {
			declared[i] = mk(d, uint64(c)<<8|uint64(i), sim.simKeys[i], valOf(i))
		}
		w["simulated_keys"] = sim.SimKeys
		var api *c30API
		r.Guard("jsonrpc-apis", w, func() { api = env.callAPIs(f.Address(), declared) })
		if api == nil {
			continue
		}
		oc, err := env.onChain(f, declared)
		if err != nil {
			r.Inconclusive("phase 2 case %d: chain harness error: %v", c, err)
			return
		}
		r.Eval()
		if oc.Result == nil {
			r.Count("p2_no_onchain_counterpart", 1)
			w["why"] = oc.Why
			r.Violation("C30/simulated-keys-tx-not-executable", w, "a transaction declaring the simulated keys could not be executed on chain: %s", oc.Why)
			continue
		}
		res := oc.Result
		if res.Fee != 0 {
			r.Inconclusive("phase 2 case %d: fee %d is not zero", c, res.Fee)
			return
		}
		r.Count("p2_onchain_txs", 1)
		ok := c30Judge(r, w, api, res)
		switch {
		case !res.Success:
			ok = false
			r.Violation("C30/simulated-keys-insufficient", w, "simulation succeeded, but the transaction declaring the simulated keys fails at action %d: %s", len(res.Outputs), res.Error)
		case !outsEqual(sim.simOut, res.Outputs):
			ok = false
			r.Violation("C30/simulated-keys-outputs-differ", w, "outputs of the simulation %v differ from the transaction declaring its keys %v", hexAll(sim.simOut), hexAll(res.Outputs))
		default:
			r.Count("p2_declared_txs_ok", 1)
		}
		nk := 0
		for _, ks := range sim.simKeys {
			nk += len(ks)
		}
		r.Count("p2_declared_keys", nk)
		// keys that exist with an empty value on the state S of this case and are
		// read / overwritten by the list; Write without Allocate as simulated
		for i, d := range descs {
			for _, j := range d.Reads {
				r.Count("p2_reads_of_empty_valued_keys", btoi(emptyNow[j]))
			}
			for x, j := range d.Writes {
				r.Count("p2_writes_to_empty_valued_keys", btoi(emptyNow[j]))
				r.Count("p2_empty_values_written", btoi(d.Vals[x] == "empty"))
				if p, ok := sim.simKeys[i][string(pool[j])]; ok && emptyNow[j] && p.Has(state.Write) && !p.Has(state.Allocate) {
					r.Count("p2_write_without_allocate_simulated_on_empty_valued_key", 1)
				}
			}
		}
		if nk > 0 {
			r.Distinct("p2", shape.String())
		}
		if ok && c%97 == 0 {
			r.Sample(w)
		}
	}
}

func TestC30(t *testing.T) {
	if _, child := kit.IsChild(); child {
		t.Skip("parent only")
	}
	r := kit.Start(t, "C30", "exploration")
	r.Rule("phase 1 (morpheusvm): random actor of 7 (5 funded incl. balances 1, 7, 2^63; 2 empty) and 1..16 Transfer actions (recipients: self / pool / repeated / fresh address; amounts: 0, 1-3, share of the remaining balance, the whole remaining balance, remaining+1, MaxUint64; unique memo); JSON-RPC ExecuteActions and SimulateActions are called on the committed state, the actions are re-run on a tstate view whose scope is the union of the simulated keys, then the same actions run in a transaction (fee 0) built and accepted on the same VM. phase 2 (hypersdk test VM): 1..16 chaintest.TestActions reading/writing a pool of 10 keys; the key sets SimulateActions reports are declared in the actions of a real transaction; written values: 22% empty ([]byte{}), 8% a single zero byte, 8% the largest value the key admits (63 bytes), else 5..40 bytes, so that keys which EXIST WITH AN EMPTY VALUE are read and overwritten with the simulated Write-without-Allocate permission; half of the transactions are parsed back from their wire bytes before submission. phase 3 (test VM + chainfx.ProgAction get/put/del whose output encodes every read as absent | present,len,bytes): pool of 10 keys with value capacity 0, 1, 2 and 16 chunks; a seeding transaction stores an empty non-nil value, a nil value, a zero byte and maximal values; the state of every case is what the earlier accepted transactions left. 1..16 actions of 1..4 ops (35% get, 44% put, 20% del, 1% explicit failure), 45% of the keys chosen among those currently stored with an empty value; put values: 20% empty non-nil, 12% nil, 10% one zero byte, 14% exactly the key's capacity (64*chunks-1), 2% capacity+1 (must fail), else random length (on the capacity-0 key mostly the empty value); a third of the transactions are parsed back from their wire bytes (ParseProg turns empty into nil); so empty-valued keys are read, overwritten (also empty over empty), deleted and re-created inside one list and across transactions. declaration: 60% 'simulated' (the per-action key sets of SimulateActions are declared; falls back to manual when the simulation fails), 40% 'manual' (each action declares exactly what it needs: Read for get, Write for overwrite/delete, Allocate|Write for create; 15% All everywhere; 22% one victim key declared in EVERY action of the list without Allocate / read-only / not at all, so both sides must fail at the same action). ExecuteActions outputs + failure position and SimulateActions outputs are compared with the transaction built and accepted on the same state as in phase 2. non-trivial = an on-chain transaction exists and (phase 1) the list has >= 2 actions / (phase 2) at least one key was declared / (phase 3) always (every action touches a key or fails); distinct = shape of the list (phase 1: actor, recipient class, amount class per action; phase 2: read/written keys + value classes; phase 3: mode, victim kind, per op kind+key+class of the stored value+class of the written value) + outcome")
	r.Assume(
		"all unit prices are 0, hence the transaction fee is 0 and the sponsor's balance seen by the actions equals the balance the APIs read (checked: Result.Fee == 0)",
		"lists whose transaction cannot exist on chain (actor without a balance record: fee deduction fails) have no on-chain outputs; they are evaluated but not compared",
		"when the transaction fails at action i, SimulateActions must fail too (it returns no partial outputs); ExecuteActions must report the first failure at i with the same i outputs; error texts are not compared",
		"action behaviour does not depend on the wall clock or the action id (true for Transfer, TestAction and ProgAction), so the APIs' time.Now() is irrelevant",
		"phase 3 manual declarations are self-contained per action: ExecuteActions scopes each action to its own declared keys while a transaction scopes every action to the union over its actions, so lists in which an action relies on a key declared only by another action are not generated (the statement speaks of 'the same actions', taken as actions that are executable on their own declaration)",
		"SimulateActions records accesses instead of checking the declared keys: when the generator under-declared on purpose and the transaction therefore fails, the simulation is not compared (ExecuteActions is)",
		"vm.ReadState is used as a generation aid (which pool keys exist / are empty) and to classify witnesses (suffix /nil-valued-key: the list declares a key for which ReadState returns a nil slice and a nil error), never as an oracle",
	)
	// Replay: the state of a case depends on all earlier cases, so a replay file
	// re-runs the whole (seeded, deterministic) sequence of its tier and seed.
	c30Phase1(t, r, r.N(1500, 20000))
	c30Phase2(t, r, r.N(600, 8000))
	c30Phase3(t, r, r.N(700, 8000))
	if r.Replay() != nil {
		r.Finish(0)
		return
	}
	r.Finish(r.N(400, 5000))
}
