//go:build verif

package vmx

// C18: a restarted node recovers the accepted chain after a crash at any point
// of the accept pipeline.
//
// Per case (crash point P, hit k, chain length N, queue depth D) three nodes run:
//   A  child process: real vm.VM under snow.VM on a persistent directory, builds
//      and Accepts N blocks while a gate at snow.processAccept.entry keeps D
//      accepted blocks unprocessed; exits (os.Exit 77) at the k-th hit of P.
//   B  child process: re-initialises on the same directory and reports.
//   R  never-crashed reference (parent process, fresh directory): parses,
//      verifies and accepts the block bytes A logged, up to B's last accepted.
// The oracle only reads append-only logs and the nodes' public accessors.

import (
	"bufio"
	"context"
	"encoding/hex"
	"encoding/json"
	"fmt"
	"os"
	"path/filepath"
	"sort"
	"strconv"
	"strings"
	"sync"
	"testing"
	"time"

	"github.com/ava-labs/hypersdk/auth"
	"github.com/ava-labs/hypersdk/chain"
	"github.com/ava-labs/hypersdk/chain/chaintest"
	"github.com/ava-labs/hypersdk/fees"
	"github.com/ava-labs/hypersdk/genesis"
	"github.com/ava-labs/hypersdk/keys"
	"github.com/ava-labs/hypersdk/state"
	"github.com/ava-labs/hypersdk/zzverif/kit"
	"github.com/ava-labs/hypersdk/zzverif/kit/hooks"
)

var c18Points = []string{
	"snow.accept.afterIndex",
	"snow.accept.afterQueue",
	"snow.processAccept.entry",
	"vm.accept.afterResults",
	"chain.accept.beforeCommit",
	"vm.accept.afterChainAccept",
	"snow.accept.beforeNotify",
	"snow.accept.afterNotify",
}

type c18Case struct {
	Point string `json:"point"`
	Hit   int    `json:"hit"`
	N     int    `json:"n"`
	Depth int    `json:"depth"`
}

func (c c18Case) String() string { return fmt.Sprintf("%s#%d/N%d/D%d", c.Point, c.Hit, c.N, c.Depth) }

// ---- append-only JSON-lines logs: one unbuffered write(2) per record, which
// survives os.Exit (the crash model is process exit, not power loss) ----

type jlog struct {
	mu sync.Mutex
	f  *os.File
}

func openJlog(path string) (*jlog, error) {
	f, err := os.OpenFile(path, os.O_APPEND|os.O_CREATE|os.O_WRONLY, 0o644)
	if err != nil {
		return nil, err
	}
	return &jlog{f: f}, nil
}

func (l *jlog) add(v any) {
	b, _ := json.Marshal(v)
	l.mu.Lock()
	_, _ = l.f.Write(append(b, '\n'))
	l.mu.Unlock()
}

type c18Event struct {
	Ev    string           `json:"ev"`
	H     uint64           `json:"h,omitempty"`
	ID    string           `json:"id,omitempty"`
	Bytes string           `json:"bytes,omitempty"`
	NTx   int              `json:"ntx,omitempty"`
	Msg   string           `json:"msg,omitempty"`
	Hits  map[string]int64 `json:"hits,omitempty"`
	// Queued = blocks queued for processing whose processing had not finished when the process exited
	Queued int `json:"queued,omitempty"`
}

type c18Sub struct {
	Role string `json:"role"`
	H    uint64 `json:"h"`
	ID   string `json:"id"`
	NRes int    `json:"nres"`
}

func readJSONLines[T any](path string) []T {
	f, err := os.Open(path)
	if err != nil {
		return nil
	}
	defer f.Close()
	var out []T
	sc := bufio.NewScanner(f)
	sc.Buffer(make([]byte, 1<<20), 64<<20)
	for sc.Scan() {
		var v T
		if json.Unmarshal(sc.Bytes(), &v) == nil { // a torn last line is skipped
			out = append(out, v)
		}
	}
	return out
}

// ---- shared set-up of the three nodes ----

func c18Genesis() ([]byte, error) {
	rules := genesis.NewDefaultRules()
	rules.MinBlockGap = 0
	rules.MinEmptyBlockGap = 0
	f := auth.NewED25519Factory(keyFromSeed("c18", 0))
	return testGenesis(rules, []*genesis.CustomAllocation{{Address: f.Address(), Balance: 1_000_000_000_000_000}})
}

func c18Node(t *testing.T, dir, role string) (*node, error, string) {
	gb, err := os.ReadFile(filepath.Join(dir, "genesis.json"))
	if err != nil {
		return nil, err, ""
	}
	var opts = subscriberOption(func(*chain.ExecutedBlock) {})
	if role != "" {
		subs, err := openJlog(filepath.Join(dir, "subs.log"))
		if err != nil {
			return nil, err, ""
		}
		opts = subscriberOption(func(b *chain.ExecutedBlock) {
			nres := -1
			if b.ExecutionResults != nil {
				nres = len(b.ExecutionResults.Results)
			}
			subs.add(c18Sub{Role: role, H: b.Block.Hght, ID: b.Block.GetID().String(), NRes: nres})
		})
	}
	f, err := testVMFactory(opts)
	if err != nil {
		return nil, err, ""
	}
	data := filepath.Join(dir, "chaindata")
	if err := os.MkdirAll(data, 0o755); err != nil {
		return nil, err, ""
	}
	// The builder stops adding transactions after targetBuildDuration of wall
	// time (100 ms by default); on a loaded machine that yields empty blocks.
	// It stops as soon as the mempool is empty, so a large value costs nothing.
	return startNode(t, f, data, gb, []byte(`{"chain":{"targetBuildDuration":60000000000}}`))
}

func TestC18Child(t *testing.T) {
	role, ok := kit.IsChild()
	if !ok {
		t.Skip("child of TestC18 only")
	}
	switch role {
	case "c18a":
		c18ChildA(t)
	case "c18b":
		c18ChildB(t)
	case "c18z":
		c18ChildZ(t)
	default:
		t.Skip("not a C18 role")
	}
}

// ---- child A: accept N blocks faster than they are processed, crash at (P,k) ----

func c18ChildA(t *testing.T) {
	dir := os.Getenv("C18_DIR")
	point := os.Getenv("C18_POINT")
	hit, _ := strconv.Atoi(os.Getenv("C18_HIT"))
	n, _ := strconv.Atoi(os.Getenv("C18_N"))
	depth, _ := strconv.Atoi(os.Getenv("C18_DEPTH"))
	ctx := context.Background()
	ev, err := openJlog(filepath.Join(dir, "events.log"))
	if err != nil {
		fmt.Println("cannot open event log:", err)
		os.Exit(3)
	}
	fail := func(format string, args ...any) {
		ev.add(c18Event{Ev: "error", Msg: fmt.Sprintf(format, args...)})
		os.Exit(3)
	}

	childWatchdog(6*time.Minute, func(st string) { ev.add(c18Event{Ev: "error", Msg: "A: watchdog, goroutines:\n" + st}) })

	// Hook handler: gate at processAccept entry (one token per block, handed out
	// by the driver), "processed" signal after the notifications, exit at (P,k).
	tokens := make(chan struct{}, n+1)
	processed := make(chan struct{}, n+1)
	var hmu sync.Mutex
	myHits := map[string]int{}
	p := hooks.NewPerturb(nil)
	at := func(name string) func() {
		return func() {
			if name == "snow.processAccept.entry" {
				<-tokens
			}
			hmu.Lock()
			myHits[name]++
			k := myHits[name]
			hmu.Unlock()
			if name == point && k == hit {
				hmu.Lock()
				queued := myHits["snow.accept.afterQueue"] - myHits["snow.accept.afterNotify"]
				hmu.Unlock()
				ev.add(c18Event{Ev: "crash", Msg: fmt.Sprintf("%s#%d", name, k), Hits: p.Hits(), Queued: queued})
				if depth == 0 && (name == "snow.accept.afterIndex" || name == "snow.accept.afterQueue") {
					// depth 0: the accepter is free to run. Let it get ahead of the engine
					// thread parked here before the process goes away (schedule steering only:
					// whatever it managed to do, the restart must cope with it).
					time.Sleep(250 * time.Millisecond)
				}
				os.Exit(77)
			}
			if name == "snow.accept.afterNotify" {
				processed <- struct{}{}
			}
		}
	}
	for _, name := range c18Points {
		p.On[name] = at(name)
	}
	p.Install()

	nd, initErr, initPanic := c18Node(t, dir, "a")
	if initErr != nil || initPanic != "" {
		fail("A: initialize: %v %s", initErr, initPanic)
	}
	if err := nd.normalOp(ctx); err != nil {
		fail("A: %v", err)
	}
	factory := auth.NewED25519Factory(keyFromSeed("c18", 0))
	waitProcessed := func(h int) {
		select {
		case <-processed:
		case <-time.After(4 * time.Minute):
			fail("A: block %d not processed 4 min after its token was released (watchdog)", h)
		}
	}
	for i := 1; i <= n; i++ {
		ntx := 1 + i%3
		txs := make([]*chain.Transaction, 0, ntx)
		for j := 0; j < ntx; j++ {
			key := keys.EncodeChunks([]byte(fmt.Sprintf("\x7fc18-%d-%d", i, j%2)), 1)
			act := &chaintest.TestAction{
				NumComputeUnits:              uint64(10*i + j + 1),
				SpecifiedStateKeys:           []string{string(key)},
				SpecifiedStateKeyPermissions: []state.Permissions{state.All},
				ReadKeys:                     [][]byte{},
				WriteKeys:                    [][]byte{key},
				WriteValues:                  [][]byte{[]byte(fmt.Sprintf("v%d.%d", i, j))},
				Nonce:                        uint64(100*i + j),
				Start:                        -1,
				End:                          -1,
			}
			tx, err := chain.GenerateTransaction(nd.hvm.GetRuleFactory(), fees.Dimensions{1000, 1000, 1000, 1000, 1000}, time.Now().UnixMilli(), []chain.Action{act}, factory)
			if err != nil {
				fail("A: generate tx: %v", err)
			}
			txs = append(txs, tx)
		}
		for j, err := range nd.hvm.Submit(ctx, txs) {
			if err != nil {
				fail("A: submit tx %d of block %d: %v", j, i, err)
			}
		}
		blk, err := nd.snowVM.BuildBlock(ctx)
		if err != nil {
			fail("A: build block %d: %v", i, err)
		}
		if err := blk.Verify(ctx); err != nil {
			fail("A: verify block %d: %v", i, err)
		}
		if err := nd.snowVM.SetPreference(ctx, blk.ID()); err != nil {
			fail("A: set preference %d: %v", i, err)
		}
		if blk.Height() != uint64(i) || len(blk.Input.StatelessBlock.Txs) != ntx {
			fail("A: built block has height %d with %d txs, expected height %d with %d txs", blk.Height(), len(blk.Input.StatelessBlock.Txs), i, ntx)
		}
		ev.add(c18Event{Ev: "built", H: blk.Height(), ID: blk.ID().String(), Bytes: hex.EncodeToString(blk.Bytes()), NTx: ntx})
		awaitMempoolIdle()
		ev.add(c18Event{Ev: "accept_start", H: blk.Height()})
		if depth == 0 {
			tokens <- struct{}{} // nothing holds the accepter back: it may process block i while Accept is still running
		}
		if err := blk.Accept(ctx); err != nil {
			fail("A: Accept(%d): %v", i, err)
		}
		ev.add(c18Event{Ev: "accept_ret", H: blk.Height()})
		if depth == 0 {
			waitProcessed(i)
		} else if j := i - depth; j >= 1 {
			tokens <- struct{}{}
			waitProcessed(j)
		}
	}
	for j := max(1, n-depth+1); j <= n && depth > 0; j++ {
		tokens <- struct{}{}
		waitProcessed(j)
	}
	ev.add(c18Event{Ev: "done", Hits: p.Hits()})
	_ = nd.shutdown(ctx)
}

// ---- child B: restart on the same directory and report ----

func c18ChildB(t *testing.T) {
	dir := os.Getenv("C18_DIR")
	ctx := context.Background()
	rep := nodeReport{}
	childWatchdog(6*time.Minute, func(st string) { fmt.Println("B: watchdog, goroutines:\n" + st) })
	start := time.Now()
	nd, initErr, initPanic := c18Node(t, dir, "b")
	rep.InitMillis = time.Since(start).Milliseconds()
	if initErr != nil {
		rep.InitErr = initErr.Error()
	}
	rep.InitPanic = initPanic
	writeRep := func() {
		b, _ := json.Marshal(rep)
		tmp := filepath.Join(dir, "b_report.tmp")
		if err := os.WriteFile(tmp, b, 0o644); err != nil {
			fmt.Println("cannot write report:", err)
			os.Exit(3)
		}
		_ = os.Rename(tmp, filepath.Join(dir, "b_report.json"))
	}
	if nd == nil {
		writeRep()
		return
	}
	// The statement does not say that re-processing must be finished when
	// Initialize returns: wait until the last processed block is the last
	// accepted one; only a quiescent node that is still behind is reported.
	caughtUp := kit.Go(func() {
		for {
			la := nd.snowVM.LastAcceptedBlock(ctx)
			if out, err := nd.snowVM.GetConsensusIndex().GetLastAccepted(ctx); err == nil && out.GetID() == la.ID() {
				return
			}
			time.Sleep(20 * time.Millisecond)
		}
	})
	switch res, _ := kit.AwaitOrDeadlock(caughtUp, []string{"hypersdk/snow.", "hypersdk/vm.", "hypersdk/chain.", "hypersdk/internal/"}, 200*time.Millisecond, 2*time.Minute); res {
	case kit.Returned:
		rep.CatchUp = "ok"
	case kit.Deadlock:
		rep.CatchUp = "quiescent"
	default:
		rep.CatchUp = "unknown"
	}
	nd.observe(ctx, &rep)
	writeRep() // a later asynchronous death of the process must not lose what was seen
	if err := nd.normalOp(ctx); err != nil {
		rep.NormalOpErr = err.Error()
	}
	if err := nd.shutdown(ctx); err != nil {
		rep.ShutdownErr = err.Error()
	}
	writeRep()
}

// ---- reference node (never crashed) ----

func c18Reference(t *testing.T, genesisBytes []byte, blocks [][]byte) (rep nodeReport, err error) {
	dir, err := os.MkdirTemp("", "verif-c18-ref-*")
	if err != nil {
		return rep, err
	}
	defer os.RemoveAll(dir)
	if err := os.WriteFile(filepath.Join(dir, "genesis.json"), genesisBytes, 0o644); err != nil {
		return rep, err
	}
	ctx := context.Background()
	nd, initErr, initPanic := c18Node(t, dir, "")
	if initErr != nil || initPanic != "" {
		return rep, fmt.Errorf("reference initialize: %v %s", initErr, initPanic)
	}
	defer func() { _ = nd.shutdown(ctx) }()
	if err := nd.normalOp(ctx); err != nil {
		rep.NormalOpErr = err.Error()
	}
	for i, b := range blocks {
		blk, err := nd.snowVM.ParseBlock(ctx, b)
		if err != nil {
			return rep, fmt.Errorf("reference parse block %d: %w", i+1, err)
		}
		if err := blk.Verify(ctx); err != nil {
			return rep, fmt.Errorf("reference verify block %d: %w", i+1, err)
		}
		if err := nd.snowVM.SetPreference(ctx, blk.ID()); err != nil {
			return rep, err
		}
		if err := blk.SyncAccept(ctx); err != nil {
			return rep, fmt.Errorf("reference accept block %d: %w", i+1, err)
		}
	}
	nd.observe(ctx, &rep)
	return rep, nil
}

// ---- parent ----

type c18Witness struct {
	Case      c18Case     `json:"case"`
	AExit     int         `json:"a_exit"`
	AEvents   []c18Event  `json:"a_events,omitempty"` // without block bytes
	Subs      []c18Sub    `json:"subs,omitempty"`
	B         *nodeReport `json:"b,omitempty"`
	Ref       *nodeReport `json:"ref,omitempty"`
	BOutput   string      `json:"b_output_tail,omitempty"`
	LastRet   uint64      `json:"last_accept_returned"`
	LastStart uint64      `json:"last_accept_started"`
}

func tail(s string, n int) string {
	if len(s) > n {
		return s[len(s)-n:]
	}
	return s
}

func c18InitKey(rep *nodeReport) string {
	switch {
	case strings.Contains(rep.InitErr, "Compact start") && strings.Contains(rep.InitErr, "is not less than end"):
		return "C18/restart-init-error/pebble-compact"
	case strings.Contains(rep.InitErr, "cannot extract latest output block"):
		return "C18/restart-init-error/index-ahead-of-state"
	case strings.Contains(rep.InitErr, "execution results height"):
		return "C18/restart-init-error/results-behind-state"
	case rep.InitErr != "":
		return "C18/restart-init-error/other"
	case strings.Contains(rep.InitPanic, "extractLatestOutputBlock") && strings.Contains(rep.InitPanic, "nil pointer"):
		return "C18/restart-init-panic/index-one-ahead-of-state"
	case rep.InitPanic != "":
		return "C18/restart-init-panic/other"
	}
	return ""
}

func runC18Case(t *testing.T, r *kit.Run, c c18Case, genesisBytes []byte) {
	dir, err := os.MkdirTemp("", "verif-c18-*")
	if err != nil {
		r.Inconclusive("%s: temp dir: %v", c, err)
		return
	}
	defer os.RemoveAll(dir)
	if err := os.WriteFile(filepath.Join(dir, "genesis.json"), genesisBytes, 0o644); err != nil {
		r.Inconclusive("%s: %v", c, err)
		return
	}
	env := []string{
		"C18_DIR=" + dir, "C18_POINT=" + c.Point, "C18_HIT=" + strconv.Itoa(c.Hit),
		"C18_N=" + strconv.Itoa(c.N), "C18_DEPTH=" + strconv.Itoa(c.Depth), "GOMAXPROCS=4",
	}
	resA := kit.RunChild("TestC18Child", append([]string{"VERIF_CHILD=c18a"}, env...), 8*time.Minute)
	events := readJSONLines[c18Event](filepath.Join(dir, "events.log"))
	w := &c18Witness{Case: c, AExit: resA.ExitCode}
	built := map[uint64]c18Event{}
	for _, e := range events {
		switch e.Ev {
		case "built":
			built[e.H] = e
		case "accept_start":
			w.LastStart = max(w.LastStart, e.H)
		case "accept_ret":
			w.LastRet = max(w.LastRet, e.H)
		case "crash":
			for _, v := range e.Hits {
				r.Count("hook_hits_in_A", int(v))
			}
			if e.Queued >= 2 {
				r.Count("crashes_with_2plus_blocks_queued", 1)
			}
			r.Count("blocks_queued_at_crash_total", e.Queued)
		}
		e.Bytes = ""
		w.AEvents = append(w.AEvents, e)
	}
	if resA.TimedOut || resA.ExitCode != 77 {
		msg := ""
		for _, e := range events {
			if e.Ev == "error" {
				msg += e.Msg + " "
			}
		}
		if path := os.Getenv("VERIF_C18_KEEP"); path != "" && msg != "" {
			_ = os.WriteFile(filepath.Join(path, "c18-A-"+strings.ReplaceAll(c.String(), "/", "_")+".txt"), []byte(msg), 0o644)
		}
		r.Inconclusive("%s: child A did not crash at the armed point (exit %d, timed out %v): %s %s", c, resA.ExitCode, resA.TimedOut, tail(msg, 1500), tail(resA.Output, 1500))
		return
	}
	r.Count("crashes_injected", 1)
	r.Count("accepts_returned_before_crash", int(w.LastRet))
	r.Count("accepts_started_before_crash", int(w.LastStart))

	resB := kit.RunChild("TestC18Child", append([]string{"VERIF_CHILD=c18b"}, env...), 8*time.Minute)
	if resB.TimedOut || resB.ExitCode == 4 {
		if path := os.Getenv("VERIF_C18_KEEP"); path != "" {
			_ = os.WriteFile(filepath.Join(path, "c18-B-"+strings.ReplaceAll(c.String(), "/", "_")+".txt"), []byte(resB.Output), 0o644)
		}
		r.Inconclusive("%s: restart did not finish within the watchdog: %s", c, tail(resB.Output, 3000))
		return
	}
	r.Eval()
	r.Distinct(c.Point, c.Hit, c.N, c.Depth)
	w.Subs = readJSONLines[c18Sub](filepath.Join(dir, "subs.log"))
	repBytes, err := os.ReadFile(filepath.Join(dir, "b_report.json"))
	if err != nil {
		w.BOutput = tail(resB.Output, 4000)
		r.Violation("C18/restart-process-died", w, "%s: restarted process exited (%d) before reporting: %s", c, resB.ExitCode, tail(resB.Output, 600))
		return
	}
	rep := &nodeReport{}
	if err := json.Unmarshal(repBytes, rep); err != nil {
		r.Inconclusive("%s: unreadable report: %v", c, err)
		return
	}
	w.B = rep
	if key := c18InitKey(rep); key != "" {
		r.Violation(key, w, "%s: restart failed (accepts returned up to %d, started up to %d): err=%q panic=%q", c, w.LastRet, w.LastStart, rep.InitErr, firstLines(rep.InitPanic, 6))
		return
	}
	r.Count("restarts_ok", 1)
	if resB.ExitCode != 0 {
		w.BOutput = tail(resB.Output, 4000)
		r.Violation("C18/restart-process-died", w, "%s: restarted process initialised but exited with %d: %s", c, resB.ExitCode, tail(resB.Output, 600))
		return
	}
	if rep.ReportErr != "" {
		r.Violation("C18/restart-unreadable-state", w, "%s: restarted node cannot report its state: %s", c, rep.ReportErr)
		return
	}
	// last accepted block
	ok := true
	if rep.LastHeight < w.LastRet {
		ok = false
		r.Violation("C18/last-accepted-lost", w, "%s: Accept returned for height %d but the restarted node's last accepted height is %d", c, w.LastRet, rep.LastHeight)
	}
	if rep.LastHeight > w.LastStart {
		ok = false
		r.Violation("C18/last-accepted-never-accepted", w, "%s: restarted node's last accepted height %d exceeds the last Accept call (%d)", c, rep.LastHeight, w.LastStart)
	}
	if b, found := built[rep.LastHeight]; rep.LastHeight > 0 && (!found || b.ID != rep.LastID) {
		ok = false
		r.Violation("C18/last-accepted-wrong-block", w, "%s: restarted node's last accepted %s at height %d is not the block built at that height (%s)", c, rep.LastID, rep.LastHeight, b.ID)
	}
	if (rep.ProcHeight != rep.LastHeight || rep.ProcID != rep.LastID) && rep.CatchUp != "quiescent" {
		r.Inconclusive("%s: restarted node had processed %d of %d accepted blocks when the watchdog expired (no quiescence witness)", c, rep.ProcHeight, rep.LastHeight)
		return
	}
	if rep.ProcHeight != rep.LastHeight || rep.ProcID != rep.LastID {
		ok = false
		r.Violation("C18/processed-behind-accepted-after-restart", w, "%s: the restarted node is quiescent with last processed block %d but last accepted %d (state and results lag the accepted chain)", c, rep.ProcHeight, rep.LastHeight)
	}
	if !ok {
		return
	}
	if rep.LastHeight > w.LastRet {
		r.Count("restarts_with_block_whose_accept_had_not_returned", 1)
	}
	// reference node
	var blocks [][]byte
	for h := uint64(1); h <= rep.LastHeight; h++ {
		b, err := hex.DecodeString(built[h].Bytes)
		if err != nil || len(b) == 0 {
			r.Inconclusive("%s: block %d bytes missing from A's log", c, h)
			return
		}
		blocks = append(blocks, b)
	}
	var ref nodeReport
	var refErr error
	r.Guard("reference-node", w, func() { ref, refErr = c18Reference(t, genesisBytes, blocks) })
	if refErr != nil {
		r.Inconclusive("%s: reference node failed: %v", c, refErr)
		return
	}
	w.Ref = &ref
	r.Count("reference_blocks_replayed", len(blocks))
	if ref.LastID != rep.LastID || ref.LastHeight != rep.LastHeight {
		r.Violation("C18/last-accepted-wrong-block", w, "%s: reference last accepted %s@%d, restarted %s@%d", c, ref.LastID, ref.LastHeight, rep.LastID, rep.LastHeight)
	}
	if ref.StateRoot != rep.StateRoot {
		r.Violation("C18/state-root-mismatch", w, "%s: state root after restart %s, never-crashed node %s (height %d)", c, rep.StateRoot, ref.StateRoot, rep.LastHeight)
	}
	if ref.LastResults != rep.LastResults {
		r.Violation("C18/execution-results-mismatch", w, "%s: last execution results after restart (%d results) differ from the never-crashed node (%d results) at height %d", c, rep.NumResults, ref.NumResults, rep.LastHeight)
	}
	if rep.NormalOpErr != "" && ref.NormalOpErr == "" {
		r.Violation("C18/restart-normalop-error", w, "%s: restarted node cannot enter normal operation: %s", c, rep.NormalOpErr)
	}
	// subscribers
	seen := map[uint64]bool{}
	last := map[string]uint64{}
	started := map[string]bool{}
	for _, s := range w.Subs {
		r.Count("subscriber_deliveries", 1)
		if started[s.Role] && s.H < last[s.Role] {
			r.Violation("C18/subscriber-order", w, "%s: process %s delivered height %d after height %d", c, s.Role, s.H, last[s.Role])
		}
		started[s.Role], last[s.Role] = true, s.H
		if s.H > 0 {
			if b, found := built[s.H]; !found || b.ID != s.ID {
				r.Violation("C18/subscriber-wrong-block", w, "%s: process %s delivered %s at height %d, built %s", c, s.Role, s.ID, s.H, b.ID)
			}
			if s.NRes != built[s.H].NTx {
				r.Violation("C18/subscriber-wrong-results", w, "%s: process %s delivered height %d with %d results, the block has %d txs", c, s.Role, s.H, s.NRes, built[s.H].NTx)
			}
		}
		seen[s.H] = true
	}
	var missed []uint64
	for h := uint64(1); h <= rep.LastHeight; h++ {
		if !seen[h] {
			missed = append(missed, h)
		}
	}
	if len(missed) > 0 {
		r.Violation("C18/subscriber-missed-block", w, "%s: accepted heights %v (last accepted %d) were delivered to the subscriber neither before nor after the restart", c, missed, rep.LastHeight)
	}
	r.Sample(map[string]any{"case": c, "accept_returned": w.LastRet, "accept_started": w.LastStart, "restarted_last": rep.LastHeight, "root": rep.StateRoot, "deliveries": len(w.Subs)})
}

// firstLines keeps the panic message and the first n frames inside hypersdk
// (harness and runtime frames dropped).
func firstLines(s string, n int) string {
	var out []string
	for i, l := range strings.Split(s, "\n") {
		if i == 0 || (strings.Contains(l, "github.com/ava-labs/hypersdk/") && !strings.Contains(l, "zzverif") && !strings.HasPrefix(l, "\t")) {
			out = append(out, strings.TrimSpace(l))
		}
		if len(out) > n {
			break
		}
	}
	return strings.Join(out, " | ")
}

func TestC18(t *testing.T) {
	if _, child := kit.IsChild(); child {
		t.Skip("parent only")
	}
	r := kit.Start(t, "C18", "fault_enumeration")
	r.Rule("enumeration: crash point P in the 8 hook points of the accept pipeline (after index update, after queueing, processAccept entry, after results write, before state commit, after state commit, before/after subscriber notification) x hit k in 1..N x queue depth D; child process A builds and Accepts N blocks (1-3 txs each, distinct units and state writes) while a gate at processAccept entry keeps D accepted blocks unprocessed, and exits at the k-th hit of P; child B restarts on the same directories; a case is non-trivial when A really exited at the armed point and B ran; distinct = (P,k,N,D); plus restart-at-height-0 histories (3 fixed + a PRNG-drawn set per run): a node started from a genesis with 2-6 PRNG-drawn allocations (an address may repeat) is shut down before any block was accepted, after U in 0..2 blocks were built and verified but not accepted, and restarted R in {1,2} times on the same directory (one child process per boot); after every restart the last accepted and last processed block must be the genesis block with the id seen before the restart, the state root must be unchanged and every allocated address must hold exactly the sum the genesis file gives it; the last boot then accepts N blocks and is compared with the never-restarted reference (last accepted id, state root, results); non-trivial when the fresh start was a clean baseline and the restart ran; distinct = (R,U,N,allocations)")
	r.Assume(
		"crash = abrupt process exit (os.Exit) - the OS page cache survives; power loss / torn disk writes are not modelled",
		"'same last accepted block as a node that never crashed' is read as: restarted last accepted height in [last Accept that returned, last Accept that was called], and root/results equal to a never-crashed node that accepted exactly the blocks up to that height",
		"'in height order' is read as non-decreasing heights within each process (re-delivery of the same height is allowed by 'at least once'); genesis is not an accepted block",
		"'restarting succeeds' includes the SetState(Bootstrapping)->SetState(NormalOp) transitions the engine performs after Initialize, when the never-crashed node passes them too",
		"a delivery is the accepted block of that height (id equal to the built block) carrying one execution result per transaction; deliveries with another id or result count are reported under their own keys",
		"the restarted node may finish re-processing after Initialize returns; it is compared once its last processed block equals its last accepted block, and reported as lagging only with a quiescence witness",
		"reference node = same code, never crashed (the statement's own comparison object)",
	)
	type cfg struct {
		N      int
		Depths []int
	}
	cfgs := []cfg{{4, []int{1, 2}}}
	if r.Thorough() {
		cfgs = []cfg{{8, []int{1, 2, 3, 5, 7}}, {12, []int{11}}}
	}
	genesisBytes, err := c18Genesis()
	if err != nil {
		t.Fatal(err)
	}
	var cases []c18Case
	var zcases []c18ZCase
	if rf := r.Replay(); rf != nil {
		var w c18Witness
		var zw c18ZWitness
		if err := json.Unmarshal(rf.Witness, &zw); err == nil && len(zw.ZCase.Allocs) > 0 {
			zcases = []c18ZCase{zw.ZCase}
		} else if err := json.Unmarshal(rf.Witness, &w); err != nil {
			t.Fatalf("replay witness: %v", err)
		} else {
			cases = []c18Case{w.Case}
		}
	} else {
		// restart-at-height-0 histories: three fixed shapes, the rest drawn
		zr := r.Rand("restart-at-genesis")
		zcases = append(zcases, c18ZGenCase(zr, 1, 0, 2), c18ZGenCase(zr, 2, 0, 2), c18ZGenCase(zr, 2, 1, 3))
		for i, n := 0, r.N(3, 40); i < n; i++ {
			zcases = append(zcases, c18ZGenCase(zr, 1+zr.IntN(2), zr.IntN(3), 1+zr.IntN(4)))
		}
		for _, cf := range cfgs {
			for _, d := range cf.Depths {
				for _, p := range c18Points {
					for k := 1; k <= cf.N; k++ {
						cases = append(cases, c18Case{Point: p, Hit: k, N: cf.N, Depth: d})
					}
				}
			}
			// depth 0: the accepter is never held back and the crash on the engine thread's part of
			// Accept leaves it 250 ms to run ahead (index update vs. queueing vs. processing order)
			for _, p := range []string{"snow.accept.afterIndex", "snow.accept.afterQueue"} {
				for k := 1; k <= cf.N; k++ {
					cases = append(cases, c18Case{Point: p, Hit: k, N: cf.N, Depth: 0})
				}
			}
		}
	}
	r.Extra("crash_points", c18Points)
	r.Extra("chain_length_and_queue_depths", cfgs)
	r.Extra("restart_at_height_0_cases", len(zcases))
	par := 8
	if v, err := strconv.Atoi(os.Getenv("VERIF_C18_PAR")); err == nil && v > 0 {
		par = v
	}
	ch := make(chan func())
	var wg sync.WaitGroup
	for i := 0; i < par; i++ {
		wg.Add(1)
		go func() {
			defer wg.Done()
			for f := range ch {
				f()
			}
		}()
	}
	sort.SliceStable(cases, func(i, j int) bool { return cases[i].Hit > cases[j].Hit }) // long cases first
	if os.Getenv("VERIF_C18_ONLY") == "z" { // debugging aid: only the restart-at-height-0 histories
		cases = nil
	}
	for _, c := range cases {
		ch <- func() { runC18Case(t, r, c, genesisBytes) }
	}
	for _, c := range zcases {
		ch <- func() {
			start := time.Now()
			runC18ZCase(t, r, c)
			if os.Getenv("VERIF_C18_ONLY") == "z" {
				t.Logf("%s: %v", c, time.Since(start))
			}
		}
	}
	close(ch)
	wg.Wait()
	if r.Replay() != nil {
		r.Finish(0)
		return
	}
	r.Finish((len(cases) + len(zcases)) * 9 / 10)
}
