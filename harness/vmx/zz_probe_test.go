package vmx

import (
	"fmt"
	"testing"

	"github.com/ava-labs/hypersdk/auth"
	"github.com/ava-labs/hypersdk/chain"
	"github.com/ava-labs/hypersdk/chain/chaintest"
	"github.com/ava-labs/hypersdk/genesis"
	"github.com/ava-labs/hypersdk/keys"
	"github.com/ava-labs/hypersdk/state"
	"github.com/ava-labs/hypersdk/zzverif/chainfx"
)

func TestZZProbe(t *testing.T) {
	f := auth.NewED25519Factory(keyFromSeed("c30t", 0))
	fac, err := testVMFactory()
	if err != nil {
		t.Fatal(err)
	}
	_ = chainfx.OpGet
	env, done, err := newC30Env(t, fac, []*genesis.CustomAllocation{{Address: f.Address(), Balance: 1_000_000_000}})
	if err != nil {
		t.Fatal(err)
	}
	defer done()
	k1 := keys.EncodeChunks([]byte("probe-nil"), 1)
	k2 := keys.EncodeChunks([]byte("probe-empty"), 1)
	mk := func(k []byte, v []byte, p state.Permissions, nonce uint64) *chaintest.TestAction {
		return &chaintest.TestAction{NumComputeUnits: 1, Nonce: nonce, Start: -1, End: -1,
			SpecifiedStateKeys: []string{string(k)}, SpecifiedStateKeyPermissions: []state.Permissions{p},
			ReadKeys: [][]byte{}, WriteKeys: [][]byte{k}, WriteValues: [][]byte{v}}
	}
	for _, wire := range []bool{false, true} {
		env.wire = wire
		oc, err := env.onChain(f, []chain.Action{mk(k1, nil, state.All, 1), mk(k2, []byte{}, state.All, 2)})
		fmt.Println("wire", wire, "put:", oc.Why, err, oc.Result != nil && oc.Result.Success)
		vals, errs := env.nd.hvm.ReadState(env.ctx, [][]byte{k1, k2, keys.EncodeChunks([]byte("absent"), 1)})
		for i := range vals {
			fmt.Printf("  ReadState[%d]: nil=%v len=%d err=%v\n", i, vals[i] == nil, len(vals[i]), errs[i])
		}
		// remove by writing something else so that the next round re-creates
		oc, err = env.onChain(f, []chain.Action{mk(k1, []byte{1}, state.Write, 3), mk(k2, []byte{1}, state.Write, 4)})
		fmt.Println("  overwrite write-only:", oc.Why, err, oc.Result != nil && oc.Result.Success)
		oc, err = env.onChain(f, []chain.Action{mk(k1, nil, state.Write, 5), mk(k2, []byte{}, state.Write, 6)})
		fmt.Println("  back to empty:", oc.Why, err, oc.Result != nil && oc.Result.Success)
		vals, errs = env.nd.hvm.ReadState(env.ctx, [][]byte{k1, k2})
		for i := range vals {
			fmt.Printf("  ReadState[%d]: nil=%v len=%d err=%v\n", i, vals[i] == nil, len(vals[i]), errs[i])
		}
		api := env.callAPIs(f.Address(), []chain.Action{mk(k1, []byte{2}, state.Write, 7), mk(k2, []byte{2}, state.Write, 8)})
		fmt.Printf("  api: %+v\n", api)
	}
}
