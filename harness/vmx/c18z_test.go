//go:build verif

package vmx

// C18, restart-at-height-0 histories: a node is started from genesis, shut down
// before any block was accepted (optionally after blocks were built and verified
// but not accepted), restarted once or twice on the same directory, and must be
// at exactly the genesis state each time; the last restart then accepts blocks
// and is compared with a never-restarted reference like every other C18 case.
// One child process per boot (role c18z), as for the crash cases.

import (
	"context"
	"encoding/hex"
	"encoding/json"
	"fmt"
	"math/rand/v2"
	"os"
	"path/filepath"
	"strconv"
	"testing"
	"time"

	"github.com/ava-labs/hypersdk/auth"
	"github.com/ava-labs/hypersdk/chain"
	"github.com/ava-labs/hypersdk/chain/chaintest"
	"github.com/ava-labs/hypersdk/codec"
	"github.com/ava-labs/hypersdk/fees"
	"github.com/ava-labs/hypersdk/genesis"
	"github.com/ava-labs/hypersdk/keys"
	"github.com/ava-labs/hypersdk/state"
	"github.com/ava-labs/hypersdk/zzverif/kit"
)

type c18ZAlloc struct {
	Addr    string `json:"addr"`
	Balance uint64 `json:"balance"`
}

type c18ZCase struct {
	Restarts   int         `json:"restarts"`   // boots after the first one (1 or 2)
	Unaccepted int         `json:"unaccepted"` // blocks built+verified, never accepted, before every shutdown at height 0
	N          int         `json:"n"`          // blocks accepted after the last restart
	Allocs     []c18ZAlloc `json:"allocs"`     // genesis allocations in file order (an address may repeat: amounts add up)
}

func (c c18ZCase) String() string {
	return fmt.Sprintf("restart-at-genesis/R%d/U%d/N%d/A%d", c.Restarts, c.Unaccepted, c.N, len(c.Allocs))
}

// c18ZReport is written by every boot right after Initialize returned.
type c18ZReport struct {
	Node     nodeReport        `json:"node"`
	Balances map[string]uint64 `json:"balances,omitempty"`
	BalErr   string            `json:"balance_err,omitempty"`
	WorkErr  string            `json:"work_err,omitempty"` // building / accepting after the observation
	Final    *nodeReport       `json:"final,omitempty"`    // after the N accepted blocks (last boot only)
}

func c18ZGenesis(allocs []c18ZAlloc) ([]byte, error) {
	rules := genesis.NewDefaultRules()
	rules.MinBlockGap = 0
	rules.MinEmptyBlockGap = 0
	var ca []*genesis.CustomAllocation
	for _, a := range allocs {
		addr, err := codec.StringToAddress(a.Addr)
		if err != nil {
			return nil, err
		}
		ca = append(ca, &genesis.CustomAllocation{Address: addr, Balance: a.Balance})
	}
	return testGenesis(rules, ca)
}

func c18ZGenCase(rng *rand.Rand, restarts, unaccepted, n int) c18ZCase {
	c := c18ZCase{Restarts: restarts, Unaccepted: unaccepted, N: n}
	signer := auth.NewED25519Factory(keyFromSeed("c18", 0)).Address().String()
	c.Allocs = append(c.Allocs, c18ZAlloc{Addr: signer, Balance: 1_000_000_000_000_000})
	k := 1 + rng.IntN(4)
	for i := 0; i < k; i++ {
		a := auth.NewED25519Factory(keyFromSeed("c18z", i)).Address().String()
		c.Allocs = append(c.Allocs, c18ZAlloc{Addr: a, Balance: 1 + rng.Uint64N(1_000_000_000)})
	}
	if rng.IntN(2) == 0 { // a repeated address
		c.Allocs = append(c.Allocs, c18ZAlloc{Addr: c.Allocs[rng.IntN(len(c.Allocs))].Addr, Balance: 1 + rng.Uint64N(1_000_000)})
	}
	return c
}

// c18ZBuild builds and verifies one block with 1-3 transactions on the
// preferred tip (tag keeps nonces and keys of different boots apart).
func c18ZBuild(ctx context.Context, nd *node, tag, i int) (*snowBlk, int, error) {
	factory := auth.NewED25519Factory(keyFromSeed("c18", 0))
	ntx := 1 + i%3
	txs := make([]*chain.Transaction, 0, ntx)
	for j := 0; j < ntx; j++ {
		key := keys.EncodeChunks([]byte(fmt.Sprintf("\x7fc18z-%d-%d-%d", tag, i, j%2)), 1)
		act := &chaintest.TestAction{
			NumComputeUnits:              uint64(100*tag + 10*i + j + 1),
			SpecifiedStateKeys:           []string{string(key)},
			SpecifiedStateKeyPermissions: []state.Permissions{state.All},
			ReadKeys:                     [][]byte{},
			WriteKeys:                    [][]byte{key},
			WriteValues:                  [][]byte{[]byte(fmt.Sprintf("z%d.%d.%d", tag, i, j))},
			Nonce:                        uint64(10000*tag + 100*i + j),
			Start:                        -1,
			End:                          -1,
		}
		tx, err := chain.GenerateTransaction(nd.hvm.GetRuleFactory(), fees.Dimensions{1000, 1000, 1000, 1000, 1000}, time.Now().UnixMilli(), []chain.Action{act}, factory)
		if err != nil {
			return nil, 0, fmt.Errorf("generate tx: %w", err)
		}
		txs = append(txs, tx)
	}
	for j, err := range nd.hvm.Submit(ctx, txs) {
		if err != nil {
			return nil, 0, fmt.Errorf("submit tx %d of block %d: %w", j, i, err)
		}
	}
	blk, err := nd.snowVM.BuildBlock(ctx)
	if err != nil {
		return nil, 0, fmt.Errorf("build block %d: %w", i, err)
	}
	if err := blk.Verify(ctx); err != nil {
		return nil, 0, fmt.Errorf("verify block %d: %w", i, err)
	}
	if err := nd.snowVM.SetPreference(ctx, blk.ID()); err != nil {
		return nil, 0, fmt.Errorf("set preference %d: %w", i, err)
	}
	if len(blk.Input.StatelessBlock.Txs) != ntx {
		return nil, 0, fmt.Errorf("built block %d has %d txs, expected %d", i, len(blk.Input.StatelessBlock.Txs), ntx)
	}
	awaitMempoolIdle()
	return blk, ntx, nil
}

// ---- child: one boot ----

func c18ChildZ(t *testing.T) {
	dir := os.Getenv("C18_DIR")
	step, _ := strconv.Atoi(os.Getenv("C18Z_STEP"))
	unacc, _ := strconv.Atoi(os.Getenv("C18Z_UNACC"))
	accept, _ := strconv.Atoi(os.Getenv("C18Z_ACCEPT"))
	ctx := context.Background()
	childWatchdog(4*time.Minute, func(st string) { fmt.Println("Z: watchdog, goroutines:\n" + st) })
	var zc c18ZCase
	if b, err := os.ReadFile(filepath.Join(dir, "zcase.json")); err != nil || json.Unmarshal(b, &zc) != nil {
		fmt.Println("cannot read zcase.json:", err)
		os.Exit(3)
	}
	rep := c18ZReport{}
	writeRep := func() {
		b, _ := json.Marshal(rep)
		tmp := filepath.Join(dir, "z_report.tmp")
		if err := os.WriteFile(tmp, b, 0o644); err != nil {
			fmt.Println("cannot write report:", err)
			os.Exit(3)
		}
		_ = os.Rename(tmp, filepath.Join(dir, fmt.Sprintf("z_report_%d.json", step)))
	}
	start := time.Now()
	nd, initErr, initPanic := c18Node(t, dir, "")
	rep.Node.InitMillis = time.Since(start).Milliseconds()
	if initErr != nil {
		rep.Node.InitErr = initErr.Error()
	}
	rep.Node.InitPanic = initPanic
	if nd == nil {
		writeRep()
		return
	}
	nd.observe(ctx, &rep.Node)
	// balances of the genesis allocations, read like the state root: from a fresh
	// view on the committed state (vm.ImmutableState) through the VM's balance handler
	if im, err := nd.hvm.ImmutableState(ctx); err != nil {
		rep.BalErr = "ImmutableState: " + err.Error()
	} else {
		rep.Balances = map[string]uint64{}
		for _, a := range zc.Allocs {
			addr, err := codec.StringToAddress(a.Addr)
			if err != nil {
				rep.BalErr = err.Error()
				break
			}
			bal, err := nd.hvm.BalanceHandler().GetBalance(ctx, addr, im)
			if err != nil {
				rep.BalErr = fmt.Sprintf("GetBalance(%s): %v", a.Addr, err)
				break
			}
			rep.Balances[a.Addr] = bal
		}
	}
	writeRep()
	if err := nd.normalOp(ctx); err != nil {
		rep.Node.NormalOpErr = err.Error()
		writeRep()
		_ = nd.shutdown(ctx)
		return
	}
	if accept == 0 {
		for i := 1; i <= unacc; i++ { // built and verified, never accepted
			if _, _, err := c18ZBuild(ctx, nd, step+1, i); err != nil {
				rep.WorkErr = err.Error()
				break
			}
		}
	} else {
		ev, err := openJlog(filepath.Join(dir, "events.log"))
		if err != nil {
			fmt.Println("cannot open event log:", err)
			os.Exit(3)
		}
		for i := 1; i <= accept; i++ {
			blk, ntx, err := c18ZBuild(ctx, nd, step+1, i)
			if err != nil {
				rep.WorkErr = err.Error()
				break
			}
			ev.add(c18Event{Ev: "built", H: blk.Height(), ID: blk.ID().String(), Bytes: hex.EncodeToString(blk.Bytes()), NTx: ntx})
			if err := blk.SyncAccept(ctx); err != nil {
				rep.WorkErr = fmt.Sprintf("accept block %d: %v", i, err)
				break
			}
		}
		if rep.WorkErr == "" {
			rep.Final = &nodeReport{}
			nd.observe(ctx, rep.Final)
		}
	}
	writeRep()
	if err := nd.shutdown(ctx); err != nil {
		rep.Node.ShutdownErr = err.Error()
	}
	writeRep()
}

// ---- parent ----

type c18ZWitness struct {
	ZCase   c18ZCase      `json:"zcase"`
	Boots   []*c18ZReport `json:"boots,omitempty"` // boot 0 = fresh start, then the restarts
	Ref     *nodeReport   `json:"ref,omitempty"`
	Output  string        `json:"output_tail,omitempty"`
	AtBoot  int           `json:"at_boot"`
	Genesis string        `json:"genesis_json,omitempty"`
}

func runC18ZCase(t *testing.T, r *kit.Run, c c18ZCase) {
	genesisBytes, err := c18ZGenesis(c.Allocs)
	if err != nil {
		r.Inconclusive("%s: genesis: %v", c, err)
		return
	}
	dir, err := os.MkdirTemp("", "verif-c18z-*")
	if err != nil {
		r.Inconclusive("%s: temp dir: %v", c, err)
		return
	}
	defer os.RemoveAll(dir)
	cb, _ := json.Marshal(c)
	if err := os.WriteFile(filepath.Join(dir, "genesis.json"), genesisBytes, 0o644); err != nil {
		r.Inconclusive("%s: %v", c, err)
		return
	}
	if err := os.WriteFile(filepath.Join(dir, "zcase.json"), cb, 0o644); err != nil {
		r.Inconclusive("%s: %v", c, err)
		return
	}
	want := map[string]uint64{} // independent of the VM: plain sum per address
	for _, a := range c.Allocs {
		want[a.Addr] += a.Balance
	}
	w := &c18ZWitness{ZCase: c, Genesis: string(genesisBytes)}
	var first *c18ZReport
	for step := 0; step <= c.Restarts; step++ {
		w.AtBoot = step
		accept := 0
		if step == c.Restarts {
			accept = c.N
		}
		env := []string{
			"VERIF_CHILD=c18z", "C18_DIR=" + dir, "C18Z_STEP=" + strconv.Itoa(step),
			"C18Z_UNACC=" + strconv.Itoa(c.Unaccepted), "C18Z_ACCEPT=" + strconv.Itoa(accept), "GOMAXPROCS=4",
		}
		res := kit.RunChild("TestC18Child", env, 6*time.Minute)
		if res.TimedOut || res.ExitCode == 4 || res.ExitCode == 3 {
			r.Inconclusive("%s: boot %d did not finish (exit %d, timed out %v): %s", c, step, res.ExitCode, res.TimedOut, tail(res.Output, 2000))
			return
		}
		repBytes, err := os.ReadFile(filepath.Join(dir, fmt.Sprintf("z_report_%d.json", step)))
		rep := &c18ZReport{}
		if err == nil {
			err = json.Unmarshal(repBytes, rep)
		}
		if step == 0 {
			// the fresh start is the baseline, not the subject: anything odd here is not a restart failure
			if err != nil || res.ExitCode != 0 || rep.Node.InitErr != "" || rep.Node.InitPanic != "" || rep.Node.ReportErr != "" || rep.BalErr != "" || rep.Node.NormalOpErr != "" || rep.WorkErr != "" || rep.Node.ShutdownErr != "" {
				r.Inconclusive("%s: fresh start unusable as a baseline (exit %d, %v): %+v %s", c, res.ExitCode, err, rep, tail(res.Output, 1500))
				return
			}
			for a, v := range want {
				if rep.Balances[a] != v {
					r.Inconclusive("%s: fresh node holds %d for %s, genesis file says %d (genesis defect, not a restart defect)", c, rep.Balances[a], a, v)
					return
				}
			}
			if rep.Node.LastHeight != 0 {
				r.Inconclusive("%s: fresh node reports last accepted height %d", c, rep.Node.LastHeight)
				return
			}
			first = rep
			w.Boots = append(w.Boots, rep)
			continue
		}
		if step == 1 {
			r.Eval()
			r.Distinct("restart-at-genesis", c.Restarts, c.Unaccepted, c.N, string(cb))
		}
		r.Count("restarts_at_height_0", 1)
		if c.Unaccepted > 0 {
			r.Count("restarts_at_height_0_after_unaccepted_blocks", 1)
		}
		if err != nil {
			w.Output = tail(res.Output, 4000)
			r.Violation("C18/restart-process-died", w, "%s: boot %d exited (%d) before reporting: %s", c, step, res.ExitCode, tail(res.Output, 600))
			return
		}
		w.Boots = append(w.Boots, rep)
		if key := c18InitKey(&rep.Node); key != "" {
			r.Violation(key, w, "%s: restart %d at height 0 failed: err=%q panic=%q", c, step, rep.Node.InitErr, firstLines(rep.Node.InitPanic, 6))
			return
		}
		r.Count("restarts_ok", 1)
		if res.ExitCode != 0 {
			w.Output = tail(res.Output, 4000)
			r.Violation("C18/restart-process-died", w, "%s: boot %d initialised but exited with %d: %s", c, step, res.ExitCode, tail(res.Output, 600))
			return
		}
		if rep.Node.ReportErr != "" || rep.BalErr != "" {
			r.Violation("C18/restart-unreadable-state", w, "%s: node restarted at height 0 cannot report its state: %s %s", c, rep.Node.ReportErr, rep.BalErr)
			return
		}
		ok := true
		if rep.Node.LastHeight != 0 || rep.Node.LastID != first.Node.LastID || rep.Node.ProcHeight != 0 || rep.Node.ProcID != first.Node.LastID {
			ok = false
			r.Violation("C18/genesis-restart-last-accepted-changed", w, "%s: before the restart the last accepted block was genesis %s; after restart %d it is %s@%d (processed %s@%d) although nothing was accepted", c, first.Node.LastID, step, rep.Node.LastID, rep.Node.LastHeight, rep.Node.ProcID, rep.Node.ProcHeight)
		}
		if rep.Node.StateRoot != first.Node.StateRoot {
			ok = false
			r.Violation("C18/genesis-restart-state-root-changed", w, "%s: state root %s before, %s after restart %d at height 0 (nothing was accepted)", c, first.Node.StateRoot, rep.Node.StateRoot, step)
		}
		for _, a := range c.Allocs {
			if got := rep.Balances[a.Addr]; got != want[a.Addr] {
				ok = false
				r.Violation("C18/genesis-restart-allocation-changed", w, "%s: %s holds %d after restart %d at height 0, genesis allocates %d (held %d before the restart)", c, a.Addr, got, step, want[a.Addr], first.Balances[a.Addr])
				break
			}
			r.Count("genesis_balances_checked_after_restart", 1)
		}
		if !ok {
			return
		}
		if rep.Node.NormalOpErr != "" {
			r.Violation("C18/restart-normalop-error", w, "%s: node restarted at height 0 cannot enter normal operation: %s", c, rep.Node.NormalOpErr)
			return
		}
		if rep.WorkErr != "" && step == c.Restarts {
			// the fresh start could build/verify (baseline above); the reference below decides for accepts
			r.Violation("C18/restart-cannot-extend-chain", w, "%s: node restarted at height 0 cannot build/accept on top of genesis: %s", c, rep.WorkErr)
			return
		}
		if rep.WorkErr != "" {
			r.Inconclusive("%s: boot %d could not build its unaccepted blocks: %s", c, step, rep.WorkErr)
			return
		}
	}
	last := w.Boots[len(w.Boots)-1]
	if c.N == 0 || last.Final == nil {
		if c.N > 0 {
			r.Inconclusive("%s: last boot did not report after accepting", c)
		}
		return
	}
	// continue like every other C18 case: the never-restarted reference replays the accepted blocks
	var blocks [][]byte
	for _, e := range readJSONLines[c18Event](filepath.Join(dir, "events.log")) {
		if e.Ev == "built" {
			b, err := hex.DecodeString(e.Bytes)
			if err != nil || len(b) == 0 {
				r.Inconclusive("%s: block %d bytes missing from the log", c, e.H)
				return
			}
			blocks = append(blocks, b)
		}
	}
	if len(blocks) != c.N {
		r.Inconclusive("%s: %d blocks logged, %d expected", c, len(blocks), c.N)
		return
	}
	var ref nodeReport
	var refErr error
	r.Guard("reference-node", w, func() { ref, refErr = c18Reference(t, genesisBytes, blocks) })
	if refErr != nil {
		// the restarted node accepted blocks a fresh node rejects, or the fixture failed: the
		// height-0 checks above passed, so this is not attributed to the restart
		r.Inconclusive("%s: reference node failed: %v", c, refErr)
		return
	}
	w.Ref = &ref
	r.Count("reference_blocks_replayed", len(blocks))
	fin := last.Final
	if fin.ReportErr != "" {
		r.Violation("C18/restart-unreadable-state", w, "%s: restarted node cannot report its state after %d accepts: %s", c, c.N, fin.ReportErr)
		return
	}
	if ref.LastID != fin.LastID || ref.LastHeight != fin.LastHeight {
		r.Violation("C18/last-accepted-wrong-block", w, "%s: reference last accepted %s@%d, restarted %s@%d", c, ref.LastID, ref.LastHeight, fin.LastID, fin.LastHeight)
	}
	if ref.StateRoot != fin.StateRoot {
		r.Violation("C18/state-root-mismatch", w, "%s: state root of the restarted node after %d accepts %s, never-restarted node %s", c, c.N, fin.StateRoot, ref.StateRoot)
	}
	if ref.LastResults != fin.LastResults {
		r.Violation("C18/execution-results-mismatch", w, "%s: last execution results of the restarted node (%d results) differ from the never-restarted node (%d results) at height %d", c, fin.NumResults, ref.NumResults, fin.LastHeight)
	}
	r.Sample(map[string]any{"zcase": c.String(), "allocs": len(c.Allocs), "genesis_id": first.Node.LastID, "root_at_genesis": first.Node.StateRoot, "root_after_accepts": fin.StateRoot})
}
