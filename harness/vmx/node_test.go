package vmx

// Shared fixture of the vmx monitors: a full vm.VM under snow.VM, in-process,
// on a caller-chosen (persistent) chain data directory.

import (
	"bytes"
	"context"
	stded "crypto/ed25519"
	"crypto/sha256"
	"encoding/hex"
	"encoding/json"
	"errors"
	"fmt"
	"os"
	"runtime"
	"runtime/debug"
	"testing"
	"time"

	"github.com/ava-labs/avalanchego/ids"
	"github.com/ava-labs/avalanchego/snow/engine/common"
	"github.com/ava-labs/avalanchego/snow/engine/enginetest"
	"github.com/ava-labs/avalanchego/snow/snowtest"
	"github.com/ava-labs/avalanchego/utils/logging"
	"github.com/ava-labs/avalanchego/x/merkledb"

	"github.com/ava-labs/hypersdk/api"
	"github.com/ava-labs/hypersdk/auth"
	"github.com/ava-labs/hypersdk/chain"
	"github.com/ava-labs/hypersdk/chain/chaintest"
	"github.com/ava-labs/hypersdk/codec"
	"github.com/ava-labs/hypersdk/crypto/ed25519"
	"github.com/ava-labs/hypersdk/event"
	"github.com/ava-labs/hypersdk/genesis"
	"github.com/ava-labs/hypersdk/snow"
	"github.com/ava-labs/hypersdk/state/balance"
	"github.com/ava-labs/hypersdk/state/metadata"
	"github.com/ava-labs/hypersdk/vm"
	"github.com/ava-labs/hypersdk/vm/defaultvm"

	avasnow "github.com/ava-labs/avalanchego/snow"
)

type (
	snowVMT = snow.VM[*chain.ExecutionBlock, *chain.OutputBlock, *chain.OutputBlock]
	snowBlk = snow.StatefulBlock[*chain.ExecutionBlock, *chain.OutputBlock, *chain.OutputBlock]
)

// keyFromSeed derives a deterministic ed25519 key (all processes of a case
// must agree on the genesis allocation).
func keyFromSeed(tag string, i int) ed25519.PrivateKey {
	h := sha256.Sum256([]byte(fmt.Sprintf("vmx/%s/%d", tag, i)))
	return ed25519.PrivateKey(stded.NewKeyFromSeed(h[:]))
}

// testVMFactory is the hypersdk test VM of vm/vm_test.go (chaintest.TestAction,
// ed25519 auth, default options + manual builder/gossiper) plus extra options.
func testVMFactory(extra ...vm.Option) (*vm.Factory, error) {
	actionParser := codec.NewTypeParser[chain.Action]()
	authParser := codec.NewTypeParser[chain.Auth]()
	outputParser := codec.NewTypeParser[codec.Typed]()
	if err := errors.Join(
		actionParser.Register(&chaintest.TestAction{}, chaintest.UnmarshalTestAction),
		authParser.Register(&auth.ED25519{}, auth.UnmarshalED25519),
		outputParser.Register(&chaintest.TestOutput{}, chaintest.UnmarshalTestOutput),
	); err != nil {
		return nil, err
	}
	opts := append(defaultvm.NewDefaultOptions(), vm.WithManual())
	opts = append(opts, extra...)
	return vm.NewFactory(
		genesis.DefaultGenesisFactory{},
		balance.NewPrefixBalanceHandler([]byte{0}),
		metadata.NewDefaultManager(),
		actionParser, authParser, outputParser,
		auth.DefaultEngines(),
		opts...,
	), nil
}

// subscriberOption registers f as an accepted-block subscriber through the
// VM's public option mechanism (vm.WithBlockSubscriptions).
func subscriberOption(f func(b *chain.ExecutedBlock)) vm.Option {
	return vm.NewOption[struct{}]("verifsub", struct{}{}, func(_ api.VM, _ struct{}) (vm.Opt, error) {
		return vm.WithBlockSubscriptions(event.SubscriptionFuncFactory[*chain.ExecutedBlock]{
			NotifyF: func(_ context.Context, b *chain.ExecutedBlock) error {
				f(b)
				return nil
			},
		}), nil
	})
}

func testGenesis(rules *genesis.Rules, allocs []*genesis.CustomAllocation) ([]byte, error) {
	g := &genesis.DefaultGenesis{
		StateBranchFactor: merkledb.BranchFactor16,
		CustomAllocation:  allocs,
		Rules:             rules,
	}
	return json.Marshal(g)
}

// node is one VM instance.
type node struct {
	snowVM   *snowVMT
	hvm      *vm.VM
	snowCtx  *avasnow.Context
	toEngine chan common.Message
}

var fixedChainID = ids.ID{0x76, 0x6d, 0x78} // "vmx"

// startNode initialises a VM on dataDir. A panic inside Initialize is
// returned as initPanic (it is behaviour of the code under test, not of the
// harness). The avalanchego `db` argument is nil, as in vm/vmtest: snow.VM.Initialize
// discards it (`_ database.Database`), every persistent store of the node (state,
// results, block index, indexer) lives under snowCtx.ChainDataDir = dataDir.
func startNode(t *testing.T, f *vm.Factory, dataDir string, genesisBytes, configBytes []byte, extra ...vm.Option) (n *node, initErr error, initPanic string) {
	hvm, err := f.New(extra...)
	if err != nil {
		return nil, fmt.Errorf("factory: %w", err), ""
	}
	n = &node{hvm: hvm, snowVM: snow.NewVM("v0.0.1", hvm), toEngine: make(chan common.Message, 64)}
	n.snowCtx = snowtest.Context(t, fixedChainID)
	n.snowCtx.Log = logging.NoLog{}
	n.snowCtx.ChainDataDir = dataDir
	n.snowCtx.NodeID = ids.BuildTestNodeID([]byte{1})
	func() {
		defer func() {
			if p := recover(); p != nil {
				initPanic = fmt.Sprintf("%v\n%s", p, debug.Stack())
			}
		}()
		initErr = n.snowVM.Initialize(context.Background(), n.snowCtx, nil, genesisBytes, nil, configBytes, n.toEngine, nil, &enginetest.Sender{T: t})
	}()
	if initErr != nil || initPanic != "" {
		return nil, initErr, initPanic
	}
	return n, nil, ""
}

func (n *node) normalOp(ctx context.Context) error {
	if err := n.snowVM.SetState(ctx, avasnow.Bootstrapping); err != nil {
		return fmt.Errorf("SetState(Bootstrapping): %w", err)
	}
	if err := n.snowVM.SetState(ctx, avasnow.NormalOp); err != nil {
		return fmt.Errorf("SetState(NormalOp): %w", err)
	}
	return nil
}

func (n *node) shutdown(ctx context.Context) error {
	return n.snowVM.Shutdown(ctx)
}

// nodeReport is what the C18 oracle compares between the restarted node and
// the never-crashed reference.
type nodeReport struct {
	InitErr      string `json:"init_err,omitempty"`
	InitPanic    string `json:"init_panic,omitempty"`
	NormalOpErr  string `json:"normalop_err,omitempty"`
	ReportErr    string `json:"report_err,omitempty"`
	CatchUp      string `json:"catch_up,omitempty"`
	LastHeight   uint64 `json:"last_height"`
	LastID       string `json:"last_id"`
	ProcHeight   uint64 `json:"processed_height"`
	ProcID       string `json:"processed_id"`
	StateRoot    string `json:"state_root"`
	LastResults  string `json:"last_results"`
	NumResults   int    `json:"num_results"`
	ShutdownErr  string `json:"shutdown_err,omitempty"`
	InitMillis   int64  `json:"init_ms"`
	ReplayedFrom uint64 `json:"-"`
}

// observe fills the report from the node's public accessors: consensus last
// accepted (snow.VM.LastAcceptedBlock), last processed accepted block with its
// execution results (ConsensusIndex.GetLastAccepted) and the merkle root of
// the committed state (vm.ImmutableState = fresh view on the state db).
func (n *node) observe(ctx context.Context, rep *nodeReport) {
	la := n.snowVM.LastAcceptedBlock(ctx)
	rep.LastHeight = la.Height()
	rep.LastID = la.ID().String()
	out, err := n.snowVM.GetConsensusIndex().GetLastAccepted(ctx)
	if err != nil {
		rep.ReportErr = "GetLastAccepted: " + err.Error()
		return
	}
	rep.ProcHeight = out.GetHeight()
	rep.ProcID = out.GetID().String()
	if out.ExecutionResults != nil {
		rep.LastResults = hex.EncodeToString(out.ExecutionResults.Marshal())
		rep.NumResults = len(out.ExecutionResults.Results)
	}
	im, err := n.hvm.ImmutableState(ctx)
	if err != nil {
		rep.ReportErr = "ImmutableState: " + err.Error()
		return
	}
	view, ok := im.(merkledb.View)
	if !ok {
		rep.ReportErr = fmt.Sprintf("ImmutableState is %T, not a merkledb view", im)
		return
	}
	root, err := view.GetMerkleRoot(ctx)
	if err != nil {
		rep.ReportErr = "GetMerkleRoot: " + err.Error()
		return
	}
	rep.StateRoot = root.String()
}

// awaitMempoolIdle waits until the builder's asynchronous FinishStreaming
// goroutine has ended: chain.BuildBlock returns before the mempool stream is
// closed and a StartStreaming racing with it blocks while holding the mempool
// lock (harness hazard, not judged here). The goroutine is recognised by its
// chain.(*Builder).BuildBlock frames; callers are never inside BuildBlock.
// Pacing only: a hang would end in a watchdog (inconclusive).
func awaitMempoolIdle() {
	buf := make([]byte, 1<<20)
	for i := 0; i < 5000; i++ {
		n := runtime.Stack(buf, true)
		if !bytes.Contains(buf[:n], []byte("chain.(*Builder).BuildBlock")) {
			return
		}
		time.Sleep(time.Millisecond)
	}
}

// childWatchdog dumps all goroutines and exits with code 4 when a child
// process runs longer than d (diagnostics for inconclusive cases).
func childWatchdog(d time.Duration, sink func(string)) {
	time.AfterFunc(d, func() {
		buf := make([]byte, 8<<20)
		n := runtime.Stack(buf, true)
		sink(string(buf[:n]))
		os.Exit(4)
	})
}
