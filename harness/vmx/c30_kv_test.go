package vmx

// C30 phase 3: boundary state values. The hypersdk test VM additionally
// registers the harness' programmable action (chainfx.ProgAction: get / put /
// delete over declared keys, the output encodes every read as absent or
// present+length+bytes), so that
//   - the committed state S on which the APIs and the transaction are compared
//     contains keys whose stored value is EMPTY (written by earlier accepted
//     transactions; both a zero-length non-nil slice and a nil slice reach
//     state.Mutable.Insert), a single zero byte, and values of exactly the
//     maximal size the key admits (64*chunks-1 bytes), next to absent keys;
//   - the generated lists read such keys, overwrite them with Write permission
//     only (no Allocate), overwrite empty with empty, delete and re-create them.
// Two declaration modes: "simulated" (the key sets SimulateActions reports are
// declared per action: sufficiency) and "manual" (the generator declares what
// each action needs, sometimes deliberately without Allocate / Write for one
// key in every action of the list: both sides must fail at the same action).

import (
	"bytes"
	"errors"
	"fmt"
	"sort"
	"strings"
	"testing"

	"github.com/ava-labs/hypersdk/auth"
	"github.com/ava-labs/hypersdk/chain"
	"github.com/ava-labs/hypersdk/chain/chaintest"
	"github.com/ava-labs/hypersdk/codec"
	"github.com/ava-labs/hypersdk/genesis"
	"github.com/ava-labs/hypersdk/keys"
	"github.com/ava-labs/hypersdk/state"
	"github.com/ava-labs/hypersdk/state/balance"
	"github.com/ava-labs/hypersdk/state/metadata"
	"github.com/ava-labs/hypersdk/vm"
	"github.com/ava-labs/hypersdk/vm/defaultvm"
	"github.com/ava-labs/hypersdk/zzverif/chainfx"
	"github.com/ava-labs/hypersdk/zzverif/kit"
)

// c30KVFactory = testVMFactory + chainfx.ProgAction in the action parser.
func c30KVFactory() (*vm.Factory, error) {
	actionParser := codec.NewTypeParser[chain.Action]()
	authParser := codec.NewTypeParser[chain.Auth]()
	outputParser := codec.NewTypeParser[codec.Typed]()
	if err := errors.Join(
		actionParser.Register(&chaintest.TestAction{}, chaintest.UnmarshalTestAction),
		actionParser.Register(&chainfx.ProgAction{}, func(b []byte) (chain.Action, error) { return chainfx.ParseProg(b) }),
		authParser.Register(&auth.ED25519{}, auth.UnmarshalED25519),
		outputParser.Register(&chaintest.TestOutput{}, chaintest.UnmarshalTestOutput),
	); err != nil {
		return nil, err
	}
	opts := append(defaultvm.NewDefaultOptions(), vm.WithManual())
	return vm.NewFactory(
		genesis.DefaultGenesisFactory{},
		balance.NewPrefixBalanceHandler([]byte{0}),
		metadata.NewDefaultManager(),
		actionParser, authParser, outputParser,
		auth.DefaultEngines(),
		opts...,
	), nil
}

// what the generator knows about a pool key (read through vm.ReadState before
// the case and evolved along the generated list; generation aid, not an oracle)
type c30KVState struct {
	present bool
	n       int  // length of the value
	isNil   bool // present, and ReadState hands out a nil slice for it
	zero    bool // single zero byte
	full    bool // maximal size for the key
}

func (s c30KVState) class() string {
	switch {
	case !s.present:
		return "absent"
	case s.n == 0 && s.isNil:
		return "nil"
	case s.n == 0:
		return "empty"
	case s.zero:
		return "zero"
	case s.full:
		return "full"
	}
	return "some"
}

type c30KVOp struct {
	Kind  string `json:"kind"` // get | put | del | fail
	Key   int    `json:"key"`
	Val   string `json:"val,omitempty"` // class of the value written
	Len   int    `json:"len,omitempty"`
	On    string `json:"on,omitempty"` // what the generator believes the key holds at this point
	Byte  byte   `json:"byte,omitempty"`
	IsNil bool   `json:"nil,omitempty"`
}

type c30KVAct struct {
	Ops  []c30KVOp      `json:"ops"`
	Decl map[int]string `json:"declared,omitempty"` // manual mode: key index -> permission
}

func c30PermName(p state.Permissions) string {
	var parts []string
	if p.Has(state.Read) {
		parts = append(parts, "R")
	}
	if p&state.Allocate&^state.Read != 0 {
		parts = append(parts, "A")
	}
	if p&state.Write&^state.Read != 0 {
		parts = append(parts, "W")
	}
	return strings.Join(parts, "")
}

func c30Phase3(t *testing.T, r *kit.Run, cases int) {
	f := auth.NewED25519Factory(keyFromSeed("c30kv", 0))
	fac, err := c30KVFactory()
	if err != nil {
		r.Inconclusive("phase 3 factory: %v", err)
		return
	}
	env, done, err := newC30Env(t, fac, []*genesis.CustomAllocation{{Address: f.Address(), Balance: 1_000_000_000}})
	if err != nil {
		r.Inconclusive("phase 3 set-up: %v", err)
		return
	}
	defer done()
	rng := r.Rand("kv")
	actor := f.Address()

	// key pool: value capacity 0 (only the empty value is legal), 1, 2 and 16 chunks
	chunksOf := []uint16{1, 1, 1, 1, 1, 1, 2, 2, 16, 0}
	nKeys := len(chunksOf)
	pool := make([][]byte, nKeys)
	maxLen := make([]int, nKeys)
	for i, c := range chunksOf {
		pool[i] = keys.EncodeChunks([]byte(fmt.Sprintf("\x7fc30kv-%d", i)), c)
		if c > 0 {
			maxLen[i] = 64*int(c) - 1 // keys.NumChunks(v) = len/64+1 for non-empty v
		}
	}
	observe := func() ([]c30KVState, error) {
		vals, errs := env.nd.hvm.ReadState(env.ctx, pool)
		st := make([]c30KVState, nKeys)
		for i := range pool {
			if errs[i] != nil {
				continue // absent (or unreadable: then both sides see the same)
			}
			v := vals[i]
			st[i] = c30KVState{present: true, n: len(v), isNil: v == nil, zero: len(v) == 1 && v[0] == 0, full: len(v) == maxLen[i]}
		}
		return st, nil
	}
	value := func(op *c30KVOp, key int) []byte {
		switch op.Val {
		case "nil":
			return nil
		case "empty":
			return []byte{}
		case "zero":
			return []byte{0}
		}
		return bytes.Repeat([]byte{op.Byte}, op.Len)
	}
	build := func(list []c30KVAct, c int, decl []state.Keys) []chain.Action {
		out := make([]chain.Action, len(list))
		for i, a := range list {
			pa := &chainfx.ProgAction{Nonce: uint64(c)<<8 | uint64(i), Compute: 1, Start: -1, End: -1}
			for j := range a.Ops {
				op := &a.Ops[j]
				switch op.Kind {
				case "get":
					pa.Ops = append(pa.Ops, chainfx.Op{Kind: chainfx.OpGet, Key: pool[op.Key]})
				case "put":
					pa.Ops = append(pa.Ops, chainfx.Op{Kind: chainfx.OpPut, Key: pool[op.Key], Val: value(op, op.Key)})
				case "del":
					pa.Ops = append(pa.Ops, chainfx.Op{Kind: chainfx.OpDel, Key: pool[op.Key]})
				case "fail":
					pa.Ops = append(pa.Ops, chainfx.Op{Kind: chainfx.OpFail})
				}
			}
			if decl != nil {
				for k, p := range decl[i] {
					pa.Keys = append(pa.Keys, chainfx.KeyDecl{Key: []byte(k), Perm: p})
				}
				pa.Canonicalize()
			}
			out[i] = pa
		}
		return out
	}

	// seeding transaction (not judged): empty (non-nil and nil), zero byte and
	// maximal values exist on chain from the first case on
	{
		seed := []c30KVAct{{Ops: []c30KVOp{
			{Kind: "put", Key: 0, Val: "empty"}, {Kind: "put", Key: 1, Val: "nil"},
			{Kind: "put", Key: 2, Val: "zero"}, {Kind: "put", Key: 3, Val: "full", Len: maxLen[3], Byte: 0xff},
			{Kind: "put", Key: 6, Val: "full", Len: maxLen[6], Byte: 0xfe}, {Kind: "put", Key: 9, Val: "empty"},
		}}}
		d := state.Keys{}
		for _, op := range seed[0].Ops {
			d[string(pool[op.Key])] = state.All
		}
		oc, err := env.onChain(f, build(seed, 1<<40, []state.Keys{d}))
		if err != nil || oc.Result == nil || !oc.Result.Success {
			r.Inconclusive("phase 3 seeding transaction: %v %s %+v", err, oc.Why, oc.Result)
			return
		}
	}

	for c := 0; c < cases; c++ {
		st0, _ := observe()
		nEmpty, nNil := 0, 0
		var emptyKeys []int
		for i, s := range st0 {
			if s.present && s.n == 0 {
				emptyKeys = append(emptyKeys, i)
				if s.isNil {
					nNil++
				} else {
					nEmpty++
				}
			}
		}
		env.wire = rng.IntN(3) == 0
		n := 1 + rng.IntN(4)
		if rng.IntN(4) == 0 {
			n = 5 + rng.IntN(12)
		}
		cur := append([]c30KVState(nil), st0...)
		deleted := map[int]bool{}
		list := make([]c30KVAct, n)
		needed := make([]map[int]state.Permissions, n)
		planted := false // a failure cause independent of the declaration (explicit fail / value too large)
		cnt := map[string]int{}
		var shape strings.Builder
		pickKey := func() int {
			if len(emptyKeys) > 0 && rng.IntN(100) < 45 {
				return emptyKeys[rng.IntN(len(emptyKeys))]
			}
			return rng.IntN(nKeys)
		}
		for i := range list {
			need := map[int]state.Permissions{}
			nops := 1 + rng.IntN(4)
			var ops []c30KVOp
			for j := 0; j < nops; j++ {
				k := pickKey()
				on := cur[k].class()
				emptyOn := cur[k].present && cur[k].n == 0
				switch x := rng.IntN(100); {
				case x < 1:
					ops = append(ops, c30KVOp{Kind: "fail"})
					planted = true
					shape.WriteString("F")
				case x < 36:
					ops = append(ops, c30KVOp{Kind: "get", Key: k, On: on})
					need[k] |= state.Read
					cnt["gets_on_"+on]++
					fmt.Fprintf(&shape, "g%d%s", k, on)
				case x < 80:
					op := c30KVOp{Kind: "put", Key: k, On: on, Byte: byte(1 + rng.IntN(255))}
					switch y := rng.IntN(100); {
					case y < 20:
						op.Val = "empty"
					case y < 32:
						op.Val, op.IsNil = "nil", true
					case y < 42:
						op.Val, op.Len = "zero", 1
					case y < 56:
						op.Val, op.Len = "full", maxLen[k]
					case y < 58:
						op.Val, op.Len = "over", maxLen[k]+1
					default:
						op.Val, op.Len = "some", 1+rng.IntN(max(maxLen[k], 1))
					}
					if maxLen[k] == 0 && op.Len > 0 && op.Val != "over" && rng.IntN(8) > 0 {
						// capacity 0: only the empty value is legal; mostly write that
						op.Val, op.Len = "empty", 0
					}
					if op.Len == 0 && op.Val == "full" { // capacity 0
						op.Val = "empty"
					}
					if op.Len > maxLen[k] {
						op.Val = "over"
						planted = true
					}
					ops = append(ops, op)
					if cur[k].present {
						need[k] |= state.Write
						cnt["overwrites_of_"+on]++
						if emptyOn && op.Len == 0 {
							cnt["empty_over_empty"]++
						}
					} else {
						need[k] |= state.Write | state.Allocate
						cnt["creates"]++
						if deleted[k] {
							cnt["recreates_after_delete_in_list"]++
						}
					}
					if op.Len <= maxLen[k] {
						cur[k] = c30KVState{present: true, n: op.Len, isNil: op.IsNil, zero: op.Val == "zero", full: op.Len == maxLen[k] && op.Len > 0}
						cnt["puts_"+op.Val]++
					}
					fmt.Fprintf(&shape, "p%d%s>%s", k, on, op.Val)
				default:
					ops = append(ops, c30KVOp{Kind: "del", Key: k, On: on})
					need[k] |= state.Write
					cnt["deletes_of_"+on]++
					if cur[k].present {
						deleted[k] = true
					}
					cur[k] = c30KVState{}
					fmt.Fprintf(&shape, "d%d%s", k, on)
				}
			}
			list[i].Ops = ops
			needed[i] = need
			shape.WriteString(";")
		}
		w := map[string]any{"phase": 3, "case": c, "wire": env.wire, "actions": list}
		stNames := make([]string, nKeys)
		for i, s := range st0 {
			stNames[i] = fmt.Sprintf("%d:%s/%d", i, s.class(), s.n)
		}
		w["state"] = stNames

		// declaration mode
		mode := "simulated"
		if rng.IntN(100) < 40 {
			mode = "manual"
		}
		var sim *c30API
		if mode == "simulated" {
			undeclared := build(list, c, nil)
			r.Guard("jsonrpc-simulate", w, func() { sim = env.callAPIs(actor, undeclared) })
			if sim == nil {
				continue
			}
			if sim.SimErr != "" {
				// nothing reported that could be declared: compare the execution API on a manual declaration
				r.Count("p3_simulation_failed_lists", 1)
				w["simulate_undeclared_error"] = sim.SimErr
				mode, sim = "manual-after-failed-simulation", nil
			}
		}
		decl := make([]state.Keys, n)
		victim, victimKind := -1, ""
		if sim != nil {
			for i := range decl {
				decl[i] = sim.simKeys[i]
			}
			w["simulated_keys"] = sim.SimKeys
		} else {
			// every action declares what it needs itself (ExecuteActions scopes an
			// action to its own keys, a transaction to the union over its actions)
			all := rng.IntN(100) < 15
			if rng.IntN(100) < 22 {
				var touched []int
				for k := 0; k < nKeys; k++ {
					for i := range needed {
						if _, ok := needed[i][k]; ok {
							touched = append(touched, k)
							break
						}
					}
				}
				if len(touched) > 0 {
					victim = touched[rng.IntN(len(touched))]
					victimKind = []string{"no-allocate", "read-only", "undeclared"}[rng.IntN(3)]
					all = false
				}
			}
			for i := range decl {
				decl[i] = state.Keys{}
				list[i].Decl = map[int]string{}
				for k, p := range needed[i] {
					if all {
						p = state.All
					}
					if k == victim {
						switch victimKind {
						case "no-allocate":
							p = p &^ (state.Allocate &^ state.Read)
						case "read-only":
							p = state.Read
						case "undeclared":
							continue
						}
					}
					decl[i][string(pool[k])] = p
					list[i].Decl[k] = c30PermName(p)
				}
			}
			w["victim_key"], w["victim_kind"] = victim, victimKind
		}
		w["mode"] = mode
		declared := build(list, c, decl)
		// does the list declare a key that vm.ReadState reports as present with a nil slice?
		touchesNil, touchesEmpty := false, false
		writeOnlyOnEmpty := 0
		for i := range decl {
			for k, s := range st0 {
				p, ok := decl[i][string(pool[k])]
				if !ok || !s.present || s.n != 0 {
					continue
				}
				touchesEmpty = true
				if s.isNil {
					touchesNil = true
				}
				if p.Has(state.Write) && !p.Has(state.Allocate) {
					writeOnlyOnEmpty++
				}
			}
		}
		var api *c30API
		r.Guard("jsonrpc-apis", w, func() { api = env.callAPIs(actor, declared) })
		if api == nil {
			continue
		}
		oc, err := env.onChain(f, declared)
		if err != nil {
			r.Inconclusive("phase 3 case %d: chain harness error: %v", c, err)
			return
		}
		r.Eval()
		if oc.Result == nil {
			r.Count("p3_no_onchain_counterpart", 1)
			w["why"] = oc.Why
			if sim != nil {
				r.Violation("C30/simulated-keys-tx-not-executable", w, "a transaction declaring the simulated keys could not be executed on chain: %s", oc.Why)
			}
			continue
		}
		res := oc.Result
		if res.Fee != 0 {
			r.Inconclusive("phase 3 case %d: fee %d is not zero", c, res.Fee)
			return
		}
		r.Count("p3_onchain_txs", 1)
		r.Count("p3_mode_"+mode, 1)
		r.Count("p3_txs_parsed_from_wire", btoi(env.wire))
		r.Count("p3_state_empty_valued_keys(sum over cases)", nEmpty)
		r.Count("p3_state_nil_valued_keys(sum over cases)", nNil)
		r.Count("p3_lists_declaring_an_empty_valued_key", btoi(touchesEmpty))
		r.Count("p3_lists_declaring_a_nil_valued_key", btoi(touchesNil))
		r.Count("p3_write_without_allocate_declared_on_empty_valued_key", writeOnlyOnEmpty)
		if victim >= 0 {
			r.Count("p3_underdeclared_lists", 1)
		}
		if res.Success {
			r.Count("p3_chain_success", 1)
		} else {
			r.Count("p3_chain_failed", 1)
			if !planted && victim < 0 {
				r.Count("p3_chain_failed_without_planted_cause", 1)
			}
		}
		ks := make([]string, 0, len(cnt))
		for k := range cnt {
			ks = append(ks, k)
		}
		sort.Strings(ks)
		for _, k := range ks {
			r.Count("p3_ops_"+k, cnt[k])
		}
		o := c30JudgeOpts{skipSimOnChainFailure: sim == nil && !(planted && victim < 0)}
		if touchesNil {
			o.execKeySuffix = "/nil-valued-key"
		}
		ok := c30JudgeOpt(r, w, api, res, o)
		if sim != nil {
			switch {
			case !res.Success:
				ok = false
				r.Violation("C30/simulated-keys-insufficient", w, "simulation succeeded, but the transaction declaring the simulated keys fails at action %d: %s", len(res.Outputs), res.Error)
			case !outsEqual(sim.simOut, res.Outputs):
				ok = false
				r.Violation("C30/simulated-keys-outputs-differ", w, "outputs of the simulation %v differ from the transaction declaring its keys %v", hexAll(sim.simOut), hexAll(res.Outputs))
			default:
				r.Count("p3_declared_txs_ok", 1)
			}
		}
		r.Distinct("p3", mode, victimKind, shape.String(), res.Success, len(res.Outputs))
		if ok && c%97 == 0 {
			r.Sample(w)
		}
	}
}
