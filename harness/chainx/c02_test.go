package chainx

import (
	"bytes"
	"context"
	"fmt"
	"math/rand/v2"
	"sync"
	"testing"
	"time"

	"github.com/ava-labs/avalanchego/ids"
	"github.com/ava-labs/avalanchego/x/merkledb"

	"github.com/ava-labs/hypersdk/chain"
	"github.com/ava-labs/hypersdk/fees"
	"github.com/ava-labs/hypersdk/internal/mempool"
	"github.com/ava-labs/hypersdk/zzverif/chainfx"
	"github.com/ava-labs/hypersdk/zzverif/kit"
	"github.com/ava-labs/hypersdk/zzverif/kit/hooks"
)

// waitMempool wraps the real mempool and lets the harness wait until the
// builder's asynchronous FinishStreaming has returned (see DESIGN C02: issuing
// the next build before that can deadlock the mempool, which no property states).
type waitMempool struct {
	*mempool.Mempool[*chain.Transaction]
	mu       sync.Mutex
	cond     *sync.Cond
	started  int
	finished int
	restored int
}

func newWaitMempool(maxSize, maxSponsor int) *waitMempool {
	w := &waitMempool{Mempool: mempool.New[*chain.Transaction](nil2tracer(), maxSize, maxSponsor)}
	w.cond = sync.NewCond(&w.mu)
	return w
}

func (w *waitMempool) StartStreaming(ctx context.Context) {
	w.mu.Lock()
	w.started++
	w.mu.Unlock()
	w.Mempool.StartStreaming(ctx)
}

func (w *waitMempool) FinishStreaming(ctx context.Context, restorable []*chain.Transaction) int {
	n := w.Mempool.FinishStreaming(ctx, restorable)
	w.mu.Lock()
	w.finished++
	w.restored += n
	w.cond.Broadcast()
	w.mu.Unlock()
	return n
}

// waitIdle blocks until every started stream has finished.
func (w *waitMempool) waitIdle() {
	w.mu.Lock()
	for w.finished < w.started {
		w.cond.Wait()
	}
	w.mu.Unlock()
}

type c02Witness struct {
	Case     int      `json:"case"`
	Block    int      `json:"block"`
	Cfg      string   `json:"cfg"`
	Mempool  []string `json:"mempool"`
	Built    []string `json:"built_txs"`
	BlockHex string   `json:"block_bytes"`
}

func TestC02(t *testing.T) {
	r := kit.Start(t, "C02", "exploration")
	r.Rule("case = random world + chain of 2..5 blocks built by the real builder from the real mempool filled with valid, conflicting, failing, expired, future-dated, wrong-chain, too-many-actions, not-yet/no-longer-activated, underfunded and already-included transactions, under rules with (sometimes) tiny block unit limits / window targets, tiny TargetTxsSize, build durations 1..200 ms, 1..8 cores, sometimes >256 transactions (several stream batches + async PrepareStream). Every built block is re-parsed from its bytes and verified by a fresh processor (replay check on) on the same parent view; accept, state root, marshalled results, unit prices and units consumed must equal the builder's, and equal the sequential model applied to the block's transactions. Non-trivial = built block with >=1 transaction while the mempool also held >=1 transaction the builder had to skip; distinct = distinct (included/skipped pattern, conflict shape).")
	r.Assume("mempool contents are what Submit could have admitted signature-wise (valid auth)", "the harness waits for the builder's asynchronous FinishStreaming before the next build (DESIGN C02 hazard)")
	ctx := context.Background()
	p := hooks.NewPerturb(r.Rand("hooks"))
	p.PYield, p.PSpin = 0.2, 0.03
	p.Install()
	defer hooks.Uninstall()
	rng := r.Rand("cases")
	nCases := r.N(60, 1500)
	for ci := 0; ci < nCases && r.Violations() < 5; ci++ {
		rules := chainfx.LooseRules()
		rules.MinBlockGap, rules.MinEmptyBlockGap = 1, 1
		// sometimes empty blocks are (almost) never allowed: a build that can include nothing must fail
		longEmptyGap := rng.IntN(4) == 0
		if longEmptyGap {
			rules.MinEmptyBlockGap = 3_600_000
		}
		tight := rng.IntN(3) == 0
		if tight {
			// a handful of transactions fill the block; the target decides between "skip" and "block full"
			rules.MaxBlockUnits = fees.Dimensions{uint64(600 + rng.IntN(4000)), uint64(20 + rng.IntN(100)), uint64(40 + rng.IntN(400)), uint64(100 + rng.IntN(800)), uint64(60 + rng.IntN(500))}
			for i := range rules.WindowTargetUnits {
				rules.WindowTargetUnits[i] = rules.MaxBlockUnits[i] / uint64(1+rng.IntN(4))
			}
		}
		w := chainfx.NewWorld(rng, 4+rng.IntN(6), 3+rng.IntN(3), rng.IntN(4) == 0, rules)
		if rng.IntN(4) == 0 {
			w.Balances[rng.IntN(len(w.Balances))] = uint64(30000 * (1 + rng.IntN(5)))
		}
		fx, err := w.Fixture()
		if err != nil {
			t.Fatal(err)
		}
		cc := chain.NewDefaultConfig()
		cc.TargetBuildDuration = time.Duration(1+rng.IntN(200)) * time.Millisecond
		if rng.IntN(5) == 0 {
			cc.TargetTxsSize = 300 + rng.IntN(3000)
		}
		mp := newWaitMempool(100_000, 100_000)
		cfg := chainfx.ChainCfg{Cores: []int{1, 2, 4, 8}[rng.IntN(4)], Fetch: 1 + rng.IntN(4), SigWorkers: rng.IntN(3), Mempool: mp, Config: &cc}
		builder, err := fx.NewChain(cfg)
		if err != nil {
			t.Fatal(err)
		}
		cfgName := fmt.Sprintf("cores=%d tight=%v buildMs=%d txsSize=%d", cfg.Cores, tight, cc.TargetBuildDuration.Milliseconds(), cc.TargetTxsSize)
		model := w.Model()
		parentOut := &chain.OutputBlock{ExecutionBlock: fx.Genesis, View: fx.DB, ExecutionResults: &chain.ExecutionResults{}}
		var included []*chain.Transaction
		var pendingAccept []*chain.ExecutionBlock
		nBlocks := 2 + rng.IntN(4)
		g := chainfx.DefaultGen()
		g.ExpirySlack = 20
		for bi := 0; bi < nBlocks; bi++ {
			now := time.Now().UnixMilli()
			// fill the mempool
			n := 1 + rng.IntN(40)
			if rng.IntN(6) == 0 {
				n = 257 + rng.IntN(300)
			}
			var pool []*chain.Transaction
			var desc []string
			allInvalid := longEmptyGap && rng.IntN(2) == 0
			if allInvalid {
				n = 1 + rng.IntN(6)
				r.Count("pools_with_only_unincludable_txs", 1)
			}
			for i := 0; i < n; i++ {
				kind := "valid"
				tx, err := w.GenTx(rng, g, now+1500) // expiry comfortably ahead of the build time
				if err != nil {
					t.Fatal(err)
				}
				x := rng.IntN(40)
				if allInvalid {
					x = rng.IntN(6)
				}
				switch {
				case x == 0:
					kind = "expired"
					tx, err = chainfx.Tx(chain.Base{Timestamp: (now/1000 - int64(1+rng.IntN(30))) * 1000, ChainID: rules.ChainID, MaxFee: 1 << 50}, tx.Actions, pick(rng, w))
				case x == 1:
					kind = "future"
					tx, err = chainfx.Tx(chain.Base{Timestamp: (now/1000 + 70 + int64(rng.IntN(100))) * 1000, ChainID: rules.ChainID, MaxFee: 1 << 50}, tx.Actions, pick(rng, w))
				case x == 2:
					kind = "wrong-chain"
					tx, err = chainfx.Tx(chain.Base{Timestamp: tx.Base.Timestamp, ChainID: ids.ID{9, 9}, MaxFee: 1 << 50}, tx.Actions, pick(rng, w))
				case x == 3:
					kind = "too-many-actions"
					var acts []chain.Action
					for k := 0; k < int(rules.MaxActionsPerTx)+1+rng.IntN(3); k++ {
						acts = append(acts, w.GenAction(rng, g))
					}
					tx, err = chainfx.Tx(tx.Base, acts, pick(rng, w))
				case x == 4:
					kind = "inactive-action"
					a := w.GenAction(rng, g)
					if rng.IntN(2) == 0 {
						a.Start = now + 3_600_000
					} else {
						a.End = now - 3_600_000
					}
					tx, err = chainfx.Tx(tx.Base, []chain.Action{a}, pick(rng, w))
				case x == 5:
					kind = "unaligned-expiry"
					tx, err = chainfx.Tx(chain.Base{Timestamp: tx.Base.Timestamp + 1 + int64(rng.IntN(998)), ChainID: rules.ChainID, MaxFee: 1 << 50}, tx.Actions, pick(rng, w))
				case x == 6 && len(included) > 0:
					kind = "already-included"
					tx = included[rng.IntN(len(included))]
				}
				if err != nil {
					t.Fatal(err)
				}
				pool = append(pool, tx)
				desc = append(desc, kind+": "+chainfx.DescribeTx(tx))
			}
			mp.Add(ctx, pool)
			wit := c02Witness{Case: ci, Block: bi, Cfg: cfgName, Mempool: desc}
			var eb *chain.ExecutionBlock
			var ob *chain.OutputBlock
			var berr error
			r.Guard("Chain.BuildBlock", wit, func() { eb, ob, berr = builder.Chain.BuildBlock(ctx, nil, parentOut) })
			mp.waitIdle()
			r.Eval()
			if berr != nil {
				// building nothing is always allowed by the statement
				r.Count("build_errors", 1)
				time.Sleep(2 * time.Millisecond)
				continue
			}
			for _, tx := range eb.StatelessBlock.Txs {
				wit.Built = append(wit.Built, chainfx.DescribeTx(tx))
			}
			wit.BlockHex = kit.Hex(eb.GetBytes())
			broot, err := ob.View.GetMerkleRoot(ctx)
			if err != nil {
				t.Fatal(err)
			}
			// verification by a fresh processor on the same parent
			vcfg := chainfx.ChainCfg{Cores: []int{1, 2, 4, 8}[rng.IntN(4)], Fetch: 1 + rng.IntN(4), SigWorkers: rng.IntN(3)}
			var vo execOutcome
			r.Guard("Chain.Execute", wit, func() { vo = execOnce(ctx, fx, vcfg, eb, parentOut.View) })
			if vo.err != nil {
				r.Violation("C02/built-block-fails-verification", wit, "verification of the built block failed: %v", vo.err)
				break
			}
			bres := ob.ExecutionResults
			if vo.root != broot.String() || !bytes.Equal(vo.results, bres.Marshal()) || vo.prices != bres.UnitPrices || vo.consumed != bres.UnitsConsumed {
				r.Violation("C02/verification-diverges", wit, "builder root %s results %x prices %v units %v; verifier root %s results %x prices %v units %v",
					broot, bres.Marshal(), bres.UnitPrices, bres.UnitsConsumed, vo.root, vo.results, vo.prices, vo.consumed)
				break
			}
			// and the sequential model agrees with both
			pm := model.Clone()
			pred := pm.ApplyBlock(eb.StatelessBlock.Txs, bres.UnitPrices)
			if pred.Invalid != "" {
				r.Violation("C02/built-block-invalid-in-model", wit, "model rejects the built block: %s", pred.Invalid)
				break
			}
			if d := compareWithModel(ctx, fx, w, vo.out, pred, pm, eb); d != "" {
				r.Violation("C02/differs-from-sequential-model", wit, "%s", d)
				break
			}
			seen := map[ids.ID]bool{}
			for _, tx := range included {
				seen[tx.GetID()] = true
			}
			for _, tx := range eb.StatelessBlock.Txs {
				if seen[tx.GetID()] {
					r.Violation("C02/built-block-repeats-tx", wit, "built block repeats transaction %s of an ancestor or of itself", tx.GetID())
				}
				seen[tx.GetID()] = true
			}
			nb := len(eb.StatelessBlock.Txs)
			r.Count("built_blocks", 1)
			r.Count("built_txs", nb)
			r.Count("mempool_txs_offered", len(pool))
			if nb > 0 && nb < len(pool) {
				shape, _ := conflictShape(eb.StatelessBlock.Txs, fx)
				r.Distinct(nb, len(pool), shape)
				r.Sample(map[string]any{"cfg": cfgName, "offered": len(pool), "built": nb})
			}
			included = append(included, eb.StatelessBlock.Txs...)
			model = pm
			fx.Index.Put(eb)
			parentOut = vo.out
			// the accepted prefix advances in order, lagging behind the tip by a PRNG-chosen amount
			pendingAccept = append(pendingAccept, eb)
			for len(pendingAccept) > 0 && rng.IntN(2) == 0 {
				builder.VW.Accept(pendingAccept[0])
				pendingAccept = pendingAccept[1:]
			}
			time.Sleep(2 * time.Millisecond)
		}
		mp.waitIdle()
		builder.Close()
	}
	r.Extra("hook_hits", p.Hits())
	r.Finish(r.N(40, 800))
}

func pick(rng *rand.Rand, w *chainfx.World) chain.AuthFactory {
	return w.Factories[rng.IntN(len(w.Factories))]
}

var _ merkledb.View
