package chainx

import (
	"context"
	"errors"
	"fmt"
	"math/rand/v2"
	"runtime"
	"sort"
	"sync"
	"testing"
	"time"

	"github.com/ava-labs/avalanchego/database"
	"github.com/ava-labs/avalanchego/ids"
	"github.com/ava-labs/avalanchego/x/merkledb"

	"github.com/ava-labs/hypersdk/chain"
	"github.com/ava-labs/hypersdk/internal/fetcher"
	"github.com/ava-labs/hypersdk/state"
	"github.com/ava-labs/hypersdk/zzverif/chainfx"
	"github.com/ava-labs/hypersdk/zzverif/kit"
)

var errInjected = errors.New("injected read error")

// recIm is a recording, delaying, fault-injecting state.Immutable.
type recIm struct {
	mu      sync.Mutex
	data    map[string][]byte
	reads   map[string]int
	failKey string // "" = none
	delays  map[string]int
}

func (m *recIm) GetValue(_ context.Context, key []byte) ([]byte, error) {
	k := string(key)
	m.mu.Lock()
	m.reads[k]++
	d := m.delays[k]
	fail := m.failKey != "" && k == m.failKey
	v, ok := m.data[k]
	m.mu.Unlock()
	for i := 0; i < d; i++ {
		runtime.Gosched()
	}
	if fail {
		return nil, errInjected
	}
	if !ok {
		return nil, database.ErrNotFound
	}
	return v, nil
}

type c24FetchCase struct {
	Concurrency int               `json:"concurrency"`
	Parent      map[string]string `json:"parent"`
	Txs         [][]string        `json:"tx_keys"`
	TxIDs       []int             `json:"tx_ids"` // equal numbers = the same transaction id registered again
	FailKey     string            `json:"fail_key,omitempty"`
}

func TestC24(t *testing.T) {
	r := kit.Start(t, "C24", "exploration")
	r.Rule("fetcher level: random parent states over 8 keys, 1..24 transactions with overlapping key sets (incl. the same transaction id registered twice), fetch concurrency 1..16, PRNG read delays, optionally one key whose read fails; a recording state.Immutable checks requested keys are a subset of the declared ones, every Get returns exactly the parent's value/absence for exactly the transaction's keys, an injected error surfaces from Fetch/Get/Wait (never a hang: deadlock witness; never silently 'absent'). Processor level: Chain.Execute over a recording / fault-injecting wrapper of the parent view: requested keys are a subset of declared keys + {height, timestamp, fee} and an injected read error fails the block. Distinct = distinct (overlap shape, concurrency, fault position).")
	r.Assume("Fetch is called from one goroutine in registration order, Get concurrently (as chain/processor.go uses it)")
	ctx := context.Background()
	rng := r.Rand("fetcher")
	n := r.N(3000, 100000)
	keysU := []string{"k0", "k1", "k2", "k3", "k4", "k5", "k6", "k7"}
	for ci := 0; ci < n && r.Violations() < 6; ci++ {
		c := c24FetchCase{Concurrency: 1 + rng.IntN(16), Parent: map[string]string{}}
		im := &recIm{data: map[string][]byte{}, reads: map[string]int{}, delays: map[string]int{}}
		for _, k := range keysU {
			if rng.IntN(3) != 0 {
				v := fmt.Sprintf("v-%s-%d", k, rng.IntN(100))
				if rng.IntN(6) == 0 {
					v = ""
				}
				im.data[k] = []byte(v)
				c.Parent[k] = v
			}
			im.delays[k] = rng.IntN(40)
		}
		ntx := 1 + rng.IntN(24)
		nextID := 0
		for i := 0; i < ntx; i++ {
			if i > 0 && rng.IntN(10) == 0 {
				// the same transaction again: same id, same keys
				j := rng.IntN(i)
				c.Txs = append(c.Txs, c.Txs[j])
				c.TxIDs = append(c.TxIDs, c.TxIDs[j])
				continue
			}
			var ks []string
			for _, k := range keysU {
				if rng.IntN(3) == 0 {
					ks = append(ks, k)
				}
			}
			c.Txs = append(c.Txs, ks)
			c.TxIDs = append(c.TxIDs, nextID)
			nextID++
		}
		if rng.IntN(4) == 0 {
			c.FailKey = keysU[rng.IntN(len(keysU))]
			im.failKey = c.FailKey
		}
		judgeFetcher(ctx, r, c, im)
		dup := false
		seen := map[int]bool{}
		for _, id := range c.TxIDs {
			if seen[id] {
				dup = true
			}
			seen[id] = true
		}
		r.Distinct(c.Concurrency, c.Txs, c.FailKey, dup)
		if ci < 3 {
			r.Sample(c)
		}
	}

	// ---- processor level ----
	rng = r.Rand("processor")
	np := r.N(150, 4000)
	for ci := 0; ci < np && r.Violations() < 6; ci++ {
		w := chainfx.NewWorld(rng, 4+rng.IntN(6), 3, false, chainfx.LooseRules())
		fx, err := w.Fixture()
		if err != nil {
			t.Fatal(err)
		}
		g := chainfx.DefaultGen()
		ts := int64(1_700_000_000_000)
		var txs []*chain.Transaction
		declared := map[string]bool{}
		for i := 0; i < 1+rng.IntN(20); i++ {
			tx, err := w.GenTx(rng, g, ts)
			if err != nil {
				t.Fatal(err)
			}
			txs = append(txs, tx)
			sk, err := tx.StateKeys(fx.BH)
			if err != nil {
				t.Fatal(err)
			}
			for k := range sk {
				declared[k] = true
			}
		}
		meta := map[string]bool{
			string(chain.HeightKey(fx.MM.HeightPrefix())):       true,
			string(chain.TimestampKey(fx.MM.TimestampPrefix())): true,
			string(chain.FeeKey(fx.MM.FeePrefix())):             true,
		}
		blk, err := fx.Block(fx.Genesis, fx.DB, ts, txs)
		if err != nil {
			t.Fatal(err)
		}
		rv := &recView{View: fx.DB, reads: map[string]int{}}
		var dk []string
		for k := range declared {
			dk = append(dk, k)
		}
		sort.Strings(dk)
		inject := rng.IntN(2) == 0
		if inject {
			rv.failKey = dk[rng.IntN(len(dk))]
			if rng.IntN(3) == 0 {
				// the chain metadata keys are read from the parent too: a failing read there must fail the block as well
				var mk []string
				for k := range meta {
					mk = append(mk, k)
				}
				sort.Strings(mk)
				rv.failKey = mk[rng.IntN(len(mk))]
				r.Count("blocks_with_injected_error_on_metadata_key", 1)
			}
		}
		wit := map[string]any{"txs": describeAll(txs), "fail_key": kit.Hex([]byte(rv.failKey)), "cores": 0}
		cfg := chainfx.ChainCfg{Cores: 1 + rng.IntN(8), Fetch: 1 + rng.IntN(16), SigWorkers: rng.IntN(3)}
		wit["cores"], wit["fetch"] = cfg.Cores, cfg.Fetch
		var o execOutcome
		done := kit.Go(func() { r.Guard("Chain.Execute", wit, func() { o = execOnce(ctx, fx, cfg, blk, rv) }) })
		res, stacks := kit.AwaitOrDeadlock(done, []string{"internal/fetcher", "internal/executor", "chain.(*Processor)"}, 3*time.Second, 90*time.Second)
		r.Eval()
		switch res {
		case kit.Deadlock:
			wit["stacks"] = stacks
			r.Violation("C24/execute-hangs", wit, "Chain.Execute did not return (deadlock witness), inject=%v", inject)
			continue
		case kit.Unknown:
			r.Inconclusive("Chain.Execute still running after the watchdog without a deadlock witness")
			continue
		}
		rv.mu.Lock()
		for k := range rv.reads {
			if !declared[k] && !meta[k] {
				r.Violation("C24/undeclared-key-read-from-parent", wit, "execution asked the parent state for key %q (hex %x), which no transaction declared and which is not a chain metadata key", k, k)
				break
			}
		}
		nreads := len(rv.reads)
		failRead := rv.reads[rv.failKey] > 0
		rv.mu.Unlock()
		r.Count("parent_keys_read", nreads)
		if inject && failRead && o.err == nil {
			r.Violation("C24/read-error-not-fatal", wit, "a read of key %x (declared by a transaction or chain metadata) failed but the block was executed successfully", rv.failKey)
		}
		if inject {
			r.Count("blocks_with_injected_error", 1)
		}
		r.Distinct("proc", len(txs), cfg.Fetch, inject, len(dk))
	}
	r.Finish(r.N(500, 5000))
}

func describeAll(txs []*chain.Transaction) []string {
	var out []string
	for _, tx := range txs {
		out = append(out, chainfx.DescribeTx(tx))
	}
	return out
}

// recView wraps the parent merkledb view.
type recView struct {
	merkledb.View
	mu      sync.Mutex
	reads   map[string]int
	failKey string
}

func (v *recView) GetValue(ctx context.Context, key []byte) ([]byte, error) {
	v.mu.Lock()
	v.reads[string(key)]++
	fail := v.failKey != "" && string(key) == v.failKey
	v.mu.Unlock()
	if fail {
		return nil, errInjected
	}
	return v.View.GetValue(ctx, key)
}

func judgeFetcher(ctx context.Context, r0 *kit.Run, c c24FetchCase, im *recIm) {
	r := &dupClassifier{Run: r0}
	{
		seen := map[int]bool{}
		for _, id := range c.TxIDs {
			if seen[id] {
				r.dup = true
			}
			seen[id] = true
		}
	}
	f := fetcher.New(im, len(c.Txs), c.Concurrency)
	type getRes struct {
		m   map[string][]byte
		err error
	}
	results := make([]getRes, len(c.Txs))
	var wg sync.WaitGroup
	var fetchErr error
	idOf := func(i int) ids.ID { return ids.ID{byte(c.TxIDs[i] + 1), 0xC2} }
	work := kit.Go(func() {
		r.Guard("fetcher", c, func() {
			for i := range c.Txs {
				if err := f.Fetch(ctx, idOf(i), c.Txs[i]); err != nil {
					fetchErr = err
					break
				}
				wg.Add(1)
				go func(i int) {
					defer wg.Done()
					m, err := f.Get(idOf(i))
					results[i] = getRes{m, err}
				}(i)
			}
			wg.Wait()
			if err := f.Wait(); err != nil && fetchErr == nil {
				fetchErr = err
			}
		})
	})
	res, stacks := kit.AwaitOrDeadlock(work, []string{"internal/fetcher"}, 2*time.Second, 60*time.Second)
	r.Eval()
	switch res {
	case kit.Deadlock:
		r.Violation("C24/fetcher-hangs", map[string]any{"case": c, "stacks": stacks}, "Fetch/Get/Wait did not return (deadlock witness)")
		return
	case kit.Unknown:
		r.Inconclusive("fetcher still running after the watchdog without a deadlock witness")
		return
	}
	declared := map[string]bool{}
	for _, ks := range c.Txs {
		for _, k := range ks {
			declared[k] = true
		}
	}
	im.mu.Lock()
	defer im.mu.Unlock()
	for k := range im.reads {
		if !declared[k] {
			r.Violation("C24/fetcher-reads-undeclared-key", c, "fetcher asked the parent for %q which no registered transaction declared", k)
			return
		}
	}
	failTouched := c.FailKey != "" && im.reads[c.FailKey] > 0
	if failTouched && fetchErr == nil {
		r.Violation("C24/read-error-swallowed", c, "read of %s failed but neither Fetch nor Wait reported an error", c.FailKey)
	}
	if !failTouched && fetchErr != nil {
		r.Violation("C24/spurious-fetch-error", c, "no read failed but Fetch/Wait returned %v", fetchErr)
	}
	for i, gr := range results {
		if gr.m == nil && gr.err == nil {
			continue // Get never started (Fetch failed earlier)
		}
		if gr.err != nil {
			if !failTouched {
				r.Violation("C24/spurious-get-error", c, "Get(tx %d) = %v without any failing read", i, gr.err)
			}
			continue
		}
		r.Count("gets_checked", 1)
		for _, k := range c.Txs[i] {
			want, present := im.data[k]
			got, ok := gr.m[k]
			if k == c.FailKey {
				if !ok {
					r.Violation("C24/read-error-treated-as-absent", c, "tx %d declared %s whose read failed, yet Get returned successfully without it", i, k)
				}
				continue
			}
			if present != ok || string(got) != string(want) {
				r.Violation("C24/get-differs-from-parent", c, "tx %d key %s: Get returned (%q, present=%v), parent has (%q, present=%v)", i, k, got, ok, want, present)
				return
			}
		}
		if len(gr.m) > len(c.Txs[i]) {
			r.Violation("C24/get-returns-extra-keys", c, "tx %d declared %d keys, Get returned %d", i, len(c.Txs[i]), len(gr.m))
		}
	}
}

// dupClassifier prefixes violation keys of cases that register a transaction id
// twice, so that this input class is matched separately by known findings.
type dupClassifier struct {
	*kit.Run
	dup bool
}

func (d *dupClassifier) Violation(key string, witness any, format string, args ...any) {
	if d.dup {
		key = "C24/duplicate-txid/" + key[len("C24/"):]
	}
	d.Run.Violation(key, witness, format, args...)
}

var (
	_ = rand.New
	_ state.Keys
)
