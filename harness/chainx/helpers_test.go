package chainx

import (
	"bytes"
	"context"
	"encoding/binary"
	"encoding/json"
	"fmt"
	"math/rand/v2"
	"runtime"
	"sort"
	"time"

	"github.com/ava-labs/avalanchego/ids"
	"github.com/ava-labs/avalanchego/trace"
	"github.com/ava-labs/avalanchego/utils/maybe"
	"github.com/ava-labs/avalanchego/x/merkledb"

	"github.com/ava-labs/hypersdk/chain"
	"github.com/ava-labs/hypersdk/codec"
	"github.com/ava-labs/hypersdk/examples/morpheusvm/actions"
	"github.com/ava-labs/hypersdk/examples/morpheusvm/storage"
	"github.com/ava-labs/hypersdk/fees"
	"github.com/ava-labs/hypersdk/genesis"
	"github.com/ava-labs/hypersdk/state/balance"
	"github.com/ava-labs/hypersdk/zzverif/chainfx"
	"github.com/ava-labs/hypersdk/zzverif/kit"

	mvm "github.com/ava-labs/hypersdk/examples/morpheusvm/vm"
)

func jsonUnmarshal(b []byte, v any) error { return json.Unmarshal(b, v) }

// expectedRoot computes the merkle root of parentView + (model diff pre->post)
// + the chain metadata keys taken from the executed block's own view. Equality
// with the executed view's root shows that execution touched nothing else.
func expectedRoot(ctx context.Context, fx *chainfx.Fixture, parentView merkledb.View, pre, post map[string][]byte, out *chain.OutputBlock) (ids.ID, error) {
	ops := map[string]maybe.Maybe[[]byte]{}
	for k, v := range post {
		if pv, ok := pre[k]; !ok || !bytes.Equal(pv, v) {
			ops[k] = maybe.Some(v)
		}
	}
	for k := range pre {
		if _, ok := post[k]; !ok {
			ops[k] = maybe.Nothing[[]byte]()
		}
	}
	ops[string(chain.HeightKey(fx.MM.HeightPrefix()))] = maybe.Some(binary.BigEndian.AppendUint64(nil, out.Hght))
	ops[string(chain.TimestampKey(fx.MM.TimestampPrefix()))] = maybe.Some(binary.BigEndian.AppendUint64(nil, uint64(out.Tmstmp)))
	feeKey := chain.FeeKey(fx.MM.FeePrefix())
	fb, err := out.View.GetValue(ctx, feeKey)
	if err != nil {
		return ids.Empty, err
	}
	ops[string(feeKey)] = maybe.Some(fb)
	v, err := parentView.NewView(ctx, merkledb.ViewChanges{MapOps: ops})
	if err != nil {
		return ids.Empty, err
	}
	return v.GetMerkleRoot(ctx)
}

// ---------------- morpheusvm (reference token VM) fixture + model ----------------

// morphWorld is a closed set of accounts of the reference token VM.
type morphWorld struct {
	Rules     *genesis.Rules
	Factories []chain.AuthFactory
	Addrs     []codec.Address
	Balances  []uint64
}

func newMorphWorld(rng *rand.Rand, n int, realSigner bool) *morphWorld {
	w := &morphWorld{Rules: chainfx.LooseRules()}
	for i := 0; i < n; i++ {
		a := chainfx.SpyAddr(100 + i)
		w.Factories = append(w.Factories, &chainfx.SpyFactory{Auth: chainfx.SpyAuth{ActorAddr: a, SponsorAddr: a, Compute: 1, Start: -1, End: -1, OK: true}})
		w.Addrs = append(w.Addrs, a)
	}
	if realSigner {
		f := newEd25519Factory(rng)
		w.Factories = append(w.Factories, f)
		w.Addrs = append(w.Addrs, f.Address())
	}
	var total uint64
	for range w.Addrs {
		var b uint64
		switch rng.IntN(6) {
		case 0:
			b = 0 // no account at all
		case 1:
			b = uint64(40_000 + rng.IntN(200_000)) // can pay a few fees only
		default:
			b = 1<<40 + uint64(rng.IntN(1<<20))
		}
		total += b
		w.Balances = append(w.Balances, b)
	}
	if rng.IntN(4) == 0 {
		// one whale so that the total supply is exactly 2^64-1 (genesis rejects more)
		i := rng.IntN(len(w.Balances))
		total -= w.Balances[i]
		w.Balances[i] = ^uint64(0) - total
	}
	return w
}

func (w *morphWorld) fixture() (*chainfx.Fixture, error) {
	var alloc []*genesis.CustomAllocation
	for i, a := range w.Addrs {
		if w.Balances[i] > 0 {
			alloc = append(alloc, &genesis.CustomAllocation{Address: a, Balance: w.Balances[i]})
		}
	}
	return chainfx.New(chainfx.Options{
		Rules: w.Rules, Alloc: alloc, BH: &storage.BalanceHandler{},
		Parser: &chainfx.Parser{InnerAction: mvm.ActionParser.Unmarshal, InnerAuth: chainfx.RealAuthParser},
	})
}

// morphModel: balances as a plain map; an address with balance 0 has no entry.
type morphModel struct {
	start map[codec.Address]uint64 // balances when the current block started (generator hint only)
	bal   map[codec.Address]uint64
	units *chainfx.Model // only used for Units (declared keys -> units), shares no state
}

func (w *morphWorld) model() *morphModel {
	m := &morphModel{bal: map[codec.Address]uint64{}, units: &chainfx.Model{Rules: w.Rules, BalPrefix: storage.BalanceKey(codec.Address{})[:1]}}
	for i, a := range w.Addrs {
		if w.Balances[i] > 0 {
			m.bal[a] = w.Balances[i]
		}
	}
	return m
}

func (m *morphModel) clone() *morphModel {
	n := &morphModel{bal: make(map[codec.Address]uint64, len(m.bal)), units: m.units, start: m.start}
	for k, v := range m.bal {
		n.bal[k] = v
	}
	return n
}

func (m *morphModel) sum() (hi, lo uint64) { // 128-bit sum
	for _, v := range m.bal {
		lo2 := lo + v
		if lo2 < lo {
			hi++
		}
		lo = lo2
	}
	return
}

func (m *morphModel) set(a codec.Address, v uint64) {
	if v == 0 {
		delete(m.bal, a)
	} else {
		m.bal[a] = v
	}
}

// stateMap renders the balances as state key -> value.
func (m *morphModel) stateMap() map[string][]byte {
	out := map[string][]byte{}
	for a, v := range m.bal {
		out[string(storage.BalanceKey(a))] = binary.BigEndian.AppendUint64(nil, v)
	}
	return out
}

// applyTx returns the predicted result; bad != "" means the tx cannot be in a valid block.
func (m *morphModel) applyTx(tx *chain.Transaction, prices fees.Dimensions) (chainfx.ModelResult, string) {
	units, ok := m.units.Units(tx)
	if !ok {
		return chainfx.ModelResult{}, "units overflow"
	}
	fee, ok := chainfx.ModelFee(prices, units)
	if !ok {
		return chainfx.ModelResult{}, "fee overflow"
	}
	sp := tx.Auth.Sponsor()
	if m.bal[sp] < fee {
		return chainfx.ModelResult{}, "insufficient balance for fee"
	}
	if _, exists := m.bal[sp]; !exists {
		return chainfx.ModelResult{}, "sponsor has no account" // reference VM refuses to deduct (even 0) from a missing account
	}
	m.set(sp, m.bal[sp]-fee)
	snap := m.clone().bal
	res := chainfx.ModelResult{Success: true, Units: units, Fee: fee, Outputs: [][]byte{}}
	actor := tx.Auth.Actor()
	for _, a := range tx.Actions {
		tr, ok := a.(*actions.Transfer)
		if !ok {
			return chainfx.ModelResult{}, "model: unsupported action"
		}
		fail := func() (chainfx.ModelResult, string) {
			m.bal = snap
			res.Success = false
			return res, ""
		}
		if tr.Value == 0 || len(tr.Memo) > actions.MaxMemoSize {
			return fail()
		}
		sb, exists := m.bal[actor]
		if !exists || sb < tr.Value {
			return fail()
		}
		nsb := sb - tr.Value
		m.set(actor, nsb)
		rb := m.bal[tr.To]
		if rb+tr.Value < rb {
			return fail()
		}
		m.set(tr.To, rb+tr.Value)
		res.Outputs = append(res.Outputs, (&actions.TransferResult{SenderBalance: nsb, ReceiverBalance: rb + tr.Value}).Bytes())
	}
	return res, ""
}

func (m *morphModel) applyBlock(txs []*chain.Transaction, prices fees.Dimensions) ([]chainfx.ModelResult, string) {
	saved := m.clone().bal
	var out []chainfx.ModelResult
	for i, tx := range txs {
		r, bad := m.applyTx(tx, prices)
		if bad != "" {
			m.bal = saved
			return nil, fmt.Sprintf("tx %d: %s", i, bad)
		}
		out = append(out, r)
	}
	return out, ""
}

func newEd25519Factory(rng *rand.Rand) chain.AuthFactory {
	return authED25519(chainfx.Ed25519Key(rng))
}

// genTransferTx draws a transfer transaction valid at ts. The structure
// (recipients, memo sizes) is drawn first and signed once to learn the exact fee
// at `prices`, so that amounts can be aimed exactly at "everything left after
// the fee" (emptying, refilling and re-emptying accounts within one transaction).
func (w *morphWorld) genTransferTx(rng *rand.Rand, m *morphModel, ts int64, maxActions int, prices fees.Dimensions) (*chain.Transaction, error) {
	si := rng.IntN(len(w.Factories))
	actor := w.Addrs[si]
	n := 1 + rng.IntN(maxActions)
	if rng.IntN(3) == 0 {
		n = 1 + rng.IntN(3)
	}
	tos := make([]codec.Address, n)
	memos := make([][]byte, n)
	for i := range tos {
		tos[i] = w.Addrs[rng.IntN(len(w.Addrs))]
		if rng.IntN(4) == 0 {
			tos[i] = actor // self transfer
		}
		memos[i] = make([]byte, rng.IntN(4))
	}
	expiry := (ts/1000 + 1 + int64(rng.IntN(20))) * 1000
	base := chain.Base{Timestamp: expiry, ChainID: w.Rules.ChainID, MaxFee: 1 << 50}
	build := func(vals []uint64) (*chain.Transaction, error) {
		var acts []chain.Action
		for i := range tos {
			acts = append(acts, &actions.Transfer{To: tos[i], Value: vals[i], Memo: memos[i]})
		}
		return chainfx.Tx(base, acts, w.Factories[si])
	}
	vals := make([]uint64, n)
	for i := range vals {
		vals[i] = 1
	}
	probe, err := build(vals)
	if err != nil {
		return nil, err
	}
	var fee uint64
	if u, ok := m.units.Units(probe); ok {
		fee, _ = chainfx.ModelFee(prices, u)
	}
	// simulate balances while choosing amounts
	sim := map[codec.Address]uint64{}
	get := func(a codec.Address) uint64 {
		if v, ok := sim[a]; ok {
			return v
		}
		return m.bal[a]
	}
	if get(actor) >= fee {
		sim[actor] = get(actor) - fee
	}
	for i := range vals {
		running := get(actor)
		var v uint64
		switch rng.IntN(10) {
		case 0:
			v = 0
		case 1, 2, 3:
			v = running // exactly everything that is left
		case 4:
			v = running + 1 // one too many
		case 5:
			v = ^uint64(0) - uint64(rng.IntN(1000))
		case 6:
			v = 1
		case 7, 8:
			// refill some account (preferably one emptied earlier in this block) to exactly
			// the balance it had when the block started; the recipient address has a fixed
			// width, so re-targeting does not change the fee computed above
			var cands []codec.Address
			for a, start := range m.start {
				if cur := get(a); cur < start && (cur == 0 || rng.IntN(3) == 0) {
					cands = append(cands, a)
				}
			}
			if len(cands) > 0 {
				sort.Slice(cands, func(x, y int) bool { return string(cands[x][:]) < string(cands[y][:]) })
				tos[i] = cands[rng.IntN(len(cands))]
				v = m.start[tos[i]] - get(tos[i])
			}
		default:
			if running > 0 {
				v = 1 + rng.Uint64N(running/uint64(1+rng.IntN(4))+1)
			}
		}
		vals[i] = v
		if v > 0 && v <= running && get(tos[i])+v >= get(tos[i]) {
			sim[actor] = running - v
			sim[tos[i]] = get(tos[i]) + v
		}
	}
	return build(vals)
}

// genMorphCross returns a short transaction sequence in which an account's ability to pay a
// fee changes INSIDE the block, aimed with the balances of m (the state the sequence starts from):
//   - fund: an empty or poor account E receives, by a transfer of the richest account, exactly
//     fee / fee+1 / fee-1 (block invalid) / fee+spend / fee+spend-1 of ITS later transaction;
//   - drain: the richest account D sends away everything but exactly fee / fee+1 / fee-1 (block
//     invalid) / fee+spend of its own next transaction.
//
// Returns nil when the world has no account rich enough to aim with.
func (w *morphWorld) genMorphCross(rng *rand.Rand, m *morphModel, ts int64, prices fees.Dimensions) ([]*chain.Transaction, string, error) {
	rich := 0
	for i, a := range w.Addrs {
		if m.bal[a] > m.bal[w.Addrs[rich]] {
			rich = i
		}
	}
	if m.bal[w.Addrs[rich]] < 1<<30 || len(w.Addrs) < 2 {
		return nil, "", nil
	}
	mk := func(si int, tos []codec.Address, vals []uint64) (*chain.Transaction, uint64, error) {
		var acts []chain.Action
		for i := range tos {
			acts = append(acts, &actions.Transfer{To: tos[i], Value: vals[i], Memo: make([]byte, rng.IntN(3))})
		}
		base := chain.Base{Timestamp: (ts/1000 + 1 + int64(rng.IntN(20))) * 1000, ChainID: w.Rules.ChainID, MaxFee: 1 << 50}
		tx, err := chainfx.Tx(base, acts, w.Factories[si])
		if err != nil {
			return nil, 0, err
		}
		var fee uint64
		if u, ok := m.units.Units(tx); ok {
			fee, _ = chainfx.ModelFee(prices, u)
		}
		return tx, fee, nil
	}
	other := func(not int) int {
		i := rng.IntN(len(w.Addrs) - 1)
		if i >= not {
			i++
		}
		return i
	}
	// the later transaction: 1..3 small transfers
	later := func(si int) (*chain.Transaction, uint64, uint64, error) {
		n := 1 + rng.IntN(3)
		tos := make([]codec.Address, n)
		vals := make([]uint64, n)
		var spend uint64
		for i := range tos {
			tos[i] = w.Addrs[other(si)]
			vals[i] = uint64(1 + rng.IntN(5))
			spend += vals[i]
		}
		tx, fee, err := mk(si, tos, vals)
		return tx, fee, spend, err
	}
	aim := func(fee, spend uint64) (uint64, string) {
		switch rng.IntN(8) {
		case 0, 1:
			return fee, "exact-fee"
		case 2:
			return fee + 1, "fee-plus1"
		case 3:
			if fee > 0 {
				return fee - 1, "fee-minus1"
			}
			return fee, "exact-fee"
		case 4, 5:
			return fee + spend, "fee-plus-spend"
		case 6:
			return fee + spend - 1, "fee-plus-spend-minus1"
		default:
			return fee + spend + uint64(rng.IntN(1000)), "ample"
		}
	}
	var poor []int
	for i, a := range w.Addrs {
		if i != rich && m.bal[a] < 1<<20 {
			poor = append(poor, i)
		}
	}
	if len(poor) > 0 && rng.IntN(4) != 0 {
		e := poor[rng.IntN(len(poor))]
		l, fee, spend, err := later(e)
		if err != nil {
			return nil, "", err
		}
		tgt, kind := aim(fee, spend)
		have := m.bal[w.Addrs[e]]
		if tgt <= have {
			return nil, "", nil // already there: nothing to fund
		}
		tos, vals := []codec.Address{w.Addrs[e]}, []uint64{tgt - have}
		if rng.IntN(3) == 0 { // the funding transfer is not the only action
			tos = append([]codec.Address{w.Addrs[other(rich)]}, tos...)
			vals = append([]uint64{uint64(1 + rng.IntN(9))}, vals...)
			if tos[0] == w.Addrs[e] {
				vals[1] -= min(vals[0], vals[1]-1)
			}
		}
		f, _, err := mk(rich, tos, vals)
		if err != nil {
			return nil, "", err
		}
		st := "empty"
		if have > 0 {
			st = "poor"
		}
		return []*chain.Transaction{f, l}, "fund-" + st + "/" + kind, nil
	}
	// drain the richest account down to what its next transaction needs
	l, fee, spend, err := later(rich)
	if err != nil {
		return nil, "", err
	}
	keep, kind := aim(fee, spend)
	to := []codec.Address{w.Addrs[other(rich)]}
	probe, dfee, err := mk(rich, to, []uint64{1})
	if err != nil {
		return nil, "", err
	}
	_ = probe
	have := m.bal[w.Addrs[rich]]
	if have < dfee+keep+1 || m.bal[to[0]]+(have-dfee-keep) < m.bal[to[0]] {
		return nil, "", nil
	}
	d, dfee2, err := mk(rich, to, []uint64{have - dfee - keep})
	if err != nil {
		return nil, "", err
	}
	if dfee2 != dfee {
		return nil, "", nil // memo length changed the fee: aim lost, skip
	}
	return []*chain.Transaction{d, l}, "drain/" + kind, nil
}

func describeTransferTx(tx *chain.Transaction) string {
	sp := tx.Auth.Sponsor()
	s := fmt.Sprintf("from %x..:", sp[1:5])
	for _, a := range tx.Actions {
		if tr, ok := a.(*actions.Transfer); ok {
			s += fmt.Sprintf(" ->%x.. %d;", tr.To[1:5], tr.Value)
		}
	}
	return s
}

var _ = kit.Hex

func nil2tracer() trace.Tracer { return trace.Noop }

func chainfxBH() chain.BalanceHandler { return balance.NewPrefixBalanceHandler([]byte{0}) }

func allocOf(a codec.Address, v uint64) []*genesis.CustomAllocation {
	return []*genesis.CustomAllocation{{Address: a, Balance: v}}
}

// slowView delays reads of the parent state by a key-dependent amount so that
// prefetches are still in flight when later transactions are registered (a
// "slow disk"); it returns exactly what the wrapped view returns.
type slowView struct {
	merkledb.View
	salt uint64
	slow map[string]time.Duration // these keys always take this long (read-only map)
	only bool                     // delay nothing but the keys of `slow`
}

func (v *slowView) GetValue(ctx context.Context, key []byte) ([]byte, error) {
	if d, ok := v.slow[string(key)]; ok {
		time.Sleep(d)
		return v.View.GetValue(ctx, key)
	}
	if v.only {
		return v.View.GetValue(ctx, key)
	}
	h := v.salt
	for _, b := range key {
		h = (h ^ uint64(b)) * 1099511628211
	}
	switch h % 4 {
	case 0:
		for i := uint64(0); i < (h>>8)%300; i++ {
			runtime.Gosched()
		}
	case 1:
		time.Sleep(time.Duration((h>>8)%200) * time.Microsecond)
	}
	return v.View.GetValue(ctx, key)
}
