package chainx

import (
	"context"
	"fmt"
	"testing"
	"time"

	"github.com/ava-labs/hypersdk/chain"
	"github.com/ava-labs/hypersdk/zzverif/chainfx"
	"github.com/ava-labs/hypersdk/zzverif/kit"
)

type c07Witness struct {
	Layer   string `json:"layer"`
	MaxFee  uint64 `json:"max_fee"`
	Fee     uint64 `json:"fee_at_block_prices"`
	Tx      string `json:"tx"`
	TxBytes string `json:"tx_bytes"`
}

func TestC07(t *testing.T) {
	r := kit.Start(t, "C07", "exploration")
	r.Rule("for random transactions (random keys/actions/prices) the exact fee F at the block's unit prices is computed by the big-int model; the transaction is re-signed with MaxFee in {0, 1, F-1, F, F+1, 2^64-1} and offered at the three layers: mempool admission (PreExecutor.PreExecute at the current time), the builder (real mempool -> BuildBlock) and block verification (Chain.Execute of a block containing it). MaxFee < F must be refused at every layer (error / skipped / block invalid) and any included transaction must have Result.Fee <= MaxFee. Distinct = distinct (layer, MaxFee class, units).")
	r.Assume("admission and build read the wall clock; unit prices are constant in these cases (no usage, prices at the minimum), so the fee does not depend on the instant")
	ctx := context.Background()
	rng := r.Rand("cases")
	n := r.N(60, 1500)
	for ci := 0; ci < n; ci++ {
		rules := chainfx.LooseRules()
		rules.MinBlockGap, rules.MinEmptyBlockGap = 1, 1
		rules.MinUnitPrice = [5]uint64{uint64(1 + rng.IntN(300)), uint64(rng.IntN(300)), uint64(rng.IntN(300)), uint64(rng.IntN(300)), uint64(rng.IntN(300))}
		w := chainfx.NewWorld(rng, 4, 2, false, rules)
		fx, err := w.Fixture()
		if err != nil {
			t.Fatal(err)
		}
		model := w.Model()
		g := chainfx.DefaultGen()
		g.PFail, g.PUndeclared, g.POversize = 0, 0, 0
		now := time.Now().UnixMilli()
		probe, err := w.GenTx(rng, g, now+5000)
		if err != nil {
			t.Fatal(err)
		}
		prices, err := nextPrices(ctx, fx, fx.DB, now)
		if err != nil {
			t.Fatal(err)
		}
		units, ok := model.Units(probe)
		if !ok {
			continue
		}
		fee, ok := chainfx.ModelFee(prices, units)
		if !ok || fee < 2 {
			continue
		}
		si := 0
		for i, a := range w.Addrs {
			if a == probe.Auth.Sponsor() {
				si = i
			}
		}
		for _, mf := range []uint64{0, 1, fee - 1, fee, fee + 1, ^uint64(0)} {
			base := probe.Base
			base.MaxFee = mf
			tx, err := chainfx.Tx(base, probe.Actions, w.Factories[si])
			if err != nil {
				t.Fatal(err)
			}
			// the encoding omits a zero MaxFee, so every variant has its own size and fee
			vu, ok := model.Units(tx)
			if !ok {
				continue
			}
			fee, ok := chainfx.ModelFee(prices, vu)
			if !ok {
				continue
			}
			class := map[bool]string{true: "below", false: "enough"}[mf < fee]
			mk := func(layer string) c07Witness {
				return c07Witness{Layer: layer, MaxFee: mf, Fee: fee, Tx: chainfx.DescribeTx(tx), TxBytes: kit.Hex(tx.Bytes())}
			}
			// --- verification layer (fixed timestamp = now, prices as computed) ---
			blk, err := fx.Block(fx.Genesis, fx.DB, now, []*chain.Transaction{tx})
			if err != nil {
				t.Fatal(err)
			}
			var o execOutcome
			r.Guard("Chain.Execute", mk("verify"), func() { o = execOnce(ctx, fx, chainfx.ChainCfg{Cores: 2, Fetch: 2}, blk, fx.DB) })
			r.Eval()
			if o.err == nil {
				got := o.out.ExecutionResults.Results[0].Fee
				if got != fee {
					r.Violation("C07/fee-differs-from-model", mk("verify"), "charged %d, model %d", got, fee)
				}
				if got > mf {
					r.Violation("C07/maxfee-not-enforced/verify", mk("verify"), "block verification accepted a transaction charged %d with signed max fee %d", got, mf)
				}
				r.Count("verify_accepted_"+class, 1)
			} else {
				r.Count("verify_rejected_"+class, 1)
			}
			r.Distinct("verify", class, mf == fee, units)
			// --- admission layer ---
			inst, err := fx.NewChain(chainfx.ChainCfg{Cores: 1, Fetch: 1})
			if err != nil {
				t.Fatal(err)
			}
			var aerr error
			r.Guard("Chain.PreExecute", mk("admission"), func() { aerr = inst.Chain.PreExecute(ctx, fx.Genesis, fx.DB, tx) })
			r.Eval()
			if aerr == nil {
				if mf < fee {
					r.Violation("C07/maxfee-not-enforced/admission", mk("admission"), "admission accepted a transaction whose fee %d at current prices exceeds its signed max fee %d", fee, mf)
				}
				r.Count("admission_accepted_"+class, 1)
			} else {
				r.Count("admission_rejected_"+class, 1)
			}
			r.Distinct("admission", class, mf == fee, units)
			inst.Close()
			// --- build layer ---
			mp := newWaitMempool(100, 100)
			binst, err := fx.NewChain(chainfx.ChainCfg{Cores: 2, Fetch: 1, Mempool: mp})
			if err != nil {
				t.Fatal(err)
			}
			mp.Add(ctx, []*chain.Transaction{tx})
			parentOut := &chain.OutputBlock{ExecutionBlock: fx.Genesis, View: fx.DB, ExecutionResults: &chain.ExecutionResults{}}
			var eb *chain.ExecutionBlock
			var ob *chain.OutputBlock
			var berr error
			r.Guard("Chain.BuildBlock", mk("build"), func() { eb, ob, berr = binst.Chain.BuildBlock(ctx, nil, parentOut) })
			mp.waitIdle()
			r.Eval()
			if berr == nil && len(eb.StatelessBlock.Txs) == 1 {
				got := ob.ExecutionResults.Results[0].Fee
				if got > mf {
					r.Violation("C07/maxfee-not-enforced/build", mk("build"), "builder included a transaction charged %d with signed max fee %d", got, mf)
				}
				r.Count("build_included_"+class, 1)
			} else {
				r.Count("build_skipped_"+class, 1)
			}
			r.Distinct("build", class, mf == fee, units)
			binst.Close()
			if ci < 2 {
				r.Sample(mk("all"))
			}
		}
	}
	_ = fmt.Sprint
	r.Finish(r.N(100, 1000))
}
