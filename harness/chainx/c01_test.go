package chainx

import (
	"bytes"
	"context"
	"encoding/binary"
	"fmt"
	"math/rand/v2"
	"sort"
	"strings"
	"sync"
	"testing"
	"time"

	"github.com/ava-labs/avalanchego/x/merkledb"

	"github.com/ava-labs/hypersdk/chain"
	"github.com/ava-labs/hypersdk/fees"
	ifees "github.com/ava-labs/hypersdk/internal/fees"
	hkeys "github.com/ava-labs/hypersdk/keys"
	"github.com/ava-labs/hypersdk/state"
	"github.com/ava-labs/hypersdk/zzverif/chainfx"
	"github.com/ava-labs/hypersdk/zzverif/kit"
	"github.com/ava-labs/hypersdk/zzverif/kit/hooks"
)

// nextPrices computes the unit prices a child of the block whose post-state is
// `view` gets at time ts (real fee manager; its rule is judged by C13).
func nextPrices(ctx context.Context, fx *chainfx.Fixture, view merkledb.View, ts int64) (fees.Dimensions, error) {
	raw, err := view.GetValue(ctx, chain.FeeKey(fx.MM.FeePrefix()))
	if err != nil {
		return fees.Dimensions{}, err
	}
	return ifees.NewManager(raw).ComputeNext(ts, fx.Rules).UnitPrices(), nil
}

// conflictShape fingerprints the conflict graph of a block.
func conflictShape(txs []*chain.Transaction, fx *chainfx.Fixture) (string, bool) {
	type kp struct {
		k string
		p state.Permissions
	}
	idx := map[string]int{}
	var b strings.Builder
	sets := make([]state.Keys, len(txs))
	for i, tx := range txs {
		ks := state.Keys{}
		for _, a := range tx.Actions {
			for k, p := range a.StateKeys(tx.Auth.Actor(), chain.CreateActionID(tx.GetID(), 0)) {
				ks[k] |= p
			}
		}
		for k, p := range fx.BH.SponsorStateKeys(tx.Auth.Sponsor()) {
			ks[k] |= p
		}
		sets[i] = ks
		var lst []kp
		for k, p := range ks {
			if _, ok := idx[k]; !ok {
				idx[k] = len(idx)
			}
			lst = append(lst, kp{k, p})
		}
		sort.Slice(lst, func(x, y int) bool { return idx[lst[x].k] < idx[lst[y].k] })
		for _, e := range lst {
			fmt.Fprintf(&b, "%d:%d,", idx[e.k], e.p)
		}
		b.WriteByte(';')
	}
	conflict := false
	for i := 0; i < len(sets) && !conflict; i++ {
		for j := i + 1; j < len(sets) && !conflict; j++ {
			for k, p := range sets[i] {
				if q, ok := sets[j][k]; ok && (p != state.Read || q != state.Read) {
					conflict = true
					break
				}
			}
		}
	}
	return b.String(), conflict
}

type execOutcome struct {
	err      error
	root     string
	results  []byte
	prices   fees.Dimensions
	consumed fees.Dimensions
	out      *chain.OutputBlock
	order    string
}

type c01Witness struct {
	Case    int               `json:"case"`
	Block   int               `json:"block"`
	Txs     []string          `json:"txs"`
	TxBytes []string          `json:"tx_bytes"`
	Cfg     string            `json:"cfg"`
	Parent  map[string]string `json:"parent_state"`
}

var startOrder struct {
	sync.Mutex
	seq []uint64
}

func TestC01(t *testing.T) {
	r := kit.Start(t, "C01", "exploration")
	r.Rule("case = random world (4..12 keys incl. pairs differing only in chunk suffix, 3..6 sponsors, random parent state) + 1..3 consecutive blocks of 0..N random transactions (1..4 programmable actions with overlapping read/write/allocate declarations, reads, writes, deletes, re-creates, undeclared accesses, oversize writes, explicit failures; occasionally an underfunded sponsor). In ~40% of the blocks a sponsor whose ability to pay changes INSIDE the block is interleaved: an account with no balance entry (or a leftover below the fee) in the parent state is funded by an earlier transaction with exactly fee / fee+1 / fee-1 / the fees of two later transactions, or is drained by another sponsor or by its own earlier transaction to exactly fee / fee-1 / 0 / deleted (amounts aimed with the model's fee formula; the model's sequential verdict decides valid/invalid). In ~40% of the blocks a pattern 'slow owner L of keys a,b; 4..12 slow readers of b; T reads a and rewrites b' is appended (b is read slowly from the parent state in every run, readers share sponsors) so that T is enqueued while readers of the previous owner are outstanding; in a third a 'writer, fillers, slow reader, writer' pattern. Every block is re-parsed and executed under the sequential baseline (1,1,serial) and several sampled (cores,fetch,sigWorkers) configurations with schedule perturbation at the executor hook points; accept/reject, post-state root, marshalled results, unit prices and units consumed must be equal across all runs and equal to an independent big-int/map model applying the transactions one at a time. Non-trivial = block with >=2 transactions and at least one conflicting pair; distinct = distinct conflict graph.")
	r.Assume("unit prices of a block are taken from the real fee manager (its rule is judged by C13)", "ProgAction/SpyAuth stand in for VM actions/auth; real ed25519 auth is mixed in")
	ctx := context.Background()
	p := hooks.NewPerturb(r.Rand("hooks"))
	p.PYield, p.PSpin, p.PSleep = 0.30, 0.05, 0.02
	p.Install()
	defer hooks.Uninstall()
	obs := func(phase string, a *chainfx.ProgAction) {
		if phase == "start" {
			startOrder.Lock()
			startOrder.seq = append(startOrder.seq, a.Nonce)
			startOrder.Unlock()
		}
	}
	chainfx.GlobalObserver.Store(&obs)
	defer chainfx.GlobalObserver.Store(nil)

	rng := r.Rand("cases")
	nCases := r.N(70, 450)
	maxTxs := r.N(48, 256)
	reps := r.N(2, 3)
	cfgPool := []int{1, 2, 3, 4, 8, 16}
	orders := map[string]struct{}{}
	for ci := 0; ci < nCases && r.Violations() < 5; ci++ {
		w := chainfx.NewWorld(rng, 4+rng.IntN(9), 3+rng.IntN(3), rng.IntN(3) == 0, chainfx.LooseRules())
		w.AddFresh(2) // sponsors without any balance entry in the parent state: funded / drained inside a block
		poor := -1
		if rng.IntN(7) == 0 {
			poor = rng.IntN(len(w.Balances))
			w.Balances[poor] = uint64(30000 * (1 + rng.IntN(6))) // pays for a few transactions only
		}
		fx, err := w.Fixture()
		if err != nil {
			t.Fatalf("fixture: %v", err)
		}
		model := w.Model()
		parent := fx.Genesis
		var parentView merkledb.View = fx.DB
		g := chainfx.DefaultGen()
		nBlocks := 1 + rng.IntN(3)
		ts := int64(1_700_000_000_000)
		for bi := 0; bi < nBlocks; bi++ {
			ts += int64(1000 * (1 + rng.IntN(12)))
			ntx := rng.IntN(maxTxs + 1)
			if rng.IntN(3) == 0 {
				ntx = rng.IntN(6)
			}
			var txs []*chain.Transaction
			for i := 0; i < ntx; i++ {
				tx, err := w.GenTx(rng, g, ts)
				if err != nil {
					t.Fatalf("gen tx: %v", err)
				}
				txs = append(txs, tx)
			}
			prices, err := nextPrices(ctx, fx, parentView, ts)
			if err != nil {
				t.Fatalf("prices: %v", err)
			}
			var crossKinds []string
			if rng.IntN(5) < 2 {
				// a sponsor whose ability to pay changes INSIDE the block: funded (exactly / one short / one
				// above the fee) or drained by an earlier transaction; interleaved with the random transactions
				for fi := range w.Fresh {
					if fi > 0 && rng.IntN(3) != 0 {
						continue
					}
					var rich []int
					for i := range w.Factories {
						if i != poor {
							rich = append(rich, i)
						}
					}
					pat, kind, err := w.GenSponsorCross(rng, g, prices, ts, fi, rich[rng.IntN(len(rich))], rich[rng.IntN(len(rich))])
					if err != nil {
						t.Fatalf("sponsor-cross pattern: %v", err)
					}
					txs = chainfx.Interleave(rng, txs, pat)
					crossKinds = append(crossKinds, kind)
					r.Count("sponsor_cross/"+kind, 1)
				}
			}
			slowKeys := map[string]time.Duration{}
			if rng.IntN(5) < 2 && len(w.Factories) >= 3 {
				// slow owner of two keys, many readers of one of them, then a transaction that reads the
				// first and rewrites the second key: the writer must wait for every outstanding reader
				pat, b, err := rdrPattern(rng, w, ts, 4+rng.IntN(9))
				if err != nil {
					t.Fatalf("pattern: %v", err)
				}
				if pat != nil {
					txs = append(txs, pat...)
					slowKeys[string(b)] = time.Duration(200+rng.IntN(1500)) * time.Microsecond
					r.Count("owner_readers_readwriter_patterns", 1)
				}
			}
			if rng.IntN(3) == 0 && len(w.Factories) >= 3 {
				// writer, fillers, slow reader, writer on one key: the reader hangs off a writer that
				// has usually finished when it is queued and is followed at once by the next writer
				pat, err := wrwPattern(rng, w, ts, 8+rng.IntN(30))
				if err != nil {
					t.Fatalf("pattern: %v", err)
				}
				txs = append(txs, pat...)
				r.Count("writer_fill_reader_writer_patterns", 1)
			}
			blk, err := fx.Block(parent, parentView, ts, txs)
			if err != nil {
				t.Fatalf("block: %v", err)
			}
			pm := model.Clone()
			pred := pm.ApplyBlock(txs, prices)
			shape, conflict := conflictShape(txs, fx)
			wit := func(cfg string) c01Witness {
				wv := c01Witness{Case: ci, Block: bi, Cfg: cfg, Parent: map[string]string{}}
				for _, tx := range txs {
					wv.Txs = append(wv.Txs, chainfx.DescribeTx(tx))
					wv.TxBytes = append(wv.TxBytes, kit.Hex(tx.Bytes()))
				}
				for k, v := range model.State {
					wv.Parent[kit.Hex([]byte(k))] = kit.Hex(v)
				}
				return wv
			}
			cfgs := []chainfx.ChainCfg{{Cores: 1, Fetch: 1, SigWorkers: 0}}
			for k := 0; k < 3; k++ {
				cfgs = append(cfgs, chainfx.ChainCfg{Cores: cfgPool[rng.IntN(6)], Fetch: cfgPool[rng.IntN(6)], SigWorkers: cfgPool[rng.IntN(6)]})
			}
			var outs []execOutcome
			var names []string
			for _, cfg := range cfgs {
				nr := reps
				if cfg.Cores == 1 {
					nr = 1
				}
				for rep := 0; rep < nr; rep++ {
					name := fmt.Sprintf("cores=%d fetch=%d sig=%d rep=%d", cfg.Cores, cfg.Fetch, cfg.SigWorkers, rep)
					var o execOutcome
					// every run except the sequential baseline reads the parent through a slow view
					var pv merkledb.View = parentView
					if len(outs) > 0 {
						pv = &slowView{View: parentView, salt: rng.Uint64(), slow: slowKeys}
					} else if len(slowKeys) > 0 {
						pv = &slowView{View: parentView, slow: slowKeys, only: true}
					}
					r.Guard("Chain.Execute", wit(name), func() { o = execOnce(ctx, fx, cfg, blk, pv) })
					r.Eval()
					outs = append(outs, o)
					names = append(names, name)
					if o.order != "" {
						orders[o.order] = struct{}{}
					}
				}
			}
			// oracle 1: the independent model
			base := outs[0]
			if pred.Invalid != "" {
				for i, o := range outs {
					if o.err == nil {
						r.Violation("C01/invalid-block-accepted", wit(names[i]), "model rejects the block (%s) but execution under %s accepted it", pred.Invalid, names[i])
					}
				}
				r.Count("blocks_invalid", 1)
				if len(crossKinds) > 0 {
					r.Count("sponsor_cross_blocks_invalid", 1)
				}
			} else {
				for i, o := range outs {
					if o.err != nil {
						r.Violation("C01/valid-block-rejected", wit(names[i]), "model accepts the block but execution under %s failed: %v", names[i], o.err)
						continue
					}
					if d := compareWithModel(ctx, fx, w, o.out, pred, pm, blk); d != "" {
						r.Violation("C01/differs-from-sequential-model", wit(names[i]), "%s: %s", names[i], d)
					}
				}
				r.Count("blocks_valid", 1)
				r.Count("txs_executed", len(txs))
				if len(crossKinds) > 0 {
					r.Count("sponsor_cross_blocks_valid", 1)
				}
			}
			// oracle 2: all configurations and schedules agree
			for i := 1; i < len(outs); i++ {
				o := outs[i]
				if (o.err == nil) != (base.err == nil) {
					r.Violation("C01/config-divergence", wit(names[i]), "accept/reject differs: %s -> %v, %s -> %v", names[0], base.err, names[i], o.err)
					continue
				}
				if o.err != nil {
					continue
				}
				if o.root != base.root || !bytes.Equal(o.results, base.results) || o.prices != base.prices || o.consumed != base.consumed {
					r.Violation("C01/config-divergence", wit(names[i]), "outputs differ between %s and %s: root %s vs %s, results equal=%v, prices %v vs %v, consumed %v vs %v",
						names[0], names[i], base.root, o.root, bytes.Equal(o.results, base.results), base.prices, o.prices, base.consumed, o.consumed)
				}
			}
			if len(txs) >= 2 && conflict {
				r.Distinct(shape)
				r.Sample(map[string]any{"txs": len(txs), "model_invalid": pred.Invalid, "sponsor_cross": crossKinds, "first_txs": wit("").Txs[:min(3, len(txs))]})
			}
			if pred.Invalid != "" || base.err != nil {
				break
			}
			model = pm
			parent = blk
			parentView = base.out.View
			fx.Index.Put(blk)
		}
	}
	r.Extra("distinct_start_orders", len(orders))
	r.Extra("hook_hits", p.Hits())
	r.Count("prog_executions", int(chainfx.Executions.Load()))
	r.Finish(r.N(30, 500))
}

func execOnce(ctx context.Context, fx *chainfx.Fixture, cfg chainfx.ChainCfg, blk *chain.ExecutionBlock, parentView merkledb.View) execOutcome {
	inst, err := fx.NewChain(cfg)
	if err != nil {
		return execOutcome{err: fmt.Errorf("harness: %w", err)}
	}
	defer inst.Close()
	rb, err := fx.Reparse(blk)
	if err != nil {
		return execOutcome{err: fmt.Errorf("reparse: %w", err)}
	}
	startOrder.Lock()
	startOrder.seq = startOrder.seq[:0]
	startOrder.Unlock()
	out, err := inst.Chain.Execute(ctx, parentView, rb, true)
	if err != nil {
		return execOutcome{err: err}
	}
	root, err := out.View.GetMerkleRoot(ctx)
	if err != nil {
		return execOutcome{err: err}
	}
	o := execOutcome{out: out, root: root.String(), results: out.ExecutionResults.Marshal(), prices: out.ExecutionResults.UnitPrices, consumed: out.ExecutionResults.UnitsConsumed}
	if cfg.Cores > 1 {
		startOrder.Lock()
		var b strings.Builder
		first := uint64(0)
		for i, n := range startOrder.seq {
			if i == 0 {
				first = n
			}
			fmt.Fprintf(&b, "%d,", int64(n)-int64(first))
		}
		o.order = b.String()
		startOrder.Unlock()
	}
	return o
}

func compareWithModel(ctx context.Context, fx *chainfx.Fixture, w *chainfx.World, out *chain.OutputBlock, pred chainfx.BlockOutcome, post *chainfx.Model, blk *chain.ExecutionBlock) string {
	res := out.ExecutionResults
	if len(res.Results) != len(pred.Results) {
		return fmt.Sprintf("%d results for %d transactions", len(res.Results), len(pred.Results))
	}
	for i, got := range res.Results {
		if d := chainfx.CompareResult(got, pred.Results[i]); d != "" {
			return fmt.Sprintf("tx %d (%s): %s", i, blk.StatelessBlock.Txs[i].GetID(), d)
		}
	}
	if [5]uint64(res.UnitsConsumed) != pred.Consumed {
		return fmt.Sprintf("units consumed %v, sum of transaction units %v", res.UnitsConsumed, pred.Consumed)
	}
	keys := w.AllKeys()
	got, err := chainfx.ReadKeys(ctx, out.View, keys)
	if err != nil {
		return "reading post-state: " + err.Error()
	}
	for _, k := range keys {
		gv, gok := got[k]
		mv, mok := post.State[k]
		if gok != mok || !bytes.Equal(gv, mv) {
			return fmt.Sprintf("post-state key %x = (%x,present=%v), model (%x,present=%v)", k, gv, gok, mv, mok)
		}
	}
	hb, err := out.View.GetValue(ctx, chain.HeightKey(fx.MM.HeightPrefix()))
	if err != nil || binary.BigEndian.Uint64(hb) != blk.Hght {
		return fmt.Sprintf("post-state height %x (%v), want %d", hb, err, blk.Hght)
	}
	tb, err := out.View.GetValue(ctx, chain.TimestampKey(fx.MM.TimestampPrefix()))
	if err != nil || int64(binary.BigEndian.Uint64(tb)) != blk.Tmstmp {
		return fmt.Sprintf("post-state timestamp %x (%v), want %d", tb, err, blk.Tmstmp)
	}
	return ""
}

// wrwPattern returns W1(k), n fillers on other keys, a slow reader R(k), W2(k) with three
// different sponsors for W1, R and W2 so that k is their only conflict.
func wrwPattern(rng *rand.Rand, w *chainfx.World, ts int64, n int) ([]*chain.Transaction, error) {
	perm := rng.Perm(len(w.Factories))
	k := w.Keys[rng.IntN(len(w.Keys))]
	var nonce uint64 = 1 << 40
	mk := func(sponsor int, a *chainfx.ProgAction) (*chain.Transaction, error) {
		nonce += uint64(rng.IntN(1 << 20))
		a.Nonce = nonce + uint64(rng.Uint32())
		a.Start, a.End = -1, -1
		a.Canonicalize()
		base := chain.Base{Timestamp: (ts/1000 + 2) * 1000, ChainID: w.Rules.ChainID, MaxFee: 1 << 50}
		return chainfx.Tx(base, []chain.Action{a}, w.Factories[sponsor])
	}
	val := func() []byte {
		v := w.Value(rng, k, true)
		if len(v) == 0 {
			return nil
		}
		return v
	}
	var out []*chain.Transaction
	add := func(sponsor int, a *chainfx.ProgAction) error {
		tx, err := mk(sponsor, a)
		if err == nil {
			out = append(out, tx)
		}
		return err
	}
	if err := add(perm[0], &chainfx.ProgAction{Keys: []chainfx.KeyDecl{{Key: k, Perm: state.All}}, Ops: []chainfx.Op{{Kind: chainfx.OpPut, Key: k, Val: val()}}}); err != nil {
		return nil, err
	}
	for i := 0; i < n; i++ {
		// fillers touch no state key of their own (only their sponsor's balance): sponsor perm[0] keeps
		// them behind W1, the others run freely
		sp := perm[0]
		if len(perm) > 3 && rng.IntN(2) == 0 {
			sp = perm[3+rng.IntN(len(perm)-3)]
		}
		if err := add(sp, &chainfx.ProgAction{Ops: []chainfx.Op{{Kind: chainfx.OpYield, N: uint32(rng.IntN(5))}}}); err != nil {
			return nil, err
		}
	}
	if err := add(perm[1], &chainfx.ProgAction{Keys: []chainfx.KeyDecl{{Key: k, Perm: state.Read}}, Ops: []chainfx.Op{
		{Kind: chainfx.OpYield, N: uint32(10 + rng.IntN(40))}, {Kind: chainfx.OpGet, Key: k},
		{Kind: chainfx.OpYield, N: uint32(10 + rng.IntN(40))}, {Kind: chainfx.OpGet, Key: k},
	}}); err != nil {
		return nil, err
	}
	w2 := &chainfx.ProgAction{Keys: []chainfx.KeyDecl{{Key: k, Perm: state.All}}, Ops: []chainfx.Op{{Kind: chainfx.OpPut, Key: k, Val: val()}}}
	if rng.IntN(3) == 0 {
		w2.Ops = []chainfx.Op{{Kind: chainfx.OpDel, Key: k}}
	}
	if err := add(perm[2], w2); err != nil {
		return nil, err
	}
	return out, nil
}

// rdrPattern returns L, R_1..R_n, T: L (slow) writes keys a and b and so owns both; every R_i only
// READS b (slowly, echoing what it saw); T reads a and rewrites (or deletes) b with a value different
// from L's. T is a reader of L (through a) and a writer of a key owned by L (b), so it must wait for
// every R_i that has not executed yet; an R_i that runs after T observes T's value instead of L's.
// L and T have their own sponsors; the readers share the remaining sponsors (readers with the same
// sponsor run one after the other, so late readers are still outstanding when T becomes runnable).
func rdrPattern(rng *rand.Rand, w *chainfx.World, ts int64, n int) ([]*chain.Transaction, []byte, error) {
	var cands [][]byte
	for _, k := range w.Keys {
		if c, ok := hkeys.MaxChunks(k); ok && c >= 1 {
			cands = append(cands, k)
		}
	}
	if len(cands) < 2 {
		return nil, nil, nil
	}
	ai := rng.IntN(len(cands))
	bi := rng.IntN(len(cands) - 1)
	if bi >= ai {
		bi++
	}
	a, b := cands[ai], cands[bi]
	if bytes.Equal(a, b) {
		return nil, nil, nil
	}
	perm := rng.Perm(len(w.Factories))
	var nonce uint64 = 1 << 41
	var out []*chain.Transaction
	add := func(sponsor int, pa *chainfx.ProgAction) error {
		nonce += 1 + uint64(rng.IntN(1<<20))
		pa.Nonce = nonce<<20 + uint64(rng.IntN(1<<20))
		pa.Start, pa.End = -1, -1
		pa.Canonicalize()
		base := chain.Base{Timestamp: (ts/1000 + 2) * 1000, ChainID: w.Rules.ChainID, MaxFee: 1 << 50}
		tx, err := chainfx.Tx(base, []chain.Action{pa}, w.Factories[sponsor])
		if err == nil {
			out = append(out, tx)
		}
		return err
	}
	vl := []byte{byte('p' + rng.IntN(4)), byte('a' + rng.IntN(4))}
	vt := append([]byte{}, vl...)
	vt[0]++ // differs from L's value
	aperm := state.Write
	if rng.IntN(2) == 0 {
		aperm = state.All
	}
	if err := add(perm[0], &chainfx.ProgAction{
		Keys: []chainfx.KeyDecl{{Key: a, Perm: aperm | state.Allocate}, {Key: b, Perm: state.All}},
		Ops: []chainfx.Op{
			{Kind: chainfx.OpYield, N: uint32(200 + rng.IntN(3000))},
			{Kind: chainfx.OpPut, Key: a, Val: []byte{byte('A' + rng.IntN(4))}},
			{Kind: chainfx.OpPut, Key: b, Val: vl},
		},
	}); err != nil {
		return nil, nil, err
	}
	for i := 0; i < n; i++ {
		if err := add(perm[2+rng.IntN(len(perm)-2)], &chainfx.ProgAction{
			Keys: []chainfx.KeyDecl{{Key: b, Perm: state.Read}},
			Ops: []chainfx.Op{
				{Kind: chainfx.OpYield, N: uint32(rng.IntN(400))},
				{Kind: chainfx.OpGet, Key: b},
			},
		}); err != nil {
			return nil, nil, err
		}
	}
	tw := chainfx.Op{Kind: chainfx.OpPut, Key: b, Val: vt}
	if rng.IntN(3) == 0 {
		tw = chainfx.Op{Kind: chainfx.OpDel, Key: b}
	}
	if err := add(perm[1], &chainfx.ProgAction{
		Keys: []chainfx.KeyDecl{{Key: a, Perm: state.Read}, {Key: b, Perm: state.All}},
		Ops:  []chainfx.Op{{Kind: chainfx.OpGet, Key: a}, tw},
	}); err != nil {
		return nil, nil, err
	}
	return out, b, nil
}
