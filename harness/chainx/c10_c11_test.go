package chainx

import (
	"context"
	"errors"
	"fmt"
	"math"
	"math/rand/v2"
	"testing"
	"time"

	"github.com/ava-labs/avalanchego/ids"
	"github.com/ava-labs/avalanchego/x/merkledb"

	"github.com/ava-labs/hypersdk/chain"
	ifees "github.com/ava-labs/hypersdk/internal/fees"
	"github.com/ava-labs/hypersdk/state"
	"github.com/ava-labs/hypersdk/zzverif/chainfx"
	"github.com/ava-labs/hypersdk/zzverif/kit"
)

// ---------------- C10 ----------------

type c10Case struct {
	Expiry   int64      `json:"expiry"`
	TS       int64      `json:"block_ts"`
	Window   int64      `json:"window"`
	ChainOK  bool       `json:"chain_id_matches"`
	NActions int        `json:"n_actions"`
	MaxAct   uint8      `json:"max_actions"`
	Ranges   [][2]int64 `json:"action_ranges"`
	AuthRng  [2]int64   `json:"auth_range"`
}

func inRange(ts int64, rg [2]int64) bool {
	if rg[0] >= 0 && ts < rg[0] {
		return false
	}
	if rg[1] >= 0 && ts > rg[1] {
		return false
	}
	return true
}

// c10Oracle is the closed formula of the statement.
func c10Oracle(c c10Case) bool {
	if c.Expiry%1000 != 0 || c.Expiry < c.TS || c.Expiry > c.TS+c.Window || !c.ChainOK || c.NActions > int(c.MaxAct) {
		return false
	}
	for _, rg := range c.Ranges {
		if !inRange(c.TS, rg) {
			return false
		}
	}
	return inRange(c.TS, c.AuthRng)
}

func boundary(rng *rand.Rand, center int64) int64 {
	switch rng.IntN(8) {
	case 0:
		return center
	case 1:
		return center - 1
	case 2:
		return center + 1
	case 3:
		return center - 1000
	case 4:
		return center + 1000
	case 5:
		return center + int64(rng.IntN(2001)) - 1000
	case 6:
		return center - int64(rng.Uint64N(1<<40))
	default:
		return center + int64(rng.Uint64N(1<<40))
	}
}

func genRange(rng *rand.Rand, ts int64) [2]int64 {
	pick := func() int64 {
		switch rng.IntN(5) {
		case 0, 1:
			return -1
		default:
			v := boundary(rng, ts)
			if v < 0 {
				return -1
			}
			return v
		}
	}
	return [2]int64{pick(), pick()}
}

func buildC10Tx(c c10Case, chainID ids.ID) (*chain.Transaction, error) {
	var acts []chain.Action
	for i := 0; i < c.NActions; i++ {
		acts = append(acts, &chainfx.ProgAction{Nonce: uint64(i), Start: c.Ranges[i][0], End: c.Ranges[i][1]})
	}
	cid := chainID
	if !c.ChainOK {
		cid = ids.ID{0xBA, 0xD}
	}
	a := chainfx.SpyAddr(1)
	f := &chainfx.SpyFactory{Auth: chainfx.SpyAuth{ActorAddr: a, SponsorAddr: a, Start: c.AuthRng[0], End: c.AuthRng[1], OK: true}}
	return chainfx.Tx(chain.Base{Timestamp: c.Expiry, ChainID: cid, MaxFee: 1 << 40}, acts, f)
}

func genC10(rng *rand.Rand, ts int64) c10Case {
	c := c10Case{TS: ts, ChainOK: rng.IntN(12) != 0, MaxAct: uint8(1 + rng.IntN(16))}
	c.Window = []int64{0, 1, 999, 1000, 1001, 5000, 60000, 1 << 40}[rng.IntN(8)]
	// expiry around the two bounds, aligned or not
	center := ts
	if rng.IntN(2) == 0 {
		center = ts + c.Window
	}
	c.Expiry = boundary(rng, center)
	if rng.IntN(3) != 0 { // mostly aligned so that the interval clauses decide
		c.Expiry -= c.Expiry % 1000
		if rng.IntN(2) == 0 && c.Expiry < center {
			c.Expiry += 1000
		}
	}
	switch rng.IntN(7) {
	case 6:
		// counts that are congruent to an allowed count modulo 2^8 (a narrowed comparison would wrap)
		c.NActions = []int{256, 257, 256 + int(c.MaxAct), 255 + int(c.MaxAct), 512, 256 + int(c.MaxAct) + 1}[rng.IntN(6)]
	case 0:
		c.NActions = int(c.MaxAct) + 1
	case 1:
		c.NActions = int(c.MaxAct)
	case 2:
		c.NActions = max(0, int(c.MaxAct)-1)
	default:
		c.NActions = 1 + rng.IntN(int(c.MaxAct))
	}
	for i := 0; i < c.NActions; i++ {
		if rng.IntN(4) == 0 && (c.NActions <= 32 || rng.IntN(c.NActions) == 0) { // keep the activation clause undecided for long lists
			c.Ranges = append(c.Ranges, genRange(rng, ts))
		} else {
			c.Ranges = append(c.Ranges, [2]int64{-1, -1})
		}
	}
	c.AuthRng = [2]int64{-1, -1}
	if rng.IntN(5) == 0 {
		c.AuthRng = genRange(rng, ts)
	}
	return c
}

func TestC10(t *testing.T) {
	r := kit.Start(t, "C10", "exploration")
	r.Rule("cases = (expiry, block timestamp, validity window, chain id match, action count vs limit, per-action and auth activation ranges with -1 sentinels), expiry drawn at/around both interval bounds (+-1 ms, +-1 s, aligned/unaligned, negative, far), |t| <= 2^62. Oracle = the closed formula of the statement. Layers: Transaction.PreExecute at an arbitrary timestamp; Chain.Execute of a block containing the transaction (block valid iff formula); PreExecutor.PreExecute (admission) at the current time with a clock bracket and >= 30 s margins. Distinct = distinct (clause outcome vector, boundary offsets).")
	r.Assume("timestamps beyond 2^62 ms are out of scope (the oracle's own sums would overflow)", "negative activation bounds other than -1 are not generated")
	ctx := context.Background()
	rng := r.Rand("formula")
	chainID := ids.ID{5}
	n := r.N(30000, 1000000)
	zeroFees := ifees.NewManager(nil)
	bh := chainfxBH()
	for i := 0; i < n && r.Violations() < 10; i++ {
		ts := []int64{0, 1, 999, 1000, 1_700_000_000_000, -1000, -1, 1 << 62}[rng.IntN(8)]
		if rng.IntN(2) == 0 {
			ts = int64(rng.Uint64N(1 << 50))
		}
		c := genC10(rng, ts)
		if c.Expiry > 1<<62 || c.Expiry < -(1<<62) {
			continue
		}
		tx, err := buildC10Tx(c, chainID)
		if err != nil {
			t.Fatal(err)
		}
		rules := chainfx.LooseRules()
		rules.ValidityWindow = c.Window
		rules.MaxActionsPerTx = c.MaxAct
		var got error
		r.Guard("Transaction.PreExecute", c, func() {
			got = tx.PreExecute(ctx, zeroFees, bh, rules, state.ImmutableStorage{}, c.TS)
		})
		r.Eval()
		want := c10Oracle(c)
		if (got == nil) != want {
			r.Violation(c10Key(c, want), c, "Transaction.PreExecute returned %v, formula says executable=%v", got, want)
		}
		r.Distinct(c.Expiry%1000 == 0, c.Expiry-c.TS, c.Expiry-c.TS-c.Window, c.ChainOK, c.NActions-int(c.MaxAct), want)
		if i < 3 {
			r.Sample(c)
		}
		if want {
			r.Count("executable", 1)
		} else {
			r.Count("not_executable", 1)
		}
	}

	// block level: the block is valid iff the transaction is executable at the block timestamp
	rng = r.Rand("blocks")
	nb := r.N(300, 6000)
	for i := 0; i < nb && r.Violations() < 10; i++ {
		ts := int64(1_700_000_000_000) + int64(rng.IntN(1_000_000))
		c := genC10(rng, ts)
		if c.Window > 1<<30 {
			c.Window = 60000
		}
		rules := chainfx.LooseRules()
		rules.ValidityWindow = c.Window
		rules.MaxActionsPerTx = c.MaxAct
		rules.MinUnitPrice = [5]uint64{}
		a := chainfx.SpyAddr(1)
		fx, err := chainfx.New(chainfx.Options{Rules: rules, Alloc: allocOf(a, 1<<40)})
		if err != nil {
			t.Fatal(err)
		}
		tx, err := buildC10Tx(c, rules.ChainID)
		if err != nil {
			t.Fatal(err)
		}
		blk, err := fx.Block(fx.Genesis, fx.DB, ts, []*chain.Transaction{tx})
		if err != nil {
			t.Fatal(err)
		}
		var o execOutcome
		r.Guard("Chain.Execute", c, func() { o = execOnce(ctx, fx, chainfx.ChainCfg{Cores: 1 + rng.IntN(3), Fetch: 1}, blk, fx.DB) })
		r.Eval()
		want := c10Oracle(c)
		if (o.err == nil) != want {
			r.Violation("block/"+c10Key(c, want), c, "Chain.Execute returned %v, formula says executable=%v", o.err, want)
		}
		r.Distinct("blk", c.Expiry%1000 == 0, c.Expiry-c.TS, c.Expiry-c.TS-c.Window, c.ChainOK, c.NActions-int(c.MaxAct), want)
		r.Count("block_cases", 1)
	}

	// admission: same checks at the current time
	rng = r.Rand("admission")
	na := r.N(300, 6000)
	for i := 0; i < na && r.Violations() < 10; i++ {
		rules := chainfx.LooseRules()
		rules.ValidityWindow = []int64{5000, 60000, 120000}[rng.IntN(3)]
		rules.MaxActionsPerTx = uint8(1 + rng.IntN(16))
		rules.MinUnitPrice = [5]uint64{}
		a := chainfx.SpyAddr(1)
		fx, err := chainfx.New(chainfx.Options{Rules: rules, Alloc: allocOf(a, 1<<40)})
		if err != nil {
			t.Fatal(err)
		}
		inst, err := fx.NewChain(chainfx.ChainCfg{})
		if err != nil {
			t.Fatal(err)
		}
		t0 := time.Now().UnixMilli()
		c := c10Case{Window: rules.ValidityWindow, ChainOK: rng.IntN(8) != 0, MaxAct: rules.MaxActionsPerTx, AuthRng: [2]int64{-1, -1}}
		// expiry classes with >= 30 s margin on the reject side
		switch rng.IntN(5) {
		case 0:
			c.Expiry = (t0/1000 - 31 - int64(rng.IntN(1000))) * 1000 // expired
		case 1:
			c.Expiry = ((t0+c.Window)/1000 + 32 + int64(rng.IntN(1000))) * 1000 // too far ahead
		case 2:
			c.Expiry = (t0/1000+2)*1000 + 1 + int64(rng.IntN(998)) // not a whole second
		default:
			c.Expiry = (t0/1000 + 2 + int64(rng.IntN(int(c.Window/1000)-3))) * 1000 // comfortably inside
		}
		c.NActions = 1 + rng.IntN(int(c.MaxAct))
		if rng.IntN(6) == 0 {
			c.NActions = int(c.MaxAct) + 1
		}
		for k := 0; k < c.NActions; k++ {
			rg := [2]int64{-1, -1}
			switch rng.IntN(10) {
			case 0:
				rg[0] = t0 + 3_600_000 // not yet active
			case 1:
				rg[1] = t0 - 3_600_000 // no longer active
			case 2:
				rg = [2]int64{t0 - 3_600_000, t0 + 3_600_000}
			}
			c.Ranges = append(c.Ranges, rg)
		}
		if rng.IntN(8) == 0 {
			c.AuthRng = [2]int64{t0 + 3_600_000, -1}
		}
		tx, err := buildC10Tx(c, rules.ChainID)
		if err != nil {
			t.Fatal(err)
		}
		var got error
		r.Guard("Chain.PreExecute", c, func() { got = inst.Chain.PreExecute(ctx, fx.Genesis, fx.DB, tx) })
		t1 := time.Now().UnixMilli()
		inst.Close()
		r.Eval()
		c.TS = t0
		w0 := c10Oracle(c)
		c.TS = t1
		w1 := c10Oracle(c)
		if w0 != w1 || t1-t0 > 1500 {
			r.Count("admission_undetermined", 1)
			continue
		}
		if (got == nil) != w0 {
			r.Violation("admission/"+c10Key(c, w0), c, "admission returned %v between t=%d and t=%d, formula says admissible=%v", got, t0, t1, w0)
		}
		r.Distinct("adm", c.Expiry%1000 == 0, (c.Expiry-t0)/1000, c.ChainOK, c.NActions-int(c.MaxAct), w0)
		r.Count("admission_cases", 1)
	}
	r.Finish(r.N(500, 5000))
}

func c10Key(c c10Case, want bool) string {
	if want {
		return "C10/rejects-executable"
	}
	switch {
	case !c.ChainOK:
		return "C10/accepts-wrong-chain"
	case c.Expiry%1000 != 0:
		return "C10/accepts-unaligned-expiry"
	case c.Expiry < c.TS:
		return "C10/accepts-expired"
	case c.Expiry > c.TS+c.Window:
		return "C10/accepts-too-far-ahead"
	case c.NActions > int(c.MaxAct):
		return "C10/accepts-too-many-actions"
	default:
		return "C10/accepts-inactive-action-or-auth"
	}
}

// ---------------- C11 ----------------

type c11Case struct {
	Parent      string `json:"parent"` // "genesis" or "descendant"
	ParentTS    int64  `json:"parent_block_ts"`
	ParentH     uint64 `json:"parent_height"`
	Height      uint64 `json:"height"`
	TS          int64  `json:"ts"`
	NTxs        int    `json:"n_txs"`
	RootOK      bool   `json:"root_matches"`
	Gap         int64  `json:"min_block_gap"`
	EmptyGap    int64  `json:"min_empty_block_gap"`
	FutureClass string `json:"future_class"` // "past" | "far-future"
}

func c11Oracle(c c11Case) (bool, string) {
	switch {
	case c.Height != c.ParentH+1:
		return false, "height"
	case c.TS < c.ParentTS+c.Gap:
		return false, "early"
	case c.NTxs == 0 && c.TS < c.ParentTS+c.EmptyGap:
		return false, "early-empty"
	case c.FutureClass == "far-future":
		return false, "future"
	case !c.RootOK:
		return false, "root"
	}
	return true, ""
}

func TestC11(t *testing.T) {
	r := kit.Start(t, "C11", "exploration")
	r.Rule("crafted children (height, timestamp, tx count, state root each exact / off by +-1 / far off) of the genesis block and of executed descendants, random min block gaps incl. 0, executed by the real processor; accept iff height = parent+1, ts >= parent BLOCK timestamp + gap (empty gap without txs), ts <= now + future bound (only classes >= 30 s away from the bound are judged), state root = parent post-state root. Distinct = distinct (parent kind, field offsets).")
	r.Assume("the future bound is judged only with timestamps at least 30 s on either side of now+bound")
	ctx := context.Background()
	rng := r.Rand("cases")
	n := r.N(700, 20000)
	for i := 0; i < n && r.Violations() < 10; i++ {
		rules := chainfx.LooseRules()
		rules.MinBlockGap = []int64{0, 1, 100, 1000, 7000}[rng.IntN(5)]
		rules.MinEmptyBlockGap = []int64{0, 1, 750, 2500, 20000}[rng.IntN(5)]
		w := chainfx.NewWorld(rng, 4, 2, false, rules)
		fx, err := w.Fixture()
		if err != nil {
			t.Fatal(err)
		}
		now := time.Now().UnixMilli()
		parent := fx.Genesis
		var parentView merkledb.View = fx.DB
		c := c11Case{Parent: "genesis", Gap: rules.MinBlockGap, EmptyGap: rules.MinEmptyBlockGap}
		g := chainfx.DefaultGen()
		g.PBalanceKey = 0 // block-header monitor: transactions must not disturb their sponsors
		if rng.IntN(2) == 0 {
			// execute 1..2 ordinary blocks first
			c.Parent = "descendant"
			pts := now - 400_000
			for k := 0; k < 1+rng.IntN(2); k++ {
				pts += 30_000
				tx, err := w.GenTx(rng, g, pts)
				if err != nil {
					t.Fatal(err)
				}
				b, err := fx.Block(parent, parentView, pts, []*chain.Transaction{tx})
				if err != nil {
					t.Fatal(err)
				}
				o := execOnce(ctx, fx, chainfx.ChainCfg{}, b, parentView)
				if o.err != nil {
					// genesis-child timestamps may legitimately be refused only by harness mistakes
					t.Fatalf("setup block failed: %v", o.err)
				}
				fx.Index.Put(b)
				parent, parentView = b, o.out.View
			}
		}
		c.ParentTS, c.ParentH = parent.Tmstmp, parent.Hght
		// child fields
		c.Height = c.ParentH + 1
		switch rng.IntN(8) {
		case 0:
			c.Height = c.ParentH
		case 1:
			c.Height = c.ParentH + 2
		case 2:
			c.Height = c.ParentH + uint64(rng.IntN(1000)) + 3
		}
		c.NTxs = rng.IntN(3)
		limit := c.ParentTS + c.Gap
		if c.NTxs == 0 && rng.IntN(2) == 0 {
			limit = c.ParentTS + c.EmptyGap
		}
		c.FutureClass = "past"
		switch rng.IntN(11) {
		case 10:
			// negative timestamps, down to the most negative ones (a difference-based comparison would wrap)
			c.TS = []int64{-1, -1000, math.MinInt64, math.MinInt64 + 1000, math.MinInt64 + c.ParentTS, math.MinInt64 + c.ParentTS + c.Gap - 1, -c.ParentTS}[rng.IntN(7)]
		case 0:
			c.TS = limit - 1
		case 1:
			c.TS = limit
		case 2:
			c.TS = limit + 1
		case 3:
			c.TS = c.ParentTS - 1 - int64(rng.IntN(100000))
		case 4:
			c.TS = c.ParentTS
		case 5:
			c.TS = now + 1000 + 31_000 + int64(rng.IntN(1_000_000))
			c.FutureClass = "far-future"
		case 6:
			c.TS = int64(rng.IntN(2_000_000)) // far in the past (before the 2023 genesis header)
		default:
			c.TS = limit + int64(rng.IntN(20_000))
		}
		if c.FutureClass == "past" && c.TS > now-31_000 {
			c.TS = now - 31_000 - int64(rng.IntN(1000))
		}
		if c.TS < 0 && c.NTxs > 0 {
			c.NTxs = 0 // the generator cannot draw expiries for negative block times; header checks come first anyway
		}
		c.RootOK = rng.IntN(6) != 0
		var txs []*chain.Transaction
		for k := 0; k < c.NTxs; k++ {
			tx, err := w.GenTx(rng, g, c.TS)
			if err != nil {
				t.Fatal(err)
			}
			txs = append(txs, tx)
		}
		root, err := parentView.GetMerkleRoot(ctx)
		if err != nil {
			t.Fatal(err)
		}
		if !c.RootOK {
			root[rng.IntN(32)] ^= 1 << rng.IntN(8)
		}
		sb, err := chain.NewStatelessBlock(parent.GetID(), c.TS, c.Height, txs, root, nil)
		if err != nil {
			t.Fatal(err)
		}
		blk := chain.NewExecutionBlock(sb)
		var o execOutcome
		r.Guard("Chain.Execute", c, func() { o = execOnce(ctx, fx, chainfx.ChainCfg{Cores: 1 + rng.IntN(3), Fetch: 1}, blk, parentView) })
		r.Eval()
		want, why := c11Oracle(c)
		got := o.err == nil
		if got && !want {
			key := "C11/accepts-bad-" + why
			if c.Parent == "genesis" && (why == "early" || why == "early-empty") {
				// would the child also be early relative to the genesis *state* timestamp (0)?
				c2 := c
				c2.ParentTS = 0
				if ok2, _ := c11Oracle(c2); ok2 {
					key = "C11/parent=genesis/child_ts<genesis_header_ts"
				}
			}
			r.Violation(key, c, "block accepted although %s check must fail (parent block ts %d, child ts %d, gap %d/%d, height %d vs parent %d)", why, c.ParentTS, c.TS, c.Gap, c.EmptyGap, c.Height, c.ParentH)
		}
		if !got && want {
			r.Violation("C11/rejects-valid-child", c, "valid child rejected: %v", o.err)
		}
		if want {
			r.Count("valid_children", 1)
		} else {
			r.Count("invalid_children_"+why, 1)
		}
		r.Distinct(c.Parent, int64(c.Height)-int64(c.ParentH), c.TS-limit, c.NTxs == 0, c.RootOK, c.FutureClass, c.Gap, c.EmptyGap)
		if i < 3 {
			r.Sample(c)
		}
	}
	_ = errors.Is
	_ = fmt.Sprint
	r.Finish(r.N(300, 3000))
}
