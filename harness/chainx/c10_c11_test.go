package chainx

import (
	"context"
	"errors"
	"fmt"
	"math"
	"math/big"
	"math/rand/v2"
	"testing"
	"time"

	"github.com/ava-labs/avalanchego/ids"
	"github.com/ava-labs/avalanchego/x/merkledb"

	"github.com/ava-labs/hypersdk/chain"
	ifees "github.com/ava-labs/hypersdk/internal/fees"
	"github.com/ava-labs/hypersdk/internal/validitywindow"
	"github.com/ava-labs/hypersdk/state"
	"github.com/ava-labs/hypersdk/zzverif/chainfx"
	"github.com/ava-labs/hypersdk/zzverif/kit"
)

// ---------------- C10 ----------------

type c10Case struct {
	Expiry   int64      `json:"expiry"`
	TS       int64      `json:"block_ts"`
	Window   int64      `json:"window"`
	ChainOK  bool       `json:"chain_id_matches"`
	NActions int        `json:"n_actions"`
	MaxAct   uint8      `json:"max_actions"`
	Ranges   [][2]int64 `json:"action_ranges"`
	AuthRng  [2]int64   `json:"auth_range"`
}

func inRange(ts int64, rg [2]int64) bool {
	if rg[0] >= 0 && ts < rg[0] {
		return false
	}
	if rg[1] >= 0 && ts > rg[1] {
		return false
	}
	return true
}

// c10Oracle is the closed formula of the statement.
func c10Oracle(c c10Case) bool {
	if c.Expiry%1000 != 0 || c.Expiry < c.TS || c.Expiry > c.TS+c.Window || !c.ChainOK || c.NActions > int(c.MaxAct) {
		return false
	}
	for _, rg := range c.Ranges {
		if !inRange(c.TS, rg) {
			return false
		}
	}
	return inRange(c.TS, c.AuthRng)
}

// c10BigInterval is the interval part of the statement in arbitrary precision:
// whole second, expiry >= block timestamp, expiry <= block timestamp + window.
// sumFits reports whether block timestamp + window is representable as int64.
func c10BigInterval(expiry, ts, window int64) (ok bool, why string, sumFits bool) {
	be, bt := big.NewInt(expiry), big.NewInt(ts)
	up := new(big.Int).Add(bt, big.NewInt(window))
	sumFits = up.IsInt64()
	switch {
	case expiry%1000 != 0:
		return false, "C10/accepts-unaligned-expiry", sumFits
	case be.Cmp(bt) < 0:
		return false, "C10/accepts-expired", sumFits
	case be.Cmp(up) > 0:
		return false, "C10/accepts-too-far-ahead", sumFits
	}
	return true, "C10/rejects-executable", sumFits
}

// genC10Extreme draws (expiry, block timestamp, window) at opposite ends of the
// int64 range and around the point where expiry - timestamp is not representable.
func genC10Extreme(rng *rand.Rand) (c c10Case, class string) {
	const span = 1 << 20
	lo := func() int64 { return math.MinInt64 + int64(rng.Uint64N(span+1)) }
	hi := func() int64 { return math.MaxInt64 - int64(rng.Uint64N(span+1)) }
	c = c10Case{ChainOK: true, MaxAct: 16, NActions: 1, Ranges: [][2]int64{{-1, -1}}, AuthRng: [2]int64{-1, -1}}
	c.Window = []int64{0, 1, 999, 1000, 1001, 5000, 60000, 1 << 20, 1 << 21, 1 << 40, 1 << 62, math.MaxInt64}[rng.IntN(12)]
	offset := func() int64 { // offsets around 0 and around the window
		w := c.Window
		switch rng.IntN(8) {
		case 0:
			return 0
		case 1:
			return 1000
		case 2:
			return w
		case 3:
			return w - w%1000
		case 4:
			if w < math.MaxInt64-1000 {
				return w - w%1000 + 1000
			}
			return w
		case 5:
			return int64(rng.Uint64N(uint64(min(w, 1<<22)) + 1))
		case 6:
			return -1000
		default:
			return int64(rng.Uint64N(1 << 22))
		}
	}
	switch rng.IntN(8) {
	case 0:
		class = "expiry-min/ts-max"
		c.Expiry, c.TS = lo(), hi()
	case 1:
		class = "expiry-max/ts-min"
		c.Expiry, c.TS = hi(), lo()
	case 2:
		class = "both-min"
		c.TS = lo()
		c.Expiry = c.TS + offset() // cannot overflow upwards here; a negative offset may wrap below MinInt64, which is just another extreme pair
	case 3:
		class = "both-max"
		c.TS = hi()
		c.Expiry = c.TS + offset() // wraps to the other end when the sum is not representable
	case 4, 5:
		// expiry = ts + k - 2^64 with k in and around [0, window]: the wrapped difference expiry - ts equals k
		class = "wrap(expiry-ts)-in-window"
		c.TS = math.MaxInt64 - int64(rng.Uint64N(uint64(min(c.Window, 1<<21))+1))
		c.Expiry = c.TS + offset()
	case 6:
		// ts = expiry + k - 2^64: the wrapped difference ts - expiry is small
		class = "wrap(ts-expiry)-small"
		c.Expiry = hi()
		c.TS = c.Expiry + offset()
	default:
		class = "ts-max-exact"
		c.TS = []int64{math.MaxInt64, math.MaxInt64 - 1, math.MaxInt64 - 807, math.MaxInt64 - 808, math.MinInt64, math.MinInt64 + 1, math.MinInt64 + 808}[rng.IntN(7)]
		c.Expiry = []int64{math.MinInt64 + 808, math.MinInt64 + 1808, math.MaxInt64 - 807, math.MaxInt64 - 1807, math.MinInt64, math.MaxInt64}[rng.IntN(6)]
	}
	if rng.IntN(5) != 0 {
		c.Expiry -= c.Expiry % 1000 // whole second (towards zero: never leaves the int64 range)
	}
	return c, class
}

func boundary(rng *rand.Rand, center int64) int64 {
	switch rng.IntN(8) {
	case 0:
		return center
	case 1:
		return center - 1
	case 2:
		return center + 1
	case 3:
		return center - 1000
	case 4:
		return center + 1000
	case 5:
		return center + int64(rng.IntN(2001)) - 1000
	case 6:
		return center - int64(rng.Uint64N(1<<40))
	default:
		return center + int64(rng.Uint64N(1<<40))
	}
}

func genRange(rng *rand.Rand, ts int64) [2]int64 {
	pick := func() int64 {
		switch rng.IntN(5) {
		case 0, 1:
			return -1
		default:
			v := boundary(rng, ts)
			if v < 0 {
				return -1
			}
			return v
		}
	}
	return [2]int64{pick(), pick()}
}

func buildC10Tx(c c10Case, chainID ids.ID) (*chain.Transaction, error) {
	var acts []chain.Action
	for i := 0; i < c.NActions; i++ {
		acts = append(acts, &chainfx.ProgAction{Nonce: uint64(i), Start: c.Ranges[i][0], End: c.Ranges[i][1]})
	}
	cid := chainID
	if !c.ChainOK {
		cid = ids.ID{0xBA, 0xD}
	}
	a := chainfx.SpyAddr(1)
	f := &chainfx.SpyFactory{Auth: chainfx.SpyAuth{ActorAddr: a, SponsorAddr: a, Start: c.AuthRng[0], End: c.AuthRng[1], OK: true}}
	return chainfx.Tx(chain.Base{Timestamp: c.Expiry, ChainID: cid, MaxFee: 1 << 40}, acts, f)
}

func genC10(rng *rand.Rand, ts int64) c10Case {
	c := c10Case{TS: ts, ChainOK: rng.IntN(12) != 0, MaxAct: uint8(1 + rng.IntN(16))}
	c.Window = []int64{0, 1, 999, 1000, 1001, 5000, 60000, 1 << 40}[rng.IntN(8)]
	// expiry around the two bounds, aligned or not
	center := ts
	if rng.IntN(2) == 0 {
		center = ts + c.Window
	}
	c.Expiry = boundary(rng, center)
	if rng.IntN(3) != 0 { // mostly aligned so that the interval clauses decide
		c.Expiry -= c.Expiry % 1000
		if rng.IntN(2) == 0 && c.Expiry < center {
			c.Expiry += 1000
		}
	}
	switch rng.IntN(7) {
	case 6:
		// counts that are congruent to an allowed count modulo 2^8 (a narrowed comparison would wrap)
		c.NActions = []int{256, 257, 256 + int(c.MaxAct), 255 + int(c.MaxAct), 512, 256 + int(c.MaxAct) + 1}[rng.IntN(6)]
	case 0:
		c.NActions = int(c.MaxAct) + 1
	case 1:
		c.NActions = int(c.MaxAct)
	case 2:
		c.NActions = max(0, int(c.MaxAct)-1)
	default:
		c.NActions = 1 + rng.IntN(int(c.MaxAct))
	}
	for i := 0; i < c.NActions; i++ {
		if rng.IntN(4) == 0 && (c.NActions <= 32 || rng.IntN(c.NActions) == 0) { // keep the activation clause undecided for long lists
			c.Ranges = append(c.Ranges, genRange(rng, ts))
		} else {
			c.Ranges = append(c.Ranges, [2]int64{-1, -1})
		}
	}
	c.AuthRng = [2]int64{-1, -1}
	if rng.IntN(5) == 0 {
		c.AuthRng = genRange(rng, ts)
	}
	return c
}

func TestC10(t *testing.T) {
	r := kit.Start(t, "C10", "exploration")
	r.Rule("cases = (expiry, block timestamp, validity window, chain id match, action count vs limit, per-action and auth activation ranges with -1 sentinels), expiry drawn at/around both interval bounds (+-1 ms, +-1 s, aligned/unaligned, negative, far), |t| <= 2^62. Oracle = the closed formula of the statement. Layers: Transaction.PreExecute at an arbitrary timestamp; Chain.Execute of a block containing the transaction (block valid iff formula); PreExecutor.PreExecute (admission) at the current time with a clock bracket and >= 30 s margins. Distinct = distinct (clause outcome vector, boundary offsets).")
	r.Rule("extremes: (expiry, block timestamp, window) with the two timestamps at opposite ends of the int64 range (within 2^20 of MinInt64 / MaxInt64, both orders), both at the same end, and pairs built so that the wrapped int64 difference expiry - timestamp (or timestamp - expiry) lands in and around [0, window]; windows 0 .. MaxInt64; mostly whole-second expiries. Oracle = the interval clauses in math/big; judged at validitywindow.VerifyTimestamp, Base.Execute and Transaction.PreExecute. Acceptances are always judged; refusals only when timestamp+window is an int64.")
	r.Rule("admission at the bounds: MinBlockGap 500 ms; S = first whole second beyond now+window, submitted less than 500 ms before S becomes admissible, and S = first whole second after now, submitted less than 500 ms before it expires. The monitor reads the wall clock only to bracket the pre-executor's own clock read (before <= code's now <= after): an admission is a violation iff S > after+window, a refusal iff after <= S <= before+window, i.e. only when wrong at every instant of the bracket. Sleeps position the call, they never decide; attempts that miss the 500 ms sliver are counted, not judged as landed.")
	r.Assume("timestamps beyond 2^62 ms are out of scope for the formula loop (the oracle's own sums would overflow); the extremes loop uses math/big instead", "negative activation bounds other than -1 are not generated", "where block timestamp + window is not representable as int64, a refusal of a triple inside the interval is not judged (the statement says 'only if')", "the wall clock does not step backwards inside a bracket (brackets with after < before are discarded)")
	ctx := context.Background()
	rng := r.Rand("formula")
	chainID := ids.ID{5}
	n := r.N(30000, 1000000)
	zeroFees := ifees.NewManager(nil)
	bh := chainfxBH()
	for i := 0; i < n && r.Violations() < 10; i++ {
		ts := []int64{0, 1, 999, 1000, 1_700_000_000_000, -1000, -1, 1 << 62}[rng.IntN(8)]
		if rng.IntN(2) == 0 {
			ts = int64(rng.Uint64N(1 << 50))
		}
		c := genC10(rng, ts)
		if c.Expiry > 1<<62 || c.Expiry < -(1<<62) {
			continue
		}
		tx, err := buildC10Tx(c, chainID)
		if err != nil {
			t.Fatal(err)
		}
		rules := chainfx.LooseRules()
		rules.ValidityWindow = c.Window
		rules.MaxActionsPerTx = c.MaxAct
		var got error
		r.Guard("Transaction.PreExecute", c, func() {
			got = tx.PreExecute(ctx, zeroFees, bh, rules, state.ImmutableStorage{}, c.TS)
		})
		r.Eval()
		want := c10Oracle(c)
		if (got == nil) != want {
			r.Violation(c10Key(c, want), c, "Transaction.PreExecute returned %v, formula says executable=%v", got, want)
		}
		r.Distinct(c.Expiry%1000 == 0, c.Expiry-c.TS, c.Expiry-c.TS-c.Window, c.ChainOK, c.NActions-int(c.MaxAct), want)
		if i < 3 {
			r.Sample(c)
		}
		if want {
			r.Count("executable", 1)
		} else {
			r.Count("not_executable", 1)
		}
	}

	// extremes of the int64 range: the interval clauses in arbitrary precision, at the three entry points that share them
	rng = r.Rand("extremes")
	ne := r.N(6000, 200000)
	for i := 0; i < ne && r.Violations() < 10; i++ {
		c, class := genC10Extreme(rng)
		want, key, sumFits := c10BigInterval(c.Expiry, c.TS, c.Window)
		tx, err := buildC10Tx(c, chainID)
		if err != nil {
			t.Fatal(err)
		}
		rules := chainfx.LooseRules()
		rules.ValidityWindow = c.Window
		rules.MaxActionsPerTx = c.MaxAct
		var got [3]error
		r.Guard("validitywindow.VerifyTimestamp", c, func() { got[0] = validitywindow.VerifyTimestamp(c.Expiry, c.TS, 1000, c.Window) })
		r.Guard("Base.Execute", c, func() { got[1] = (&chain.Base{Timestamp: c.Expiry, ChainID: chainID}).Execute(rules, c.TS) })
		r.Guard("Transaction.PreExecute", c, func() {
			got[2] = tx.PreExecute(ctx, zeroFees, bh, rules, state.ImmutableStorage{}, c.TS)
		})
		r.Eval()
		judged := true
		for l, layer := range []string{"validitywindow.VerifyTimestamp", "Base.Execute", "Transaction.PreExecute"} {
			switch {
			case got[l] == nil && !want:
				r.Violation(key, c, "%s accepted (expiry %d, block timestamp %d, window %d) [%s]; in exact arithmetic the triple is outside the validity interval", layer, c.Expiry, c.TS, c.Window, class)
			case got[l] != nil && want && sumFits:
				r.Violation(key, c, "%s returned %v for (expiry %d, block timestamp %d, window %d) [%s]; the triple is inside the validity interval", layer, got[l], c.Expiry, c.TS, c.Window, class)
			case got[l] != nil && want:
				judged = false // timestamp+window is not an int64: a refusal is not judged (the statement only says "only if")
			}
		}
		if !judged {
			r.Count("extreme_refusals_unjudged_ts_plus_window_not_int64", 1)
		}
		d := new(big.Int).Sub(big.NewInt(c.Expiry), big.NewInt(c.TS))
		r.Distinct("ext", class, c.Expiry%1000 == 0, d.Sign(), d.BitLen(), c.Window, want, got[0] == nil)
		r.Count("extreme_cases", 1)
		if want {
			r.Count("extreme_executable", 1)
		}
		if i < 2 {
			r.Sample(c)
		}
	}

	// block level: the block is valid iff the transaction is executable at the block timestamp
	rng = r.Rand("blocks")
	nb := r.N(300, 6000)
	for i := 0; i < nb && r.Violations() < 10; i++ {
		ts := int64(1_700_000_000_000) + int64(rng.IntN(1_000_000))
		c := genC10(rng, ts)
		if c.Window > 1<<30 {
			c.Window = 60000
		}
		rules := chainfx.LooseRules()
		rules.ValidityWindow = c.Window
		rules.MaxActionsPerTx = c.MaxAct
		rules.MinUnitPrice = [5]uint64{}
		a := chainfx.SpyAddr(1)
		fx, err := chainfx.New(chainfx.Options{Rules: rules, Alloc: allocOf(a, 1<<40)})
		if err != nil {
			t.Fatal(err)
		}
		tx, err := buildC10Tx(c, rules.ChainID)
		if err != nil {
			t.Fatal(err)
		}
		blk, err := fx.Block(fx.Genesis, fx.DB, ts, []*chain.Transaction{tx})
		if err != nil {
			t.Fatal(err)
		}
		var o execOutcome
		r.Guard("Chain.Execute", c, func() { o = execOnce(ctx, fx, chainfx.ChainCfg{Cores: 1 + rng.IntN(3), Fetch: 1}, blk, fx.DB) })
		r.Eval()
		want := c10Oracle(c)
		if (o.err == nil) != want {
			r.Violation("block/"+c10Key(c, want), c, "Chain.Execute returned %v, formula says executable=%v", o.err, want)
		}
		r.Distinct("blk", c.Expiry%1000 == 0, c.Expiry-c.TS, c.Expiry-c.TS-c.Window, c.ChainOK, c.NActions-int(c.MaxAct), want)
		r.Count("block_cases", 1)
	}

	// admission: same checks at the current time
	rng = r.Rand("admission")
	na := r.N(300, 6000)
	for i := 0; i < na && r.Violations() < 10; i++ {
		rules := chainfx.LooseRules()
		rules.ValidityWindow = []int64{5000, 60000, 120000}[rng.IntN(3)]
		rules.MaxActionsPerTx = uint8(1 + rng.IntN(16))
		rules.MinUnitPrice = [5]uint64{}
		a := chainfx.SpyAddr(1)
		fx, err := chainfx.New(chainfx.Options{Rules: rules, Alloc: allocOf(a, 1<<40)})
		if err != nil {
			t.Fatal(err)
		}
		inst, err := fx.NewChain(chainfx.ChainCfg{})
		if err != nil {
			t.Fatal(err)
		}
		t0 := time.Now().UnixMilli()
		c := c10Case{Window: rules.ValidityWindow, ChainOK: rng.IntN(8) != 0, MaxAct: rules.MaxActionsPerTx, AuthRng: [2]int64{-1, -1}}
		// expiry classes with >= 30 s margin on the reject side
		switch rng.IntN(5) {
		case 0:
			c.Expiry = (t0/1000 - 31 - int64(rng.IntN(1000))) * 1000 // expired
		case 1:
			c.Expiry = ((t0+c.Window)/1000 + 32 + int64(rng.IntN(1000))) * 1000 // too far ahead
		case 2:
			c.Expiry = (t0/1000+2)*1000 + 1 + int64(rng.IntN(998)) // not a whole second
		default:
			c.Expiry = (t0/1000 + 2 + int64(rng.IntN(int(c.Window/1000)-3))) * 1000 // comfortably inside
		}
		c.NActions = 1 + rng.IntN(int(c.MaxAct))
		if rng.IntN(6) == 0 {
			c.NActions = int(c.MaxAct) + 1
		}
		for k := 0; k < c.NActions; k++ {
			rg := [2]int64{-1, -1}
			switch rng.IntN(10) {
			case 0:
				rg[0] = t0 + 3_600_000 // not yet active
			case 1:
				rg[1] = t0 - 3_600_000 // no longer active
			case 2:
				rg = [2]int64{t0 - 3_600_000, t0 + 3_600_000}
			}
			c.Ranges = append(c.Ranges, rg)
		}
		if rng.IntN(8) == 0 {
			c.AuthRng = [2]int64{t0 + 3_600_000, -1}
		}
		tx, err := buildC10Tx(c, rules.ChainID)
		if err != nil {
			t.Fatal(err)
		}
		var got error
		r.Guard("Chain.PreExecute", c, func() { got = inst.Chain.PreExecute(ctx, fx.Genesis, fx.DB, tx) })
		t1 := time.Now().UnixMilli()
		inst.Close()
		r.Eval()
		c.TS = t0
		w0 := c10Oracle(c)
		c.TS = t1
		w1 := c10Oracle(c)
		if w0 != w1 || t1-t0 > 1500 {
			r.Count("admission_undetermined", 1)
			continue
		}
		if (got == nil) != w0 {
			r.Violation("admission/"+c10Key(c, w0), c, "admission returned %v between t=%d and t=%d, formula says admissible=%v", got, t0, t1, w0)
		}
		r.Distinct("adm", c.Expiry%1000 == 0, (c.Expiry-t0)/1000, c.ChainOK, c.NActions-int(c.MaxAct), w0)
		r.Count("admission_cases", 1)
	}

	// admission exactly at the bounds. The pre-executor reads the wall clock itself (once, between our two
	// readings), so the monitor reads it only to bracket that read: before <= the code's now <= after.
	//  far side : S = first whole second > now+window. Admitting S is wrong for EVERY instant of the bracket iff S > after+window.
	//  near side: S = first whole second > now. Refusing S is wrong for EVERY instant of the bracket iff after <= S and S <= before+window.
	// Sleeping only positions the call less than MinBlockGap before the instant at which the verdict flips; it never decides.
	rng = r.Rand("admission-sliver")
	const sliverGap = int64(500)
	target := r.N(2, 12)
	landed := map[bool]int{}
	for attempt := 0; attempt < 4*target && (landed[true] < target || landed[false] < target) && r.Violations() < 10; attempt++ {
		far := attempt%2 == 0
		if landed[true] >= target {
			far = false
		} else if landed[false] >= target {
			far = true
		}
		rules := chainfx.LooseRules()
		rules.ValidityWindow = []int64{5000, 60000, 120000}[rng.IntN(3)]
		rules.MinBlockGap = sliverGap
		rules.MinUnitPrice = [5]uint64{}
		a := chainfx.SpyAddr(1)
		fx, err := chainfx.New(chainfx.Options{Rules: rules, Alloc: allocOf(a, 1<<40)})
		if err != nil {
			t.Fatal(err)
		}
		inst, err := fx.NewChain(chainfx.ChainCfg{})
		if err != nil {
			t.Fatal(err)
		}
		window := rules.ValidityWindow
		c := c10Case{Window: window, ChainOK: true, MaxAct: rules.MaxActionsPerTx, NActions: 1, Ranges: [][2]int64{{-1, -1}}, AuthRng: [2]int64{-1, -1}}
		now := time.Now().UnixMilli()
		var d int64 // ms until the verdict for S flips
		if far {
			c.Expiry = ((now+window)/1000 + 1) * 1000
			d = c.Expiry - window - now
		} else {
			c.Expiry = (now/1000 + 1) * 1000
			d = c.Expiry - now
		}
		tx, err := buildC10Tx(c, rules.ChainID)
		if err != nil {
			t.Fatal(err)
		}
		if d > sliverGap {
			time.Sleep(time.Duration(d-sliverGap/2) * time.Millisecond)
		}
		var got error
		before := time.Now().UnixMilli()
		r.Guard("Chain.PreExecute", c, func() { got = inst.Chain.PreExecute(ctx, fx.Genesis, fx.DB, tx) })
		after := time.Now().UnixMilli()
		inst.Close()
		S := c.Expiry
		if after < before { // the wall clock was set back: no bracket
			r.Count("admission_sliver_clock_stepped", 1)
			continue
		}
		if far {
			c.TS = after
			if S <= after+window {
				r.Count("admission_sliver_missed", 1)
				continue
			}
			r.Eval()
			if got == nil {
				r.Violation("admission/C10/accepts-too-far-ahead", c, "admitted expiry %d while the wall clock went from %d to %d: %d..%d ms beyond now+window(%d) at every instant of the call", S, before, after, S-window-after, S-window-before, window)
			}
			if S <= before+window+sliverGap {
				landed[true]++
				r.Count("admission_sliver_probes", 1)
				r.Distinct("adm-far", window, (S-window-after)/50)
			} else {
				r.Count("admission_sliver_missed", 1)
			}
		} else {
			c.TS = before
			if S < after || S > before+window {
				r.Count("admission_near_expiry_missed", 1)
				continue
			}
			r.Eval()
			if got != nil {
				r.Violation("admission/C10/rejects-executable", c, "refused expiry %d with %v while the wall clock went from %d to %d: not expired and within the window(%d) at every instant of the call", S, got, before, after, window)
			}
			if S < before+sliverGap {
				landed[false]++
				r.Count("admission_near_expiry_probes", 1)
				r.Distinct("adm-near", window, (S-after)/50)
			} else {
				r.Count("admission_near_expiry_missed", 1)
			}
		}
	}
	r.Finish(r.N(500, 5000))
}

func c10Key(c c10Case, want bool) string {
	if want {
		return "C10/rejects-executable"
	}
	switch {
	case !c.ChainOK:
		return "C10/accepts-wrong-chain"
	case c.Expiry%1000 != 0:
		return "C10/accepts-unaligned-expiry"
	case c.Expiry < c.TS:
		return "C10/accepts-expired"
	case c.Expiry > c.TS+c.Window:
		return "C10/accepts-too-far-ahead"
	case c.NActions > int(c.MaxAct):
		return "C10/accepts-too-many-actions"
	default:
		return "C10/accepts-inactive-action-or-auth"
	}
}

// ---------------- C11 ----------------

type c11Case struct {
	Parent      string `json:"parent"` // "genesis" or "descendant"
	ParentTS    int64  `json:"parent_block_ts"`
	ParentH     uint64 `json:"parent_height"`
	Height      uint64 `json:"height"`
	TS          int64  `json:"ts"`
	NTxs        int    `json:"n_txs"`
	RootOK      bool   `json:"root_matches"`
	Gap         int64  `json:"min_block_gap"`
	EmptyGap    int64  `json:"min_empty_block_gap"`
	FutureClass string `json:"future_class"` // "past" | "far-future" | "sub-second-beyond-bound" | "just-within-bound"
	Before      int64  `json:"clock_before_ms,omitempty"`
	After       int64  `json:"clock_after_ms,omitempty"`
}

func c11Oracle(c c11Case) (bool, string) {
	switch {
	case c.Height != c.ParentH+1:
		return false, "height"
	case c.TS < c.ParentTS+c.Gap:
		return false, "early"
	case c.NTxs == 0 && c.TS < c.ParentTS+c.EmptyGap:
		return false, "early-empty"
	case c.FutureClass == "far-future":
		return false, "future"
	case !c.RootOK:
		return false, "root"
	}
	return true, ""
}

func TestC11(t *testing.T) {
	r := kit.Start(t, "C11", "exploration")
	r.Rule("crafted children (height, timestamp, tx count, state root each exact / off by +-1 / far off) of the genesis block and of executed descendants, random min block gaps incl. 0, executed by the real processor; accept iff height = parent+1, ts >= parent BLOCK timestamp + gap (empty gap without txs), ts <= now + future bound (only classes >= 30 s away from the bound are judged), state root = parent post-state root. Distinct = distinct (parent kind, field offsets).")
	r.Rule("future bound at ms resolution: otherwise valid children of genesis stamped with the last millisecond of the second containing now+bound (up to 999 ms beyond the bound), and controls stamped now+bound-(0..50 ms), spread over the phases of the wall-clock second. The monitor reads the wall clock only to bracket the processor's own clock read (before <= code's now <= after): acceptance is a violation iff ts > after+bound, refusal of a control iff ts <= before+bound, i.e. only when wrong at every instant of the bracket; everything else is counted as undetermined.")
	r.Assume("in the crafted-children loop the future bound is judged only with timestamps at least 30 s on either side of now+bound", "the wall clock does not step backwards inside a bracket (brackets with after < before are discarded)")
	ctx := context.Background()
	rng := r.Rand("cases")
	n := r.N(700, 20000)
	for i := 0; i < n && r.Violations() < 10; i++ {
		rules := chainfx.LooseRules()
		rules.MinBlockGap = []int64{0, 1, 100, 1000, 7000}[rng.IntN(5)]
		rules.MinEmptyBlockGap = []int64{0, 1, 750, 2500, 20000}[rng.IntN(5)]
		w := chainfx.NewWorld(rng, 4, 2, false, rules)
		fx, err := w.Fixture()
		if err != nil {
			t.Fatal(err)
		}
		now := time.Now().UnixMilli()
		parent := fx.Genesis
		var parentView merkledb.View = fx.DB
		c := c11Case{Parent: "genesis", Gap: rules.MinBlockGap, EmptyGap: rules.MinEmptyBlockGap}
		g := chainfx.DefaultGen()
		g.PBalanceKey = 0 // block-header monitor: transactions must not disturb their sponsors
		if rng.IntN(2) == 0 {
			// execute 1..2 ordinary blocks first
			c.Parent = "descendant"
			pts := now - 400_000
			for k := 0; k < 1+rng.IntN(2); k++ {
				pts += 30_000
				tx, err := w.GenTx(rng, g, pts)
				if err != nil {
					t.Fatal(err)
				}
				b, err := fx.Block(parent, parentView, pts, []*chain.Transaction{tx})
				if err != nil {
					t.Fatal(err)
				}
				o := execOnce(ctx, fx, chainfx.ChainCfg{}, b, parentView)
				if o.err != nil {
					// genesis-child timestamps may legitimately be refused only by harness mistakes
					t.Fatalf("setup block failed: %v", o.err)
				}
				fx.Index.Put(b)
				parent, parentView = b, o.out.View
			}
		}
		c.ParentTS, c.ParentH = parent.Tmstmp, parent.Hght
		// child fields
		c.Height = c.ParentH + 1
		switch rng.IntN(8) {
		case 0:
			c.Height = c.ParentH
		case 1:
			c.Height = c.ParentH + 2
		case 2:
			c.Height = c.ParentH + uint64(rng.IntN(1000)) + 3
		}
		c.NTxs = rng.IntN(3)
		limit := c.ParentTS + c.Gap
		if c.NTxs == 0 && rng.IntN(2) == 0 {
			limit = c.ParentTS + c.EmptyGap
		}
		c.FutureClass = "past"
		switch rng.IntN(11) {
		case 10:
			// negative timestamps, down to the most negative ones (a difference-based comparison would wrap)
			c.TS = []int64{-1, -1000, math.MinInt64, math.MinInt64 + 1000, math.MinInt64 + c.ParentTS, math.MinInt64 + c.ParentTS + c.Gap - 1, -c.ParentTS}[rng.IntN(7)]
		case 0:
			c.TS = limit - 1
		case 1:
			c.TS = limit
		case 2:
			c.TS = limit + 1
		case 3:
			c.TS = c.ParentTS - 1 - int64(rng.IntN(100000))
		case 4:
			c.TS = c.ParentTS
		case 5:
			c.TS = now + 1000 + 31_000 + int64(rng.IntN(1_000_000))
			c.FutureClass = "far-future"
		case 6:
			c.TS = int64(rng.IntN(2_000_000)) // far in the past (before the 2023 genesis header)
		default:
			c.TS = limit + int64(rng.IntN(20_000))
		}
		if c.FutureClass == "past" && c.TS > now-31_000 {
			c.TS = now - 31_000 - int64(rng.IntN(1000))
		}
		if c.TS < 0 && c.NTxs > 0 {
			c.NTxs = 0 // the generator cannot draw expiries for negative block times; header checks come first anyway
		}
		c.RootOK = rng.IntN(6) != 0
		var txs []*chain.Transaction
		for k := 0; k < c.NTxs; k++ {
			tx, err := w.GenTx(rng, g, c.TS)
			if err != nil {
				t.Fatal(err)
			}
			txs = append(txs, tx)
		}
		root, err := parentView.GetMerkleRoot(ctx)
		if err != nil {
			t.Fatal(err)
		}
		if !c.RootOK {
			root[rng.IntN(32)] ^= 1 << rng.IntN(8)
		}
		sb, err := chain.NewStatelessBlock(parent.GetID(), c.TS, c.Height, txs, root, nil)
		if err != nil {
			t.Fatal(err)
		}
		blk := chain.NewExecutionBlock(sb)
		var o execOutcome
		r.Guard("Chain.Execute", c, func() { o = execOnce(ctx, fx, chainfx.ChainCfg{Cores: 1 + rng.IntN(3), Fetch: 1}, blk, parentView) })
		r.Eval()
		want, why := c11Oracle(c)
		got := o.err == nil
		if got && !want {
			key := "C11/accepts-bad-" + why
			if c.Parent == "genesis" && (why == "early" || why == "early-empty") {
				// would the child also be early relative to the genesis *state* timestamp (0)?
				c2 := c
				c2.ParentTS = 0
				if ok2, _ := c11Oracle(c2); ok2 {
					key = "C11/parent=genesis/child_ts<genesis_header_ts"
				}
			}
			r.Violation(key, c, "block accepted although %s check must fail (parent block ts %d, child ts %d, gap %d/%d, height %d vs parent %d)", why, c.ParentTS, c.TS, c.Gap, c.EmptyGap, c.Height, c.ParentH)
		}
		if !got && want {
			r.Violation("C11/rejects-valid-child", c, "valid child rejected: %v", o.err)
		}
		if want {
			r.Count("valid_children", 1)
		} else {
			r.Count("invalid_children_"+why, 1)
		}
		r.Distinct(c.Parent, int64(c.Height)-int64(c.ParentH), c.TS-limit, c.NTxs == 0, c.RootOK, c.FutureClass, c.Gap, c.EmptyGap)
		if i < 3 {
			r.Sample(c)
		}
	}

	// the future bound at millisecond resolution. The processor reads the wall clock itself (once, during
	// Execute), so the monitor reads it only to bracket that read: before <= the code's now <= after.
	//  beyond: T = last millisecond of the second containing before+bound. Accepting T is wrong for EVERY instant of the bracket iff T > after+bound.
	//  within: T = before+bound-(0..50). Refusing T is wrong for EVERY instant of the bracket (T <= before+bound <= now+bound).
	rng = r.Rand("future-bound")
	bound := chain.FutureBound.Milliseconds()
	np := r.N(24, 240)
	for i := 0; i < np && r.Violations() < 10; i++ {
		if i > 0 {
			time.Sleep(37 * time.Millisecond) // positioning only: spreads the probes over the phases of the wall-clock second
		}
		rules := chainfx.LooseRules()
		rules.MinBlockGap = []int64{0, 1, 100, 1000, 7000}[rng.IntN(5)]
		rules.MinEmptyBlockGap = []int64{0, 1, 750, 2500, 20000}[rng.IntN(5)]
		w := chainfx.NewWorld(rng, 4, 2, false, rules)
		fx, err := w.Fixture()
		if err != nil {
			t.Fatal(err)
		}
		root, err := fx.DB.GetMerkleRoot(ctx)
		if err != nil {
			t.Fatal(err)
		}
		g := chainfx.DefaultGen()
		g.PBalanceKey = 0
		c := c11Case{Parent: "genesis", ParentTS: fx.Genesis.Tmstmp, ParentH: fx.Genesis.Hght, Height: fx.Genesis.Hght + 1, RootOK: true, Gap: rules.MinBlockGap, EmptyGap: rules.MinEmptyBlockGap, NTxs: rng.IntN(2)}
		within := i%4 == 3
		c.Before = time.Now().UnixMilli()
		if within {
			c.FutureClass = "just-within-bound"
			c.TS = c.Before + bound - int64(rng.IntN(51))
		} else {
			c.FutureClass = "sub-second-beyond-bound"
			c.TS = (c.Before+bound)/1000*1000 + 999
			if c.TS <= c.Before+bound+5 {
				r.Count("future_bound_probe_skipped_phase", 1)
				continue
			}
		}
		if c.ParentTS+max(c.Gap, c.EmptyGap) > c.TS { // cannot happen with a 2023 genesis header; keeps the probe "otherwise valid"
			t.Fatalf("harness: genesis timestamp %d too close to now", c.ParentTS)
		}
		var txs []*chain.Transaction
		for k := 0; k < c.NTxs; k++ {
			tx, err := w.GenTx(rng, g, c.TS)
			if err != nil {
				t.Fatal(err)
			}
			txs = append(txs, tx)
		}
		sb, err := chain.NewStatelessBlock(fx.Genesis.GetID(), c.TS, c.Height, txs, root, nil)
		if err != nil {
			t.Fatal(err)
		}
		blk := chain.NewExecutionBlock(sb)
		var o execOutcome
		r.Guard("Chain.Execute", c, func() { o = execOnce(ctx, fx, chainfx.ChainCfg{Cores: 1, Fetch: 1}, blk, fx.DB) })
		c.After = time.Now().UnixMilli()
		if c.After < c.Before { // the wall clock was set back: no bracket
			r.Count("future_bound_clock_stepped", 1)
			continue
		}
		if within {
			r.Eval()
			if o.err != nil {
				r.Violation("C11/rejects-valid-child", c, "child with timestamp %d refused (%v) although the wall clock went from %d to %d: at most %d ms ahead, bound %d ms", c.TS, o.err, c.Before, c.After, c.TS-c.Before, bound)
			}
			r.Count("future_bound_within_probes", 1)
			r.Distinct("fb-within", c.TS-c.Before-bound, c.Before%1000/50, c.NTxs)
			continue
		}
		if c.TS <= c.After+bound {
			r.Count("future_bound_probe_undetermined", 1)
			continue
		}
		r.Eval()
		if o.err == nil {
			r.Violation("C11/accepts-beyond-future-bound-ms", c, "child with timestamp %d verified although the wall clock went from %d to %d: %d..%d ms beyond now+bound(%d ms) at every instant of the call", c.TS, c.Before, c.After, c.TS-bound-c.After, c.TS-bound-c.Before, bound)
		} else if !errors.Is(o.err, chain.ErrTimestampTooLate) {
			r.Count("future_bound_refused_for_other_reason", 1)
		}
		r.Count("future_bound_beyond_probes", 1)
		r.Distinct("fb-beyond", (c.TS-bound-c.After)/50, c.NTxs)
	}
	_ = fmt.Sprint
	r.Finish(r.N(300, 3000))
}
