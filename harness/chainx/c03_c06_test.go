package chainx

import (
	"bytes"
	"context"
	"fmt"
	"math/rand/v2"
	"testing"

	"github.com/ava-labs/avalanchego/ids"
	"github.com/ava-labs/avalanchego/x/merkledb"

	"github.com/ava-labs/hypersdk/auth"
	"github.com/ava-labs/hypersdk/chain"
	"github.com/ava-labs/hypersdk/crypto/ed25519"
	"github.com/ava-labs/hypersdk/state"
	"github.com/ava-labs/hypersdk/zzverif/chainfx"
	"github.com/ava-labs/hypersdk/zzverif/kit"
)

func authED25519(k ed25519.PrivateKey) chain.AuthFactory { return auth.NewED25519Factory(k) }

// ---- C03: atomicity + fee, programmable actions aimed at the sponsor's own balance key ----

type c03Witness struct {
	Txs      []string          `json:"txs"`
	TxBytes  []string          `json:"tx_bytes"`
	PreState map[string]string `json:"pre_state"`
	Handler  string            `json:"balance_handler"`
}

// genC03Tx: 1..maxActions actions; actions write / delete / re-create keys
// (including the sponsor's balance key) and may then fail.
func genC03Tx(rng *rand.Rand, w *chainfx.World, fx *chainfx.Fixture, ts int64, maxActions int) (*chain.Transaction, error) {
	si := rng.IntN(len(w.Factories))
	balKey := []byte(fx.BalanceKey(w.Addrs[si]))
	other := []byte(fx.BalanceKey(w.Addrs[rng.IntN(len(w.Addrs))]))
	na := 1 + rng.IntN(maxActions)
	if rng.IntN(2) == 0 {
		na = 1 + rng.IntN(3)
	}
	var acts []chain.Action
	failAt := -1
	if rng.IntN(2) == 0 {
		failAt = rng.IntN(na)
	}
	for i := 0; i < na; i++ {
		a := w.GenAction(rng, chainfx.GenCfg{MaxOps: 0})
		pool := [][]byte{balKey, w.Keys[rng.IntN(len(w.Keys))], w.Keys[rng.IntN(len(w.Keys))]}
		if rng.IntN(4) == 0 {
			pool = append(pool, other)
		}
		for _, k := range pool {
			p := state.All
			if rng.IntN(8) == 0 {
				p = []state.Permissions{state.Read, state.Write, state.None}[rng.IntN(3)]
			}
			a.Keys = append(a.Keys, chainfx.KeyDecl{Key: k, Perm: p})
		}
		a.Canonicalize()
		nops := 1 + rng.IntN(6)
		for j := 0; j < nops; j++ {
			k := pool[rng.IntN(len(pool))]
			switch rng.IntN(6) {
			case 0, 1:
				a.Ops = append(a.Ops, chainfx.Op{Kind: chainfx.OpGet, Key: k})
			case 2, 3:
				v := w.Value(rng, k, true)
				if len(k) == len(balKey) && k[0] == balKey[0] && len(k) > 30 {
					v = be64(uint64(rng.IntN(1 << 40)))
					if rng.IntN(3) == 0 {
						v = be64(^uint64(0) - uint64(rng.IntN(10)))
					}
				}
				if len(v) == 0 {
					v = nil
				}
				a.Ops = append(a.Ops, chainfx.Op{Kind: chainfx.OpPut, Key: k, Val: v})
			default:
				a.Ops = append(a.Ops, chainfx.Op{Kind: chainfx.OpDel, Key: k})
			}
		}
		if i == failAt {
			pos := rng.IntN(len(a.Ops) + 1)
			ops := append([]chainfx.Op{}, a.Ops[:pos]...)
			ops = append(ops, chainfx.Op{Kind: chainfx.OpFail})
			a.Ops = append(ops, a.Ops[pos:]...)
		}
		acts = append(acts, a)
	}
	expiry := (ts/1000 + 1 + int64(rng.IntN(20))) * 1000
	base := chain.Base{Timestamp: expiry, ChainID: w.Rules.ChainID, MaxFee: 1 << 50}
	return chainfx.Tx(base, acts, w.Factories[si])
}

func be64(v uint64) []byte {
	return []byte{byte(v >> 56), byte(v >> 48), byte(v >> 40), byte(v >> 32), byte(v >> 24), byte(v >> 16), byte(v >> 8), byte(v)}
}

func TestC03(t *testing.T) {
	r := kit.Start(t, "C03", "exploration")
	r.Rule("(A) blocks of 1..3 transactions of 1..16 programmable actions that read/write/delete/re-create keys including the sponsor's own balance key and then fail at a PRNG-chosen point (prefix balance handler); in a third of these blocks a sponsor WITHOUT a balance entry in the parent state is funded by an earlier transaction of the block (exactly fee / fee+-1 / fees of two later transactions / funding write rolled back or lacking allocate) or drained by another or by its own earlier transaction (to exactly fee / fee-1 / 0 / deleted) and pays for a later transaction, interleaved with the others; (B) blocks of reference-VM transfer transactions (self transfers, full-balance, zero and overflowing amounts; reference-VM balance handler that deletes empty accounts; in a quarter of the blocks an empty/poor account is first funded by a transfer with exactly fee / fee+-1 / fee+spend(-1) of its own following transaction, or the richest account keeps exactly that much). Each block is executed by the real processor; every result (success flag, per-action outputs which echo every read, units, fee), the sponsor balance, every other key and the state root are compared with an independent model that charges fee = sum(price*units) first and applies actions all-or-nothing. Non-trivial = a transaction that touches its sponsor's balance key or fails after writing; distinct = distinct op/transfer sequence.")
	r.Assume("unit prices of the block come from the real fee manager (C13)", "units formula is re-derived in the model (also judged by C12)")
	ctx := context.Background()
	rng := r.Rand("progs")
	nA := r.N(400, 12000)
	for ci := 0; ci < nA && r.Violations() < 5; ci++ {
		w := chainfx.NewWorld(rng, 4+rng.IntN(4), 2+rng.IntN(3), false, chainfx.LooseRules())
		if rng.IntN(3) == 0 {
			w.Rules.MinUnitPrice = [5]uint64{uint64(1 + rng.IntN(500)), uint64(rng.IntN(300)), uint64(rng.IntN(300)), uint64(rng.IntN(300)), uint64(rng.IntN(300))}
		}
		w.AddFresh(1) // a sponsor without any balance entry in the parent state
		fx, err := w.Fixture()
		if err != nil {
			t.Fatal(err)
		}
		model := w.Model()
		ts := int64(1_700_000_000_000) + int64(rng.IntN(1000))*1000
		prices, err := nextPrices(ctx, fx, fx.DB, ts)
		if err != nil {
			t.Fatal(err)
		}
		var txs []*chain.Transaction
		ntx := 1 + rng.IntN(3)
		cross := rng.IntN(3) == 0
		if cross {
			ntx = rng.IntN(3)
		}
		for i := 0; i < ntx; i++ {
			tx, err := genC03Tx(rng, w, fx, ts, 16)
			if err != nil {
				t.Fatal(err)
			}
			txs = append(txs, tx)
		}
		if cross {
			// the fresh sponsor is funded (exactly fee / fee+-1 / for two transactions) or drained by an
			// earlier transaction of the block and pays for a later one; interleaved with the others
			pat, kind, err := w.GenSponsorCross(rng, chainfx.DefaultGen(), prices, ts, 0, rng.IntN(len(w.Factories)), rng.IntN(len(w.Factories)))
			if err != nil {
				t.Fatal(err)
			}
			txs = chainfx.Interleave(rng, txs, pat)
			r.Count("sponsor_cross/"+kind, 1)
		}
		wit := c03Witness{Handler: "prefix", PreState: map[string]string{}}
		for _, tx := range txs {
			wit.Txs = append(wit.Txs, chainfx.DescribeTx(tx))
			wit.TxBytes = append(wit.TxBytes, kit.Hex(tx.Bytes()))
		}
		for k, v := range model.State {
			wit.PreState[kit.Hex([]byte(k))] = kit.Hex(v)
		}
		blk, err := fx.Block(fx.Genesis, fx.DB, ts, txs)
		if err != nil {
			t.Fatal(err)
		}
		pm := model.Clone()
		pred := pm.ApplyBlock(txs, prices)
		var o execOutcome
		cfg := chainfx.ChainCfg{Cores: 1 + rng.IntN(4), Fetch: 1 + rng.IntN(4), SigWorkers: rng.IntN(3)}
		r.Guard("Chain.Execute", wit, func() { o = execOnce(ctx, fx, cfg, blk, fx.DB) })
		r.Eval()
		switch {
		case pred.Invalid != "" && o.err == nil:
			r.Violation("C03/invalid-block-accepted", wit, "model rejects (%s) but the block executed", pred.Invalid)
		case pred.Invalid == "" && o.err != nil:
			r.Violation("C03/valid-block-rejected", wit, "model accepts but execution failed: %v", o.err)
		case pred.Invalid == "":
			if d := compareWithModel(ctx, fx, w, o.out, pred, pm, blk); d != "" {
				r.Violation("C03/result-or-state-differs", wit, "%s", d)
			} else if want, err := expectedRoot(ctx, fx, fx.DB, model.State, pm.State, o.out); err != nil {
				t.Fatal(err)
			} else if want.String() != o.root {
				r.Violation("C03/untracked-state-change", wit, "state root %s differs from root %s of parent + model diff + metadata: execution changed keys outside the model", o.root, want)
			}
			for i, res := range pred.Results {
				if !res.Success {
					r.Count("failed_txs", 1)
				} else {
					r.Count("successful_txs", 1)
				}
				_ = i
			}
		default:
			r.Count("invalid_blocks", 1)
		}
		if cross {
			if pred.Invalid == "" {
				r.Count("sponsor_cross_blocks_valid", 1)
			} else {
				r.Count("sponsor_cross_blocks_invalid", 1)
			}
		}
		r.Distinct(wit.Txs)
		r.Sample(wit.Txs)
	}

	// (B) reference VM transfers
	rng = r.Rand("transfers")
	nB := r.N(400, 12000)
	for ci := 0; ci < nB && r.Violations() < 5; ci++ {
		mw := newMorphWorld(rng, 3+rng.IntN(2), ci%8 == 0)
		runMorphCase(ctx, t, r, rng, mw, "C03", 1+rng.IntN(3), 1, nil)
	}
	r.Finish(r.N(300, 5000))
}

// runMorphCase executes nBlocks blocks of transfer transactions on the real
// processor and compares with the token model; used by C03 and C06.
func runMorphCase(ctx context.Context, t *testing.T, r *kit.Run, rng *rand.Rand, mw *morphWorld, prop string, maxTxs, nBlocks int, useBuilder func(fx *chainfx.Fixture, inst *chainfx.Inst, parent *chain.OutputBlock, txs []*chain.Transaction) (*chain.ExecutionBlock, error)) {
	fx, err := mw.fixture()
	if err != nil {
		t.Fatal(err)
	}
	model := mw.model()
	parent := fx.Genesis
	var parentView merkledb.View = fx.DB
	ts := int64(1_700_000_000_000)
	seenTx := map[ids.ID]bool{}
	for bi := 0; bi < nBlocks; bi++ {
		ts += int64(1000 * (1 + rng.IntN(5)))
		ntx := 1 + rng.IntN(maxTxs)
		prices, err := nextPrices(ctx, fx, parentView, ts)
		if err != nil {
			t.Fatal(err)
		}
		var txs []*chain.Transaction
		gm := model.clone() // generation-time view of balances (approximate after failures)
		gm.start = model.clone().bal
		if rng.IntN(4) == 0 {
			// an account whose ability to pay changes inside the block (funded / drained to exactly
			// fee, fee+-1 by an earlier transaction); placed first so that the aim is exact
			pat, kind, err := mw.genMorphCross(rng, gm, ts, prices)
			if err != nil {
				t.Fatal(err)
			}
			fresh := len(pat) > 0
			for _, tx := range pat {
				fresh = fresh && !seenTx[tx.GetID()]
			}
			if fresh {
				for _, tx := range pat {
					seenTx[tx.GetID()] = true
					txs = append(txs, tx)
					_, _ = gm.applyTx(tx, prices)
				}
				r.Count("pay_ability_cross/"+kind, 1)
				ntx = rng.IntN(ntx + 1) // and fewer random transactions behind it
			}
		}
		for i := 0; i < ntx; i++ {
			tx, err := mw.genTransferTx(rng, gm, ts, 16, prices)
			if err != nil {
				t.Fatal(err)
			}
			if seenTx[tx.GetID()] {
				continue // transfers carry no nonce: an identical draw would be a replay (C09's subject)
			}
			seenTx[tx.GetID()] = true
			txs = append(txs, tx)
			_, _ = gm.applyTx(tx, prices)
		}
		wit := c03Witness{Handler: "morpheusvm", PreState: map[string]string{}}
		for _, tx := range txs {
			wit.Txs = append(wit.Txs, describeTransferTx(tx))
			wit.TxBytes = append(wit.TxBytes, kit.Hex(tx.Bytes()))
		}
		for a, v := range model.bal {
			wit.PreState[kit.Hex(a[:])] = fmt.Sprint(v)
		}
		blk, err := fx.Block(parent, parentView, ts, txs)
		if err != nil {
			t.Fatal(err)
		}
		pm := model.clone()
		pred, invalid := pm.applyBlock(txs, prices)
		var o execOutcome
		cfg := chainfx.ChainCfg{Cores: 1 + rng.IntN(4), Fetch: 1 + rng.IntN(4), SigWorkers: rng.IntN(3)}
		r.Guard("Chain.Execute", wit, func() { o = execOnce(ctx, fx, cfg, blk, parentView) })
		r.Eval()
		if invalid != "" {
			if o.err == nil {
				r.Violation(prop+"/invalid-block-accepted", wit, "model rejects (%s) but the block executed", invalid)
			}
			r.Count("invalid_blocks", 1)
			return
		}
		if o.err != nil {
			r.Violation(prop+"/valid-block-rejected", wit, "model accepts but execution failed: %v", o.err)
			return
		}
		res := o.out.ExecutionResults.Results
		var feeSum uint64
		for i, got := range res {
			if d := chainfx.CompareResult(got, pred[i]); d != "" {
				r.Violation(prop+"/result-differs", wit, "tx %d: %s", i, d)
				return
			}
			feeSum += got.Fee
			if got.Success {
				r.Count("successful_txs", 1)
			} else {
				r.Count("failed_txs", 1)
			}
		}
		// conservation: sum(post) = sum(pre) - fees, on the balances read back from the executed view
		var preHi, preLo = model.sum()
		var postHi, postLo uint64
		for _, a := range mw.Addrs {
			b, err := fx.BH.GetBalance(ctx, a, o.out.View)
			if err != nil {
				r.Violation(prop+"/balance-unreadable", wit, "balance of %x: %v", a, err)
				return
			}
			if b != pm.bal[a] {
				r.Violation(prop+"/balance-differs", wit, "balance of %x = %d, model %d", a[:5], b, pm.bal[a])
				return
			}
			lo := postLo + b
			if lo < postLo {
				postHi++
			}
			postLo = lo
		}
		wantLo := preLo - feeSum
		wantHi := preHi
		if wantLo > preLo {
			wantHi--
		}
		if postHi != wantHi || postLo != wantLo {
			r.Violation(prop+"/supply-not-conserved", wit, "sum of balances after = (%d,%d), before - fees = (%d,%d)", postHi, postLo, wantHi, wantLo)
			return
		}
		want, err := expectedRoot(ctx, fx, parentView, model.stateMap(), pm.stateMap(), o.out)
		if err != nil {
			t.Fatal(err)
		}
		if want.String() != o.root {
			r.Violation(prop+"/untracked-state-change", wit, "state root %s differs from root %s of parent + balance diff + metadata: execution changed something else", o.root, want)
			return
		}
		r.Distinct(wit.Txs)
		r.Sample(wit.Txs)
		model = pm
		parent = blk
		parentView = o.out.View
		fx.Index.Put(blk)
	}
}

var _ = bytes.Equal

func TestC06(t *testing.T) {
	r := kit.Start(t, "C06", "exploration")
	r.Rule("reference token VM (morpheusvm Transfer + its balance handler): histories of 1..4 blocks of 1..8 transactions of 1..16 transfers among 3..5 accounts (self transfers, full-balance, near-full after fee, zero, 1 and overflowing amounts; accounts that are empty, nearly broke or near 2^64; in a quarter of the blocks an empty or poor account is funded by an earlier transfer of the same block with exactly fee / fee+1 / fee-1 / fee+spend / fee+spend-1 of its own later transaction, or the richest account sends away all but exactly that) executed by the real processor. After every block: every result equals an independent balance-map model, sum(balances after) = sum(before) - sum(fees) in 128-bit arithmetic on balances read back from the executed view, and the executed state root equals the root of parent + model balance diff + metadata keys (nothing else was touched). Distinct = distinct block transfer sequence.")
	r.Assume("closed account universe: recipients are drawn from the world's accounts", "unit prices from the real fee manager (C13)")
	ctx := context.Background()
	rng := r.Rand("histories")
	n := r.N(500, 15000)
	for ci := 0; ci < n && r.Violations() < 5; ci++ {
		mw := newMorphWorld(rng, 3+rng.IntN(3), ci%6 == 0)
		runMorphCase(ctx, t, r, rng, mw, "C06", 8, 1+rng.IntN(4), nil)
	}
	r.Finish(r.N(300, 5000))
}
