package chainx

import (
	"context"
	"fmt"
	"math/rand/v2"
	"sync"
	"testing"
	"time"

	"github.com/ava-labs/hypersdk/auth"
	"github.com/ava-labs/hypersdk/chain"
	"github.com/ava-labs/hypersdk/codec"
	"github.com/ava-labs/hypersdk/crypto/bls"
	"github.com/ava-labs/hypersdk/crypto/ed25519"
	"github.com/ava-labs/hypersdk/crypto/secp256r1"
	"github.com/ava-labs/hypersdk/genesis"
	"github.com/ava-labs/hypersdk/zzverif/chainfx"
	"github.com/ava-labs/hypersdk/zzverif/kit"
)

type c16Signer struct {
	scheme string
	f      chain.AuthFactory
}

type c16Block struct {
	Schemes []string `json:"schemes"` // per transaction
	Invalid []int    `json:"invalid_positions"`
	Workers int      `json:"sig_workers"`
	Cores   int      `json:"cores"`
	Seq     int      `json:"block_in_pool_sequence"`
}

func newC16Signers(rng *rand.Rand) ([]c16Signer, error) {
	var out []c16Signer
	for i := 0; i < 3; i++ {
		out = append(out, c16Signer{"ed25519", auth.NewED25519Factory(chainfx.Ed25519Key(rng))})
	}
	for i := 0; i < 2; i++ {
		k, err := secp256r1.GeneratePrivateKey()
		if err != nil {
			return nil, err
		}
		out = append(out, c16Signer{"secp256r1", auth.NewSECP256R1Factory(k)})
	}
	for i := 0; i < 2; i++ {
		k, err := bls.GeneratePrivateKey()
		if err != nil {
			return nil, err
		}
		out = append(out, c16Signer{"bls", auth.NewBLSFactory(k)})
	}
	return out, nil
}

func TestC16(t *testing.T) {
	r := kit.Start(t, "C16", "exploration")
	r.Rule("Phase 1 (stock engines): blocks of 0..60 otherwise valid transactions signed with ed25519 (batched), secp256r1 and BLS (unbatched) in random mixes, ed25519 counts at/around multiples of the batch size for the worker count, 0..k signatures made invalid (a valid signature over a different message, so it still parses) at PRNG-chosen positions; 1..16 signature workers or serial workers; sequences of 3..6 blocks on one worker pool so that a failed job must not poison the next; pairs of blocks verified with overlapping lifetimes on one pool. " +
		"Phase 2 (more than one auth type has a batch verifier): the chain gets an AuthEngines set that, per block, gives each of ed25519 / secp256r1 / BLS / the fixture's SpyAuth (a 4th auth type) either no batch verifier, hypersdk's own ED25519Batch (behind a pass-through tap), or a harness chain.AuthBatchVerifier without cryptography of its own (collects (message, auth) pairs, returns a verify job every k adds and the leftover from Done() as one job or one job per item; k PRNG-chosen from 1, 2..8, count-1, count, count+1, count+7, 1000; verify = the type's own one-by-one Auth.Verify). Blocks of 0..93 transactions over the four types; invalid signatures (honest signature over another message; SpyAuth: marshaled ok=false) are aimed at the LAST PARTIAL batch (the jobs only Done() returns) of exactly one batch-capable type (round robin over the types present), of every batch-capable type, at batches handed out by Add only, at PRNG positions, or nowhere; 3..5 blocks per pool plus overlapping pairs. " +
		"Oracle (both phases): one-by-one Auth.Verify over UnsignedBytes; Chain.Execute must fail iff some signature is invalid; a call that never returns is judged by a deadlock witness. Counters mb_* show how many blocks had >=2 / >=3 batch-capable types, invalid signatures only in the last partial batch of one type, and how often that type's verifier was NOT the last one drained by AuthBatch.Done (order observed through the verifiers' Done calls; Go map order, random per block). Distinct = distinct (scheme sequence, invalid positions, workers[, batch verifier per type]).")
	r.Assume("secp256r1 and BLS keys come from crypto/rand (their generators take no seed); key values do not influence any verdict")
	ctx := context.Background()
	rng := r.Rand("cases")
	signers, err := newC16Signers(rng)
	if err != nil {
		t.Fatal(err)
	}
	rules := chainfx.LooseRules()
	var alloc []*genesis.CustomAllocation
	for _, s := range signers {
		alloc = append(alloc, &genesis.CustomAllocation{Address: s.f.Address(), Balance: 1 << 50})
	}
	// ZIP-215 edge case: a small-order public key (32 zero bytes) with R = identity, S = 0 verifies for
	// every message under the consensus rules hypersdk documents; batched and one-by-one
	// verification must agree on it like on any other signature
	var edgePK ed25519.PublicKey
	var edgeSig ed25519.Signature
	edgeSig[0] = 1
	alloc = append(alloc, &genesis.CustomAllocation{Address: auth.NewED25519Address(edgePK), Balance: 1 << 50})
	// actors of the fixture's SpyAuth (a fourth auth type whose Verify result is a marshaled flag)
	const c16SpyBase = 16000
	for i := 0; i < 3; i++ {
		alloc = append(alloc, &genesis.CustomAllocation{Address: chainfx.SpyAddr(c16SpyBase + i), Balance: 1 << 50})
	}
	fx, err := chainfx.New(chainfx.Options{Rules: rules, Alloc: alloc})
	if err != nil {
		t.Fatal(err)
	}
	byScheme := map[string][]c16Signer{}
	for _, s := range signers {
		byScheme[s.scheme] = append(byScheme[s.scheme], s)
	}
	ts := int64(1_700_000_000_000)
	nonce := uint64(0)
	mkTx := func(s c16Signer, valid bool) *chain.Transaction {
		nonce++
		act := &chainfx.ProgAction{Nonce: nonce, Start: -1, End: -1}
		base := chain.Base{Timestamp: ts + 5000, ChainID: rules.ChainID, MaxFee: 1 << 40}
		td := chain.NewTxData(base, []chain.Action{act})
		msg := td.UnsignedBytes()
		if !valid {
			msg = append(append([]byte{}, msg...), 0x01) // honest signature over another message
		}
		a, err := s.f.Sign(msg)
		if err != nil {
			t.Fatal(err)
		}
		tx, err := chain.NewTransaction(base, []chain.Action{act}, a)
		if err != nil {
			t.Fatal(err)
		}
		return tx
	}
	mkEdgeTx := func() *chain.Transaction {
		nonce++
		act := &chainfx.ProgAction{Nonce: nonce, Start: -1, End: -1}
		base := chain.Base{Timestamp: ts + 5000, ChainID: rules.ChainID, MaxFee: 1 << 40}
		tx, err := chain.NewTransaction(base, []chain.Action{act}, &auth.ED25519{Signer: edgePK, Signature: edgeSig})
		if err != nil {
			t.Fatal(err)
		}
		return tx
	}
	mkSpyTx := func(i int, valid bool) *chain.Transaction {
		nonce++
		act := &chainfx.ProgAction{Nonce: nonce, Start: -1, End: -1}
		base := chain.Base{Timestamp: ts + 5000, ChainID: rules.ChainID, MaxFee: 1 << 40}
		a := chainfx.SpyAddr(c16SpyBase + i)
		tx, err := chain.NewTransaction(base, []chain.Action{act}, &chainfx.SpyAuth{ActorAddr: a, SponsorAddr: a, Compute: 1, Start: -1, End: -1, OK: valid})
		if err != nil {
			t.Fatal(err)
		}
		return tx
	}
	nPools := r.N(40, 1200)
	hangs := 0
	for pi := 0; pi < nPools && r.Violations() < 8 && hangs < 3; pi++ {
		cfg := chainfx.ChainCfg{Cores: 1 + rng.IntN(4), Fetch: 1 + rng.IntN(4), SigWorkers: rng.IntN(17)}
		inst, err := fx.NewChain(cfg)
		if err != nil {
			t.Fatal(err)
		}
		poisoned := false
		nb := 3 + rng.IntN(4)
		for bi := 0; bi < nb && !poisoned; bi++ {
			c := c16Block{Workers: cfg.SigWorkers, Cores: cfg.Cores, Seq: bi}
			// ed25519 count near a multiple of the batch size used for this pool
			wk := max(cfg.SigWorkers, 1)
			nEd := rng.IntN(30)
			if rng.IntN(2) == 0 {
				k := 1 + rng.IntN(3)
				nEd = max(0, k*max(wk, 1)*4/max(wk, 1)*1+[]int{-1, 0, 1}[rng.IntN(3)]) // around k*4
				if rng.IntN(2) == 0 {
					nEd = max(0, k*wk+[]int{-1, 0, 1}[rng.IntN(3)]) // around k*workers (batch = count/workers)
				}
			}
			nSecp, nBls := rng.IntN(8), rng.IntN(5)
			if rng.IntN(4) == 0 {
				nSecp, nBls = 0, 0
			}
			for i := 0; i < nEd; i++ {
				c.Schemes = append(c.Schemes, "ed25519")
			}
			for i := 0; i < nSecp; i++ {
				c.Schemes = append(c.Schemes, "secp256r1")
			}
			for i := 0; i < nBls; i++ {
				c.Schemes = append(c.Schemes, "bls")
			}
			rng.Shuffle(len(c.Schemes), func(i, j int) { c.Schemes[i], c.Schemes[j] = c.Schemes[j], c.Schemes[i] })
			nInv := 0
			if len(c.Schemes) > 0 && rng.IntN(2) == 0 {
				nInv = 1 + rng.IntN(min(3, len(c.Schemes)))
			}
			inv := map[int]bool{}
			for len(inv) < nInv {
				inv[rng.IntN(len(c.Schemes))] = true
			}
			if nInv > 0 && rng.IntN(4) == 0 { // the very last signature of a scheme (partial last batch)
				inv = map[int]bool{len(c.Schemes) - 1: true}
			}
			var txs []*chain.Transaction
			for i, sc := range c.Schemes {
				if sc == "ed25519" && !inv[i] && rng.IntN(12) == 0 {
					c.Schemes[i] = "ed25519-zip215-edge"
					txs = append(txs, mkEdgeTx())
					r.Count("zip215_edge_signatures", 1)
					continue
				}
				ss := byScheme[sc]
				txs = append(txs, mkTx(ss[rng.IntN(len(ss))], !inv[i]))
				if inv[i] {
					c.Invalid = append(c.Invalid, i)
				}
			}
			// one-by-one oracle
			anyInvalid := false
			for i, tx := range txs {
				verr := tx.Auth.Verify(ctx, tx.UnsignedBytes())
				if (verr != nil) != inv[i] {
					r.Violation("C16/one-by-one-disagrees-with-construction", c, "tx %d (%s): Auth.Verify=%v but the signature was made invalid=%v", i, c.Schemes[i], verr, inv[i])
				}
				if verr != nil {
					anyInvalid = true
				}
			}
			blk, err := fx.Block(fx.Genesis, fx.DB, ts, txs)
			if err != nil {
				t.Fatal(err)
			}
			rb, err := fx.Reparse(blk)
			if err != nil {
				t.Fatal(err)
			}
			var xerr error
			done := kit.Go(func() {
				r.Guard("Chain.Execute", c, func() { _, xerr = inst.Chain.Execute(ctx, fx.DB, rb, true) })
			})
			res, stacks := kit.AwaitOrDeadlock(done, []string{"internal/workers", "chain.(*AuthBatch)", "chain.(*Processor)", "chain.(*authBatchWorker)"}, 3*time.Second, 120*time.Second)
			r.Eval()
			switch res {
			case kit.Deadlock:
				hangs++
				poisoned = true
				r.Violation("C16/verification-hangs", map[string]any{"case": c, "stacks": stacks}, "Chain.Execute never returned for a block with invalid signatures at %v (deadlock witness)", c.Invalid)
				continue
			case kit.Unknown:
				poisoned = true
				r.Inconclusive("Chain.Execute still running after the watchdog without a deadlock witness")
				continue
			}
			if anyInvalid && xerr == nil {
				r.Violation("C16/accepts-invalid-signature", c, "block with invalid signatures at %v verified", c.Invalid)
			}
			if !anyInvalid && xerr != nil {
				key := "C16/rejects-valid-signatures"
				if bi > 0 {
					key = "C16/rejects-valid-signatures-after-failed-job"
				}
				r.Violation(key, c, "all signatures verify one by one but the block failed: %v", xerr)
			}
			if anyInvalid {
				r.Count("blocks_with_invalid_signature", 1)
			} else {
				r.Count("blocks_all_valid", 1)
			}
			r.Count("signatures_checked", len(txs))
			r.Distinct(c.Schemes, c.Invalid, c.Workers)
			if pi < 2 {
				r.Sample(c)
			}
		}
		// two blocks verified on the same pool with overlapping lifetimes: each verdict must
		// depend on its own signatures only
		if !poisoned && pi%2 == 0 {
			type ov struct {
				c       c16Block
				rb      *chain.ExecutionBlock
				invalid bool
				err     error
			}
			var pair [2]*ov
			for k := range pair {
				o := &ov{c: c16Block{Workers: cfg.SigWorkers, Cores: cfg.Cores, Seq: 100 + k}}
				n := 1 + rng.IntN(12)
				badAt := -1
				if (k == 0) == (rng.IntN(2) == 0) || rng.IntN(4) == 0 {
					badAt = rng.IntN(n)
				}
				var txs []*chain.Transaction
				for i := 0; i < n; i++ {
					sc := []string{"ed25519", "ed25519", "secp256r1", "bls"}[rng.IntN(4)]
					o.c.Schemes = append(o.c.Schemes, sc)
					ss := byScheme[sc]
					txs = append(txs, mkTx(ss[rng.IntN(len(ss))], i != badAt))
				}
				if badAt >= 0 {
					o.c.Invalid = []int{badAt}
					o.invalid = true
				}
				blk, err := fx.Block(fx.Genesis, fx.DB, ts, txs)
				if err != nil {
					t.Fatal(err)
				}
				if o.rb, err = fx.Reparse(blk); err != nil {
					t.Fatal(err)
				}
				pair[k] = o
			}
			wit := map[string]any{"first": pair[0].c, "second": pair[1].c}
			done := kit.Go(func() {
				var wg sync.WaitGroup
				for _, o := range pair {
					wg.Add(1)
					go func(o *ov) {
						defer wg.Done()
						r.Guard("Chain.Execute", wit, func() { _, o.err = inst.Chain.Execute(ctx, fx.DB, o.rb, true) })
					}(o)
				}
				wg.Wait()
			})
			res, stacks := kit.AwaitOrDeadlock(done, []string{"internal/workers", "chain.(*AuthBatch)", "chain.(*Processor)", "chain.(*authBatchWorker)"}, 3*time.Second, 120*time.Second)
			r.Eval()
			switch res {
			case kit.Deadlock:
				hangs++
				wit["stacks"] = stacks
				r.Violation("C16/verification-hangs/overlapping-blocks", wit, "two blocks verified concurrently on one pool never returned (deadlock witness)")
			case kit.Unknown:
				r.Inconclusive("overlapping Chain.Execute still running after the watchdog without a deadlock witness")
			default:
				for k, o := range pair {
					if o.invalid && o.err == nil {
						r.Violation("C16/accepts-invalid-signature/overlapping-blocks", wit, "block %d of an overlapping pair has an invalid signature at %v but verified", k, o.c.Invalid)
					}
					if !o.invalid && o.err != nil {
						r.Violation("C16/rejects-valid-signatures/overlapping-blocks", wit, "block %d of an overlapping pair has only valid signatures but failed: %v", k, o.err)
					}
				}
				r.Count("overlapping_pairs", 1)
				r.Distinct("overlap", pair[0].c.Schemes, pair[0].c.Invalid, pair[1].c.Schemes, pair[1].c.Invalid, cfg.SigWorkers)
			}
		}
		// Stop of the pool is C26's subject; never let it block this monitor
		go inst.Close()
	}
	// second phase: more than one auth type has a batch verifier (own PRNG stream)
	if r.Violations() < 8 && hangs < 3 {
		c16MultiBatch(t, r, fx, ts, &c16MBGen{r: r, rng: r.Rand("multi-batch"), byScheme: byScheme, mkTx: mkTx, mkSpyTx: mkSpyTx})
	}
	_ = fmt.Sprint
	_ = codec.Address{}
	r.Finish(r.N(400, 8000))
}
