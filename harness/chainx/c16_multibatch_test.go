package chainx

// C16, second phase: chains whose AuthEngines give MORE THAN ONE auth type a batch verifier.
//
// hypersdk ships one batch-capable engine (ed25519). chain.AuthBatch however keeps one
// asynchronously fed batch worker per auth type (chain.AuthEngines is keyed by the auth type
// id), so the per-type bookkeeping of AuthBatch (Add routing, Done draining every worker and
// enqueueing every verifier's leftover jobs) is only exercised when several types are batched.
// The batchers below contain no cryptography of their own: they group (message, auth) pairs
// and verify each pair with the type's own one-by-one Auth.Verify.

import (
	"context"
	"fmt"
	"math/rand/v2"
	"sort"
	"sync"
	"testing"
	"time"

	"github.com/ava-labs/hypersdk/auth"
	"github.com/ava-labs/hypersdk/chain"
	"github.com/ava-labs/hypersdk/zzverif/chainfx"
	"github.com/ava-labs/hypersdk/zzverif/kit"
)

var c16TypeID = map[string]uint8{"ed25519": auth.ED25519ID, "secp256r1": auth.SECP256R1ID, "bls": auth.BLSID, "spy": chainfx.SpyAuthID}

var c16TypeNames = []string{"ed25519", "secp256r1", "bls", "spy"}

// c16Spec says how one auth type is verified in one block.
type c16Spec struct {
	Kind string // "none" (no batch verifier: AuthBatch.Add enqueues Verify directly), "stock" (hypersdk's engine), "chunk", "chunk-split-done"
	K    int    // chunk size of the harness batchers
}

func (s c16Spec) String() string {
	if s.Kind == "chunk" || s.Kind == "chunk-split-done" {
		return fmt.Sprintf("%s k=%d", s.Kind, s.K)
	}
	return s.Kind
}

func (s c16Spec) batched() bool { return s.Kind != "" && s.Kind != "none" }

// c16Plan is the engine configuration + observation record of one block (or one overlapping pair).
type c16Plan struct {
	mu            sync.Mutex
	spec          map[uint8]c16Spec
	doneOrder     []uint8 // auth type ids in the order AuthBatch.Done drained their verifiers
	addClosures   int
	doneClosures  int
	itemsAdded    int
	itemsVerified int
}

type c16Item struct {
	msg []byte
	a   chain.Auth
}

// c16Chunker: chain.AuthBatchVerifier that hands out a verify job every k adds and the
// leftover from Done (as one job, or one job per leftover item).
type c16Chunker struct {
	id      uint8
	p       *c16Plan
	k       int
	split   bool
	pending []c16Item
}

func (c *c16Chunker) job(items []c16Item) func() error {
	return func() error {
		for _, it := range items {
			err := it.a.Verify(context.TODO(), it.msg)
			c.p.mu.Lock()
			c.p.itemsVerified++
			c.p.mu.Unlock()
			if err != nil {
				return err
			}
		}
		return nil
	}
}

func (c *c16Chunker) Add(msg []byte, a chain.Auth) func() error {
	c.pending = append(c.pending, c16Item{msg, a})
	c.p.mu.Lock()
	c.p.itemsAdded++
	c.p.mu.Unlock()
	if len(c.pending) < c.k {
		return nil
	}
	full := c.pending
	c.pending = nil
	c.p.mu.Lock()
	c.p.addClosures++
	c.p.mu.Unlock()
	return c.job(full)
}

func (c *c16Chunker) Done() []func() error {
	rest := c.pending
	c.pending = nil
	var out []func() error
	if len(rest) > 0 {
		if c.split {
			for i := range rest {
				out = append(out, c.job(rest[i:i+1]))
			}
		} else {
			out = append(out, c.job(rest))
		}
	}
	c.p.mu.Lock()
	c.p.doneOrder = append(c.p.doneOrder, c.id)
	c.p.doneClosures += len(out)
	c.p.mu.Unlock()
	return out
}

// c16Tap delegates to hypersdk's own batch verifier and only records when Done is called.
type c16Tap struct {
	id    uint8
	p     *c16Plan
	inner chain.AuthBatchVerifier
}

func (t *c16Tap) Add(msg []byte, a chain.Auth) func() error { return t.inner.Add(msg, a) }
func (t *c16Tap) Done() []func() error {
	out := t.inner.Done()
	t.p.mu.Lock()
	t.p.doneOrder = append(t.p.doneOrder, t.id)
	t.p.mu.Unlock()
	return out
}

// c16Engines implements chain.AuthEngines; the plan of the block about to be executed is
// installed by the monitor before Chain.Execute (GetAuthBatchVerifier is called synchronously
// from Execute -> NewAuthBatch, in map iteration order, so nothing is drawn from the PRNG here).
type c16Engines struct {
	stock auth.Engines
	mu    sync.Mutex
	cur   *c16Plan
}

func (e *c16Engines) set(p *c16Plan) { e.mu.Lock(); e.cur = p; e.mu.Unlock() }

func (e *c16Engines) GetAuthBatchVerifier(id uint8, cores int, count int) (chain.AuthBatchVerifier, bool) {
	e.mu.Lock()
	p := e.cur
	e.mu.Unlock()
	if p == nil {
		return e.stock.GetAuthBatchVerifier(id, cores, count)
	}
	spec := p.spec[id]
	switch spec.Kind {
	case "stock":
		bv, ok := e.stock.GetAuthBatchVerifier(id, cores, count)
		if !ok {
			return nil, false
		}
		return &c16Tap{id: id, p: p, inner: bv}, true
	case "chunk", "chunk-split-done":
		return &c16Chunker{id: id, p: p, k: spec.K, split: spec.Kind == "chunk-split-done"}, true
	}
	return nil, false
}

// c16Leftover: index (into the per-type sequence of n signatures) from which signatures are
// covered by the jobs returned from the verifier's Done(). real=false when there is no such
// signature or when (stock ed25519, count a multiple of the batch size) Done only re-verifies
// a batch Add already handed out. Used for aiming and counters only, never for a verdict.
func c16Leftover(s c16Spec, n, wk int) (start int, real bool) {
	if n == 0 {
		return 0, false
	}
	switch s.Kind {
	case "stock":
		bs := max(n/wk, 4) // auth.ED25519AuthEngine.GetBatchVerifier
		if rem := n % bs; rem != 0 {
			return n - rem, true
		}
		return n - bs, false
	case "chunk", "chunk-split-done":
		rem := n % s.K
		return n - rem, rem != 0
	}
	return n, false
}

type c16MBCase struct {
	c16Block
	Batchers map[string]string `json:"batch_verifiers"`
	Mode     string            `json:"invalid_mode"`
}

type c16MBBuilt struct {
	c          c16MBCase
	specs      map[string]c16Spec
	txs        []*chain.Transaction
	anyInvalid bool
	// classification of the invalid signatures (independent of how they were chosen)
	batchTypes       []string        // batch-capable types with >= 1 signature in the block
	leftoverHit      map[string]bool // type -> some invalid signature lies in its real leftover
	reverifyHit      bool            // invalid signature in the stock ed25519 batch that Done re-verifies
	elsewhere        bool            // some invalid signature not in a real leftover
	typesWithInvalid map[string]bool
}

type c16MBGen struct {
	r        *kit.Run
	rng      *rand.Rand
	byScheme map[string][]c16Signer
	mkTx     func(s c16Signer, valid bool) *chain.Transaction
	mkSpyTx  func(i int, valid bool) *chain.Transaction
	rr       int
}

func (g *c16MBGen) pickK(n int) int {
	rng := g.rng
	cands := []int{1, 2, 3, 4, 5, 8, n - 1, n, n + 1, n + 7, 1000}
	for {
		if k := cands[rng.IntN(len(cands))]; k >= 1 {
			return k
		}
	}
}

// build generates one block. fixed != nil: verifier specs are given (second block of an overlapping pair).
func (g *c16MBGen) build(seq int, cfg chainfx.ChainCfg, fixed map[string]c16Spec) *c16MBBuilt {
	rng := g.rng
	wk := max(cfg.SigWorkers, 1)
	b := &c16MBBuilt{leftoverHit: map[string]bool{}, typesWithInvalid: map[string]bool{}}
	b.c.Workers, b.c.Cores, b.c.Seq = cfg.SigWorkers, cfg.Cores, seq
	n := map[string]int{"ed25519": rng.IntN(20), "secp256r1": rng.IntN(10), "bls": rng.IntN(7), "spy": rng.IntN(30)}
	if rng.IntN(2) == 0 { // ed25519 count around a multiple of the stock batch size
		k := 1 + rng.IntN(3)
		base := k * 4
		if rng.IntN(2) == 0 {
			base = k * wk
		}
		n["ed25519"] = max(0, base+[]int{-1, 0, 1}[rng.IntN(3)])
	}
	if rng.IntN(5) == 0 {
		n[c16TypeNames[rng.IntN(4)]] = 0
	}
	// verifier per type
	b.specs = map[string]c16Spec{}
	for _, tn := range c16TypeNames {
		if fixed != nil {
			b.specs[tn] = fixed[tn]
			continue
		}
		var s c16Spec
		x := rng.IntN(20)
		if tn == "ed25519" {
			switch {
			case x < 15:
				s.Kind = "stock"
			case x < 18:
				s.Kind, s.K = "chunk", g.pickK(n[tn])
			default:
				s.Kind = "none"
			}
		} else {
			switch {
			case x < 11:
				s.Kind, s.K = "chunk", g.pickK(n[tn])
			case x < 16:
				s.Kind, s.K = "chunk-split-done", g.pickK(n[tn])
			default:
				s.Kind = "none"
			}
		}
		b.specs[tn] = s
	}
	for _, tn := range c16TypeNames {
		for i := 0; i < n[tn]; i++ {
			b.c.Schemes = append(b.c.Schemes, tn)
		}
		if n[tn] > 0 && b.specs[tn].batched() {
			b.batchTypes = append(b.batchTypes, tn)
		}
	}
	rng.Shuffle(len(b.c.Schemes), func(i, j int) { b.c.Schemes[i], b.c.Schemes[j] = b.c.Schemes[j], b.c.Schemes[i] })
	pos := map[string][]int{}
	for i, sc := range b.c.Schemes {
		pos[sc] = append(pos[sc], i)
	}
	total := len(b.c.Schemes)
	inv := map[int]bool{}
	// leftover of type tn, re-choosing the chunk size when the type has none (only if specs are ours to choose)
	leftover := func(tn string, reroll bool) []int {
		s := b.specs[tn]
		st, real := c16Leftover(s, n[tn], wk)
		if !real && reroll && fixed == nil && (s.Kind == "chunk" || s.Kind == "chunk-split-done") && n[tn] > 0 {
			var ks []int
			for k := 2; k < n[tn]; k++ {
				if n[tn]%k != 0 {
					ks = append(ks, k)
				}
			}
			ks = append(ks, n[tn]+1+rng.IntN(6))
			s.K = ks[rng.IntN(len(ks))]
			b.specs[tn] = s
			st, real = c16Leftover(s, n[tn], wk)
		}
		if !real && s.Kind != "stock" {
			return nil
		}
		return pos[tn][st:]
	}
	aim := func(tn string) bool { // 1..2 invalid signatures inside the leftover of tn
		lo := leftover(tn, true)
		if len(lo) == 0 {
			return false
		}
		if rng.IntN(2) == 0 {
			inv[lo[len(lo)-1]] = true
		} else {
			inv[lo[rng.IntN(len(lo))]] = true
		}
		if rng.IntN(5) == 0 {
			inv[lo[rng.IntN(len(lo))]] = true
		}
		return true
	}
	randomInv := func() {
		if total == 0 {
			return
		}
		k := 1 + rng.IntN(min(3, total))
		for len(inv) < k {
			inv[rng.IntN(total)] = true
		}
	}
	mode := "none"
	if total > 0 {
		switch x := rng.IntN(20); {
		case x < 5:
		case x < 12 && len(b.batchTypes) > 0: // exactly one batch-capable type, inside its last partial batch
			mode = "leftover-of-one-type"
			g.rr++
			tn := b.batchTypes[g.rr%len(b.batchTypes)]
			if !aim(tn) {
				mode = "random"
				randomInv()
			} else if rng.IntN(6) == 0 { // plus one in a type without batch verifier
				for _, o := range c16TypeNames {
					if n[o] > 0 && !b.specs[o].batched() {
						inv[pos[o][rng.IntN(n[o])]] = true
						mode = "leftover-of-one-type+unbatched"
						break
					}
				}
			}
		case x < 14 && len(b.batchTypes) > 0: // the last partial batch of every batch-capable type
			mode = "leftover-of-every-type"
			ok := false
			for _, tn := range b.batchTypes {
				if aim(tn) {
					ok = true
				}
			}
			if !ok {
				mode = "random"
				randomInv()
			}
		case x < 16 && len(b.batchTypes) > 0: // only in a batch that Add hands out
			mode = "full-batch-only"
			g.rr++
			tn := b.batchTypes[g.rr%len(b.batchTypes)]
			st, _ := c16Leftover(b.specs[tn], n[tn], wk)
			if st == 0 {
				mode = "random"
				randomInv()
			} else {
				inv[pos[tn][rng.IntN(st)]] = true
			}
		default:
			mode = "random"
			randomInv()
		}
	}
	b.c.Mode = mode
	b.c.Batchers = map[string]string{}
	for _, tn := range c16TypeNames {
		if n[tn] > 0 {
			b.c.Batchers[tn] = b.specs[tn].String()
		}
	}
	for i, sc := range b.c.Schemes {
		if sc == "spy" {
			b.txs = append(b.txs, g.mkSpyTx(rng.IntN(3), !inv[i]))
		} else {
			ss := g.byScheme[sc]
			b.txs = append(b.txs, g.mkTx(ss[rng.IntN(len(ss))], !inv[i]))
		}
		if inv[i] {
			b.c.Invalid = append(b.c.Invalid, i)
		}
	}
	// one-by-one oracle
	for i, tx := range b.txs {
		verr := tx.Auth.Verify(context.Background(), tx.UnsignedBytes())
		if (verr != nil) != inv[i] {
			g.r.Violation("C16/one-by-one-disagrees-with-construction", b.c, "tx %d (%s): Auth.Verify=%v but the signature was made invalid=%v", i, b.c.Schemes[i], verr, inv[i])
		}
		if verr != nil {
			b.anyInvalid = true
		}
	}
	// classify
	for _, tn := range c16TypeNames {
		st, real := c16Leftover(b.specs[tn], n[tn], wk)
		for j, p := range pos[tn] {
			if !inv[p] {
				continue
			}
			b.typesWithInvalid[tn] = true
			switch {
			case real && j >= st:
				b.leftoverHit[tn] = true
			case b.specs[tn].Kind == "stock" && j >= st:
				b.reverifyHit = true
				b.elsewhere = true
			default:
				b.elsewhere = true
			}
		}
	}
	return b
}

func (b *c16MBBuilt) plan() *c16Plan {
	p := &c16Plan{spec: map[uint8]c16Spec{}}
	for tn, s := range b.specs {
		p.spec[c16TypeID[tn]] = s
	}
	return p
}

var c16Frames = []string{"internal/workers", "chain.(*AuthBatch)", "chain.(*Processor)", "chain.(*authBatchWorker)"}

// c16MultiBatch runs the second phase. It returns the number of hangs seen.
func c16MultiBatch(t *testing.T, r *kit.Run, fx *chainfx.Fixture, ts int64, g *c16MBGen) {
	ctx := context.Background()
	rng := g.rng
	nPools := r.N(90, 2400)
	hangs := 0
	for pi := 0; pi < nPools && r.Violations() < 8 && hangs < 3; pi++ {
		eng := &c16Engines{stock: auth.DefaultEngines()}
		cfg := chainfx.ChainCfg{Cores: 1 + rng.IntN(4), Fetch: 1 + rng.IntN(4), SigWorkers: rng.IntN(17), Engines: eng}
		inst, err := fx.NewChain(cfg)
		if err != nil {
			t.Fatal(err)
		}
		cfg.Engines = nil
		poisoned := false
		nb := 3 + rng.IntN(3)
		for bi := 0; bi < nb && !poisoned; bi++ {
			b := g.build(bi, cfg, nil)
			blk, err := fx.Block(fx.Genesis, fx.DB, ts, b.txs)
			if err != nil {
				t.Fatal(err)
			}
			rb, err := fx.Reparse(blk)
			if err != nil {
				t.Fatal(err)
			}
			plan := b.plan()
			eng.set(plan)
			var xerr error
			done := kit.Go(func() {
				r.Guard("Chain.Execute", b.c, func() { _, xerr = inst.Chain.Execute(ctx, fx.DB, rb, true) })
			})
			res, stacks := kit.AwaitOrDeadlock(done, c16Frames, 3*time.Second, 120*time.Second)
			r.Eval()
			switch res {
			case kit.Deadlock:
				hangs++
				poisoned = true
				r.Violation("C16/verification-hangs/multi-batch-engines", map[string]any{"case": b.c, "stacks": stacks}, "Chain.Execute never returned for a block with batch verifiers %v and invalid signatures at %v (deadlock witness)", b.c.Batchers, b.c.Invalid)
				continue
			case kit.Unknown:
				poisoned = true
				r.Inconclusive("Chain.Execute still running after the watchdog without a deadlock witness")
				continue
			}
			plan.mu.Lock()
			order := append([]uint8(nil), plan.doneOrder...)
			addCl, doneCl, added, verified := plan.addClosures, plan.doneClosures, plan.itemsAdded, plan.itemsVerified
			plan.mu.Unlock()
			if b.anyInvalid && xerr == nil {
				r.Violation("C16/accepts-invalid-signature/multi-batch-engines", map[string]any{"case": b.c, "verifier_done_order": order}, "block with invalid signatures at %v verified (batch verifiers %v, verifiers drained in type order %v)", b.c.Invalid, b.c.Batchers, order)
			}
			if !b.anyInvalid && xerr != nil {
				key := "C16/rejects-valid-signatures/multi-batch-engines"
				if bi > 0 {
					key = "C16/rejects-valid-signatures-after-failed-job/multi-batch-engines"
				}
				r.Violation(key, b.c, "all signatures verify one by one but the block failed: %v", xerr)
			}
			// counters
			r.Count("mb_blocks", 1)
			if b.anyInvalid {
				r.Count("mb_blocks_with_invalid_signature", 1)
			} else {
				r.Count("mb_blocks_all_valid", 1)
			}
			r.Count("mb_signatures_checked", len(b.txs))
			r.Count("mb_invalid_mode/"+b.c.Mode, 1)
			if len(b.batchTypes) >= 2 {
				r.Count("mb_blocks_2plus_batch_capable_types", 1)
			}
			if len(b.batchTypes) >= 3 {
				r.Count("mb_blocks_3plus_batch_capable_types", 1)
			}
			for tn := range b.leftoverHit {
				r.Count("mb_invalid_in_last_partial_batch/"+tn, 1)
			}
			if b.reverifyHit {
				r.Count("mb_invalid_in_ed25519_batch_reverified_by_done", 1)
			}
			if len(b.leftoverHit) > 0 && !b.elsewhere {
				if len(b.leftoverHit) == 1 && len(b.batchTypes) >= 2 {
					r.Count("mb_invalid_only_in_last_partial_batch_of_one_of_2plus_types", 1)
					var x uint8
					for tn := range b.leftoverHit {
						x = c16TypeID[tn]
					}
					if len(order) >= 2 && order[len(order)-1] != x {
						r.Count("mb_invalid_only_in_last_partial_batch_of_type_not_drained_last", 1)
					}
				}
				if len(b.leftoverHit) >= 2 && len(b.leftoverHit) == len(b.batchTypes) {
					r.Count("mb_invalid_only_in_last_partial_batch_of_every_batch_type", 1)
				}
			}
			if len(b.typesWithInvalid) > 0 && len(b.leftoverHit) == 0 && !b.reverifyHit {
				onlyBatched := true
				for tn := range b.typesWithInvalid {
					if !b.specs[tn].batched() {
						onlyBatched = false
					}
				}
				if onlyBatched {
					r.Count("mb_invalid_only_in_batches_handed_out_by_add", 1)
				}
			}
			r.Count("mb_harness_verifier_jobs_from_add", addCl)
			r.Count("mb_harness_verifier_jobs_from_done", doneCl)
			r.Count("mb_harness_verifier_signatures_added", added)
			r.Count("mb_harness_verifier_signatures_verified", verified)
			if len(order) >= 2 {
				r.Count("mb_blocks_2plus_verifiers_drained", 1)
			}
			r.Distinct("mb", b.c.Schemes, b.c.Invalid, b.c.Workers, c16SpecKey(b.c.Batchers))
			if pi < 2 {
				r.Sample(b.c)
			}
		}
		// overlapping pair on one pool, both blocks under the same verifier plan
		if !poisoned && pi%3 == 0 {
			first := g.build(100, cfg, nil)
			second := g.build(101, cfg, first.specs)
			pair := [2]*c16MBBuilt{first, second}
			var rbs [2]*chain.ExecutionBlock
			for k, b := range pair {
				blk, err := fx.Block(fx.Genesis, fx.DB, ts, b.txs)
				if err != nil {
					t.Fatal(err)
				}
				if rbs[k], err = fx.Reparse(blk); err != nil {
					t.Fatal(err)
				}
			}
			eng.set(first.plan())
			wit := map[string]any{"first": first.c, "second": second.c}
			var errs [2]error
			done := kit.Go(func() {
				var wg sync.WaitGroup
				for k := range pair {
					wg.Add(1)
					go func(k int) {
						defer wg.Done()
						r.Guard("Chain.Execute", wit, func() { _, errs[k] = inst.Chain.Execute(ctx, fx.DB, rbs[k], true) })
					}(k)
				}
				wg.Wait()
			})
			res, stacks := kit.AwaitOrDeadlock(done, c16Frames, 3*time.Second, 120*time.Second)
			r.Eval()
			switch res {
			case kit.Deadlock:
				hangs++
				wit["stacks"] = stacks
				r.Violation("C16/verification-hangs/overlapping-blocks/multi-batch-engines", wit, "two blocks verified concurrently on one pool never returned (deadlock witness)")
			case kit.Unknown:
				r.Inconclusive("overlapping Chain.Execute still running after the watchdog without a deadlock witness")
			default:
				for k, b := range pair {
					if b.anyInvalid && errs[k] == nil {
						r.Violation("C16/accepts-invalid-signature/overlapping-blocks/multi-batch-engines", wit, "block %d of an overlapping pair has an invalid signature at %v but verified", k, b.c.Invalid)
					}
					if !b.anyInvalid && errs[k] != nil {
						r.Violation("C16/rejects-valid-signatures/overlapping-blocks/multi-batch-engines", wit, "block %d of an overlapping pair has only valid signatures but failed: %v", k, errs[k])
					}
				}
				r.Count("mb_overlapping_pairs", 1)
				r.Distinct("mb-overlap", first.c.Schemes, first.c.Invalid, second.c.Schemes, second.c.Invalid, cfg.SigWorkers, c16SpecKey(first.c.Batchers))
			}
		}
		go inst.Close()
	}
}

func c16SpecKey(m map[string]string) string {
	var ks []string
	for k, v := range m {
		ks = append(ks, k+"="+v)
	}
	sort.Strings(ks)
	return fmt.Sprint(ks)
}
