package dsmr

// Shared helpers of the in-package monitors C35, C36, C37 (overlay files, see
// /verif/harness/overlay/mkoverlay.py). Everything here is prefixed with vf to
// stay clear of the package's own test helpers, which are used unedited.

import (
	"context"
	"fmt"
	"runtime/debug"
	"sync"
	"testing"
	"time"

	"github.com/ava-labs/avalanchego/database"
	"github.com/ava-labs/avalanchego/database/memdb"
	"github.com/ava-labs/avalanchego/ids"
	"github.com/ava-labs/avalanchego/network/p2p"
	"github.com/ava-labs/avalanchego/network/p2p/acp118"
	"github.com/ava-labs/avalanchego/network/p2p/p2ptest"
	"github.com/ava-labs/avalanchego/snow/engine/common"
	"github.com/ava-labs/avalanchego/snow/engine/enginetest"
	"github.com/ava-labs/avalanchego/trace"
	"github.com/ava-labs/avalanchego/utils/crypto/bls"
	"github.com/ava-labs/avalanchego/utils/crypto/bls/signer/localsigner"
	"github.com/ava-labs/avalanchego/utils/logging"
	"github.com/ava-labs/avalanchego/utils/set"
	"github.com/ava-labs/avalanchego/utils/wrappers"
	"github.com/ava-labs/avalanchego/vms/platformvm/warp"
	"github.com/prometheus/client_golang/prometheus"

	"github.com/ava-labs/hypersdk/codec"
	"github.com/ava-labs/hypersdk/consts"
	"github.com/ava-labs/hypersdk/internal/validitywindow"
	"github.com/ava-labs/hypersdk/internal/validitywindow/validitywindowtest"
	"github.com/ava-labs/hypersdk/utils"
	"github.com/ava-labs/hypersdk/x/dsmr/dsmrtest"
)

// vfNet is a deterministic validator set (fixed BLS keys and node ids, so that
// chunk ids, certificates and block ids are the same in every run).
type vfNet struct {
	vals    []Validator
	sks     []*localsigner.LocalSigner
	signers []warp.Signer
	cs      *testChainState
	pos     []int // validator index -> position in the canonical (warp) validator order
}

func vfNewNet(n int) (*vfNet, error) {
	v := &vfNet{}
	for i := 0; i < n; i++ {
		skb := make([]byte, 32)
		skb[30] = 0x5a
		skb[31] = byte(i + 1)
		sk, err := localsigner.FromBytes(skb)
		if err != nil {
			return nil, err
		}
		nodeID := ids.NodeID{}
		nodeID[0] = 0xd5
		nodeID[1] = byte(i + 1)
		v.sks = append(v.sks, sk)
		v.signers = append(v.signers, warp.NewSigner(sk, networkID, chainID))
		v.vals = append(v.vals, Validator{NodeID: nodeID, Weight: 1, PublicKey: sk.PublicKey()})
	}
	v.cs = newTestChainState(v.vals, 1, 1)
	canon, err := v.cs.GetCanonicalValidatorSet(context.Background())
	if err != nil {
		return nil, err
	}
	v.pos = make([]int, n)
	for i := range v.pos {
		v.pos[i] = -1
	}
	for p, cv := range canon.Validators {
		for _, id := range cv.NodeIDs {
			for i, val := range v.vals {
				if val.NodeID == id {
					v.pos[i] = p
				}
			}
		}
	}
	for i, p := range v.pos {
		if p < 0 {
			return nil, fmt.Errorf("validator %d missing from the canonical set", i)
		}
	}
	return v, nil
}

// vfTx returns a deterministic test transaction.
func vfTx(tag uint64, expiry int64) dsmrtest.Tx {
	id := ids.ID{}
	id[0] = 0x7c
	for k := 0; k < 8; k++ {
		id[1+k] = byte(tag >> (8 * k))
	}
	return dsmrtest.Tx{ID: id, Expiry: expiry, Sponsor: codec.Address{byte(tag)}}
}

// signChunk builds a chunk produced and signed by validator `producer`.
func (v *vfNet) signChunk(producer int, expiry int64, txs []dsmrtest.Tx) (Chunk[dsmrtest.Tx], error) {
	return signChunk[dsmrtest.Tx](
		UnsignedChunk[dsmrtest.Tx]{
			Producer:    v.vals[producer].NodeID,
			Beneficiary: codec.Address{byte(producer)},
			Expiry:      expiry,
			Txs:         txs,
		},
		networkID,
		chainID,
		v.vals[producer].PublicKey,
		v.signers[producer],
	)
}

// forgeCert aggregates the signatures of the given validators over a chunk
// reference into a certificate (what BuildChunk obtains over the network).
func (v *vfNet) forgeCert(ref ChunkReference, signerIdx []int) (*ChunkCertificate, error) {
	packer := wrappers.Packer{MaxSize: MaxMessageSize}
	if err := codec.LinearCodec.MarshalInto(ref, &packer); err != nil {
		return nil, err
	}
	msg, err := warp.NewUnsignedMessage(networkID, chainID, packer.Bytes)
	if err != nil {
		return nil, err
	}
	bits := set.NewBits()
	sigs := make([]*bls.Signature, 0, len(signerIdx))
	for _, i := range signerIdx {
		sb, err := v.signers[i].Sign(msg)
		if err != nil {
			return nil, err
		}
		s, err := bls.SignatureFromBytes(sb)
		if err != nil {
			return nil, err
		}
		sigs = append(sigs, s)
		bits.Add(v.pos[i])
	}
	agg, err := bls.AggregateSignatures(sigs)
	if err != nil {
		return nil, err
	}
	sig := &warp.BitSetSignature{Signers: bits.Bytes()}
	copy(sig.Signature[:], bls.SignatureToBytes(agg))
	return &ChunkCertificate{ChunkReference: ref, Signature: sig}, nil
}

func (v *vfNet) all() []int {
	out := make([]int, len(v.vals))
	for i := range out {
		out[i] = i
	}
	return out
}

// certFor forges the all-validators certificate of a chunk.
func (v *vfNet) certFor(c Chunk[dsmrtest.Tx]) (*ChunkCertificate, error) {
	return v.forgeCert(ChunkReference{ChunkID: c.id, Producer: c.Producer, Expiry: c.Expiry}, v.all())
}

// vfMakeBlock assembles a block exactly like Node.BuildBlock does, from an
// arbitrary list of certificates.
func vfMakeBlock(parent Block, timestamp int64, certs []*ChunkCertificate) (Block, error) {
	blk := Block{
		BlockHeader: BlockHeader{
			ParentID:  parent.GetID(),
			Height:    parent.Height + 1,
			Timestamp: timestamp,
		},
		ChunkCerts: certs,
	}
	packer := wrappers.Packer{Bytes: make([]byte, 0, 1024), MaxSize: consts.NetworkSizeLimit}
	if err := codec.LinearCodec.MarshalInto(blk, &packer); err != nil {
		return Block{}, err
	}
	blk.blkBytes = packer.Bytes
	blk.blkID = utils.ToID(blk.blkBytes)
	return blk, nil
}

// vfIndex is the chain index handed to the real TimeValidityWindow.
type vfIndex struct {
	mu     sync.Mutex
	blocks map[ids.ID]validitywindow.ExecutionBlock[*emapChunkCertificate]
}

func (x *vfIndex) GetExecutionBlock(_ context.Context, id ids.ID) (validitywindow.ExecutionBlock[*emapChunkCertificate], error) {
	x.mu.Lock()
	defer x.mu.Unlock()
	if b, ok := x.blocks[id]; ok {
		return b, nil
	}
	return nil, database.ErrNotFound
}

func (x *vfIndex) put(b Block) {
	x.mu.Lock()
	defer x.mu.Unlock()
	x.blocks[b.GetID()] = NewValidityWindowBlock(b)
}

type vfNodeOpts struct {
	rules      ruleFactory
	realWindow bool
	// wrapGetChunk wraps the GetChunk handler of node `peer` as seen by the
	// client of node `owner` (fault injection); nil = no wrapping.
	wrapGetChunk func(owner, peer int, h p2p.Handler) p2p.Handler
	// getChunkGuard, when set, wires the GetChunk clients with
	// vfNewClientWithPeers instead of p2ptest.NewClientWithPeers, so that a
	// panic on one of the message delivery goroutines (peer handler or the
	// requester's response callback) is handed to the monitor instead of
	// killing the process.
	getChunkGuard *vfClientGuard
}

// vfClientGuard receives what goes wrong on the message delivery goroutines of
// a client built by vfNewClientWithPeers.
type vfClientGuard struct {
	onPanic func(where string, v any, stack string)
	onError func(where string, err error)
}

func (g *vfClientGuard) run(where string, f func() error) (panicked bool) {
	defer func() {
		if v := recover(); v != nil {
			panicked = true
			if g.onPanic != nil {
				g.onPanic(where, v, string(debug.Stack()))
			}
		}
	}()
	if err := f(); err != nil && g.onError != nil {
		g.onError(where, err)
	}
	return false
}

// vfNewClientWithPeers wires a p2p client to a set of in-process peers exactly
// like avalanchego's p2ptest.NewClientWithPeers does (one p2p.Network per peer,
// every message delivered on its own goroutine), except that the delivery
// goroutines recover panics of the code they call (the peer's handler, the
// requester's response callback) and report them through the guard. When a
// peer's handler panics the requester is told that the request failed, as a
// real network would after the peer died, so that it is not left waiting.
func vfNewClientWithPeers(ctx context.Context, clientNodeID ids.NodeID, clientHandler p2p.Handler, peers map[ids.NodeID]p2p.Handler, g *vfClientGuard) (*p2p.Client, error) {
	peers[clientNodeID] = clientHandler
	senders := make(map[ids.NodeID]*enginetest.Sender)
	networks := make(map[ids.NodeID]*p2p.Network)
	for nodeID := range peers {
		senders[nodeID] = &enginetest.Sender{}
		nw, err := p2p.NewNetwork(logging.NoLog{}, senders[nodeID], prometheus.NewRegistry(), "")
		if err != nil {
			return nil, err
		}
		networks[nodeID] = nw
	}
	senders[clientNodeID].SendAppGossipF = func(ctx context.Context, cfg common.SendConfig, b []byte) error {
		for nodeID := range cfg.NodeIDs {
			go g.run("gossip handler", func() error { return networks[nodeID].AppGossip(ctx, nodeID, b) })
		}
		return nil
	}
	senders[clientNodeID].SendAppRequestF = func(ctx context.Context, nodeIDs set.Set[ids.NodeID], requestID uint32, b []byte) error {
		for nodeID := range nodeIDs {
			nw, ok := networks[nodeID]
			if !ok {
				return fmt.Errorf("%s is not connected", nodeID)
			}
			go func() {
				if g.run("peer request handler", func() error { return nw.AppRequest(ctx, clientNodeID, requestID, time.Time{}, b) }) {
					g.run("response callback (request failed)", func() error {
						return networks[clientNodeID].AppRequestFailed(ctx, nodeID, requestID, &common.AppError{Code: -1, Message: "peer handler panicked"})
					})
				}
			}()
		}
		return nil
	}
	for nodeID := range peers {
		senders[nodeID].SendAppResponseF = func(ctx context.Context, _ ids.NodeID, requestID uint32, b []byte) error {
			go g.run("response callback", func() error { return networks[clientNodeID].AppResponse(ctx, nodeID, requestID, b) })
			return nil
		}
		senders[nodeID].SendAppErrorF = func(ctx context.Context, _ ids.NodeID, requestID uint32, code int32, msg string) error {
			go g.run("response callback (request failed)", func() error {
				return networks[clientNodeID].AppRequestFailed(ctx, nodeID, requestID, &common.AppError{Code: code, Message: msg})
			})
			return nil
		}
	}
	for nodeID := range peers {
		if err := networks[nodeID].Connected(ctx, clientNodeID, nil); err != nil {
			return nil, err
		}
		if err := networks[nodeID].Connected(ctx, nodeID, nil); err != nil {
			return nil, err
		}
		if err := networks[nodeID].AddHandler(0, peers[nodeID]); err != nil {
			return nil, err
		}
	}
	return networks[clientNodeID].NewClient(0), nil
}

type vfNode struct {
	*Node[dsmrtest.Tx]
	st    *ChunkStorage[dsmrtest.Tx]
	db    database.Database
	index *vfIndex
}

// vfNewNodes wires one dsmr node per validator of the net, like the package's
// newTestNodes does, but with a deterministic validator set, optional fault
// injecting GetChunk handlers and optionally the real TimeValidityWindow.
// No initial block is built: LastAccepted is the zero block.
func vfNewNodes(t *testing.T, net *vfNet, opts vfNodeOpts) ([]*vfNode, error) {
	n := len(net.vals)
	type parts struct {
		st       *ChunkStorage[dsmrtest.Tx]
		db       database.Database
		getChunk p2p.Handler
		sig      p2p.Handler
		gossip   p2p.Handler
	}
	ps := make([]parts, n)
	for i := 0; i < n; i++ {
		cs := newTestChainState(net.vals, 1, 1)
		verifier := NewChunkVerifier[dsmrtest.Tx](cs, opts.rules)
		db := memdb.New()
		st, err := NewChunkStorage[dsmrtest.Tx](verifier, db, opts.rules)
		if err != nil {
			return nil, err
		}
		ps[i] = parts{
			st:       st,
			db:       db,
			getChunk: &GetChunkHandler[dsmrtest.Tx]{storage: st},
			sig:      acp118.NewHandler(ChunkSignatureRequestVerifier[dsmrtest.Tx]{verifier: verifier, storage: st}, net.signers[i]),
			gossip:   ChunkCertificateGossipHandler[dsmrtest.Tx]{storage: st},
		}
	}
	wrap := func(owner, peer int) p2p.Handler {
		if opts.wrapGetChunk == nil {
			return ps[peer].getChunk
		}
		return opts.wrapGetChunk(owner, peer, ps[peer].getChunk)
	}
	ctx := context.Background()
	out := make([]*vfNode, 0, n)
	for i := 0; i < n; i++ {
		getChunkPeers := map[ids.NodeID]p2p.Handler{}
		sigPeers := map[ids.NodeID]p2p.Handler{}
		gossipPeers := map[ids.NodeID]p2p.Handler{}
		for j := 0; j < n; j++ {
			if j == i {
				continue
			}
			getChunkPeers[net.vals[j].NodeID] = wrap(i, j)
			sigPeers[net.vals[j].NodeID] = ps[j].sig
			gossipPeers[net.vals[j].NodeID] = ps[j].gossip
		}
		var window TimeValidityWindow[*emapChunkCertificate] = &validitywindowtest.MockTimeValidityWindow[*emapChunkCertificate]{}
		index := &vfIndex{blocks: map[ids.ID]validitywindow.ExecutionBlock[*emapChunkCertificate]{}}
		if opts.realWindow {
			index.put(Block{})
			w := opts.rules.rules.validityWindow
			tvw, err := validitywindow.NewTimeValidityWindow[*emapChunkCertificate](
				ctx, logging.NoLog{}, trace.Noop, index, NewValidityWindowBlock(Block{}),
				func(int64) int64 { return w },
			)
			if err != nil {
				return nil, err
			}
			window = tvw
		}
		var getChunkClient *p2p.Client
		if opts.getChunkGuard != nil {
			var err error
			getChunkClient, err = vfNewClientWithPeers(ctx, net.vals[i].NodeID, wrap(i, i), getChunkPeers, opts.getChunkGuard)
			if err != nil {
				return nil, err
			}
		} else {
			getChunkClient = p2ptest.NewClientWithPeers(t, ctx, net.vals[i].NodeID, wrap(i, i), getChunkPeers)
		}
		node, err := New[dsmrtest.Tx](
			logging.NoLog{},
			net.vals[i].NodeID,
			newTestChainState(net.vals, 1, 1),
			net.vals[i].PublicKey,
			net.signers[i],
			ps[i].st,
			ps[i].getChunk,
			ps[i].sig,
			ps[i].gossip,
			getChunkClient,
			p2ptest.NewClientWithPeers(t, ctx, net.vals[i].NodeID, ps[i].sig, sigPeers),
			p2ptest.NewClientWithPeers(t, ctx, net.vals[i].NodeID, ps[i].gossip, gossipPeers),
			Block{},
			window,
			opts.rules,
		)
		if err != nil {
			return nil, err
		}
		out = append(out, &vfNode{Node: node, st: ps[i].st, db: ps[i].db, index: index})
	}
	return out, nil
}

// vfParallel runs f(0..n-1) on `workers` goroutines.
func vfParallel(n, workers int, f func(i int)) {
	if workers < 1 {
		workers = 1
	}
	var wg sync.WaitGroup
	next := make(chan int)
	for w := 0; w < workers; w++ {
		wg.Add(1)
		go func() {
			defer wg.Done()
			for i := range next {
				f(i)
			}
		}()
	}
	for i := 0; i < n; i++ {
		next <- i
	}
	close(next)
	wg.Wait()
}
