package dsmr

// C36, concurrent part: (a) interleaved histories, where a wrapping database
// releases a concurrent add at a chosen store operation of a SetMin, and (b) a
// plain concurrent stress of adds and SetMins. In both the oracle is only
// evaluated at quiescence: in-memory view == view of a storage reopened on the
// same database.

import (
	"context"
	"fmt"
	"math/rand/v2"
	"runtime"
	"runtime/debug"
	"sort"
	"strings"
	"sync"
	"time"

	"github.com/ava-labs/avalanchego/database"
	"github.com/ava-labs/avalanchego/database/memdb"
	"github.com/ava-labs/avalanchego/ids"

	kit "github.com/ava-labs/hypersdk/internal/verifkit"
	"github.com/ava-labs/hypersdk/x/dsmr/dsmrtest"
)

// ---- the wrapping database ----

// c36HookDB passes everything through to the wrapped database. While armed it
// counts the store operations it sees (NewBatch, Batch.Put, Batch.Delete,
// Batch.Write, return of Batch.Write, direct Put/Delete) and calls `fire` once,
// on the goroutine performing the operation and before the operation itself,
// at the chosen one.
type c36HookDB struct {
	database.Database
	mu       sync.Mutex
	armed    bool
	at       string
	nth      int
	seen     map[string]int
	fired    string
	fire     func()
	storeOps int
}

func (d *c36HookDB) arm(at string, nth int, fire func()) {
	d.mu.Lock()
	d.armed, d.at, d.nth, d.fire, d.fired, d.storeOps = true, at, nth, fire, "", 0
	d.seen = map[string]int{}
	d.mu.Unlock()
}

func (d *c36HookDB) disarm() (firedAt string, storeOps int) {
	d.mu.Lock()
	defer d.mu.Unlock()
	d.armed, d.fire = false, nil
	return d.fired, d.storeOps
}

func (d *c36HookDB) point(op string) {
	d.mu.Lock()
	if !d.armed || d.fired != "" {
		d.mu.Unlock()
		return
	}
	d.storeOps++
	k := d.seen[op]
	d.seen[op] = k + 1
	hit := op == d.at && k == d.nth
	if !hit && op == "Write" && d.at != "WriteDone" {
		hit = true // the chosen operation did not occur before the batch is written
	}
	if !hit && op == "WriteDone" {
		hit = true
	}
	if !hit {
		d.mu.Unlock()
		return
	}
	d.fired = op
	f := d.fire
	d.mu.Unlock()
	f()
}

func (d *c36HookDB) Put(k, v []byte) error {
	d.point("DBPut")
	return d.Database.Put(k, v)
}

func (d *c36HookDB) Delete(k []byte) error {
	d.point("DBDelete")
	return d.Database.Delete(k)
}

func (d *c36HookDB) NewBatch() database.Batch {
	d.point("NewBatch")
	return &c36HookBatch{Batch: d.Database.NewBatch(), db: d}
}

type c36HookBatch struct {
	database.Batch
	db *c36HookDB
}

func (b *c36HookBatch) Put(k, v []byte) error {
	b.db.point("BatchPut")
	return b.Batch.Put(k, v)
}

func (b *c36HookBatch) Delete(k []byte) error {
	b.db.point("BatchDelete")
	return b.Batch.Delete(k)
}

func (b *c36HookBatch) Write() error {
	b.db.point("Write")
	err := b.Batch.Write()
	b.db.point("WriteDone")
	return err
}

func (b *c36HookBatch) Inner() database.Batch { return b.Batch }

// ---- interleaved histories ----

// c36Conc, attached to a setMin op: the operation Op is started on its own
// goroutine when the SetMin reaches its Nth store operation of kind At (or its
// Batch.Write when that operation does not occur); the SetMin goroutine then
// yields (DelayUS == 0) or waits at most DelayUS for Op, and carries on.
type c36Conc struct {
	At      string `json:"at"` // NewBatch | BatchPut | BatchDelete | Write | WriteDone
	Nth     int    `json:"nth"`
	DelayUS int    `json:"delay_us"`
	Class   string `json:"class"` // what the SetMin does to Op's chunk: saved | expired | kept | fresh
	Op      c36Op  `json:"op"`
}

func (m *c36Model) clone() *c36Model {
	cp := func(s map[int]bool) map[int]bool {
		d := make(map[int]bool, len(s))
		for k, v := range s {
			if v {
				d[k] = true
			}
		}
		return d
	}
	return &c36Model{min: m.min, pending: cp(m.pending), hasCert: cp(m.hasCert), accepted: cp(m.accepted), expired: cp(m.expired), moved: m.moved}
}

// key identifies what later generation depends on (minimum, pending set, certificates).
func (m *c36Model) key() string {
	var certs []int
	for c, v := range m.hasCert {
		if v && m.pending[c] {
			certs = append(certs, c)
		}
	}
	sort.Ints(certs)
	return fmt.Sprint(m.min, m.pendingList(), certs)
}

func c36Exec(ctx context.Context, fx *c36Fixture, st *ChunkStorage[dsmrtest.Tx], o c36Op) error {
	switch o.Kind {
	case "addLocal":
		var cert *ChunkCertificate
		if o.Cert {
			cert = fx.certs[o.Chunk]
		}
		return st.AddLocalChunkWithCert(fx.chunks[o.Chunk], cert)
	case "addRemote":
		_, err := st.VerifyRemoteChunk(fx.chunks[o.Chunk])
		return err
	case "setCert":
		return st.SetChunkCert(ctx, fx.chunks[o.Chunk].id, fx.certs[o.Chunk])
	case "setMin":
		save := make([]ids.ID, 0, len(o.Save))
		for _, s := range o.Save {
			save = append(save, fx.chunks[s].id)
		}
		return st.SetMin(o.Min, save)
	}
	return nil
}

// c36Join waits for a goroutine of the code under test at a point where nothing
// can legitimately keep it from returning.
func c36Join(done <-chan struct{}) string {
	wr, _ := kit.AwaitOrDeadlock(done, []string{"x/dsmr.(*ChunkStorage"}, 5*time.Second, 90*time.Second)
	switch wr {
	case kit.Deadlock:
		return "goroutines inside ChunkStorage are parked for good (deadlock witness)"
	case kit.Unknown:
		return "watchdog expired while waiting for a ChunkStorage call to return"
	}
	return ""
}

func c36Rekey(fails []c36Fail, part string) []c36Fail {
	out := make([]c36Fail, len(fails))
	for i, f := range fails {
		out[i] = c36Fail{Key: strings.Replace(f.Key, "C36/", "C36/"+part+"-", 1), Detail: f.Detail}
	}
	return out
}

func runC36Conc(fx *c36Fixture, c c36Case) (res c36Result) {
	ctx := context.Background()
	hdb := &c36HookDB{Database: memdb.New()}
	defer func() { _ = hdb.Close() }()
	open := func() (*ChunkStorage[dsmrtest.Tx], error) {
		verifier := NewChunkVerifier[dsmrtest.Tx](fx.net.cs, c36Rules)
		return NewChunkStorage[dsmrtest.Tx](verifier, hdb, c36Rules)
	}
	live, err := open()
	if err != nil {
		res.divergence = "open storage: " + err.Error()
		return
	}
	res.conc = map[string]int{}
	m := newC36Model()
	for i, o := range c.Ops {
		type cand struct {
			m    *c36Model
			name string
		}
		var cands []cand
		observe := false
		resultsOK := true
		if o.Kind == "setMin" && o.Conc != nil {
			cc := o.Conc
			plain := o
			plain.Conc = nil
			mA := m.clone()
			wantAddA := mA.apply(fx, cc.Op)
			wantMinA := mA.apply(fx, plain)
			mB := m.clone()
			wantMinB := mB.apply(fx, plain)
			wantAddB := mB.apply(fx, cc.Op)
			var (
				addErr   error
				addPanic any
				addStack string
				done     <-chan struct{}
				inHook   bool
			)
			st := live
			start := func() {
				done = kit.Go(func() {
					defer func() {
						if v := recover(); v != nil {
							addPanic, addStack = v, string(debug.Stack())
						}
					}()
					addErr = c36Exec(ctx, fx, st, cc.Op)
				})
			}
			hdb.arm(cc.At, cc.Nth, func() {
				// runs on the SetMin goroutine, inside the store operation
				start()
				if cc.DelayUS <= 0 {
					runtime.Gosched()
					select {
					case <-done:
						inHook = true
					default:
					}
					return
				}
				// schedule-widening delay only: the unchanged code keeps the add
				// blocked until SetMin returns, so it is never waited for here
				t := time.NewTimer(time.Duration(cc.DelayUS) * time.Microsecond)
				select {
				case <-done:
					inHook = true
				case <-t.C:
				}
				t.Stop()
			})
			minErr := c36Exec(ctx, fx, st, plain)
			firedAt, storeOps := hdb.disarm()
			if firedAt == "" {
				res.conc["setmin_without_store_operation"]++
				start()
			}
			early := false
			select {
			case <-done:
				early = true
			default:
			}
			if why := c36Join(done); why != "" {
				res.divergence = fmt.Sprintf("step %d %s: %s", i, o, why)
				return
			}
			// ---- quiescent ----
			if addPanic != nil {
				panic(fmt.Sprintf("step %d %s: the concurrent operation panicked: %v\n%s", i, o, addPanic, addStack))
			}
			res.conc["interleaved_setmins"]++
			res.conc["released_at_"+firedAt]++
			res.conc["store_ops_seen_in_setmin"] += storeOps
			res.conc["chunk_"+cc.Class+"_"+cc.Op.Kind]++
			switch {
			case inHook:
				res.conc["concurrent_op_returned_inside_store_operation"]++
			case early:
				res.conc["concurrent_op_done_when_setmin_returned"]++
			default:
				res.conc["concurrent_op_blocked_until_setmin_returned"]++
			}
			if (minErr == nil) == wantMinA && (addErr == nil) == wantAddA {
				cands = append(cands, cand{mA, "op-then-setmin"})
			}
			if (minErr == nil) == wantMinB && (addErr == nil) == wantAddB {
				cands = append(cands, cand{mB, "setmin-then-op"})
			}
			if len(cands) == 0 {
				resultsOK = false
				res.divergence = fmt.Sprintf("step %d %s: SetMin returned %v and the concurrent operation %v; neither order (op first: %v/%v, SetMin first: %v/%v) explains that", i, o, minErr, addErr, wantMinA, wantAddA, wantMinB, wantAddB)
				cands = []cand{{mB, "setmin-then-op"}}
			}
			observe = true
		} else {
			want := m.apply(fx, o)
			opErr := c36Exec(ctx, fx, live, o)
			switch o.Kind {
			case "addRemote":
				if opErr == nil {
					res.remoteOK++
				} else {
					res.remoteReject++
				}
			case "restart":
				res.restarts++
			}
			if (opErr == nil) != want {
				res.divergence = fmt.Sprintf("step %d %s returned %v, the model expected success=%v", i, o, opErr, want)
				return
			}
			cands = []cand{{m, "sequential"}}
			observe = o.Kind == "restart" || i == len(c.Ops)-1
		}
		if !observe {
			continue
		}
		// ---- reopen point (nothing is running inside the storage) ----
		before := c36Observe(fx, live)
		re, err := open()
		res.reopens++
		if err != nil {
			res.fails = []c36Fail{{"C36/reopen-fails", fmt.Sprintf("NewChunkStorage on the same database failed: %v", err)}}
			res.failAt, res.before = i, before
			return
		}
		after := c36Observe(fx, re)
		picked := -1
		for k, cd := range cands {
			if fmt.Sprint(before.Pending) == fmt.Sprint(cd.m.pendingList()) && before.Min == cd.m.min {
				picked = k
				break
			}
		}
		cm := cands[len(cands)-1].m
		if picked >= 0 {
			cm = cands[picked].m
		}
		// the verdict: live == reopened (the model only classifies)
		if f := c36Compare(before, after, cm); len(f) > 0 {
			if o.Conc != nil {
				f = c36Rekey(f, "interleaved")
			}
			res.fails, res.failAt, res.before, res.after = f, i, before, after
			return
		}
		if !resultsOK {
			return
		}
		if picked < 0 {
			var exp []string
			for _, cd := range cands {
				exp = append(exp, fmt.Sprintf("%s: pending %v min %d", cd.name, cd.m.pendingList(), cd.m.min))
			}
			res.divergence = fmt.Sprintf("step %d %s: live pending %v min %d is none of the sequential outcomes [%s]", i, o, before.Pending, before.Min, strings.Join(exp, "; "))
			return
		}
		m = cands[picked].m
		if o.Conc != nil {
			if len(cands) == 2 && cands[0].m.key() == cands[1].m.key() {
				res.conc["outcome_same_in_both_orders"]++
			} else {
				res.conc["outcome_"+cands[picked].name]++
			}
		}
		if m.moved {
			res.nontrivial = append(res.nontrivial, i)
		}
		res.savedSeen += len(m.accepted)
		res.expiredSeen += len(m.expired)
		if o.Kind == "restart" {
			live = re
		}
	}
	return
}

// c36GenConc generates a history with 1..3 interleaved SetMins. Because either
// order of an interleaved pair may take effect, the generator tracks every
// state the history can be in and only emits operations that are inside the
// monitor's assumptions in all of them.
func c36GenConc(fx *c36Fixture, rng *rand.Rand) c36Case {
	c := c36Case{DB: "memdb-hooked"}
	models := []*c36Model{newC36Model()}
	n := 5 + rng.IntN(10)
	concLeft := 1 + rng.IntN(3)
	min := func() int64 { return models[0].min } // the same in all states
	pickNearOf := func(lo int64) int {
		for tries := 0; tries < 8; tries++ {
			i := rng.IntN(len(fx.chunks))
			e := fx.chunks[i].Expiry
			if e >= lo-5 && e <= lo+c36Window+5 {
				return i
			}
		}
		return rng.IntN(len(fx.chunks))
	}
	pendingAll := func() []int {
		var out []int
		for _, p := range models[0].pendingList() {
			ok := true
			for _, m := range models[1:] {
				ok = ok && m.pending[p]
			}
			if ok {
				out = append(out, p)
			}
		}
		return out
	}
	remoteSafe := func(x int) bool {
		// VerifyRemoteChunk of a chunk that is pending without certificate is outside the monitor's assumptions
		for _, m := range models {
			if m.pending[x] && !m.hasCert[x] {
				return false
			}
		}
		return true
	}
	dedupe := func(ms []*c36Model) []*c36Model {
		seen := map[string]bool{}
		var out []*c36Model
		for _, m := range ms {
			if k := m.key(); !seen[k] {
				seen[k] = true
				out = append(out, m)
			}
		}
		return out
	}
	for len(c.Ops) < n || concLeft > 0 {
		var o c36Op
		x := rng.IntN(100)
		if len(c.Ops) >= n {
			x = 99 // only the remaining interleaved SetMins
		}
		switch {
		case x < 5:
			o = c36Op{Kind: "restart"}
		case x < 38:
			o = c36Op{Kind: "addLocal", Chunk: pickNearOf(min()), Cert: rng.IntN(2) == 0}
		case x < 52:
			o = c36Op{Kind: "addRemote", Chunk: pickNearOf(min())}
			if !remoteSafe(o.Chunk) {
				continue
			}
		case x < 60:
			pl := pendingAll()
			if len(pl) == 0 || rng.IntN(6) == 0 {
				o = c36Op{Kind: "setCert", Chunk: rng.IntN(len(fx.chunks))}
			} else {
				o = c36Op{Kind: "setCert", Chunk: pl[rng.IntN(len(pl))]}
			}
		default:
			o = c36Op{Kind: "setMin", Min: min()}
			switch rng.IntN(5) {
			case 0: // same minimum again
			case 1:
				o.Min += int64(1 + rng.IntN(30))
			default:
				o.Min += int64(1 + rng.IntN(10))
			}
			pl := pendingAll()
			for _, p := range pl {
				if len(o.Save) < 3 && rng.IntN(3) == 0 {
					o.Save = append(o.Save, p)
				}
			}
			if concLeft > 0 && (len(c.Ops) >= n || rng.IntN(100) < 60) {
				// prefer SetMins that save or expire something
				if len(o.Save) == 0 && len(pl) > 0 && rng.IntN(10) < 7 {
					o.Save = append(o.Save, pl[rng.IntN(len(pl))])
				}
				if rng.IntN(10) < 4 {
					for _, p := range models[0].pendingList() {
						if e := fx.chunks[p].Expiry; e >= o.Min && e < o.Min+12 && rng.IntN(2) == 0 {
							o.Min = e + 1
							break
						}
					}
				}
				saved := map[int]bool{}
				for _, s := range o.Save {
					saved[s] = true
				}
				var expired, kept []int
				for _, p := range models[0].pendingList() {
					switch {
					case saved[p]:
					case fx.chunks[p].Expiry < o.Min:
						expired = append(expired, p)
					default:
						kept = append(kept, p)
					}
				}
				cc := &c36Conc{}
				switch y := rng.IntN(100); {
				case y < 40 && len(o.Save) > 0:
					cc.Class, cc.Op.Chunk = "saved", o.Save[rng.IntN(len(o.Save))]
				case y < 65 && len(expired) > 0:
					cc.Class, cc.Op.Chunk = "expired", expired[rng.IntN(len(expired))]
				case y < 80 && len(kept) > 0:
					cc.Class, cc.Op.Chunk = "kept", kept[rng.IntN(len(kept))]
				default:
					cc.Class = "fresh"
					for tries := 0; tries < 20; tries++ {
						cc.Op.Chunk = pickNearOf(o.Min)
						if !models[0].pending[cc.Op.Chunk] {
							break
						}
					}
					if models[0].pending[cc.Op.Chunk] {
						cc.Class = "kept"
						if saved[cc.Op.Chunk] {
							cc.Class = "saved"
						} else if fx.chunks[cc.Op.Chunk].Expiry < o.Min {
							cc.Class = "expired"
						}
					}
				}
				switch y := rng.IntN(100); {
				case y < 50:
					cc.Op.Kind, cc.Op.Cert = "addLocal", rng.IntN(2) == 0
				case y < 80 && remoteSafe(cc.Op.Chunk):
					cc.Op.Kind = "addRemote"
				case y < 80:
					cc.Op.Kind, cc.Op.Cert = "addLocal", true
				default:
					cc.Op.Kind = "setCert"
				}
				switch y := rng.IntN(100); {
				case y < 45:
					cc.At = "Write"
				case y < 50:
					cc.At = "WriteDone"
				case y < 60:
					cc.At = "NewBatch"
				case y < 80:
					cc.At, cc.Nth = "BatchPut", rng.IntN(2+len(o.Save))
				default:
					cc.At, cc.Nth = "BatchDelete", rng.IntN(1+len(o.Save)+len(expired))
				}
				if rng.IntN(10) > 0 {
					cc.DelayUS = 300 + rng.IntN(2200)
				}
				o.Conc = cc
				concLeft--
			}
		}
		if o.Conc == nil {
			for _, m := range models {
				m.apply(fx, o)
			}
		} else {
			plain := o
			plain.Conc = nil
			var next []*c36Model
			for _, m := range models {
				a := m.clone()
				a.apply(fx, o.Conc.Op)
				a.apply(fx, plain)
				m.apply(fx, plain)
				m.apply(fx, o.Conc.Op)
				next = append(next, a, m)
			}
			models = next
		}
		models = dedupe(models)
		c.Ops = append(c.Ops, o)
	}
	return c
}

// ---- plain concurrent stress ----

// c36StressPhase: all programs run concurrently on the same storage; after all
// of them returned the storage is compared with a reopened one.
type c36StressPhase struct {
	Acceptor []c36Op   `json:"acceptor"` // the only goroutine calling SetMin (block accept is sequential); minimums never decrease
	Adders   [][]c36Op `json:"adders"`
	Continue string    `json:"continue"` // live | reopened: the instance the next phase runs on
}

type c36Stress struct {
	Phases []c36StressPhase `json:"phases"`
}

func c36GenStress(fx *c36Fixture, rng *rand.Rand) c36Stress {
	var s c36Stress
	min := int64(0)
	nAdders := 2 + rng.IntN(3)
	near := func(lo int64) int {
		for tries := 0; tries < 8; tries++ {
			i := rng.IntN(len(fx.chunks))
			e := fx.chunks[i].Expiry
			if e >= lo-5 && e <= lo+c36Window+5 {
				return i
			}
		}
		return rng.IntN(len(fx.chunks))
	}
	for p, np := 0, 2+rng.IntN(3); p < np; p++ {
		ph := c36StressPhase{Continue: "live"}
		if rng.IntN(3) == 0 {
			ph.Continue = "reopened"
		}
		lo := min
		// the acceptor saves only chunks it has just added itself: nobody else
		// removes chunks, so its SetMin calls are inside the monitor's assumptions
		for k, nk := 0, 2+rng.IntN(4); k < nk; k++ {
			o := c36Op{Kind: "setMin"}
			switch rng.IntN(5) {
			case 0:
			case 1:
				min += int64(1 + rng.IntN(20))
			default:
				min += int64(1 + rng.IntN(6))
			}
			o.Min = min
			for j, nj := 0, rng.IntN(3); j < nj; j++ {
				y := near(min)
				dup := false
				for _, s := range o.Save {
					dup = dup || s == y
				}
				if dup {
					continue
				}
				o.Save = append(o.Save, y)
				ph.Acceptor = append(ph.Acceptor, c36Op{Kind: "addLocal", Chunk: y, Cert: true})
			}
			ph.Acceptor = append(ph.Acceptor, o)
		}
		hi := min
		for g := 0; g < nAdders; g++ {
			var prog []c36Op
			for k, nk := 0, 6+rng.IntN(10); k < nk; k++ {
				x := near(lo + rng.Int64N(hi-lo+1))
				owned := x%nAdders == g
				switch y := rng.IntN(100); {
				case y < 15:
					prog = append(prog, c36Op{Kind: "setCert", Chunk: x})
				case y < 55 || !owned:
					prog = append(prog, c36Op{Kind: "addLocal", Chunk: x, Cert: true})
				case y < 65:
					// only the owner of a chunk may leave it pending without certificate ...
					prog = append(prog, c36Op{Kind: "addLocal", Chunk: x})
				default:
					// ... and it hands the certificate in before asking VerifyRemoteChunk
					prog = append(prog, c36Op{Kind: "addLocal", Chunk: x, Cert: true}, c36Op{Kind: "addRemote", Chunk: x})
				}
			}
			ph.Adders = append(ph.Adders, prog)
		}
		s.Phases = append(s.Phases, ph)
	}
	return s
}

type c36StressResult struct {
	fails      []c36Fail
	failAt     int
	before     c36Obs
	after      c36Obs
	divergence string
	phases     int
	nontrivial []int
	ops        int
	goroutines int
	remoteOK   int
	remoteRej  int
	accepted   int
}

func runC36Stress(fx *c36Fixture, s c36Stress) (res c36StressResult) {
	ctx := context.Background()
	db := memdb.New()
	defer func() { _ = db.Close() }()
	open := func() (*ChunkStorage[dsmrtest.Tx], error) {
		verifier := NewChunkVerifier[dsmrtest.Tx](fx.net.cs, c36Rules)
		return NewChunkStorage[dsmrtest.Tx](verifier, db, c36Rules)
	}
	live, err := open()
	if err != nil {
		res.divergence = "open storage: " + err.Error()
		return
	}
	for pi, ph := range s.Phases {
		var (
			mu      sync.Mutex
			problem string
			panicV  any
			panicSt string
			okR     int
			rejR    int
		)
		start := make(chan struct{})
		var wg sync.WaitGroup
		st := live
		run := func(who string, prog []c36Op) {
			defer wg.Done()
			defer func() {
				if v := recover(); v != nil {
					mu.Lock()
					if panicV == nil {
						panicV, panicSt = fmt.Sprintf("%s: %v", who, v), string(debug.Stack())
					}
					mu.Unlock()
				}
			}()
			<-start
			for k, o := range prog {
				err := c36Exec(ctx, fx, st, o)
				mu.Lock()
				switch {
				case o.Kind == "addRemote" && err == nil:
					okR++
				case o.Kind == "addRemote":
					rejR++
				case (o.Kind == "setMin" || o.Kind == "addLocal") && err != nil && problem == "":
					problem = fmt.Sprintf("phase %d %s op %d %s returned %v", pi, who, k, o, err)
				}
				mu.Unlock()
			}
		}
		wg.Add(1 + len(ph.Adders))
		go run("acceptor", ph.Acceptor)
		for g, prog := range ph.Adders {
			go run(fmt.Sprintf("adder%d", g), prog)
			res.ops += len(prog)
		}
		res.ops += len(ph.Acceptor)
		res.goroutines += 1 + len(ph.Adders)
		close(start)
		if why := c36Join(kit.Go(wg.Wait)); why != "" {
			res.divergence = fmt.Sprintf("phase %d: %s", pi, why)
			return
		}
		// ---- quiescent ----
		if panicV != nil {
			panic(fmt.Sprintf("phase %d: %v\n%s", pi, panicV, panicSt))
		}
		res.remoteOK += okR
		res.remoteRej += rejR
		before := c36Observe(fx, live)
		re, err := open()
		res.phases++
		if err != nil {
			res.fails = []c36Fail{{"C36/stress-reopen-fails", fmt.Sprintf("NewChunkStorage on the same database failed: %v", err)}}
			res.failAt, res.before = pi, before
			return
		}
		after := c36Observe(fx, re)
		cm := newC36Model()
		for _, a := range before.Accepted {
			cm.accepted[a] = true
		}
		if f := c36Compare(before, after, cm); len(f) > 0 {
			res.fails, res.failAt, res.before, res.after = c36Rekey(f, "stress"), pi, before, after
			return
		}
		if problem != "" {
			res.divergence = problem
			return
		}
		res.accepted += len(before.Accepted)
		if len(before.Accepted) > 0 {
			res.nontrivial = append(res.nontrivial, pi)
		}
		if ph.Continue == "reopened" {
			live = re
		}
	}
	return
}
