package dsmr

// C37: DSMR block verification rejects in-block duplicates, chunks already
// referenced by an ancestor and chunks whose expiry is before the block
// timestamp; the builder never produces such a block; no chunk is delivered
// twice on a chain.

import (
	"context"
	"encoding/json"
	"errors"
	"fmt"
	"math/rand/v2"
	"sort"
	"strings"
	"sync"
	"testing"

	kit "github.com/ava-labs/hypersdk/internal/verifkit"
	"github.com/ava-labs/hypersdk/x/dsmr/dsmrtest"
)

const c37Window = int64(20)

var c37Rules = ruleFactory{rules: rules{validityWindow: c37Window, maxProducerChunkWeight: 1 << 30}}

// c37Cert names a certificate of the deterministic universe: expiry + variant.
type c37Cert struct {
	E int64 `json:"e"`
	V int   `json:"v"`
}

func (c c37Cert) String() string { return fmt.Sprintf("e%d.%d", c.E, c.V) }

type c37Item struct {
	chunk Chunk[dsmrtest.Tx]
	cert  *ChunkCertificate
}

var (
	c37NetOnce sync.Once
	c37NetV    *vfNet
	c37NetErr  error
	c37Items   sync.Map // c37Cert -> *c37Item
	c37ByID    sync.Map // ids.ID -> c37Cert
)

func c37Get(k c37Cert) (*c37Item, error) {
	c37NetOnce.Do(func() { c37NetV, c37NetErr = vfNewNet(1) })
	if c37NetErr != nil {
		return nil, c37NetErr
	}
	if v, ok := c37Items.Load(k); ok {
		return v.(*c37Item), nil
	}
	c, err := c37NetV.signChunk(0, k.E, []dsmrtest.Tx{vfTx(uint64(k.E)*64+uint64(k.V), k.E)})
	if err != nil {
		return nil, err
	}
	cert, err := c37NetV.certFor(c)
	if err != nil {
		return nil, err
	}
	c37ByID.Store(c.id, k)
	v, _ := c37Items.LoadOrStore(k, &c37Item{chunk: c, cert: cert})
	return v.(*c37Item), nil
}

// ---- ops (JSON witness) ----

type c37Op struct {
	Kind   string    `json:"op"`               // verify | build | accept | add
	Parent int       `json:"parent,omitempty"` // verify/build: index of the parent block (0 = genesis)
	TS     int64     `json:"ts,omitempty"`     // verify/build: block timestamp
	Certs  []c37Cert `json:"certs,omitempty"`  // verify: the candidate's certificates; add: the certificate put into storage
	Block  int       `json:"block,omitempty"`  // accept: index of the block
}

func (o c37Op) String() string {
	switch o.Kind {
	case "verify":
		return fmt.Sprintf("verify(parent b%d,ts %d,%v)", o.Parent, o.TS, o.Certs)
	case "build":
		return fmt.Sprintf("build(parent b%d,ts %d)", o.Parent, o.TS)
	case "accept":
		return fmt.Sprintf("accept(b%d)", o.Block)
	case "add":
		return fmt.Sprintf("add(%v)", o.Certs)
	}
	return "?"
}

type c37Case struct {
	Ops []c37Op `json:"ops"`
}

func (c c37Case) String() string {
	parts := make([]string, len(c.Ops))
	for i, o := range c.Ops {
		parts[i] = o.String()
	}
	return strings.Join(parts, " ")
}

// ---- reference model: a block tree of certificate names ----

type c37MBlock struct {
	idx      int
	blk      Block
	parent   *c37MBlock
	ts       int64
	certs    []c37Cert
	accepted bool
	dead     bool // not a descendant of the last accepted block
}

type c37Model struct {
	blocks       []*c37MBlock // index 0 = genesis
	lastAccepted *c37MBlock
	inStorage    map[c37Cert]bool // pending chunk + certificate in the node's storage
	delivered    map[c37Cert]int
}

// inclusion returns the nearest ancestor-or-self of b (starting at b) that includes k.
func (m *c37Model) inclusion(b *c37MBlock, k c37Cert) *c37MBlock {
	for a := b; a != nil; a = a.parent {
		for _, c := range a.certs {
			if c == k {
				return a
			}
		}
	}
	return nil
}

type c37Reason struct {
	Kind string // dup | ancestor | expired
	Cert c37Cert
	Anc  *c37MBlock
}

// reasons lists why a block (parent, ts, certs) must not exist.
func (m *c37Model) reasons(parent *c37MBlock, ts int64, certs []c37Cert) []c37Reason {
	var out []c37Reason
	seen := map[c37Cert]bool{}
	for _, k := range certs {
		if seen[k] {
			out = append(out, c37Reason{Kind: "dup", Cert: k})
		}
		seen[k] = true
	}
	for k := range seen {
		if a := m.inclusion(parent, k); a != nil {
			out = append(out, c37Reason{Kind: "ancestor", Cert: k, Anc: a})
		}
		if k.E < ts {
			out = append(out, c37Reason{Kind: "expired", Cert: k})
		}
	}
	sort.Slice(out, func(i, j int) bool {
		if out[i].Kind != out[j].Kind {
			return out[i].Kind < out[j].Kind
		}
		if out[i].Cert.E != out[j].Cert.E {
			return out[i].Cert.E < out[j].Cert.E
		}
		return out[i].Cert.V < out[j].Cert.V
	})
	return out
}

// classify turns the reasons into (violation key suffix, shape for distinctness).
func c37Classify(rs []c37Reason, ts int64) (key, shape string) {
	has := map[string]bool{}
	beyond, acc, proc := false, false, false
	for _, r := range rs {
		has[r.Kind] = true
		if r.Kind == "ancestor" {
			if r.Anc.accepted {
				acc = true
			} else {
				proc = true
			}
			if r.Cert.E > r.Anc.ts+c37Window {
				beyond = true
			}
		}
	}
	switch {
	case has["dup"] && len(has) == 1:
		key = "in-block-duplicate"
	case has["ancestor"] && has["expired"]:
		key = "expired-ancestor-chunk"
	case has["ancestor"]:
		key = "ancestor-chunk"
		if beyond {
			key += "/expiry-beyond-window"
		}
	case has["expired"]:
		key = "expired-chunk"
	default:
		key = "in-block-duplicate"
	}
	kinds := make([]string, 0, 3)
	for k := range has {
		kinds = append(kinds, k)
	}
	sort.Strings(kinds)
	// how far back the nearest/farthest offending ancestor lies, in windows
	gapMin, gapMax, late := int64(-1), int64(-1), int64(-1)
	for _, r := range rs {
		if r.Kind == "ancestor" {
			g := (ts - r.Anc.ts) * 2 / c37Window
			if gapMin < 0 || g < gapMin {
				gapMin = g
			}
			if g > gapMax {
				gapMax = g
			}
		}
		if r.Kind == "expired" {
			l := (ts - r.Cert.E)
			if l > 3 {
				l = 3 + l/c37Window
			}
			if l > late {
				late = l
			}
		}
	}
	shape = fmt.Sprintf("%v acc=%v proc=%v beyond=%v n=%d gap=%d..%d late=%d", kinds, acc, proc, beyond, len(rs), gapMin, gapMax, late)
	return
}

// idCollision reports whether b or one of its ancestors shares its block id
// with a different block of the tree (same certificates, different header).
func (m *c37Model) idCollision(b *c37MBlock) (string, bool) {
	for a := b; a != nil; a = a.parent {
		for _, x := range m.blocks {
			if x != a && x.blk.GetID() == a.blk.GetID() && (x.parent != a.parent || x.ts != a.ts) {
				return fmt.Sprintf("blocks b%d (parent b%d, timestamp %d) and b%d (parent b%d, timestamp %d) carry the same certificates and therefore the same block id %s", a.idx, pidx(a), a.ts, x.idx, pidx(x), x.ts, a.blk.GetID()), true
			}
		}
	}
	return "", false
}

func pidx(b *c37MBlock) int {
	if b.parent == nil {
		return -1
	}
	return b.parent.idx
}

// ---- running a history ----

type c37Fail struct {
	Key    string
	Detail string
}

type c37Stats struct {
	verifies, rejectedRight, verifiedClean, overRejected, overRejectedFuture int
	builds, buildEmpty, buildFiltered, builtVerified, builtRejected          int
	accepts, deliveredChunks, adds, idCollisions                             int
	byReason                                                                 map[string]int
	shapes                                                                   []string
	inconclusive                                                             string
}

type c37Run struct {
	m    *c37Model
	node *vfNode
	st   c37Stats
	ops  []c37Op
}

func newC37Run(t *testing.T) (*c37Run, error) {
	if _, err := c37Get(c37Cert{E: 1, V: 0}); err != nil {
		return nil, err
	}
	nodes, err := vfNewNodes(t, c37NetV, vfNodeOpts{rules: c37Rules, realWindow: true})
	if err != nil {
		return nil, err
	}
	g := &c37MBlock{idx: 0, blk: Block{}, accepted: true}
	return &c37Run{
		m:    &c37Model{blocks: []*c37MBlock{g}, lastAccepted: g, inStorage: map[c37Cert]bool{}, delivered: map[c37Cert]int{}},
		node: nodes[0],
		st:   c37Stats{byReason: map[string]int{}},
	}, nil
}

func (r *c37Run) addBlock(parent *c37MBlock, blk Block, certs []c37Cert) *c37MBlock {
	b := &c37MBlock{idx: len(r.m.blocks), blk: blk, parent: parent, ts: blk.Timestamp, certs: certs}
	for _, x := range r.m.blocks {
		if x.blk.GetID() != blk.GetID() {
			continue
		}
		if x.parent == parent && x.ts == b.ts && fmt.Sprint(x.certs) == fmt.Sprint(certs) {
			return x // the very same block verified again
		}
		r.st.idCollisions++
	}
	r.m.blocks = append(r.m.blocks, b)
	r.node.index.put(blk)
	return b
}

func (r *c37Run) live(i int) *c37MBlock {
	if i < 0 || i >= len(r.m.blocks) {
		return nil
	}
	b := r.m.blocks[i]
	if b.dead || (b.accepted && b != r.m.lastAccepted) {
		return nil
	}
	return b
}

// apply executes one op against the real node and judges it. A nil return with
// skipped=true means the op does not apply to the current tree (replay of a
// witness on changed code).
func (r *c37Run) apply(o c37Op) (fail *c37Fail, skipped bool) {
	ctx := context.Background()
	switch o.Kind {
	case "add":
		k := o.Certs[0]
		it, err := c37Get(k)
		if err != nil {
			r.st.inconclusive = err.Error()
			return nil, true
		}
		if err := r.node.st.AddLocalChunkWithCert(it.chunk, it.cert); err != nil {
			r.st.inconclusive = "AddLocalChunkWithCert: " + err.Error()
			return nil, true
		}
		r.m.inStorage[k] = true
		r.st.adds++
	case "verify":
		parent := r.live(o.Parent)
		if parent == nil || o.TS <= parent.ts || len(o.Certs) == 0 {
			return nil, true
		}
		certs := make([]*ChunkCertificate, len(o.Certs))
		for i, k := range o.Certs {
			it, err := c37Get(k)
			if err != nil {
				r.st.inconclusive = err.Error()
				return nil, true
			}
			certs[i] = it.cert
		}
		blk, err := vfMakeBlock(parent.blk, o.TS, certs)
		if err != nil {
			r.st.inconclusive = "make block: " + err.Error()
			return nil, true
		}
		rs := r.m.reasons(parent, o.TS, o.Certs)
		verr := r.node.Verify(ctx, parent.blk, blk)
		r.st.verifies++
		if len(rs) > 0 {
			key, shape := c37Classify(rs, o.TS)
			pk := "processing"
			if parent.accepted {
				pk = "accepted"
			}
			r.st.shapes = append(r.st.shapes, fmt.Sprintf("verify %s parent=%s certs=%d", shape, pk, len(o.Certs)))
			r.st.byReason[key]++
			if verr == nil {
				var why []string
				for _, x := range rs {
					switch x.Kind {
					case "dup":
						why = append(why, fmt.Sprintf("%v is referenced twice", x.Cert))
					case "expired":
						why = append(why, fmt.Sprintf("%v expires at %d < block timestamp %d", x.Cert, x.Cert.E, o.TS))
					case "ancestor":
						st := "processing"
						if x.Anc.accepted {
							st = "accepted"
						}
						why = append(why, fmt.Sprintf("%v is already referenced by %s ancestor b%d (timestamp %d)", x.Cert, st, x.Anc.idx, x.Anc.ts))
					}
				}
				if d, ok := r.m.idCollision(parent); ok && key == "ancestor-chunk" {
					key += "/block-id-collision"
					why = append(why, "NOTE: "+d)
				}
				return &c37Fail{"C37/verify-accepts-" + key, fmt.Sprintf("Verify accepted block (parent b%d ts %d, timestamp %d, certs %v) although %s", parent.idx, parent.ts, o.TS, o.Certs, strings.Join(why, "; "))}, false
			}
			r.st.rejectedRight++
			return nil, false
		}
		if verr != nil {
			future := false
			for _, k := range o.Certs {
				if k.E > o.TS+c37Window {
					future = true
				}
			}
			if future {
				r.st.overRejectedFuture++
			} else {
				r.st.overRejected++
			}
			return nil, false
		}
		r.st.verifiedClean++
		r.addBlock(parent, blk, o.Certs)
	case "build":
		parent := r.live(o.Parent)
		if parent == nil || o.TS <= parent.ts {
			return nil, true
		}
		// what the builder has to filter out of its storage
		mustFilter := 0
		for k := range r.m.inStorage {
			if k.E < o.TS || r.m.inclusion(parent, k) != nil {
				mustFilter++
			}
		}
		blk, err := r.node.BuildBlock(ctx, parent.blk, o.TS)
		r.st.builds++
		if err != nil {
			if errors.Is(err, ErrNoAvailableChunkCerts) {
				r.st.buildEmpty++
				if mustFilter > 0 {
					r.st.buildFiltered++
					r.st.shapes = append(r.st.shapes, fmt.Sprintf("build empty filter=%d", mustFilter))
				}
				return nil, false
			}
			r.st.inconclusive = "BuildBlock: " + err.Error()
			return nil, true
		}
		names := make([]c37Cert, len(blk.ChunkCerts))
		for i, c := range blk.ChunkCerts {
			v, ok := c37ByID.Load(c.ChunkID)
			if !ok {
				r.st.inconclusive = "built block references an unknown chunk"
				return nil, true
			}
			names[i] = v.(c37Cert)
		}
		if mustFilter > 0 {
			r.st.buildFiltered++
		}
		pk := "processing"
		if parent.accepted {
			pk = "accepted"
		}
		r.st.shapes = append(r.st.shapes, fmt.Sprintf("build n=%d filter=%d parent=%s", len(names), mustFilter, pk))
		if rs := r.m.reasons(parent, o.TS, names); len(rs) > 0 {
			key, _ := c37Classify(rs, o.TS)
			x := rs[0]
			why := fmt.Sprintf("%v (%s)", x.Cert, x.Kind)
			if x.Anc != nil {
				why = fmt.Sprintf("%v already referenced by ancestor b%d (timestamp %d, accepted=%v)", x.Cert, x.Anc.idx, x.Anc.ts, x.Anc.accepted)
			}
			if d, ok := r.m.idCollision(parent); ok && key == "ancestor-chunk" {
				key += "/block-id-collision"
				why += "; NOTE: " + d
			}
			return &c37Fail{"C37/builder-emits-" + key, fmt.Sprintf("BuildBlock(parent b%d ts %d, timestamp %d) produced certs %v: %s", parent.idx, parent.ts, o.TS, names, why)}, false
		}
		if verr := r.node.Verify(ctx, parent.blk, blk); verr != nil {
			r.st.builtRejected++
			return nil, false
		}
		r.st.builtVerified++
		r.addBlock(parent, blk, names)
	case "accept":
		b := r.live(o.Block)
		if b == nil || b.accepted || b.parent != r.m.lastAccepted {
			return nil, true
		}
		for _, k := range b.certs {
			if !r.m.inStorage[k] {
				it, _ := c37Get(k)
				if err := r.node.st.AddLocalChunkWithCert(it.chunk, it.cert); err != nil {
					r.st.inconclusive = "AddLocalChunkWithCert: " + err.Error()
					return nil, true
				}
				r.m.inStorage[k] = true
			}
		}
		eb, err := r.node.Accept(ctx, b.blk)
		r.st.accepts++
		if err != nil {
			r.st.inconclusive = fmt.Sprintf("Accept(b%d): %v", b.idx, err)
			return nil, true
		}
		b.accepted = true
		r.m.lastAccepted = b
		for _, x := range r.m.blocks {
			if x.accepted || x.dead {
				continue
			}
			desc := false
			for a := x.parent; a != nil; a = a.parent {
				if a == b {
					desc = true
					break
				}
			}
			if !desc {
				x.dead = true
			}
		}
		for _, k := range b.certs {
			delete(r.m.inStorage, k)
		}
		for k := range r.m.inStorage {
			if k.E < b.ts {
				delete(r.m.inStorage, k)
			}
		}
		r.st.shapes = append(r.st.shapes, fmt.Sprintf("accept n=%d", len(eb.Chunks)))
		for _, ch := range eb.Chunks {
			v, ok := c37ByID.Load(ch.id)
			if !ok {
				r.st.inconclusive = "executed block holds an unknown chunk"
				return nil, true
			}
			k := v.(c37Cert)
			r.m.delivered[k]++
			r.st.deliveredChunks++
			if r.m.delivered[k] > 1 {
				return &c37Fail{"C37/chunk-delivered-twice", fmt.Sprintf("chunk %v was delivered by two accepted blocks (second: b%d, timestamp %d)", k, b.idx, b.ts)}, false
			}
		}
	}
	return nil, false
}

// ---- generator (online: looks at the model state) ----

type c37Gen struct {
	rng   *rand.Rand
	fresh map[int64]int // next unused variant per expiry
}

func (g *c37Gen) freshCert(e int64) c37Cert {
	if e < 1 {
		e = 1
	}
	v := g.fresh[e]
	g.fresh[e] = v + 1
	return c37Cert{E: e, V: v}
}

var c37Deltas = []int64{1, 1, 2, 3, 5, 8, 12, 19, 20, 21, 26}

func (g *c37Gen) pickParent(r *c37Run) *c37MBlock {
	var cands []*c37MBlock
	for _, b := range r.m.blocks {
		if r.live(b.idx) != nil {
			cands = append(cands, b)
		}
	}
	// prefer the newest blocks (deep processing chains)
	if g.rng.IntN(3) != 0 {
		return cands[len(cands)-1]
	}
	return cands[g.rng.IntN(len(cands))]
}

func (g *c37Gen) next(r *c37Run) c37Op {
	rng := g.rng
	x := rng.IntN(100)
	// accept when something is waiting
	var acceptable []*c37MBlock
	for _, b := range r.m.blocks {
		if !b.accepted && !b.dead && b.parent == r.m.lastAccepted {
			acceptable = append(acceptable, b)
		}
	}
	switch {
	case x < 18 && len(acceptable) > 0:
		return c37Op{Kind: "accept", Block: acceptable[rng.IntN(len(acceptable))].idx}
	case x < 30:
		// gossip: put a certificate into the builder's storage
		tip := g.pickParent(r)
		var k c37Cert
		switch rng.IntN(8) {
		case 0: // already expired for the next block
			k = g.freshCert(tip.ts - int64(rng.IntN(5)))
		case 1: // far in the future
			k = g.freshCert(tip.ts + c37Window + 1 + int64(rng.IntN(30)))
		case 2, 3: // re-gossip of a certificate some block already includes
			var inc []c37Cert
			for _, b := range r.m.blocks {
				inc = append(inc, b.certs...)
			}
			if len(inc) > 0 {
				k = inc[rng.IntN(len(inc))]
			} else {
				k = g.freshCert(tip.ts + 1 + int64(rng.IntN(int(c37Window))))
			}
		default:
			k = g.freshCert(tip.ts + 1 + int64(rng.IntN(int(c37Window))))
		}
		return c37Op{Kind: "add", Certs: []c37Cert{k}}
	case x < 45:
		p := g.pickParent(r)
		return c37Op{Kind: "build", Parent: p.idx, TS: p.ts + c37Deltas[rng.IntN(len(c37Deltas))]}
	}
	if x < 53 {
		// twin: the certificate list of an existing live block on another parent
		// (legitimate on a fork; the two blocks differ only in their header)
		var live []*c37MBlock
		for _, b := range r.m.blocks {
			if b.idx != 0 && r.live(b.idx) != nil {
				live = append(live, b)
			}
		}
		for tries := 0; tries < 6 && len(live) > 0; tries++ {
			src := live[rng.IntN(len(live))]
			p := g.pickParent(r)
			if rng.IntN(2) == 0 {
				p = r.m.blocks[0]
				if r.live(0) == nil {
					p = r.m.lastAccepted
				}
			}
			if p == src.parent {
				continue
			}
			lo := p.ts + 1
			hi := int64(1 << 40)
			for _, k := range src.certs {
				if k.E < hi {
					hi = k.E
				}
				if k.E-c37Window > lo {
					lo = k.E - c37Window
				}
			}
			if lo > hi {
				continue
			}
			ts := lo + int64(rng.IntN(int(hi-lo)+1))
			if len(r.m.reasons(p, ts, src.certs)) > 0 {
				continue
			}
			return c37Op{Kind: "verify", Parent: p.idx, TS: ts, Certs: append([]c37Cert(nil), src.certs...)}
		}
	}
	p := g.pickParent(r)
	ts := p.ts + c37Deltas[rng.IntN(len(c37Deltas))]
	n := 1 + rng.IntN(3)
	certs := make([]c37Cert, 0, n+1)
	for i := 0; i < n; i++ {
		certs = append(certs, g.freshCert(ts+int64(rng.IntN(int(c37Window)+1))))
	}
	// ancestors' certificates, nearest first
	var anc []c37Cert
	var ancBlocks []*c37MBlock
	for a := p; a != nil; a = a.parent {
		for _, k := range a.certs {
			anc = append(anc, k)
			ancBlocks = append(ancBlocks, a)
		}
	}
	bad := func() {
		switch y := rng.IntN(10); {
		case y < 2: // in-block duplicate
			certs = append(certs, certs[rng.IntN(len(certs))])
		case y < 4: // fresh but expired
			certs = append(certs, g.freshCert(ts-1-int64(rng.IntN(6))))
		case y < 5: // boundary: expiry == timestamp is still valid, expiry == timestamp-1 is not
			certs = append(certs, g.freshCert(ts-int64(rng.IntN(2))))
		case y < 6: // far future (not forbidden by the statement)
			certs = append(certs, g.freshCert(ts+c37Window+1+int64(rng.IntN(30))))
		default: // re-use of an ancestor's certificate
			if len(anc) == 0 {
				certs = append(certs, certs[0])
				return
			}
			i := rng.IntN(len(anc))
			if rng.IntN(2) == 0 { // prefer certificates that are not expired yet at ts
				for tries := 0; tries < 6; tries++ {
					j := rng.IntN(len(anc))
					if anc[j].E >= ts {
						i = j
						break
					}
				}
			}
			_ = ancBlocks
			certs = append(certs, anc[i])
		}
	}
	switch rng.IntN(10) {
	case 0, 1, 2: // clean block
	case 3:
		bad()
		bad()
	default:
		bad()
	}
	rng.Shuffle(len(certs), func(i, j int) { certs[i], certs[j] = certs[j], certs[i] })
	return c37Op{Kind: "verify", Parent: p.idx, TS: ts, Certs: certs}
}

func TestC37(t *testing.T) {
	r := kit.Start(t, "C37", "exploration")
	r.Rule(fmt.Sprintf("histories on one real dsmr node wired with the REAL internal/validitywindow.TimeValidityWindow (window %d) over a chain index holding every verified block: ops = verify a crafted candidate (parent = last accepted block or any processing descendant incl. forks; timestamp delta 1..26; 1..5 certificates drawn from: fresh in-window, boundary expiry == timestamp, expired, far beyond the window, certificates of accepted / processing ancestors before and after their expiry was evicted from the accepted set, in-block duplicates), BuildBlock on any live parent after certificates (fresh, expired, far-future, re-gossiped already-included ones) were put into the node's storage, Accept of a verified child of the last accepted block. Oracle = a block tree of certificate names: Verify must return an error when the candidate has an in-block duplicate, references a certificate of any ancestor, or a certificate with expiry < timestamp; BuildBlock must never emit such a block; a chunk id appears in the ExecutedBlocks of at most one accepted block. Candidates the statement does not forbid may be accepted or rejected. One evaluation = one judged Verify/BuildBlock/Accept; non-trivial = candidate that must be rejected, a build that has something to filter, an accept; distinct = (reason set, ancestor accepted/processing, expiry beyond ancestor's window, parent kind, sizes).", c37Window))
	r.Assume(
		"certificates are forged with the (single) validator's key, so certificates of any expiry exist; the statement quantifies over certificates of any expiry",
		"blocks are only verified on top of the last accepted block or its verified descendants (consensus never verifies below the accepted height)",
		"the node's ruleFactory and the TimeValidityWindow use the same validity window, as a VM wiring would",
		"a rejection of a candidate the statement does not forbid (e.g. expiry beyond timestamp+window) is never a violation",
	)
	type outcome struct {
		st    c37Stats
		fail  *c37Fail
		ops   []c37Op
		after int
	}
	runGen := func(seedA, seedB uint64, n int) outcome {
		run, err := newC37Run(t)
		if err != nil {
			return outcome{st: c37Stats{inconclusive: err.Error()}}
		}
		g := &c37Gen{rng: rand.New(rand.NewPCG(seedA, seedB)), fresh: map[int64]int{}}
		var ops []c37Op
		for i := 0; i < n; i++ {
			o := g.next(run)
			ops = append(ops, o)
			if f, _ := run.apply(o); f != nil {
				return outcome{st: run.st, fail: f, ops: ops, after: i}
			}
			if run.st.inconclusive != "" {
				break
			}
		}
		return outcome{st: run.st, ops: ops}
	}
	runOps := func(ops []c37Op) outcome {
		run, err := newC37Run(t)
		if err != nil {
			return outcome{st: c37Stats{inconclusive: err.Error()}}
		}
		for i, o := range ops {
			if f, _ := run.apply(o); f != nil {
				return outcome{st: run.st, fail: f, ops: ops[:i+1], after: i}
			}
			if run.st.inconclusive != "" {
				break
			}
		}
		return outcome{st: run.st, ops: ops}
	}
	var mu sync.Mutex
	total := c37Stats{byReason: map[string]int{}}
	record := func(o outcome) {
		r.EvalN(o.st.verifies + o.st.builds + o.st.accepts)
		mu.Lock()
		total.verifies += o.st.verifies
		total.rejectedRight += o.st.rejectedRight
		total.verifiedClean += o.st.verifiedClean
		total.overRejected += o.st.overRejected
		total.overRejectedFuture += o.st.overRejectedFuture
		total.builds += o.st.builds
		total.buildEmpty += o.st.buildEmpty
		total.buildFiltered += o.st.buildFiltered
		total.builtVerified += o.st.builtVerified
		total.builtRejected += o.st.builtRejected
		total.accepts += o.st.accepts
		total.deliveredChunks += o.st.deliveredChunks
		total.adds += o.st.adds
		total.idCollisions += o.st.idCollisions
		for k, v := range o.st.byReason {
			total.byReason[k] += v
		}
		mu.Unlock()
		for _, s := range o.st.shapes {
			r.Distinct(s)
		}
		if len(o.st.shapes) > 0 {
			r.Sample(c37Case{Ops: o.ops})
		}
		if o.st.inconclusive != "" {
			r.Inconclusive("%s [history %s]", o.st.inconclusive, c37Case{Ops: o.ops})
		}
		if o.fail != nil {
			c := c37Case{Ops: o.ops}
			r.Violation(o.fail.Key, c, "step %d %s: %s  [history: %s]", o.after, o.ops[o.after], o.fail.Detail, c)
		}
	}
	finish := func(min int) {
		r.Count("verify_calls", total.verifies)
		r.Count("verify_rejected_forbidden_block", total.rejectedRight)
		r.Count("verify_accepted_clean_block", total.verifiedClean)
		r.Count("verify_rejected_unforbidden_block", total.overRejected)
		r.Count("verify_rejected_far_future_block", total.overRejectedFuture)
		r.Count("build_calls", total.builds)
		r.Count("build_no_available_certs", total.buildEmpty)
		r.Count("build_with_certs_to_filter", total.buildFiltered)
		r.Count("built_blocks_verified", total.builtVerified)
		r.Count("built_blocks_rejected_by_verify", total.builtRejected)
		r.Count("accepts", total.accepts)
		r.Count("chunks_delivered", total.deliveredChunks)
		r.Count("certs_gossiped_to_storage", total.adds)
		r.Count("distinct_blocks_with_equal_id", total.idCollisions)
		for k, v := range total.byReason {
			r.Count("forbidden_"+strings.ReplaceAll(k, "/", "_"), v)
		}
		r.Finish(min)
	}
	if rf := r.Replay(); rf != nil && len(rf.Witness) > 0 {
		var c c37Case
		if err := json.Unmarshal(rf.Witness, &c); err == nil && len(c.Ops) > 0 {
			var o outcome
			r.Guard("dsmr", c, func() { o = runOps(c.Ops) })
			record(o)
			finish(0)
			return
		}
	}
	seeds := r.Rand("histories")
	n := r.N(1000, 14000)
	type job struct {
		a, b uint64
		ln   int
	}
	jobs := make([]job, n)
	for i := range jobs {
		jobs[i] = job{a: seeds.Uint64(), b: seeds.Uint64(), ln: 12 + seeds.IntN(40)}
	}
	vfParallel(n, 4, func(i int) {
		var o outcome
		r.Guard("dsmr", jobs[i], func() { o = runGen(jobs[i].a, jobs[i].b, jobs[i].ln) })
		record(o)
	})
	finish(60)
}
