package dsmr

// C35: accepting a DSMR block yields exactly the chunks its certificates
// reference, in certificate order, whether local or fetched from a peer, and
// acceptance succeeds once a peer serves a valid chunk.

import (
	"context"
	"encoding/json"
	"fmt"
	"math"
	"math/rand/v2"
	"sort"
	"strings"
	"sync"
	"sync/atomic"
	"testing"
	"time"

	"github.com/ava-labs/avalanchego/ids"
	"github.com/ava-labs/avalanchego/network/p2p"
	"github.com/ava-labs/avalanchego/snow/engine/common"
	"google.golang.org/protobuf/proto"

	kit "github.com/ava-labs/hypersdk/internal/verifkit"
	pb "github.com/ava-labs/hypersdk/proto/pb/dsmr"
	"github.com/ava-labs/hypersdk/x/dsmr/dsmrtest"
)

const (
	c35HardCap       = 2500 // GetChunk requests per Accept (all chunks together) after which the monitor gives up on it
	c35MaxWitnesses  = 3    // reported witnesses of C35/holder-never-asked (further ones are only counted)
	c35MissProbBound = 1e-30
)

// c35AskBound is the logical-step bound of "acceptance succeeds once a peer
// serves a valid chunk": Accept picks the peer to ask uniformly at random among
// the n validators, so a particular validator is not asked once in K requests
// with probability ((n-1)/n)^K. The bound is the smallest K that makes this
// < 1e-30 (n=2: 100, n=3: 171, n=4: 241, n=5: 310, n=8: 518), plus one.
func c35AskBound(n int) int {
	if n < 2 {
		return 1
	}
	return int(math.Ceil(math.Log(1/c35MissProbBound)/math.Log(float64(n)/float64(n-1)))) + 1
}

// ---- case description (JSON witness) ----

type c35Chunk struct {
	Producer int   `json:"producer"`
	Holders  []int `json:"holders"` // nodes that store the chunk before the block is proposed
}

type c35Block struct {
	Chunks  []c35Chunk `json:"chunks"`  // certificate order
	Order   []int      `json:"order"`   // order in which the nodes accept the block
	Scripts [][]string `json:"scripts"` // per node: behaviour of the next GetChunk responses during its Accept (then honest)
}

// c35Fill = chunks of one producer that a node holds as pending (attested, in no
// block, never accepted) for the whole case; they use up the producer's budget
// of pending chunk bytes on that node.
type c35Fill struct {
	Node     int   `json:"node"`
	Producer int   `json:"producer"`
	Txs      []int `json:"txs"` // one pending chunk per entry: its number of transactions
}

type c35Case struct {
	K int `json:"k"`
	// Limit, when > 0, is the per-producer limit of pending chunk bytes every
	// node is configured with (Rules.GetMaxAccumulatedProducerChunkWeight);
	// 0 = the package's test default (1 MiB, never reached).
	Limit  uint64     `json:"limit,omitempty"`
	Fills  []c35Fill  `json:"fills,omitempty"`
	Mode   string     `json:"mode,omitempty"` // how Limit/Fills were chosen (documentation of the witness)
	Blocks []c35Block `json:"blocks"`
}

var c35Faults = []string{"apperr", "unavail", "garbage", "empty", "truncated", "badsig", "tampered", "wrong:other", "wrong:sibling"}

// ---- deterministic chunk universe, cached across cases ----

type c35Item struct {
	chunk Chunk[dsmrtest.Tx]
	cert  *ChunkCertificate
}

var (
	c35Nets  sync.Map // k -> *vfNet
	c35Items sync.Map // "k/producer/tag" -> *c35Item
)

func c35Net(k int) (*vfNet, error) {
	if v, ok := c35Nets.Load(k); ok {
		return v.(*vfNet), nil
	}
	n, err := vfNewNet(k)
	if err != nil {
		return nil, err
	}
	v, _ := c35Nets.LoadOrStore(k, n)
	return v.(*vfNet), nil
}

func c35GetItem(net *vfNet, k, producer, tag int) (*c35Item, error) {
	key := fmt.Sprintf("%d/%d/%d", k, producer, tag)
	if v, ok := c35Items.Load(key); ok {
		return v.(*c35Item), nil
	}
	expiry := int64(1000 + tag)
	txs := make([]dsmrtest.Tx, 1+tag%3)
	for i := range txs {
		txs[i] = vfTx(uint64(tag*8+i), expiry)
	}
	c, err := net.signChunk(producer, expiry, txs)
	if err != nil {
		return nil, err
	}
	cert, err := net.certFor(c)
	if err != nil {
		return nil, err
	}
	v, _ := c35Items.LoadOrStore(key, &c35Item{chunk: c, cert: cert})
	return v.(*c35Item), nil
}

// c35GetFiller returns the idx-th pending-only chunk of a producer with ntx
// transactions (distinct from every block chunk: other expiry, other tx ids).
func c35GetFiller(net *vfNet, k, producer, idx, ntx int) (*c35Item, error) {
	key := fmt.Sprintf("f/%d/%d/%d/%d", k, producer, idx, ntx)
	if v, ok := c35Items.Load(key); ok {
		return v.(*c35Item), nil
	}
	expiry := int64(2000 + idx*16 + ntx)
	txs := make([]dsmrtest.Tx, ntx)
	for i := range txs {
		txs[i] = vfTx(uint64(100000+idx*1000+ntx*32+i), expiry)
	}
	c, err := net.signChunk(producer, expiry, txs)
	if err != nil {
		return nil, err
	}
	v, _ := c35Items.LoadOrStore(key, &c35Item{chunk: c})
	return v.(*c35Item), nil
}

// ---- fault-injecting GetChunk handlers ----

type c35Event struct {
	N      int    `json:"n"`
	Peer   int    `json:"peer"`
	Chunk  string `json:"chunk"` // position in the block or "?"
	Action string `json:"action"`
	Result string `json:"result"`
}

type c35Ctl struct {
	mu       sync.Mutex
	script   []string
	pos      int
	n        int
	events   []c35Event
	expected map[ids.ID][]byte // chunk id -> canonical bytes (every chunk of the case)
	blockPos map[ids.ID]int    // chunk id -> position in the current block
	sibling  map[ids.ID][]byte // chunk id -> bytes of another chunk of the same block
	other    []byte            // a valid chunk that is in no block
	valid    map[ids.ID]int    // valid serves of the requested chunk during this Accept
	refetch  int               // requests for a chunk after a valid copy of it was served
	faults   map[string]int
	unavail  int
	stuck    chan struct{}
	stuckOn  ids.ID
	never    chan struct{}
	// logical-step oracle: per chunk of the running Accept
	limit       int                    // requests for one chunk after which the Accept is judged not to make progress
	reqs        map[ids.ID]int         // requests seen for the chunk
	asked       map[ids.ID]map[int]int // chunk -> peer -> requests
	holders     map[ids.ID][]int       // peers that hold the chunk when the Accept starts
	holderAsked map[ids.ID]int         // requests for the chunk that went to one of its holders
	parked      bool                   // a verdict was signalled: every further request parks
	panics      []c35Panic             // recovered on message delivery goroutines
}

type c35Panic struct {
	Where string `json:"where"`
	Value string `json:"value"`
	Stack string `json:"stack"`
}

func (c *c35Ctl) notePanic(where string, v any, stack string) {
	// keep the frames below the runtime's panic machinery
	if i := strings.Index(stack, "panic("); i >= 0 {
		stack = stack[i:]
	}
	if len(stack) > 1500 {
		stack = stack[:1500]
	}
	c.mu.Lock()
	defer c.mu.Unlock()
	if len(c.panics) < 4 {
		c.panics = append(c.panics, c35Panic{Where: where, Value: fmt.Sprint(v), Stack: stack})
	}
}

func (c *c35Ctl) takePanics() []c35Panic {
	c.mu.Lock()
	defer c.mu.Unlock()
	p := c.panics
	c.panics = nil
	return p
}

func (c *c35Ctl) begin(script []string, blockPos map[ids.ID]int, sibling map[ids.ID][]byte, holders map[ids.ID][]int, limit int) {
	c.mu.Lock()
	defer c.mu.Unlock()
	c.script, c.pos, c.n, c.events = script, 0, 0, nil
	c.blockPos, c.sibling = blockPos, sibling
	c.valid = map[ids.ID]int{}
	c.refetch = 0
	c.limit, c.holders = limit, holders
	c.reqs = map[ids.ID]int{}
	c.asked = map[ids.ID]map[int]int{}
	c.holderAsked = map[ids.ID]int{}
}

type c35Handler struct {
	ctl   *c35Ctl
	peer  int
	inner p2p.Handler
}

func (h *c35Handler) AppGossip(ctx context.Context, nodeID ids.NodeID, b []byte) {
	h.inner.AppGossip(ctx, nodeID, b)
}

func c35Resp(chunkBytes []byte) []byte {
	b, _ := proto.Marshal(&pb.GetChunkResponse{Chunk: chunkBytes})
	return b
}

func (h *c35Handler) AppRequest(ctx context.Context, nodeID ids.NodeID, deadline time.Time, req []byte) ([]byte, *common.AppError) {
	c := h.ctl
	var id ids.ID
	known := false
	r := pb.GetChunkRequest{}
	if err := proto.Unmarshal(req, &r); err == nil {
		if x, err := ids.ToID(r.ChunkId); err == nil {
			id = x
			_, known = c.expected[id]
		}
	}
	c.mu.Lock()
	if c.parked {
		c.mu.Unlock()
		<-c.never
		return nil, common.ErrTimeout
	}
	c.n++
	n := c.n
	c.reqs[id]++
	if c.asked[id] == nil {
		c.asked[id] = map[int]int{}
	}
	c.asked[id][h.peer]++
	for _, hp := range c.holders[id] {
		if hp == h.peer {
			c.holderAsked[id]++
		}
	}
	// c.limit requests for this chunk were answered and the Accept asks again
	// (or it asked c35HardCap times in total): no progress in logical steps.
	if c.reqs[id] > c.limit || n > c35HardCap {
		c.stuckOn = id
		c.parked = true
		select {
		case c.stuck <- struct{}{}:
		default:
		}
		c.mu.Unlock()
		<-c.never // park this request for ever; the driver abandons the Accept
		return nil, common.ErrTimeout
	}
	action := "ok"
	if c.pos < len(c.script) {
		action = c.script[c.pos]
		c.pos++
	}
	if !known {
		action = "ok"
	}
	if action == "wrong:sibling" && c.sibling[id] == nil {
		action = "wrong:other"
	}
	if c.valid[id] > 0 {
		c.refetch++
	}
	pos := "?"
	if p, ok := c.blockPos[id]; ok {
		pos = fmt.Sprint(p)
	}
	ev := c35Event{N: n, Peer: h.peer, Chunk: pos, Action: action}
	right := c.expected[id]
	sib := c.sibling[id]
	c.mu.Unlock()

	var resp []byte
	var appErr *common.AppError
	switch action {
	case "apperr":
		appErr = &common.AppError{Code: 77, Message: "scripted failure"}
	case "unavail":
		appErr = ErrChunkNotAvailable
	case "garbage":
		resp = []byte{0xff, 0xff, 0xff, 0x07, 0x01}
	case "empty":
		resp = c35Resp(nil)
	case "truncated":
		resp = c35Resp(right[:len(right)/2])
	case "badsig":
		b := append([]byte(nil), right...)
		b[len(b)-1] ^= 0x01
		resp = c35Resp(b)
	case "tampered":
		b := append([]byte(nil), right...)
		b[len(b)/3] ^= 0x40 // inside the unsigned part: the producer's signature no longer matches
		resp = c35Resp(b)
	case "wrong:other":
		resp = c35Resp(c.other)
	case "wrong:sibling":
		resp = c35Resp(sib)
	default:
		resp, appErr = h.inner.AppRequest(ctx, nodeID, deadline, req)
	}
	c.mu.Lock()
	switch {
	case action != "ok":
		c.faults[action]++
		ev.Result = "fault"
	case appErr != nil:
		c.unavail++
		ev.Result = "honest peer: " + appErr.Message
	default:
		got := pb.GetChunkResponse{}
		if err := proto.Unmarshal(resp, &got); err == nil && known && string(got.Chunk) == string(right) {
			c.valid[id]++
			ev.Result = "valid chunk served"
		} else {
			ev.Result = "honest peer served unexpected bytes"
		}
	}
	c.events = append(c.events, ev)
	c.mu.Unlock()
	return resp, appErr
}

// ---- running one case ----

type c35Fail struct {
	Key    string
	Detail string
	W      any
}

type c35Stats struct {
	accepts, allLocal, withFetch, fetched, requests, valid, unavail, refetch int
	soleFirst, soleMiddle, soleLast, soleFetched, maxReqsPerChunk            int
	neverAskedSuppressed, deliveryPanics                                     int
	// producer budgets (cases with a small per-producer limit of pending chunk bytes)
	limitAccepts, fillChunks, fillBytes                                       int
	fetchFull, fetchNear, fetchOverByOne, fetchFits, fetchOver, fetchUnder    int
	accBudgetHit, accFull, accNear, accOtherOnly, accBoth, accSecondFetchOver int
	faults                                                                    map[string]int
	shapes                                                                    []string
	inconclusive                                                              string
}

var c35NeverAskedWitnesses atomic.Int32

func runC35(t *testing.T, c c35Case) (st c35Stats, fails []c35Fail) {
	st.faults = map[string]int{}
	ctx := context.Background()
	net, err := c35Net(c.K)
	if err != nil {
		st.inconclusive = "net: " + err.Error()
		return
	}
	ctl := &c35Ctl{
		expected: map[ids.ID][]byte{},
		faults:   map[string]int{},
		stuck:    make(chan struct{}, 1),
		never:    make(chan struct{}),
	}
	var deliveryErr atomic.Value
	caseRules := testRuleFactory
	if c.Limit > 0 {
		caseRules = ruleFactory{rules: rules{
			validityWindow:         int64(testingDefaultValidityWindowDuration),
			maxProducerChunkWeight: c.Limit,
		}}
	}
	nodes, err := vfNewNodes(t, net, vfNodeOpts{
		rules: caseRules,
		wrapGetChunk: func(_, peer int, h p2p.Handler) p2p.Handler {
			return &c35Handler{ctl: ctl, peer: peer, inner: h}
		},
		// the response callback of Accept runs on a message delivery goroutine:
		// a panic there must become a verdict, not the end of the monitor process
		getChunkGuard: &vfClientGuard{
			onPanic: ctl.notePanic,
			onError: func(where string, err error) { deliveryErr.Store(where + ": " + err.Error()) },
		},
	})
	if err != nil {
		st.inconclusive = "nodes: " + err.Error()
		return
	}
	other, err := c35GetItem(net, c.K, 0, 99)
	if err != nil {
		st.inconclusive = "chunk: " + err.Error()
		return
	}
	ctl.other = other.chunk.bytes
	ctl.expected[other.chunk.id] = other.chunk.bytes
	defer func() {
		ctl.mu.Lock()
		for k, v := range ctl.faults {
			st.faults[k] += v
		}
		st.unavail += ctl.unavail
		ctl.mu.Unlock()
		// a panic recovered after the Accept that caused it had returned
		if ps := ctl.takePanics(); len(ps) > 0 {
			st.deliveryPanics += len(ps)
			fails = append(fails, c35Fail{"C35/panic-while-fetching-chunk", fmt.Sprintf("panic on a message delivery goroutine (%s): %s", ps[0].Where, ps[0].Value), map[string]any{"case": c, "panics": ps}})
		}
		if v := deliveryErr.Load(); v != nil && st.inconclusive == "" && len(fails) == 0 {
			st.inconclusive = "harness: message delivery failed: " + v.(string)
		}
	}()

	// pending chunks that use up producer budgets: every one is handed to the
	// node through the chunk signature request path (verify, rate limit, store),
	// i.e. the node attested it and it is never accepted during the case
	for _, f := range c.Fills {
		if f.Node < 0 || f.Node >= len(nodes) || f.Producer < 0 || f.Producer >= c.K {
			st.inconclusive = "harness: fill out of range"
			return
		}
		sigVerifier := ChunkSignatureRequestVerifier[dsmrtest.Tx]{verifier: nodes[f.Node].st.verifier, storage: nodes[f.Node].st}
		for j, ntx := range f.Txs {
			it, err := c35GetFiller(net, c.K, f.Producer, j, ntx)
			if err != nil {
				st.inconclusive = "chunk: " + err.Error()
				return
			}
			if appErr := sigVerifier.Verify(ctx, nil, it.chunk.bytes); appErr != nil {
				st.inconclusive = fmt.Sprintf("harness: node %d refused to attest pending chunk %d (%d bytes) of producer %d within the limit %d: %v", f.Node, j, len(it.chunk.bytes), f.Producer, c.Limit, appErr)
				return
			}
			st.fillChunks++
			st.fillBytes += len(it.chunk.bytes)
		}
	}

	parent := Block{}
	for bi, b := range c.Blocks {
		items := make([]*c35Item, len(b.Chunks))
		certs := make([]*ChunkCertificate, len(b.Chunks))
		blockPos := map[ids.ID]int{}
		sibling := map[ids.ID][]byte{}
		for ci, ch := range b.Chunks {
			it, err := c35GetItem(net, c.K, ch.Producer, bi*8+ci)
			if err != nil {
				st.inconclusive = "chunk: " + err.Error()
				return
			}
			items[ci], certs[ci] = it, it.cert
			blockPos[it.chunk.id] = ci
			ctl.mu.Lock()
			ctl.expected[it.chunk.id] = it.chunk.bytes
			ctl.mu.Unlock()
			for _, h := range ch.Holders {
				if err := nodes[h].st.AddLocalChunkWithCert(it.chunk, it.cert); err != nil {
					st.inconclusive = "add chunk: " + err.Error()
					return
				}
			}
		}
		if len(items) > 1 {
			for ci, it := range items {
				sibling[it.chunk.id] = items[(ci+1)%len(items)].chunk.bytes
			}
		}
		blk, err := vfMakeBlock(parent, int64(bi+1), certs)
		if err != nil {
			st.inconclusive = "block: " + err.Error()
			return
		}
		for _, ni := range b.Order {
			node := nodes[ni]
			if err := node.Verify(ctx, node.LastAccepted, blk); err != nil {
				st.inconclusive = fmt.Sprintf("block %d does not verify on node %d: %v", bi, ni, err)
				return
			}
			local := make([]bool, len(items))
			nRemote := 0
			holdersOf := map[ids.ID][]int{}
			var pat strings.Builder
			for ci, it := range items {
				_, err := node.st.GetChunkBytes(it.chunk.Expiry, it.chunk.id)
				local[ci] = err == nil
				if local[ci] {
					pat.WriteByte('L')
				} else {
					nRemote++
					var hs []int
					for oj, on := range nodes {
						if oj == ni {
							continue
						}
						if _, err := on.st.GetChunkBytes(it.chunk.Expiry, it.chunk.id); err == nil {
							hs = append(hs, oj)
						}
					}
					holders := len(hs)
					if holders == 0 {
						st.inconclusive = fmt.Sprintf("harness: chunk %d of block %d is held by no node", ci, bi)
						return
					}
					holdersOf[it.chunk.id] = hs
					fmt.Fprintf(&pat, "R%d", holders)
					if holders == 1 {
						// position of the only holder in the canonical validator order (the order Accept draws from)
						switch net.pos[hs[0]] {
						case 0:
							st.soleFirst++
							pat.WriteByte('f')
						case c.K - 1:
							st.soleLast++
							pat.WriteByte('l')
						default:
							st.soleMiddle++
							pat.WriteByte('m')
						}
					}
				}
			}
			// producer budgets of the acceptor right before the Accept (classification
			// of the case for the counters and the distinctness key only, no verdict)
			budget := ""
			var bHit, bFull, bNear, bOther, bSecond bool
			if c.Limit > 0 && nRemote > 0 {
				pend := map[ids.NodeID]uint64{}
				node.st.lock.RLock()
				for p, v := range node.st.pendingChunksSizes {
					pend[p] = v
				}
				node.st.lock.RUnlock()
				fetchedOf := map[ids.NodeID]int{}
				var minFetched uint64
				var tags strings.Builder
				for ci, it := range items {
					if local[ci] {
						continue
					}
					p, sz := it.chunk.Producer, uint64(len(it.chunk.bytes))
					if minFetched == 0 || sz < minFetched {
						minFetched = sz
					}
					have := pend[p] // what the producer has pending when this chunk arrives (earlier fetched chunks included)
					switch {
					case have > c.Limit:
						st.fetchOver++
						tags.WriteByte('O')
						bHit = true
					case have == c.Limit:
						st.fetchFull++
						tags.WriteByte('F')
						bHit, bFull = true, true
					case have+sz > c.Limit:
						st.fetchNear++
						bHit, bNear = true, true
						if have+sz == c.Limit+1 {
							st.fetchOverByOne++
							tags.WriteByte('1')
						} else {
							tags.WriteByte('N')
						}
					case have+sz == c.Limit:
						st.fetchFits++
						tags.WriteByte('E')
					default:
						st.fetchUnder++
						tags.WriteByte('u')
					}
					if have+sz > c.Limit && fetchedOf[p] > 0 {
						bSecond = true
					}
					fetchedOf[p]++
					pend[p] = have + sz
				}
				for p, v := range pend {
					if fetchedOf[p] == 0 && v <= c.Limit && v+minFetched > c.Limit {
						bOther = true // a producer none of whose chunks is fetched has no room for a chunk of that size
					}
				}
				budget = tags.String()
				if bOther {
					budget += "+q"
				}
			}
			budgetNote := ""
			if budget != "" {
				budgetNote = fmt.Sprintf(" (per-producer limit of pending chunk bytes %d, budget class per fetched chunk %s)", c.Limit, budget)
			}
			script := []string(nil)
			if ni < len(b.Scripts) {
				script = b.Scripts[ni]
			}
			limit := c35AskBound(c.K) + len(script)
			ctl.begin(script, blockPos, sibling, holdersOf, limit)
			var eb ExecutedBlock[dsmrtest.Tx]
			var accErr error
			var panicked any
			done := kit.Go(func() {
				defer func() { panicked = recover() }()
				eb, accErr = node.Accept(ctx, blk)
			})
			st.accepts++
			wit := func() map[string]any {
				ctl.mu.Lock()
				defer ctl.mu.Unlock()
				ev := append([]c35Event(nil), ctl.events...)
				if len(ev) > 40 {
					ev = ev[len(ev)-40:]
				}
				w := map[string]any{"case": c, "block": bi, "node": ni, "chunks_local_or_remote": pat.String(), "script": script, "last_requests": ev, "canonical_position_of_node": net.pos}
				if budget != "" {
					w["producer_budget_per_fetched_chunk"] = budget + " (per fetched chunk in certificate order: F = its producer's pending bytes on the acceptor equal the limit, N/1 = the chunk exceeds the limit (1: by one byte), E = fits exactly, u = fits, O = already above; +q = another producer has no room either)"
				}
				return w
			}
			select {
			case <-done:
			case <-ctl.stuck:
				ctl.mu.Lock()
				id := ctl.stuckOn
				v := ctl.valid[id]
				reqs, total := ctl.reqs[id], ctl.n
				holderAsked := ctl.holderAsked[id]
				hs := ctl.holders[id]
				askedPerPeer := map[string]int{}
				for p, k := range ctl.asked[id] {
					askedPerPeer[fmt.Sprintf("node %d (canonical position %d)", p, net.pos[p])] = k
				}
				cpos, known := blockPos[id]
				ctl.mu.Unlock()
				st.requests += total
				switch {
				case v > 0:
					fails = append(fails, c35Fail{"C35/accept-never-completes-after-valid-chunk", fmt.Sprintf("block %d node %d (%s): Accept issued more than %d GetChunk requests for one chunk (%d in total) although a valid copy of the requested chunk was served %d times%s", bi, ni, pat.String(), reqs-1, total, v, budgetNote), wit()})
				case known && len(hs) > 0 && holderAsked == 0:
					// reqs-1 requests for this chunk were answered, none went to a validator that holds it
					hpos := make([]int, len(hs))
					for i, h := range hs {
						hpos[i] = net.pos[h]
					}
					sort.Ints(hpos)
					if c35NeverAskedWitnesses.Add(1) > c35MaxWitnesses {
						st.neverAskedSuppressed++
						return
					}
					w := wit()
					w["chunk"] = cpos
					w["holders"] = hs
					w["holders_canonical_positions"] = hpos
					w["requests_for_chunk_per_peer"] = askedPerPeer
					fails = append(fails, c35Fail{"C35/holder-never-asked", fmt.Sprintf("block %d node %d (%s): Accept sent %d GetChunk requests for chunk %d and never asked the only validator(s) holding it (node(s) %v, canonical position(s) %v of %d validators); with uniformly random targets this has probability < %.0e, so acceptance does not succeed although a peer would serve a valid chunk", bi, ni, pat.String(), reqs-1, cpos, hs, hpos, c.K, c35MissProbBound), w})
				default:
					st.inconclusive = fmt.Sprintf("block %d node %d: %d requests for one chunk (%d in total) without any valid serve although a holder was asked %d times (harness)", bi, ni, reqs-1, total, holderAsked)
				}
				return
			}
			ctl.mu.Lock()
			served := 0
			for _, v := range ctl.valid {
				served += v
			}
			wrongServed := 0
			for _, e := range ctl.events {
				if strings.HasPrefix(e.Action, "wrong:") {
					wrongServed++
				}
			}
			reqs, refetch := ctl.n, ctl.refetch
			for _, k := range ctl.reqs {
				if k > st.maxReqsPerChunk {
					st.maxReqsPerChunk = k
				}
			}
			ctl.mu.Unlock()
			st.requests += reqs
			st.valid += served
			st.refetch += refetch
			if nRemote == 0 {
				st.allLocal++
			} else {
				st.withFetch++
				st.fetched += nRemote
				shape := fmt.Sprintf("k%d b%d %s %v", c.K, bi, pat.String(), script)
				if budget != "" {
					shape += " L:" + budget
					st.limitAccepts++
					if bHit {
						st.accBudgetHit++
					}
					if bFull {
						st.accFull++
					}
					if bNear {
						st.accNear++
					}
					if bOther && !bHit {
						st.accOtherOnly++
					}
					if bOther && bHit {
						st.accBoth++
					}
					if bSecond {
						st.accSecondFetchOver++
					}
				}
				st.shapes = append(st.shapes, shape)
			}
			where := fmt.Sprintf("block %d node %d chunks %s script %v", bi, ni, pat.String(), script)
			if panicked != nil {
				fails = append(fails, c35Fail{"C35/accept-panics", fmt.Sprintf("%s: Accept panicked: %v", where, panicked), wit()})
				return
			}
			if ps := ctl.takePanics(); len(ps) > 0 {
				st.deliveryPanics += len(ps)
				w := wit()
				w["panics"] = ps
				fails = append(fails, c35Fail{"C35/panic-while-fetching-chunk", fmt.Sprintf("%s: panic on a message delivery goroutine (%s) while Accept fetched a chunk: %s", where, ps[0].Where, ps[0].Value), w})
				// go on: what Accept returned is judged as well
			}
			if accErr != nil {
				switch {
				case nRemote == 0:
					fails = append(fails, c35Fail{"C35/accept-fails-with-local-chunks", fmt.Sprintf("%s: %v", where, accErr), wit()})
				case served > 0:
					fails = append(fails, c35Fail{"C35/accept-fails-after-valid-chunk-fetched", fmt.Sprintf("%s: peers served %d valid chunk(s) for the %d missing one(s) but Accept returned: %v", where, served, nRemote, accErr), wit()})
				case wrongServed > 0:
					fails = append(fails, c35Fail{"C35/accept-fails-after-wrong-chunk", fmt.Sprintf("%s: a peer answered with a different (valid) chunk, Accept stopped asking and returned: %v", where, accErr), wit()})
				default:
					fails = append(fails, c35Fail{"C35/accept-gives-up-before-valid-chunk", fmt.Sprintf("%s: Accept returned %v after %d valid serves for %d missing chunks", where, accErr, served, nRemote), wit()})
				}
				return
			}
			// executed chunks = the certificates' chunks, in order, no extras
			bad := ""
			if len(eb.Chunks) != len(items) {
				bad = fmt.Sprintf("%d executed chunks for %d certificates", len(eb.Chunks), len(items))
			}
			for ci := 0; bad == "" && ci < len(items); ci++ {
				got := eb.Chunks[ci]
				if got.id != items[ci].chunk.id || string(got.bytes) != string(items[ci].chunk.bytes) {
					at := -1
					for cj := range items {
						if got.id == items[cj].chunk.id {
							at = cj
						}
					}
					switch {
					case at >= 0:
						bad = fmt.Sprintf("position %d holds the chunk of certificate %d", ci, at)
					case got.id == other.chunk.id:
						bad = fmt.Sprintf("position %d holds a chunk that no certificate references (the one a peer sent instead)", ci)
					default:
						bad = fmt.Sprintf("position %d holds chunk %s, certificate references %s", ci, got.id, items[ci].chunk.id)
					}
				}
			}
			if bad != "" {
				key := "C35/executed-chunks-mismatch"
				if wrongServed > 0 {
					key = "C35/wrong-chunk-from-peer-executed"
				}
				fails = append(fails, c35Fail{key, fmt.Sprintf("%s: %s", where, bad), wit()})
				return
			}
			if refetch > 0 {
				fails = append(fails, c35Fail{"C35/refetch-after-valid-chunk-served", fmt.Sprintf("%s: %d GetChunk requests for a chunk of which a valid copy had already been served", where, refetch), wit()})
				return
			}
			if len(fails) > 0 {
				return
			}
		}
		parent = blk
	}
	return
}

// ---- generator ----

func c35Gen(rng *rand.Rand) c35Case {
	c := c35Case{K: 2 + rng.IntN(4)}
	if rng.IntN(3) == 0 {
		c.K = 2 + rng.IntN(2)
	}
	nb := 1 + rng.IntN(3)
	for bi := 0; bi < nb; bi++ {
		b := c35Block{}
		nc := 1 + rng.IntN(4)
		for ci := 0; ci < nc; ci++ {
			ch := c35Chunk{Producer: rng.IntN(c.K)}
			nh := 1
			switch rng.IntN(6) {
			case 0:
				nh = c.K
			case 1, 2:
				nh = 1 + rng.IntN(c.K)
			}
			perm := rng.Perm(c.K)
			if nh == 1 {
				// the only holder is often the canonically last / first validator
				// (Accept draws its request target from the canonical order)
				want := -1
				switch rng.IntN(6) {
				case 0, 1:
					want = c.K - 1
				case 2:
					want = 0
				}
				if net, err := c35Net(c.K); err == nil && want >= 0 {
					for i, p := range net.pos {
						if p == want {
							perm[0] = i
						}
					}
				}
			}
			ch.Holders = append(ch.Holders, perm[:nh]...)
			b.Chunks = append(b.Chunks, ch)
		}
		b.Order = rng.Perm(c.K)
		b.Scripts = make([][]string, c.K)
		for ni := 0; ni < c.K; ni++ {
			ln := 0
			switch rng.IntN(5) {
			case 0:
			case 1, 2:
				ln = 1 + rng.IntN(2)
			default:
				ln = 1 + rng.IntN(5)
			}
			for s := 0; s < ln; s++ {
				b.Scripts[ni] = append(b.Scripts[ni], c35Faults[rng.IntN(len(c35Faults))])
			}
		}
		c.Blocks = append(c.Blocks, b)
	}
	if rng.IntN(20) < 11 {
		c35GenBudget(rng, &c)
	}
	return c
}

var c35BudgetModes = []string{"full", "full", "full", "over-by-one", "over-by-one", "near", "near", "near", "fits", "fits", "room"}

// c35GenBudget gives the case a small per-producer limit of pending chunk bytes
// and lets nodes hold pending chunks that fill / nearly fill it: it picks one
// (block, acceptor, chunk the acceptor must fetch) target, a primary producer
// on that acceptor (the producer of the fetched chunk, or another one) whose
// pending chunks (fillers + the block's chunks it stores) amount to X bytes,
// and sets the limit to X (+ a mode dependent room measured in the size s of
// the chunk to fetch): full = X, over-by-one = X+s-1, near = X+1..X+s-1,
// fits = X+s, room = more. Further (node, producer) budgets are then filled
// greedily as close to the limit as the chunk sizes allow.
func c35GenBudget(rng *rand.Rand, c *c35Case) {
	net, err := c35Net(c.K)
	if err != nil {
		return
	}
	size := func(bi, ci int) uint64 {
		it, err := c35GetItem(net, c.K, c.Blocks[bi].Chunks[ci].Producer, bi*8+ci)
		if err != nil {
			return 0
		}
		return uint64(len(it.chunk.bytes))
	}
	holds := func(ch c35Chunk, n int) bool {
		for _, h := range ch.Holders {
			if h == n {
				return true
			}
		}
		return false
	}
	type target struct{ bi, n, ci int }
	var tgts []target
	var maxChunk uint64
	for bi, b := range c.Blocks {
		for ci, ch := range b.Chunks {
			if sz := size(bi, ci); sz > maxChunk {
				maxChunk = sz
			}
			for n := 0; n < c.K; n++ {
				if !holds(ch, n) {
					tgts = append(tgts, target{bi, n, ci})
				}
			}
		}
	}
	if len(tgts) == 0 || maxChunk == 0 {
		return
	}
	tg := tgts[rng.IntN(len(tgts))]
	s := size(tg.bi, tg.ci)
	fetchedProducer := c.Blocks[tg.bi].Chunks[tg.ci].Producer
	// bytes of the target block's chunks of producer p that node n stores when it accepts the block
	held := func(n, p int) uint64 {
		var sum uint64
		for ci, ch := range c.Blocks[tg.bi].Chunks {
			if ch.Producer == p && holds(ch, n) {
				sum += size(tg.bi, ci)
			}
		}
		return sum
	}
	fills := map[[2]int]*c35Fill{}
	var order [][2]int
	filled := func(n, p int) uint64 {
		f := fills[[2]int{n, p}]
		if f == nil {
			return 0
		}
		var sum uint64
		for j, ntx := range f.Txs {
			it, err := c35GetFiller(net, c.K, p, j, ntx)
			if err != nil {
				return 0
			}
			sum += uint64(len(it.chunk.bytes))
		}
		return sum
	}
	fillerSize := func(n, p, ntx int) uint64 {
		j := 0
		if f := fills[[2]int{n, p}]; f != nil {
			j = len(f.Txs)
		}
		it, err := c35GetFiller(net, c.K, p, j, ntx)
		if err != nil {
			return 0
		}
		return uint64(len(it.chunk.bytes))
	}
	add := func(n, p, ntx int) {
		k := [2]int{n, p}
		if fills[k] == nil {
			fills[k] = &c35Fill{Node: n, Producer: p}
			order = append(order, k)
		}
		fills[k].Txs = append(fills[k].Txs, ntx)
	}
	// greedy: pending chunks of producer p on node n up to the limit, as close as the sizes allow
	greedy := func(n, p int, limit uint64) {
		base := held(n, p)
		for tries := 0; tries < 8; tries++ {
			ntx := 1 + rng.IntN(6)
			if sz := fillerSize(n, p, ntx); sz > 0 && base+filled(n, p)+sz <= limit {
				add(n, p, ntx)
			}
		}
		for ntx := 6; ntx >= 1; ntx-- {
			if sz := fillerSize(n, p, ntx); sz > 0 && base+filled(n, p)+sz <= limit {
				add(n, p, ntx)
				break
			}
		}
	}

	which := []string{"fetched-producer", "fetched-producer", "both", "both", "other-producer"}[rng.IntN(5)]
	primary := fetchedProducer
	if which == "other-producer" {
		primary = (fetchedProducer + 1 + rng.IntN(c.K-1)) % c.K
	}
	for m := rng.IntN(4); m > 0; m-- {
		add(tg.n, primary, 1+rng.IntN(6))
	}
	// at least one pending chunk, and a limit under which every chunk of the case could have been attested
	for held(tg.n, primary)+filled(tg.n, primary) < maxChunk {
		add(tg.n, primary, 1+rng.IntN(6))
	}
	x := held(tg.n, primary) + filled(tg.n, primary)
	mode := c35BudgetModes[rng.IntN(len(c35BudgetModes))]
	switch mode {
	case "full":
		c.Limit = x
	case "over-by-one":
		c.Limit = x + s - 1
	case "near":
		c.Limit = x + 1 + uint64(rng.IntN(int(s)-1))
	case "fits":
		c.Limit = x + s
	default:
		c.Limit = x + s + 1 + uint64(rng.IntN(int(2*s)))
	}
	if which == "both" {
		greedy(tg.n, (fetchedProducer+1+rng.IntN(c.K-1))%c.K, c.Limit)
	}
	// budgets on other nodes (the peers that serve the chunk, later acceptors)
	for extra := rng.IntN(3); extra > 0; extra-- {
		n, p := rng.IntN(c.K), rng.IntN(c.K)
		if n == tg.n && (p == primary || fills[[2]int{n, p}] != nil) {
			continue
		}
		if fills[[2]int{n, p}] != nil {
			continue
		}
		greedy(n, p, c.Limit)
	}
	for _, k := range order {
		c.Fills = append(c.Fills, *fills[k])
	}
	c.Mode = fmt.Sprintf("%s %s: block %d node %d fetches chunk %d (%d bytes) of producer %d", which, mode, tg.bi, tg.n, tg.ci, s, fetchedProducer)
}

func TestC35(t *testing.T) {
	r := kit.Start(t, "C35", "fault_enumeration")
	r.Rule("cases = 2..5 real dsmr nodes (real ChunkStorage, ChunkVerifier, GetChunk handlers and p2p clients; deterministic validator keys), chains of 1..3 blocks of 1..4 certificates whose chunks are stored by a chosen subset of nodes; every node verifies and accepts every block in a random order, so that each chunk is local for some acceptors and must be fetched by others (from peers that hold it as pending or already accepted). Every GetChunk handler is wrapped: the next 0..5 responses during an Accept follow a script over {app error, not-available, garbage bytes, empty chunk, truncated chunk, corrupted signature, tampered body, another valid chunk, another chunk of the same block}, afterwards peers answer honestly (the request target is chosen at random by the code under test). Judged per Accept: it returns without error, ExecutedBlock.Chunks are byte-for-byte the certificates' chunks in certificate order with nothing extra, and no further request is sent for a chunk once a valid copy was served. Bounded progress in logical steps: the wrapped handlers count the requests per chunk and which validators were asked; when K(n)+len(script) requests for one chunk were answered (K(n) = smallest K with ((n-1)/n)^K < 1e-30, n = number of validators: 100/171/241/310 for 2/3/4/5, plus one) and none of them went to a validator holding the chunk, the Accept is reported as C35/holder-never-asked and abandoned (its next request is parked; at most 3 witnesses are reported). Chunks with a single holder are placed on the canonically last validator in 1/3 and on the first in 1/6 of the cases, else at random. Producer budgets: in 11/20 of the cases all nodes are configured with a small per-producer limit of pending chunk bytes (Rules.GetMaxAccumulatedProducerChunkWeight, a few chunk sizes instead of the 1 MiB test default) and, before the first block, chosen nodes attest PRNG-chosen pending chunks (1..6 transactions each, in no block, never accepted) of chosen producers through the chunk signature request path (ChunkSignatureRequestVerifier.Verify: verify, rate limit, store). One (block, acceptor, chunk the acceptor must fetch, size s) is the target; the pending bytes X of a primary producer on that acceptor (fillers + the block's chunks of that producer the acceptor stores) fix the limit: full = X, over-by-one = X+s-1, near = X+1..X+s-1, fits = X+s, room = more (weights 3/2/3/2/1); the primary producer is the producer of the fetched chunk (2/5), that producer plus another producer filled greedily up to the limit (2/5), or only another producer (1/5); 0..2 further (node, producer) budgets on any node (serving peers, later acceptors) are filled greedily up to the limit. Each Accept with a fetch under a small limit is classified from the acceptor's pending bytes per producer right before the Accept (per fetched chunk, earlier fetched chunks of the same producer included: budget full / chunk exceeds the nearly full budget / by one byte / fits exactly / has room / already above; another producer without room) - counters budget_*; the oracle is the same (the pending-chunk budget of a producer limits what a node attests, not what it accepts). One evaluation = one Accept; non-trivial = at least one chunk had to be fetched; distinct = (nodes, block index, local/remote pattern with holder counts and, for a single holder, its place f/m/l in the canonical validator order, fault script, budget class per fetched chunk).")
	r.Assume(
		"certificates are forged with all validator keys and chunks are placed with AddLocalChunkWithCert (the BuildChunk signature round would store the chunk on every signer); the Accept path under test is the same",
		"chunk expiries lie inside every node's validity window, so a valid chunk is admissible on every node",
		"the per-producer limit of pending chunk bytes is a limit on what a node attests (signature requests, BuildChunk); the statement makes acceptance depend only on a peer serving a valid chunk, so a full or exceeded budget of the chunk's producer on the acceptor must not prevent acceptance. Filler chunks respect the limit when they are attested; the block's own chunks are placed without the check (as before), so a producer can be above the limit before an Accept (counted separately)",
		"an Accept that keeps asking for a chunk beyond the per-chunk request bound although valid copies of it were served is reported as never completing (the handler parks; no wall-clock verdict)",
		"a request strategy that makes progress gives every validator a chance of at least 1/n per request (the code under test draws uniformly; round-robin or holder-aware strategies are asked sooner), so not asking the holder(s) in K(n) requests is not a chance event (< 1e-30 per Accept)",
		"the GetChunk clients are wired like avalanchego's p2ptest.NewClientWithPeers, except that the message delivery goroutines recover panics and hand them to the monitor",
	)
	total := c35Stats{faults: map[string]int{}}
	var mu sync.Mutex
	judge := func(c c35Case) {
		var st c35Stats
		var fails []c35Fail
		r.Guard("Accept", c, func() { st, fails = runC35(t, c) })
		r.EvalN(st.accepts)
		mu.Lock()
		total.accepts += st.accepts
		total.allLocal += st.allLocal
		total.withFetch += st.withFetch
		total.fetched += st.fetched
		total.requests += st.requests
		total.valid += st.valid
		total.unavail += st.unavail
		total.refetch += st.refetch
		total.soleFirst += st.soleFirst
		total.soleMiddle += st.soleMiddle
		total.soleLast += st.soleLast
		total.neverAskedSuppressed += st.neverAskedSuppressed
		total.deliveryPanics += st.deliveryPanics
		total.limitAccepts += st.limitAccepts
		total.fillChunks += st.fillChunks
		total.fillBytes += st.fillBytes
		total.fetchFull += st.fetchFull
		total.fetchNear += st.fetchNear
		total.fetchOverByOne += st.fetchOverByOne
		total.fetchFits += st.fetchFits
		total.fetchOver += st.fetchOver
		total.fetchUnder += st.fetchUnder
		total.accBudgetHit += st.accBudgetHit
		total.accFull += st.accFull
		total.accNear += st.accNear
		total.accOtherOnly += st.accOtherOnly
		total.accBoth += st.accBoth
		total.accSecondFetchOver += st.accSecondFetchOver
		if st.maxReqsPerChunk > total.maxReqsPerChunk {
			total.maxReqsPerChunk = st.maxReqsPerChunk
		}
		for k, v := range st.faults {
			total.faults[k] += v
		}
		mu.Unlock()
		for _, s := range st.shapes {
			r.Distinct(s)
		}
		if len(st.shapes) > 0 {
			r.Sample(c)
		}
		if st.inconclusive != "" {
			r.Inconclusive("%s", st.inconclusive)
		}
		for _, f := range fails {
			r.Violation(f.Key, f.W, "%s", f.Detail)
		}
	}
	finish := func(min int) {
		r.Count("accepts", total.accepts)
		r.Count("accepts_all_chunks_local", total.allLocal)
		r.Count("accepts_with_remote_fetch", total.withFetch)
		r.Count("chunks_fetched_remotely", total.fetched)
		r.Count("getchunk_requests", total.requests)
		r.Count("valid_chunks_served", total.valid)
		r.Count("honest_peer_without_chunk", total.unavail)
		r.Count("requests_after_valid_serve", total.refetch)
		r.Count("fetch_with_only_holder_canonically_first", total.soleFirst)
		r.Count("fetch_with_only_holder_canonically_middle", total.soleMiddle)
		r.Count("fetch_with_only_holder_canonically_last", total.soleLast)
		r.Count("max_requests_for_one_chunk", total.maxReqsPerChunk)
		r.Count("holder_never_asked_witnesses_suppressed", total.neverAskedSuppressed)
		r.Count("panics_recovered_on_delivery_goroutines", total.deliveryPanics)
		r.Count("budget_pending_filler_chunks_attested", total.fillChunks)
		r.Count("budget_pending_filler_bytes", total.fillBytes)
		r.Count("budget_accepts_with_fetch_under_small_producer_limit", total.limitAccepts)
		r.Count("budget_accepts_fetching_chunk_whose_producer_has_no_room", total.accBudgetHit)
		r.Count("budget_accepts_fetching_chunk_of_producer_with_full_budget", total.accFull)
		r.Count("budget_accepts_fetching_chunk_of_producer_with_nearly_full_budget", total.accNear)
		r.Count("budget_accepts_second_fetched_chunk_of_producer_exceeds", total.accSecondFetchOver)
		r.Count("budget_accepts_only_another_producer_without_room", total.accOtherOnly)
		r.Count("budget_accepts_fetched_and_another_producer_without_room", total.accBoth)
		r.Count("budget_fetched_chunks_producer_budget_full", total.fetchFull)
		r.Count("budget_fetched_chunks_exceeding_nearly_full_budget", total.fetchNear)
		r.Count("budget_fetched_chunks_exceeding_budget_by_one_byte", total.fetchOverByOne)
		r.Count("budget_fetched_chunks_fitting_budget_exactly", total.fetchFits)
		r.Count("budget_fetched_chunks_with_room", total.fetchUnder)
		r.Count("budget_fetched_chunks_producer_already_above_limit", total.fetchOver)
		r.Extra("requests_per_chunk_bound_by_validators", map[string]int{"2": c35AskBound(2), "3": c35AskBound(3), "4": c35AskBound(4), "5": c35AskBound(5)})
		for k, v := range total.faults {
			r.Count("fault_"+k, v)
		}
		r.Finish(min)
	}
	if rf := r.Replay(); rf != nil && len(rf.Witness) > 0 {
		var w struct {
			Case c35Case `json:"case"`
		}
		if err := json.Unmarshal(rf.Witness, &w); err == nil && w.Case.K > 0 {
			judge(w.Case)
			finish(0)
			return
		}
	}
	rng := r.Rand("cases")
	n := r.N(1200, 12000)
	cases := make([]c35Case, n)
	for i := range cases {
		cases[i] = c35Gen(rng)
	}
	vfParallel(n, 4, func(i int) {
		judge(cases[i])
	})
	finish(300)
}
