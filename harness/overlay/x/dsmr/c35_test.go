package dsmr

// C35: accepting a DSMR block yields exactly the chunks its certificates
// reference, in certificate order, whether local or fetched from a peer, and
// acceptance succeeds once a peer serves a valid chunk.

import (
	"context"
	"encoding/json"
	"fmt"
	"math/rand/v2"
	"strings"
	"sync"
	"testing"
	"time"

	"github.com/ava-labs/avalanchego/ids"
	"github.com/ava-labs/avalanchego/network/p2p"
	"github.com/ava-labs/avalanchego/snow/engine/common"
	"google.golang.org/protobuf/proto"

	kit "github.com/ava-labs/hypersdk/internal/verifkit"
	pb "github.com/ava-labs/hypersdk/proto/pb/dsmr"
	"github.com/ava-labs/hypersdk/x/dsmr/dsmrtest"
)

const c35HardCap = 400 // GetChunk requests per Accept after which the monitor gives up on it

// ---- case description (JSON witness) ----

type c35Chunk struct {
	Producer int   `json:"producer"`
	Holders  []int `json:"holders"` // nodes that store the chunk before the block is proposed
}

type c35Block struct {
	Chunks  []c35Chunk `json:"chunks"`  // certificate order
	Order   []int      `json:"order"`   // order in which the nodes accept the block
	Scripts [][]string `json:"scripts"` // per node: behaviour of the next GetChunk responses during its Accept (then honest)
}

type c35Case struct {
	K      int        `json:"k"`
	Blocks []c35Block `json:"blocks"`
}

var c35Faults = []string{"apperr", "unavail", "garbage", "empty", "truncated", "badsig", "tampered", "wrong:other", "wrong:sibling"}

// ---- deterministic chunk universe, cached across cases ----

type c35Item struct {
	chunk Chunk[dsmrtest.Tx]
	cert  *ChunkCertificate
}

var (
	c35Nets  sync.Map // k -> *vfNet
	c35Items sync.Map // "k/producer/tag" -> *c35Item
)

func c35Net(k int) (*vfNet, error) {
	if v, ok := c35Nets.Load(k); ok {
		return v.(*vfNet), nil
	}
	n, err := vfNewNet(k)
	if err != nil {
		return nil, err
	}
	v, _ := c35Nets.LoadOrStore(k, n)
	return v.(*vfNet), nil
}

func c35GetItem(net *vfNet, k, producer, tag int) (*c35Item, error) {
	key := fmt.Sprintf("%d/%d/%d", k, producer, tag)
	if v, ok := c35Items.Load(key); ok {
		return v.(*c35Item), nil
	}
	expiry := int64(1000 + tag)
	txs := make([]dsmrtest.Tx, 1+tag%3)
	for i := range txs {
		txs[i] = vfTx(uint64(tag*8+i), expiry)
	}
	c, err := net.signChunk(producer, expiry, txs)
	if err != nil {
		return nil, err
	}
	cert, err := net.certFor(c)
	if err != nil {
		return nil, err
	}
	v, _ := c35Items.LoadOrStore(key, &c35Item{chunk: c, cert: cert})
	return v.(*c35Item), nil
}

// ---- fault-injecting GetChunk handlers ----

type c35Event struct {
	N      int    `json:"n"`
	Peer   int    `json:"peer"`
	Chunk  string `json:"chunk"` // position in the block or "?"
	Action string `json:"action"`
	Result string `json:"result"`
}

type c35Ctl struct {
	mu       sync.Mutex
	script   []string
	pos      int
	n        int
	events   []c35Event
	expected map[ids.ID][]byte // chunk id -> canonical bytes (every chunk of the case)
	blockPos map[ids.ID]int    // chunk id -> position in the current block
	sibling  map[ids.ID][]byte // chunk id -> bytes of another chunk of the same block
	other    []byte            // a valid chunk that is in no block
	valid    map[ids.ID]int    // valid serves of the requested chunk during this Accept
	refetch  int               // requests for a chunk after a valid copy of it was served
	faults   map[string]int
	unavail  int
	stuck    chan struct{}
	stuckOn  ids.ID
	never    chan struct{}
}

func (c *c35Ctl) begin(script []string, blockPos map[ids.ID]int, sibling map[ids.ID][]byte) {
	c.mu.Lock()
	defer c.mu.Unlock()
	c.script, c.pos, c.n, c.events = script, 0, 0, nil
	c.blockPos, c.sibling = blockPos, sibling
	c.valid = map[ids.ID]int{}
	c.refetch = 0
}

type c35Handler struct {
	ctl   *c35Ctl
	peer  int
	inner p2p.Handler
}

func (h *c35Handler) AppGossip(ctx context.Context, nodeID ids.NodeID, b []byte) {
	h.inner.AppGossip(ctx, nodeID, b)
}

func c35Resp(chunkBytes []byte) []byte {
	b, _ := proto.Marshal(&pb.GetChunkResponse{Chunk: chunkBytes})
	return b
}

func (h *c35Handler) AppRequest(ctx context.Context, nodeID ids.NodeID, deadline time.Time, req []byte) ([]byte, *common.AppError) {
	c := h.ctl
	var id ids.ID
	known := false
	r := pb.GetChunkRequest{}
	if err := proto.Unmarshal(req, &r); err == nil {
		if x, err := ids.ToID(r.ChunkId); err == nil {
			id = x
			_, known = c.expected[id]
		}
	}
	c.mu.Lock()
	c.n++
	n := c.n
	if n > c35HardCap {
		c.stuckOn = id
		select {
		case c.stuck <- struct{}{}:
		default:
		}
		c.mu.Unlock()
		<-c.never // park this request for ever; the driver abandons the Accept
		return nil, common.ErrTimeout
	}
	action := "ok"
	if c.pos < len(c.script) {
		action = c.script[c.pos]
		c.pos++
	}
	if !known {
		action = "ok"
	}
	if action == "wrong:sibling" && c.sibling[id] == nil {
		action = "wrong:other"
	}
	if c.valid[id] > 0 {
		c.refetch++
	}
	pos := "?"
	if p, ok := c.blockPos[id]; ok {
		pos = fmt.Sprint(p)
	}
	ev := c35Event{N: n, Peer: h.peer, Chunk: pos, Action: action}
	right := c.expected[id]
	sib := c.sibling[id]
	c.mu.Unlock()

	var resp []byte
	var appErr *common.AppError
	switch action {
	case "apperr":
		appErr = &common.AppError{Code: 77, Message: "scripted failure"}
	case "unavail":
		appErr = ErrChunkNotAvailable
	case "garbage":
		resp = []byte{0xff, 0xff, 0xff, 0x07, 0x01}
	case "empty":
		resp = c35Resp(nil)
	case "truncated":
		resp = c35Resp(right[:len(right)/2])
	case "badsig":
		b := append([]byte(nil), right...)
		b[len(b)-1] ^= 0x01
		resp = c35Resp(b)
	case "tampered":
		b := append([]byte(nil), right...)
		b[len(b)/3] ^= 0x40 // inside the unsigned part: the producer's signature no longer matches
		resp = c35Resp(b)
	case "wrong:other":
		resp = c35Resp(c.other)
	case "wrong:sibling":
		resp = c35Resp(sib)
	default:
		resp, appErr = h.inner.AppRequest(ctx, nodeID, deadline, req)
	}
	c.mu.Lock()
	switch {
	case action != "ok":
		c.faults[action]++
		ev.Result = "fault"
	case appErr != nil:
		c.unavail++
		ev.Result = "honest peer: " + appErr.Message
	default:
		got := pb.GetChunkResponse{}
		if err := proto.Unmarshal(resp, &got); err == nil && known && string(got.Chunk) == string(right) {
			c.valid[id]++
			ev.Result = "valid chunk served"
		} else {
			ev.Result = "honest peer served unexpected bytes"
		}
	}
	c.events = append(c.events, ev)
	c.mu.Unlock()
	return resp, appErr
}

// ---- running one case ----

type c35Fail struct {
	Key    string
	Detail string
	W      any
}

type c35Stats struct {
	accepts, allLocal, withFetch, fetched, requests, valid, unavail, refetch int
	faults                                                                   map[string]int
	shapes                                                                   []string
	inconclusive                                                             string
}

func runC35(t *testing.T, c c35Case) (st c35Stats, fails []c35Fail) {
	st.faults = map[string]int{}
	ctx := context.Background()
	net, err := c35Net(c.K)
	if err != nil {
		st.inconclusive = "net: " + err.Error()
		return
	}
	ctl := &c35Ctl{
		expected: map[ids.ID][]byte{},
		faults:   map[string]int{},
		stuck:    make(chan struct{}, 1),
		never:    make(chan struct{}),
	}
	nodes, err := vfNewNodes(t, net, vfNodeOpts{
		rules: testRuleFactory,
		wrapGetChunk: func(_, peer int, h p2p.Handler) p2p.Handler {
			return &c35Handler{ctl: ctl, peer: peer, inner: h}
		},
	})
	if err != nil {
		st.inconclusive = "nodes: " + err.Error()
		return
	}
	other, err := c35GetItem(net, c.K, 0, 99)
	if err != nil {
		st.inconclusive = "chunk: " + err.Error()
		return
	}
	ctl.other = other.chunk.bytes
	ctl.expected[other.chunk.id] = other.chunk.bytes
	defer func() {
		ctl.mu.Lock()
		for k, v := range ctl.faults {
			st.faults[k] += v
		}
		st.unavail += ctl.unavail
		ctl.mu.Unlock()
	}()

	parent := Block{}
	for bi, b := range c.Blocks {
		items := make([]*c35Item, len(b.Chunks))
		certs := make([]*ChunkCertificate, len(b.Chunks))
		blockPos := map[ids.ID]int{}
		sibling := map[ids.ID][]byte{}
		for ci, ch := range b.Chunks {
			it, err := c35GetItem(net, c.K, ch.Producer, bi*8+ci)
			if err != nil {
				st.inconclusive = "chunk: " + err.Error()
				return
			}
			items[ci], certs[ci] = it, it.cert
			blockPos[it.chunk.id] = ci
			ctl.mu.Lock()
			ctl.expected[it.chunk.id] = it.chunk.bytes
			ctl.mu.Unlock()
			for _, h := range ch.Holders {
				if err := nodes[h].st.AddLocalChunkWithCert(it.chunk, it.cert); err != nil {
					st.inconclusive = "add chunk: " + err.Error()
					return
				}
			}
		}
		if len(items) > 1 {
			for ci, it := range items {
				sibling[it.chunk.id] = items[(ci+1)%len(items)].chunk.bytes
			}
		}
		blk, err := vfMakeBlock(parent, int64(bi+1), certs)
		if err != nil {
			st.inconclusive = "block: " + err.Error()
			return
		}
		for _, ni := range b.Order {
			node := nodes[ni]
			if err := node.Verify(ctx, node.LastAccepted, blk); err != nil {
				st.inconclusive = fmt.Sprintf("block %d does not verify on node %d: %v", bi, ni, err)
				return
			}
			local := make([]bool, len(items))
			nRemote := 0
			var pat strings.Builder
			for ci, it := range items {
				_, err := node.st.GetChunkBytes(it.chunk.Expiry, it.chunk.id)
				local[ci] = err == nil
				if local[ci] {
					pat.WriteByte('L')
				} else {
					nRemote++
					holders := 0
					for oj, on := range nodes {
						if oj == ni {
							continue
						}
						if _, err := on.st.GetChunkBytes(it.chunk.Expiry, it.chunk.id); err == nil {
							holders++
						}
					}
					if holders == 0 {
						st.inconclusive = fmt.Sprintf("harness: chunk %d of block %d is held by no node", ci, bi)
						return
					}
					fmt.Fprintf(&pat, "R%d", holders)
				}
			}
			script := []string(nil)
			if ni < len(b.Scripts) {
				script = b.Scripts[ni]
			}
			ctl.begin(script, blockPos, sibling)
			var eb ExecutedBlock[dsmrtest.Tx]
			var accErr error
			var panicked any
			done := kit.Go(func() {
				defer func() { panicked = recover() }()
				eb, accErr = node.Accept(ctx, blk)
			})
			st.accepts++
			wit := func() map[string]any {
				ctl.mu.Lock()
				defer ctl.mu.Unlock()
				ev := append([]c35Event(nil), ctl.events...)
				if len(ev) > 40 {
					ev = ev[len(ev)-40:]
				}
				return map[string]any{"case": c, "block": bi, "node": ni, "chunks_local_or_remote": pat.String(), "script": script, "last_requests": ev}
			}
			select {
			case <-done:
			case <-ctl.stuck:
				ctl.mu.Lock()
				v := ctl.valid[ctl.stuckOn]
				ctl.mu.Unlock()
				if v > 0 {
					fails = append(fails, c35Fail{"C35/accept-never-completes-after-valid-chunk", fmt.Sprintf("block %d node %d (%s): Accept issued more than %d GetChunk requests although a valid copy of the requested chunk was served %d times", bi, ni, pat.String(), c35HardCap, v), wit()})
				} else {
					st.inconclusive = fmt.Sprintf("block %d node %d: %d requests without any valid serve (harness)", bi, ni, c35HardCap)
				}
				return
			}
			ctl.mu.Lock()
			served := 0
			for _, v := range ctl.valid {
				served += v
			}
			wrongServed := 0
			for _, e := range ctl.events {
				if strings.HasPrefix(e.Action, "wrong:") {
					wrongServed++
				}
			}
			reqs, refetch := ctl.n, ctl.refetch
			ctl.mu.Unlock()
			st.requests += reqs
			st.valid += served
			st.refetch += refetch
			if nRemote == 0 {
				st.allLocal++
			} else {
				st.withFetch++
				st.fetched += nRemote
				st.shapes = append(st.shapes, fmt.Sprintf("k%d b%d %s %v", c.K, bi, pat.String(), script))
			}
			where := fmt.Sprintf("block %d node %d chunks %s script %v", bi, ni, pat.String(), script)
			if panicked != nil {
				fails = append(fails, c35Fail{"C35/accept-panics", fmt.Sprintf("%s: Accept panicked: %v", where, panicked), wit()})
				return
			}
			if accErr != nil {
				switch {
				case nRemote == 0:
					fails = append(fails, c35Fail{"C35/accept-fails-with-local-chunks", fmt.Sprintf("%s: %v", where, accErr), wit()})
				case served > 0:
					fails = append(fails, c35Fail{"C35/accept-fails-after-valid-chunk-fetched", fmt.Sprintf("%s: peers served %d valid chunk(s) for the %d missing one(s) but Accept returned: %v", where, served, nRemote, accErr), wit()})
				case wrongServed > 0:
					fails = append(fails, c35Fail{"C35/accept-fails-after-wrong-chunk", fmt.Sprintf("%s: a peer answered with a different (valid) chunk, Accept stopped asking and returned: %v", where, accErr), wit()})
				default:
					fails = append(fails, c35Fail{"C35/accept-gives-up-before-valid-chunk", fmt.Sprintf("%s: Accept returned %v after %d valid serves for %d missing chunks", where, accErr, served, nRemote), wit()})
				}
				return
			}
			// executed chunks = the certificates' chunks, in order, no extras
			bad := ""
			if len(eb.Chunks) != len(items) {
				bad = fmt.Sprintf("%d executed chunks for %d certificates", len(eb.Chunks), len(items))
			}
			for ci := 0; bad == "" && ci < len(items); ci++ {
				got := eb.Chunks[ci]
				if got.id != items[ci].chunk.id || string(got.bytes) != string(items[ci].chunk.bytes) {
					at := -1
					for cj := range items {
						if got.id == items[cj].chunk.id {
							at = cj
						}
					}
					switch {
					case at >= 0:
						bad = fmt.Sprintf("position %d holds the chunk of certificate %d", ci, at)
					case got.id == other.chunk.id:
						bad = fmt.Sprintf("position %d holds a chunk that no certificate references (the one a peer sent instead)", ci)
					default:
						bad = fmt.Sprintf("position %d holds chunk %s, certificate references %s", ci, got.id, items[ci].chunk.id)
					}
				}
			}
			if bad != "" {
				key := "C35/executed-chunks-mismatch"
				if wrongServed > 0 {
					key = "C35/wrong-chunk-from-peer-executed"
				}
				fails = append(fails, c35Fail{key, fmt.Sprintf("%s: %s", where, bad), wit()})
				return
			}
			if refetch > 0 {
				fails = append(fails, c35Fail{"C35/refetch-after-valid-chunk-served", fmt.Sprintf("%s: %d GetChunk requests for a chunk of which a valid copy had already been served", where, refetch), wit()})
				return
			}
		}
		parent = blk
	}
	return
}

// ---- generator ----

func c35Gen(rng *rand.Rand) c35Case {
	c := c35Case{K: 2 + rng.IntN(4)}
	if rng.IntN(3) == 0 {
		c.K = 2 + rng.IntN(2)
	}
	nb := 1 + rng.IntN(3)
	for bi := 0; bi < nb; bi++ {
		b := c35Block{}
		nc := 1 + rng.IntN(4)
		for ci := 0; ci < nc; ci++ {
			ch := c35Chunk{Producer: rng.IntN(c.K)}
			nh := 1
			switch rng.IntN(6) {
			case 0:
				nh = c.K
			case 1, 2:
				nh = 1 + rng.IntN(c.K)
			}
			perm := rng.Perm(c.K)
			ch.Holders = append(ch.Holders, perm[:nh]...)
			b.Chunks = append(b.Chunks, ch)
		}
		b.Order = rng.Perm(c.K)
		b.Scripts = make([][]string, c.K)
		for ni := 0; ni < c.K; ni++ {
			ln := 0
			switch rng.IntN(5) {
			case 0:
			case 1, 2:
				ln = 1 + rng.IntN(2)
			default:
				ln = 1 + rng.IntN(5)
			}
			for s := 0; s < ln; s++ {
				b.Scripts[ni] = append(b.Scripts[ni], c35Faults[rng.IntN(len(c35Faults))])
			}
		}
		c.Blocks = append(c.Blocks, b)
	}
	return c
}

func TestC35(t *testing.T) {
	r := kit.Start(t, "C35", "fault_enumeration")
	r.Rule("cases = 2..5 real dsmr nodes (real ChunkStorage, ChunkVerifier, GetChunk handlers and p2p clients; deterministic validator keys), chains of 1..3 blocks of 1..4 certificates whose chunks are stored by a chosen subset of nodes; every node verifies and accepts every block in a random order, so that each chunk is local for some acceptors and must be fetched by others (from peers that hold it as pending or already accepted). Every GetChunk handler is wrapped: the next 0..5 responses during an Accept follow a script over {app error, not-available, garbage bytes, empty chunk, truncated chunk, corrupted signature, tampered body, another valid chunk, another chunk of the same block}, afterwards peers answer honestly (the request target is chosen at random by the code under test). Judged per Accept: it returns without error, ExecutedBlock.Chunks are byte-for-byte the certificates' chunks in certificate order with nothing extra, and no further request is sent for a chunk once a valid copy was served. One evaluation = one Accept; non-trivial = at least one chunk had to be fetched; distinct = (nodes, block index, local/remote pattern with holder counts, fault script).")
	r.Assume(
		"certificates are forged with all validator keys and chunks are placed with AddLocalChunkWithCert (the BuildChunk signature round would store the chunk on every signer); the Accept path under test is the same",
		"chunk expiries lie inside every node's validity window, so a valid chunk is admissible on every node",
		fmt.Sprintf("an Accept that issues more than %d requests although valid copies were served is reported as never completing (the handler parks; no wall-clock verdict)", c35HardCap),
	)
	total := c35Stats{faults: map[string]int{}}
	var mu sync.Mutex
	judge := func(c c35Case) {
		var st c35Stats
		var fails []c35Fail
		r.Guard("Accept", c, func() { st, fails = runC35(t, c) })
		r.EvalN(st.accepts)
		mu.Lock()
		total.accepts += st.accepts
		total.allLocal += st.allLocal
		total.withFetch += st.withFetch
		total.fetched += st.fetched
		total.requests += st.requests
		total.valid += st.valid
		total.unavail += st.unavail
		total.refetch += st.refetch
		for k, v := range st.faults {
			total.faults[k] += v
		}
		mu.Unlock()
		for _, s := range st.shapes {
			r.Distinct(s)
		}
		if len(st.shapes) > 0 {
			r.Sample(c)
		}
		if st.inconclusive != "" {
			r.Inconclusive("%s", st.inconclusive)
		}
		for _, f := range fails {
			r.Violation(f.Key, f.W, "%s", f.Detail)
		}
	}
	finish := func(min int) {
		r.Count("accepts", total.accepts)
		r.Count("accepts_all_chunks_local", total.allLocal)
		r.Count("accepts_with_remote_fetch", total.withFetch)
		r.Count("chunks_fetched_remotely", total.fetched)
		r.Count("getchunk_requests", total.requests)
		r.Count("valid_chunks_served", total.valid)
		r.Count("honest_peer_without_chunk", total.unavail)
		r.Count("requests_after_valid_serve", total.refetch)
		for k, v := range total.faults {
			r.Count("fault_"+k, v)
		}
		r.Finish(min)
	}
	if rf := r.Replay(); rf != nil && len(rf.Witness) > 0 {
		var w struct {
			Case c35Case `json:"case"`
		}
		if err := json.Unmarshal(rf.Witness, &w); err == nil && w.Case.K > 0 {
			judge(w.Case)
			finish(0)
			return
		}
	}
	rng := r.Rand("cases")
	n := r.N(1200, 12000)
	cases := make([]c35Case, n)
	for i := range cases {
		cases[i] = c35Gen(rng)
	}
	vfParallel(n, 4, func(i int) {
		judge(cases[i])
	})
	finish(300)
}
