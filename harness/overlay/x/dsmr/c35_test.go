package dsmr

import (
	"testing"

	kit "github.com/ava-labs/hypersdk/internal/verifkit"
)

func TestC35(t *testing.T) {
	r := kit.Start(t, "C35", "fault_enumeration")
	r.Rule("placeholder")
	r.Eval()
	r.Distinct("a")
	r.Distinct("b")
	r.Sample("x")
	r.Finish(2)
}
