package dsmr

// C36: reopening chunk storage on the same database yields the same pending
// chunks, accepted chunks, minimum expiry and per-producer pending weight.

import (
	"context"
	"encoding/json"
	"errors"
	"fmt"
	"math/rand/v2"
	"os"
	"sort"
	"strings"
	"sync"
	"testing"
	"time"

	"github.com/ava-labs/avalanchego/database"
	"github.com/ava-labs/avalanchego/database/memdb"
	"github.com/ava-labs/avalanchego/ids"
	"github.com/prometheus/client_golang/prometheus"

	"github.com/ava-labs/hypersdk/internal/pebble"
	"github.com/ava-labs/hypersdk/internal/validitywindow"
	kit "github.com/ava-labs/hypersdk/internal/verifkit"
	"github.com/ava-labs/hypersdk/x/dsmr/dsmrtest"
)

const (
	c36Producers   = 3
	c36PerProducer = 12
	c36Window      = int64(40)
	c36WeightLimit = uint64(1 << 16)
	c36ProbeMax    = int64(400)
)

var c36Rules = ruleFactory{rules: rules{validityWindow: c36Window, maxProducerChunkWeight: c36WeightLimit}}

type c36Fixture struct {
	net    *vfNet
	chunks []Chunk[dsmrtest.Tx] // pool index = producer*c36PerProducer + j
	certs  []*ChunkCertificate
	byID   map[ids.ID]int
	zeros  []byte
}

var (
	c36FxOnce sync.Once
	c36Fx     *c36Fixture
	c36FxErr  error
)

func c36GetFixture() (*c36Fixture, error) {
	c36FxOnce.Do(func() {
		net, err := vfNewNet(c36Producers)
		if err != nil {
			c36FxErr = err
			return
		}
		fx := &c36Fixture{net: net, byID: map[ids.ID]int{}, zeros: make([]byte, c36WeightLimit+1)}
		for p := 0; p < c36Producers; p++ {
			for j := 0; j < c36PerProducer; j++ {
				expiry := int64(4 + 9*j + p) // 4..105
				txs := make([]dsmrtest.Tx, 1+(j+p)%3)
				for k := range txs {
					txs[k] = vfTx(uint64(1000*p+10*j+k), expiry+100)
				}
				c, err := net.signChunk(p, expiry, txs)
				if err != nil {
					c36FxErr = err
					return
				}
				cert, err := net.certFor(c)
				if err != nil {
					c36FxErr = err
					return
				}
				fx.byID[c.id] = len(fx.chunks)
				fx.chunks = append(fx.chunks, c)
				fx.certs = append(fx.certs, cert)
			}
		}
		c36Fx = fx
	})
	return c36Fx, c36FxErr
}

// ---- histories ----

type c36Op struct {
	Kind  string `json:"op"` // addLocal | addRemote | setCert | setMin | restart
	Chunk int    `json:"chunk,omitempty"`
	Cert  bool   `json:"cert,omitempty"`
	Min   int64  `json:"min,omitempty"`
	Save  []int  `json:"save,omitempty"`
	// Conc (setMin only, interleaved histories): an operation released on another
	// goroutine while this SetMin is inside one of its store operations
	Conc *c36Conc `json:"conc,omitempty"`
}

func (o c36Op) String() string {
	switch o.Kind {
	case "addLocal":
		if o.Cert {
			return fmt.Sprintf("addLocal(c%d,cert)", o.Chunk)
		}
		return fmt.Sprintf("addLocal(c%d)", o.Chunk)
	case "addRemote":
		return fmt.Sprintf("addRemote(c%d)", o.Chunk)
	case "setCert":
		return fmt.Sprintf("setCert(c%d)", o.Chunk)
	case "setMin":
		if o.Conc != nil {
			return fmt.Sprintf("setMin(%d,save%v)||%s@%s#%d+%dus", o.Min, o.Save, o.Conc.Op, o.Conc.At, o.Conc.Nth, o.Conc.DelayUS)
		}
		return fmt.Sprintf("setMin(%d,save%v)", o.Min, o.Save)
	}
	return o.Kind
}

type c36Case struct {
	DB  string  `json:"db"` // memdb: reopen is observed after every op; pebble: closed and reopened at every restart op; memdb-hooked: interleaved history (c36conc_test.go)
	Ops []c36Op `json:"ops"`
}

func (c c36Case) shape(upto int) string {
	var b strings.Builder
	b.WriteString(c.DB)
	for i := 0; i <= upto && i < len(c.Ops); i++ {
		b.WriteByte(' ')
		b.WriteString(c.Ops[i].String())
	}
	return b.String()
}

// ---- reference model (plain maps) ----

type c36Model struct {
	min      int64
	pending  map[int]bool
	hasCert  map[int]bool
	accepted map[int]bool
	expired  map[int]bool
	moved    bool // some setMin saved or expired a chunk
}

func newC36Model() *c36Model {
	return &c36Model{pending: map[int]bool{}, hasCert: map[int]bool{}, accepted: map[int]bool{}, expired: map[int]bool{}}
}

// apply returns whether the op is expected to succeed.
func (m *c36Model) apply(fx *c36Fixture, o c36Op) bool {
	switch o.Kind {
	case "addLocal":
		m.pending[o.Chunk] = true
		if o.Cert {
			m.hasCert[o.Chunk] = true
		}
		return true
	case "addRemote":
		if m.pending[o.Chunk] {
			return true
		}
		e := fx.chunks[o.Chunk].Expiry
		if e < m.min || e > m.min+c36Window {
			return false
		}
		m.pending[o.Chunk] = true
		return true
	case "setCert":
		if !m.pending[o.Chunk] {
			return false
		}
		m.hasCert[o.Chunk] = true
		return true
	case "setMin":
		m.min = o.Min
		for _, c := range o.Save {
			if !m.pending[c] {
				return false
			}
			delete(m.pending, c)
			delete(m.hasCert, c)
			m.accepted[c] = true
			m.moved = true
		}
		for c := range m.pending {
			if fx.chunks[c].Expiry < o.Min {
				delete(m.pending, c)
				delete(m.hasCert, c)
				m.expired[c] = true
				m.moved = true
			}
		}
		return true
	case "restart":
		// certificates are documented as not persisted
		m.hasCert = map[int]bool{}
		return true
	}
	return false
}

func (m *c36Model) pendingList() []int {
	out := make([]int, 0, len(m.pending))
	for c := range m.pending {
		out = append(out, c)
	}
	sort.Ints(out)
	return out
}

// ---- observation of a storage instance ----

type c36Obs struct {
	Pending     []int    `json:"pending"`      // pool chunks in the pending set
	Accepted    []int    `json:"accepted"`     // pool chunks stored under the accepted prefix
	Foreign     int      `json:"foreign"`      // pending chunks that are not pool chunks
	Bytes       []string `json:"bytes"`        // GetChunkBytes per pool chunk: ok | absent | differs | error
	Min         int64    `json:"min"`          // storage minimum expiry
	VerifierMin int64    `json:"verifier_min"` // smallest expiry the verifier does not reject as expired (probed)
	VerifierMax int64    `json:"verifier_max"` // largest expiry the verifier does not reject as too far in the future (probed)
	Weights     []uint64 `json:"weights"`      // per producer pending weight, measured through CheckRateLimit
}

func c36Observe(fx *c36Fixture, st *ChunkStorage[dsmrtest.Tx]) c36Obs {
	o := c36Obs{Bytes: make([]string, len(fx.chunks)), Weights: make([]uint64, c36Producers)}
	st.lock.RLock()
	for id := range st.pendingChunkMap {
		if i, ok := fx.byID[id]; ok {
			o.Pending = append(o.Pending, i)
		} else {
			o.Foreign++
		}
	}
	o.Min = st.minimumExpiry
	st.lock.RUnlock()
	sort.Ints(o.Pending)
	for i, c := range fx.chunks {
		if has, err := st.chunkDB.Has(acceptedChunkKey(c.Expiry, c.id)); err == nil && has {
			o.Accepted = append(o.Accepted, i)
		}
		b, err := st.GetChunkBytes(c.Expiry, c.id)
		switch {
		case err == nil && string(b) == string(c.bytes):
			o.Bytes[i] = "ok"
		case err == nil:
			o.Bytes[i] = "differs"
		case errors.Is(err, database.ErrNotFound):
			o.Bytes[i] = "absent"
		default:
			o.Bytes[i] = "error"
		}
	}
	// the verifier's minimum, probed with unsigned chunks: Verify checks the
	// expiry window before anything else
	probe := func(e int64) error {
		return st.verifier.Verify(Chunk[dsmrtest.Tx]{UnsignedChunk: UnsignedChunk[dsmrtest.Tx]{Producer: fx.net.vals[0].NodeID, Expiry: e}})
	}
	lo, hi := int64(0), c36ProbeMax // smallest e in [0,max] that is not "expired"
	for lo < hi {
		mid := (lo + hi) / 2
		if errors.Is(probe(mid), validitywindow.ErrTimestampExpired) {
			lo = mid + 1
		} else {
			hi = mid
		}
	}
	o.VerifierMin = lo
	lo, hi = o.VerifierMin, c36ProbeMax // largest e that is not "future"
	for lo < hi {
		mid := (lo + hi + 1) / 2
		if errors.Is(probe(mid), validitywindow.ErrFutureTimestamp) {
			hi = mid - 1
		} else {
			lo = mid
		}
	}
	o.VerifierMax = lo
	// per-producer weight: the largest chunk size CheckRateLimit still admits
	for p := 0; p < c36Producers; p++ {
		ok := func(n uint64) bool {
			return st.CheckRateLimit(Chunk[dsmrtest.Tx]{
				UnsignedChunk: UnsignedChunk[dsmrtest.Tx]{Producer: fx.net.vals[p].NodeID, Expiry: 1},
				bytes:         fx.zeros[:n],
			}) == nil
		}
		if !ok(0) {
			o.Weights[p] = c36WeightLimit + 1 // above the limit
			continue
		}
		l, h := uint64(0), c36WeightLimit
		for l < h {
			mid := (l + h + 1) / 2
			if ok(mid) {
				l = mid
			} else {
				h = mid - 1
			}
		}
		o.Weights[p] = c36WeightLimit - l
	}
	return o
}

type c36Fail struct {
	Key    string
	Detail string
}

func c36Compare(before, after c36Obs, m *c36Model) []c36Fail {
	var out []c36Fail
	inB := map[int]bool{}
	for _, c := range before.Pending {
		inB[c] = true
	}
	inA := map[int]bool{}
	for _, c := range after.Pending {
		inA[c] = true
	}
	var resurrected, other []string
	for _, c := range after.Pending {
		if !inB[c] {
			if m.accepted[c] {
				resurrected = append(resurrected, fmt.Sprintf("c%d", c))
			} else {
				other = append(other, fmt.Sprintf("+c%d", c))
			}
		}
	}
	for _, c := range before.Pending {
		if !inA[c] {
			other = append(other, fmt.Sprintf("-c%d", c))
		}
	}
	if len(resurrected) > 0 {
		out = append(out, c36Fail{"C36/saved-chunk-pending-after-reopen", fmt.Sprintf("chunks %v were saved as accepted (not pending before the restart) but are pending again after reopening; weights before %v after %v", resurrected, before.Weights, after.Weights)})
	}
	if len(other) > 0 || before.Foreign != after.Foreign {
		out = append(out, c36Fail{"C36/pending-set-differs-after-reopen", fmt.Sprintf("pending set changed by %v (foreign %d->%d)", other, before.Foreign, after.Foreign)})
	}
	if fmt.Sprint(before.Accepted) != fmt.Sprint(after.Accepted) {
		out = append(out, c36Fail{"C36/accepted-set-differs-after-reopen", fmt.Sprintf("accepted chunks before %v after %v", before.Accepted, after.Accepted)})
	}
	for i := range before.Bytes {
		if before.Bytes[i] != after.Bytes[i] {
			out = append(out, c36Fail{"C36/chunk-bytes-differ-after-reopen", fmt.Sprintf("GetChunkBytes(c%d): %s before, %s after", i, before.Bytes[i], after.Bytes[i])})
			break
		}
	}
	if before.Min != after.Min {
		out = append(out, c36Fail{"C36/min-expiry-differs-after-reopen", fmt.Sprintf("storage minimum expiry %d before, %d after", before.Min, after.Min)})
	}
	if before.VerifierMin != after.VerifierMin || before.VerifierMax != after.VerifierMax {
		out = append(out, c36Fail{"C36/verifier-min-not-restored", fmt.Sprintf("remote chunks were admitted for expiries [%d,%d] before the restart and [%d,%d] after (storage minimum %d)", before.VerifierMin, before.VerifierMax, after.VerifierMin, after.VerifierMax, after.Min)})
	}
	if len(resurrected) == 0 && len(other) == 0 && fmt.Sprint(before.Weights) != fmt.Sprint(after.Weights) {
		out = append(out, c36Fail{"C36/producer-weight-differs-after-reopen", fmt.Sprintf("per-producer pending weight %v before, %v after (same pending set)", before.Weights, after.Weights)})
	}
	return out
}

type c36Result struct {
	fails        []c36Fail
	failAt       int
	before       c36Obs
	after        c36Obs
	divergence   string
	reopens      int
	nontrivial   []int // op indices whose reopen point was non-trivial
	savedSeen    int
	expiredSeen  int
	remoteOK     int
	remoteReject int
	restarts     int
	conc         map[string]int // counters of the interleaved histories
}

func runC36(fx *c36Fixture, c c36Case) (res c36Result) {
	ctx := context.Background()
	var db database.Database
	var dir string
	openDB := func() error {
		if c.DB == "pebble" {
			d, err := pebble.New(dir, pebble.NewDefaultConfig(), prometheus.NewRegistry())
			if err != nil {
				return err
			}
			db = d
			return nil
		}
		if db == nil {
			db = memdb.New()
		}
		return nil
	}
	if c.DB == "pebble" {
		d, err := os.MkdirTemp("", "vf-c36-")
		if err != nil {
			res.divergence = "tempdir: " + err.Error()
			return
		}
		dir = d
		defer os.RemoveAll(dir)
	}
	if err := openDB(); err != nil {
		res.divergence = "open db: " + err.Error()
		return
	}
	defer func() { _ = db.Close() }()
	open := func() (*ChunkStorage[dsmrtest.Tx], error) {
		// a restarted process has a fresh verifier
		verifier := NewChunkVerifier[dsmrtest.Tx](fx.net.cs, c36Rules)
		return NewChunkStorage[dsmrtest.Tx](verifier, db, c36Rules)
	}
	live, err := open()
	if err != nil {
		res.divergence = "open storage: " + err.Error()
		return
	}
	m := newC36Model()
	for i, o := range c.Ops {
		want := m.apply(fx, o)
		var opErr error
		switch o.Kind {
		case "addLocal":
			var cert *ChunkCertificate
			if o.Cert {
				cert = fx.certs[o.Chunk]
			}
			opErr = live.AddLocalChunkWithCert(fx.chunks[o.Chunk], cert)
		case "addRemote":
			_, opErr = live.VerifyRemoteChunk(fx.chunks[o.Chunk])
			if opErr == nil {
				res.remoteOK++
			} else {
				res.remoteReject++
			}
		case "setCert":
			opErr = live.SetChunkCert(ctx, fx.chunks[o.Chunk].id, fx.certs[o.Chunk])
		case "setMin":
			save := make([]ids.ID, 0, len(o.Save))
			for _, s := range o.Save {
				save = append(save, fx.chunks[s].id)
			}
			opErr = live.SetMin(o.Min, save)
		case "restart":
			res.restarts++
		}
		if (opErr == nil) != want {
			res.divergence = fmt.Sprintf("step %d %s returned %v, the model expected success=%v", i, o, opErr, want)
			return
		}
		if c.DB == "pebble" && o.Kind != "restart" {
			continue
		}
		// ---- reopen point ----
		before := c36Observe(fx, live)
		if c.DB == "pebble" {
			if err := db.Close(); err != nil {
				res.divergence = "close: " + err.Error()
				return
			}
			if err := openDB(); err != nil {
				res.divergence = "reopen db: " + err.Error()
				return
			}
		}
		re, err := open()
		res.reopens++
		if err != nil {
			res.fails = []c36Fail{{"C36/reopen-fails", fmt.Sprintf("NewChunkStorage on the same database failed: %v", err)}}
			res.failAt = i
			res.before = before
			return
		}
		after := c36Observe(fx, re)
		// the model must describe the live state, otherwise this monitor is confused
		if fmt.Sprint(before.Pending) != fmt.Sprint(m.pendingList()) || before.Min != m.min {
			res.divergence = fmt.Sprintf("step %d %s: live pending %v min %d, model pending %v min %d", i, o, before.Pending, before.Min, m.pendingList(), m.min)
			return
		}
		if m.moved {
			res.nontrivial = append(res.nontrivial, i)
		}
		res.savedSeen += len(m.accepted)
		res.expiredSeen += len(m.expired)
		if f := c36Compare(before, after, m); len(f) > 0 {
			res.fails, res.failAt, res.before, res.after = f, i, before, after
			return
		}
		if o.Kind == "restart" {
			live = re
		}
	}
	return
}

// ---- generator ----

func c36Gen(fx *c36Fixture, rng *rand.Rand, dbKind string) c36Case {
	c := c36Case{DB: dbKind}
	m := newC36Model()
	n := 4 + rng.IntN(14)
	pickNear := func() int {
		// a chunk whose expiry is near the current window
		for tries := 0; tries < 8; tries++ {
			i := rng.IntN(len(fx.chunks))
			e := fx.chunks[i].Expiry
			if e >= m.min-5 && e <= m.min+c36Window+5 {
				return i
			}
		}
		return rng.IntN(len(fx.chunks))
	}
	restartP := 12
	if dbKind == "pebble" {
		restartP = 25
	}
	for len(c.Ops) < n {
		var o c36Op
		switch x := rng.IntN(100); {
		case x < restartP:
			o = c36Op{Kind: "restart"}
		case x < restartP+28:
			o = c36Op{Kind: "addLocal", Chunk: pickNear(), Cert: rng.IntN(2) == 0}
		case x < restartP+46:
			o = c36Op{Kind: "addRemote", Chunk: pickNear()}
			if m.pending[o.Chunk] && !m.hasCert[o.Chunk] {
				// VerifyRemoteChunk of a pending chunk without certificate dereferences a nil
				// certificate (outside this property); not generated
				continue
			}
		case x < restartP+56:
			pl := m.pendingList()
			if len(pl) == 0 || rng.IntN(6) == 0 {
				o = c36Op{Kind: "setCert", Chunk: rng.IntN(len(fx.chunks))}
			} else {
				o = c36Op{Kind: "setCert", Chunk: pl[rng.IntN(len(pl))]}
			}
		default:
			o = c36Op{Kind: "setMin", Min: m.min}
			switch rng.IntN(5) {
			case 0: // same minimum again
			case 1:
				o.Min += int64(1 + rng.IntN(30))
			default:
				o.Min += int64(1 + rng.IntN(10))
			}
			for _, p := range m.pendingList() {
				if len(o.Save) < 3 && rng.IntN(3) == 0 {
					o.Save = append(o.Save, p)
				}
			}
		}
		m.apply(fx, o)
		c.Ops = append(c.Ops, o)
	}
	if dbKind == "pebble" {
		c.Ops = append(c.Ops, c36Op{Kind: "restart"})
	}
	return c
}

func TestC36(t *testing.T) {
	r := kit.Start(t, "C36", "fault_enumeration")
	r.Rule("histories of AddLocalChunkWithCert / VerifyRemoteChunk / SetChunkCert / SetMin(min advance, saving up to 3 pending chunks, expiring others) / restart over a fixed pool of 36 signed chunks (3 producers, expiries 4..105, validity window 40) on the real ChunkStorage + ChunkVerifier. On memdb a second storage (with a fresh verifier, as after a process restart) is opened on the same database after EVERY operation (= every crash/restart point of the history) and compared with the live one; `restart` ops continue the history on the reopened instance. On pebble the database is really closed and reopened at each restart op. Compared: pending set, accepted set, GetChunkBytes of every pool chunk, storage minimum, the expiry interval the verifier admits (probed), per-producer weight measured through CheckRateLimit. One evaluation = one reopen point; non-trivial = a SetMin before the point saved or expired a chunk; distinct = distinct op prefix. INTERLEAVED histories (memdb behind a wrapping database that intercepts NewBatch / Batch.Put / Batch.Delete / Batch.Write / return of Write / direct Put, Delete): 1..3 SetMins of a history are interleaved, i.e. at a PRNG-chosen store operation of that SetMin (fallback: its Batch.Write) the wrapper starts a goroutine performing a PRNG-chosen AddLocalChunkWithCert / VerifyRemoteChunk / SetChunkCert of a chunk which that SetMin saves, expires or leaves pending, or of a fresh chunk; the SetMin goroutine yields or waits at most 0.3..2.5 ms (schedule widening only, the operation is never waited for inside the store operation) and carries on; the operation is joined after SetMin returned (deadlock watchdog). At quiescence the in-memory view is compared with a storage reopened on the same database (same observables; keys C36/interleaved-*); the model must explain the results and the live state by one of the two sequential orders (else inconclusive) and continues from that order; further reopen points at restart ops and at the end of the history. The generator tracks every state the history can be in and only emits operations that are inside the assumptions in all of them. STRESS: per case 2..4 phases; in each phase one acceptor goroutine (addLocal of the chunks it is about to save, then SetMin with non-decreasing minimums) and 2..4 adder goroutines (addLocal / setCert of any pool chunk, VerifyRemoteChunk only of chunks owned by that goroutine and directly after handing in the certificate) run their PRNG-generated programs concurrently from a common start; after all returned, live is compared with a reopened storage (keys C36/stress-*); the next phase continues on the live or on the reopened instance. Non-trivial stress phase = something was accepted; distinct = the programs up to that phase.")
	r.Assume(
		"certificates are documented as not persisted and are not compared",
		"SetMin is only asked to save chunks that are pending (a failing SetMin is a failed accept, outside the property)",
		"VerifyRemoteChunk is not called for a chunk that is pending without certificate (it dereferences the nil certificate; separate defect, see report)",
		"a restarted process creates a fresh ChunkVerifier; the storage's minimum is what it must be given back",
		"the plain-map model is only used to predict op results, classify witnesses and decide non-triviality; the verdict is live-vs-reopened equality",
		"concurrent parts: the verdict is only taken when no call into the storage is in flight; which of the two orders of an interleaved pair took effect is not predicted; only one goroutine calls SetMin (block accept is sequential) so that minimums never decrease",
		"a ChunkStorage call that never returns after its peer returned (deadlock witness or watchdog) is reported as inconclusive, the statement does not speak about liveness",
	)
	fx, err := c36GetFixture()
	if err != nil {
		t.Fatalf("fixture: %v", err)
	}
	judge := func(c c36Case) {
		var res c36Result
		r.Guard("ChunkStorage", c, func() {
			if c.DB == "memdb-hooked" {
				res = runC36Conc(fx, c)
			} else {
				res = runC36(fx, c)
			}
		})
		r.EvalN(res.reopens)
		r.Count("reopen_points", res.reopens)
		r.Count("restarts_continued_on_reopened", res.restarts)
		r.Count("remote_chunks_admitted", res.remoteOK)
		r.Count("remote_chunks_rejected_by_window", res.remoteReject)
		r.Count("saved_chunks_at_reopen_points", res.savedSeen)
		r.Count("expired_chunks_at_reopen_points", res.expiredSeen)
		if c.DB == "pebble" {
			r.Count("pebble_histories", 1)
		}
		if c.DB == "memdb-hooked" {
			r.Count("interleaved/histories", 1)
			r.Count("interleaved/reopen_points", res.reopens)
			for k, v := range res.conc {
				r.Count("interleaved/"+k, v)
			}
		}
		for _, i := range res.nontrivial {
			r.Distinct(c.shape(i))
		}
		if len(res.nontrivial) > 0 && (c.DB != "memdb-hooked" || r.Counter("interleaved/sampled") < 2) {
			if c.DB == "memdb-hooked" {
				r.Count("interleaved/sampled", 1)
			}
			r.Sample(c)
		}
		if res.divergence != "" {
			r.Count("model_divergences", 1)
			r.Inconclusive("model/harness divergence (not a verdict): %s [history %s]", res.divergence, c.shape(len(c.Ops)))
		}
		if len(res.fails) > 0 {
			r.Count("histories_with_reopen_mismatch", 1)
		}
		for _, f := range res.fails {
			w := map[string]any{"case": c, "failed_after_op": res.failAt, "before": res.before, "after": res.after}
			r.Violation(f.Key, w, "reopen after step %d (%s): %s  [history: %s]", res.failAt, c.Ops[res.failAt], f.Detail, c.shape(res.failAt))
		}
	}
	judgeStress := func(s c36Stress) {
		var res c36StressResult
		r.Guard("ChunkStorage", map[string]any{"stress": s}, func() { res = runC36Stress(fx, s) })
		r.EvalN(res.phases)
		r.Count("stress/cases", 1)
		r.Count("stress/quiescent_reopen_points", res.phases)
		r.Count("stress/goroutines", res.goroutines)
		r.Count("stress/operations", res.ops)
		r.Count("stress/remote_chunks_admitted", res.remoteOK)
		r.Count("stress/remote_chunks_rejected_by_window", res.remoteRej)
		r.Count("stress/accepted_chunks_at_reopen_points", res.accepted)
		for _, i := range res.nontrivial {
			r.Distinct("stress", fmt.Sprint(s.Phases[:i+1]))
		}
		if res.divergence != "" {
			r.Count("model_divergences", 1)
			r.Inconclusive("stress: %s (not a verdict)", res.divergence)
		}
		for _, f := range res.fails {
			w := map[string]any{"stress": s, "failed_after_phase": res.failAt, "before": res.before, "after": res.after}
			r.Violation(f.Key, w, "after all goroutines of phase %d returned: %s (schedule dependent; the witness holds the programs)", res.failAt, f.Detail)
		}
	}
	if rf := r.Replay(); rf != nil && len(rf.Witness) > 0 {
		var w struct {
			Case   c36Case   `json:"case"`
			Stress c36Stress `json:"stress"`
		}
		if err := json.Unmarshal(rf.Witness, &w); err == nil && len(w.Case.Ops) > 0 {
			judge(w.Case)
			r.Finish(0)
			return
		} else if err == nil && len(w.Stress.Phases) > 0 {
			// the schedule is not part of the witness: repeat the programs
			for i := 0; i < 200 && r.Violations() == 0; i++ {
				judgeStress(w.Stress)
			}
			r.Finish(0)
			return
		}
	}
	rng := r.Rand("histories")
	nMem := r.N(3000, 40000)
	nPeb := r.N(40, 400)
	cases := make([]c36Case, 0, nMem+nPeb)
	for i := 0; i < nMem; i++ {
		cases = append(cases, c36Gen(fx, rng, "memdb"))
	}
	for i := 0; i < nPeb; i++ {
		cases = append(cases, c36Gen(fx, rng, "pebble"))
	}
	// interleaved histories and stress programs are generated up front (PRNG
	// order independent of scheduling)
	rngI := r.Rand("interleaved")
	nInt := r.N(1500, 15000)
	inter := make([]c36Case, 0, nInt)
	for i := 0; i < nInt; i++ {
		inter = append(inter, c36GenConc(fx, rngI))
	}
	rngS := r.Rand("stress")
	nStress := r.N(300, 2000)
	stress := make([]c36Stress, 0, nStress)
	for i := 0; i < nStress; i++ {
		stress = append(stress, c36GenStress(fx, rngS))
	}
	t0 := time.Now()
	parts := map[string]float64{}
	vfParallel(len(cases), 6, func(i int) {
		judge(cases[i])
	})
	parts["sequential"] = time.Since(t0).Seconds()
	t0 = time.Now()
	// the workers mostly sleep in the schedule-widening delay
	vfParallel(len(inter), 8, func(i int) {
		judge(inter[i])
	})
	parts["interleaved"] = time.Since(t0).Seconds()
	t0 = time.Now()
	vfParallel(len(stress), 2, func(i int) {
		judgeStress(stress[i])
	})
	parts["stress"] = time.Since(t0).Seconds()
	r.Extra("part_wall_s", parts) // bookkeeping only, no verdict depends on it
	if r.Counter("interleaved/interleaved_setmins") == 0 || r.Counter("stress/quiescent_reopen_points") == 0 {
		r.Inconclusive("the concurrent parts did not run")
	}
	r.Finish(1000)
}
