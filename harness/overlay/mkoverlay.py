#!/usr/bin/env python3
"""mkoverlay.py <verif root> <repo root> <repo pkg>  -> overlay JSON on stdout.

Adds (never replaces) files: every *_test.go under harness/overlay/<repo pkg>/
is mapped into <repo>/<repo pkg>/, and the kit sources are mapped to the
virtual package <repo>/internal/verifkit (import path
github.com/ava-labs/hypersdk/internal/verifkit, package name kit)."""
import json, os, sys
verif, repo, pkg = sys.argv[1:4]
rep = {}
src = os.path.join(verif, 'harness', 'overlay', pkg)
for f in sorted(os.listdir(src)):
    if f.endswith('_test.go'):
        dst = os.path.join(repo, pkg, 'zzverif_' + f)
        if os.path.exists(dst):
            sys.exit(f'overlay would replace {dst}')
        rep[dst] = os.path.join(src, f)
for f in ('run.go', 'monitor.go'):
    rep[os.path.join(repo, 'internal', 'verifkit', f)] = os.path.join(verif, 'harness', 'kit', f)
json.dump({'Replace': rep}, sys.stdout, indent=1)
