//go:build verif

// Package hooks installs handlers on hypersdk's verif-tagged observation
// points (internal/verifhook): schedule perturbation, hit counting,
// process-exit crash points and custom callbacks.
package hooks

import (
	"math/rand/v2"
	"os"
	"runtime"
	"sync"
	"sync/atomic"
	"time"

	"github.com/ava-labs/hypersdk/internal/verifhook"
)

// Perturb describes what to do at hook points.
type Perturb struct {
	mu   sync.Mutex
	rng  *rand.Rand
	hits map[string]int64

	// Probabilities (0..1) of yielding / spinning / sleeping at a point.
	PYield, PSpin, PSleep float64
	MaxSleep              time.Duration

	// CrashAt: exit the process with CrashCode on the n-th hit of the point.
	CrashPoint string
	CrashHit   int64
	CrashCode  int
	// Before the crash, this is called (e.g. to flush a log).
	OnCrash func()

	// Callbacks by point name (run outside the lock).
	On map[string]func()

	total atomic.Int64
}

// NewPerturb returns a handler with the given PRNG.
func NewPerturb(rng *rand.Rand) *Perturb {
	return &Perturb{rng: rng, hits: map[string]int64{}, MaxSleep: 200 * time.Microsecond, CrashCode: 77, On: map[string]func(){}}
}

// Install makes p the process-wide hook handler.
func (p *Perturb) Install() { verifhook.Set(p.handle) }

// Uninstall removes any handler.
func Uninstall() { verifhook.Set(nil) }

// Hits returns a copy of the per-point hit counters.
func (p *Perturb) Hits() map[string]int64 {
	p.mu.Lock()
	defer p.mu.Unlock()
	out := make(map[string]int64, len(p.hits))
	for k, v := range p.hits {
		out[k] = v
	}
	return out
}

func (p *Perturb) handle(name string) {
	p.total.Add(1)
	p.mu.Lock()
	p.hits[name]++
	n := p.hits[name]
	crash := p.CrashPoint == name && p.CrashHit == n
	var x float64
	var d time.Duration
	if p.rng != nil {
		x = p.rng.Float64()
		if p.MaxSleep > 0 {
			d = time.Duration(p.rng.Int64N(int64(p.MaxSleep)) + 1)
		}
	} else {
		x = 2
	}
	cb := p.On[name]
	p.mu.Unlock()
	if crash {
		if p.OnCrash != nil {
			p.OnCrash()
		}
		os.Exit(p.CrashCode)
	}
	if cb != nil {
		cb()
	}
	switch {
	case x < p.PYield:
		runtime.Gosched()
	case x < p.PYield+p.PSpin:
		for i := 0; i < 2000; i++ {
			runtime.Gosched()
			if i%64 == 0 && i > int(d/100) {
				break
			}
		}
	case x < p.PYield+p.PSpin+p.PSleep:
		time.Sleep(d)
	}
}
