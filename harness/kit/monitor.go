package kit

import (
	"fmt"
	"os"
	"os/exec"
	"regexp"
	"runtime"
	"strings"
	"sync"
	"sync/atomic"
	"time"
)

// Clock is one atomic logical clock shared by all event recorders of a case.
type Clock struct{ c atomic.Int64 }

// Tick returns the next logical time (strictly increasing, totally ordered).
func (c *Clock) Tick() int64 { return c.c.Add(1) }
func (c *Clock) Now() int64  { return c.c.Load() }

// Event is one recorded observation.
type Event struct {
	T    int64  `json:"t"`
	Kind string `json:"kind"`
	ID   int    `json:"id"`
	Arg  string `json:"arg,omitempty"`
}

// Log is a thread-safe append-only event log stamped by a Clock.
type Log struct {
	Clock
	mu sync.Mutex
	ev []Event
}

func (l *Log) Add(kind string, id int, arg string) int64 {
	l.mu.Lock()
	t := l.Tick()
	l.ev = append(l.ev, Event{T: t, Kind: kind, ID: id, Arg: arg})
	l.mu.Unlock()
	return t
}

func (l *Log) Events() []Event {
	l.mu.Lock()
	defer l.mu.Unlock()
	return append([]Event(nil), l.ev...)
}

var goHdr = regexp.MustCompile(`^goroutine (\d+) \[([^\],]+)(?:, [^\]]*)?\]:`)

// snapshot returns id -> "state @ top frame" for goroutines whose stack
// mentions any of the given package path fragments.
func snapshot(pkgs []string) (map[string]string, string) {
	buf := make([]byte, 4<<20)
	n := runtime.Stack(buf, true)
	all := string(buf[:n])
	out := map[string]string{}
	for _, g := range strings.Split(all, "\n\n") {
		m := goHdr.FindStringSubmatch(g)
		if m == nil {
			continue
		}
		hit := ""
		for _, l := range strings.Split(g, "\n")[1:] {
			for _, p := range pkgs {
				if strings.Contains(l, p) {
					hit = l
					break
				}
			}
			if hit != "" {
				break
			}
		}
		if hit == "" {
			continue
		}
		out[m[1]] = m[2] + " @ " + strings.TrimSpace(hit)
	}
	return out, all
}

func parked(st string) bool {
	for _, p := range []string{"chan send", "chan receive", "select", "semacquire", "sync.Mutex.Lock", "sync.RWMutex", "sync.WaitGroup.Wait", "sync.Cond.Wait"} {
		if strings.HasPrefix(st, p) {
			return true
		}
	}
	return false
}

// WaitResult is the verdict of AwaitOrDeadlock.
type WaitResult int

const (
	Returned WaitResult = iota
	Deadlock            // deterministic witness: every goroutine of the code under test parked, unchanged over samples
	Unknown             // watchdog fired without a witness (inconclusive)
)

// AwaitOrDeadlock waits for done. If it is not closed after grace, goroutine
// stacks mentioning pkgs are sampled; if all of them are parked in blocking
// waits and the picture is identical over `stable` consecutive samples the
// result is Deadlock (with the stacks); if the watchdog expires first the
// result is Unknown. No verdict depends on how long the operation took.
func AwaitOrDeadlock(done <-chan struct{}, pkgs []string, grace, watchdog time.Duration) (WaitResult, string) {
	select {
	case <-done:
		return Returned, ""
	case <-time.After(grace):
	}
	deadline := time.Now().Add(watchdog)
	var prev map[string]string
	stable := 0
	for time.Now().Before(deadline) {
		select {
		case <-done:
			return Returned, ""
		case <-time.After(25 * time.Millisecond):
		}
		s, all := snapshot(pkgs)
		ok := len(s) > 0
		for _, st := range s {
			if !parked(st) {
				ok = false
			}
		}
		same := prev != nil && len(prev) == len(s)
		if same {
			for id, st := range s {
				if prev[id] != st {
					same = false
				}
			}
		}
		if ok && same {
			stable++
		} else {
			stable = 0
		}
		prev = s
		if stable >= 8 {
			select {
			case <-done:
				return Returned, ""
			default:
			}
			return Deadlock, all
		}
	}
	_, all := snapshot(pkgs)
	return Unknown, all
}

// Go runs f in a goroutine and returns a channel closed when it returns.
func Go(f func()) <-chan struct{} {
	ch := make(chan struct{})
	go func() {
		defer close(ch)
		f()
	}()
	return ch
}

// ChildResult is the outcome of one child process.
type ChildResult struct {
	ExitCode int
	Output   string
	TimedOut bool
}

// RunChild re-executes the current test binary running only test `name` with
// extra environment; output is captured to a file (not a pipe) so goroutine
// dumps survive. The wall-clock limit is a watchdog: TimedOut is inconclusive.
func RunChild(name string, env []string, limit time.Duration) ChildResult {
	f, err := os.CreateTemp("", "verif-child-*.log")
	if err != nil {
		return ChildResult{ExitCode: -1, Output: err.Error()}
	}
	defer os.Remove(f.Name())
	cmd := exec.Command(os.Args[0], "-test.run", "^"+name+"$", "-test.count=1", "-test.timeout", fmt.Sprint(limit+30*time.Second))
	// the child may die at an injected crash point, so anything it puts in
	// its temp dir (t.TempDir included) is removed here, by the parent
	tmp, err := os.MkdirTemp("", "verif-childtmp-*")
	if err != nil {
		return ChildResult{ExitCode: -1, Output: err.Error()}
	}
	defer os.RemoveAll(tmp)
	cmd.Env = append(append(os.Environ(), env...), "TMPDIR="+tmp)
	cmd.Stdout = f
	cmd.Stderr = f
	if err := cmd.Start(); err != nil {
		return ChildResult{ExitCode: -1, Output: err.Error()}
	}
	done := make(chan error, 1)
	go func() { done <- cmd.Wait() }()
	res := ChildResult{}
	select {
	case err := <-done:
		if err != nil {
			if ee, ok := err.(*exec.ExitError); ok {
				res.ExitCode = ee.ExitCode()
			} else {
				res.ExitCode = -1
			}
		}
	case <-time.After(limit):
		_ = cmd.Process.Signal(os.Interrupt)
		_ = cmd.Process.Kill()
		<-done
		res.TimedOut = true
		res.ExitCode = -2
	}
	_ = f.Close()
	b, _ := os.ReadFile(f.Name())
	res.Output = string(b)
	return res
}

// IsChild reports whether this process is a child started by RunChild with
// VERIF_CHILD=<role>, returning the role.
func IsChild() (string, bool) {
	v := os.Getenv("VERIF_CHILD")
	return v, v != ""
}
