// Package kit is the shared runtime-monitoring toolkit of the hypersdk
// verification harness: seeded PRNG streams, verdict/evidence bookkeeping,
// replay files, known-finding classification, a logical clock + event log,
// a quiescence (deadlock-witness) detector, hook handlers and a child-process
// runner.
package kit

import (
	"crypto/sha256"
	"encoding/hex"
	"encoding/json"
	"fmt"
	"math/rand/v2"
	"os"
	"path/filepath"
	"runtime/debug"
	"sort"
	"strconv"
	"strings"
	"sync"
	"testing"
	"time"
)

// Root returns the /verif directory (VERIF_ROOT overrides).
func Root() string {
	if r := os.Getenv("VERIF_ROOT"); r != "" {
		return r
	}
	return "/verif"
}

// Finding is one entry of known_findings.json.
type Finding struct {
	Property string `json:"property"`
	Key      string `json:"key"`
	Status   string `json:"status"` // open | fixed
	Commit   string `json:"commit,omitempty"`
	What     string `json:"what"`
}

type violation struct {
	Key     string `json:"key"`
	Detail  string `json:"detail"`
	Replay  string `json:"replay"`
	Known   bool   `json:"known"`
	Witness any    `json:"witness,omitempty"`
}

// Run is the bookkeeping of one check execution (one property, one tier).
type Run struct {
	T        testing.TB
	Prop     string
	Level    string
	tier     string
	seed     uint64
	start    time.Time
	replayIn *ReplayFile

	mu          sync.Mutex
	evals       int64
	distinct    map[[16]byte]struct{}
	samples     []any
	autoSamples []any
	maxSamples  int
	counters    map[string]int64
	rule        string
	assumptions []string
	violations  []violation
	seenKeys    map[string]int
	inconcl     []string
	known       []Finding
	extra       map[string]any
	finished    bool
}

// ReplayFile is what a violation writes to /verif/replays and what
// `./check Cxx --replay file` reads back.
type ReplayFile struct {
	Property string          `json:"property"`
	Key      string          `json:"key"`
	Tier     string          `json:"tier"`
	Seed     uint64          `json:"seed"`
	Detail   string          `json:"detail"`
	Witness  json.RawMessage `json:"witness,omitempty"`
}

// Start begins a run. level is "exploration" or "fault_enumeration".
func Start(t testing.TB, prop, level string) *Run {
	r := &Run{
		T: t, Prop: prop, Level: level,
		tier:       "quick",
		seed:       1,
		start:      time.Now(),
		distinct:   map[[16]byte]struct{}{},
		counters:   map[string]int64{},
		seenKeys:   map[string]int{},
		extra:      map[string]any{},
		maxSamples: 5,
	}
	if v := os.Getenv("VERIF_TIER"); v == "thorough" {
		r.tier = "thorough"
	}
	if v := os.Getenv("VERIF_SEED"); v != "" {
		if s, err := strconv.ParseUint(v, 10, 64); err == nil {
			r.seed = s
		} else if s, err := strconv.ParseInt(v, 10, 64); err == nil {
			r.seed = uint64(s)
		}
	}
	if p := os.Getenv("VERIF_REPLAY"); p != "" {
		b, err := os.ReadFile(p)
		if err != nil {
			t.Fatalf("cannot read replay file %s: %v", p, err)
		}
		rf := &ReplayFile{}
		if err := json.Unmarshal(b, rf); err != nil {
			t.Fatalf("cannot parse replay file %s: %v", p, err)
		}
		r.replayIn = rf
		r.seed = rf.Seed
		if rf.Tier == "thorough" || rf.Tier == "quick" {
			r.tier = rf.Tier
		}
	}
	b, err := os.ReadFile(filepath.Join(Root(), "known_findings.json"))
	if err == nil {
		var all []Finding
		if err := json.Unmarshal(b, &all); err != nil {
			t.Fatalf("known_findings.json: %v", err)
		}
		for _, f := range all {
			if f.Property == prop {
				r.known = append(r.known, f)
			}
		}
	}
	return r
}

func (r *Run) Tier() string   { return r.tier }
func (r *Run) Quick() bool    { return r.tier == "quick" }
func (r *Run) Thorough() bool { return r.tier == "thorough" }
func (r *Run) Seed() uint64   { return r.seed }

// Replay returns the replay file this run was asked to reproduce (or nil).
func (r *Run) Replay() *ReplayFile { return r.replayIn }

// N picks the per-tier count.
func (r *Run) N(quick, thorough int) int {
	if r.tier == "thorough" {
		return thorough
	}
	return quick
}

// Rand returns a deterministic PRNG stream derived from (seed, property, stream).
func (r *Run) Rand(stream string) *rand.Rand {
	h := sha256.Sum256([]byte(fmt.Sprintf("%s/%s/%d", r.Prop, stream, r.seed)))
	a := uint64(0)
	b := uint64(0)
	for i := 0; i < 8; i++ {
		a = a<<8 | uint64(h[i])
		b = b<<8 | uint64(h[8+i])
	}
	return rand.New(rand.NewPCG(a, b))
}

// Eval counts one judged execution.
func (r *Run) Eval() { r.EvalN(1) }

func (r *Run) EvalN(n int) {
	r.mu.Lock()
	r.evals += int64(n)
	r.mu.Unlock()
}

// Distinct records one non-trivial case under its distinctness key
// (the caller decides what makes a case non-trivial and calls this only then).
func (r *Run) Distinct(parts ...any) {
	str := fmt.Sprint(parts...)
	h := sha256.Sum256([]byte(str))
	var k [16]byte
	copy(k[:], h[:16])
	r.mu.Lock()
	if _, seen := r.distinct[k]; !seen && len(r.autoSamples) < r.maxSamples {
		// fallback samples (the distinctness keys themselves) for monitors that never call Sample
		if len(str) > 300 {
			str = str[:300] + "…"
		}
		r.autoSamples = append(r.autoSamples, "case key: "+str)
	}
	r.distinct[k] = struct{}{}
	r.mu.Unlock()
}

// DistinctCount returns the current number of distinct non-trivial cases.
func (r *Run) DistinctCount() int {
	r.mu.Lock()
	defer r.mu.Unlock()
	return len(r.distinct)
}

// Sample keeps the first few cases for the evidence file.
func (r *Run) Sample(v any) {
	r.mu.Lock()
	if len(r.samples) < r.maxSamples {
		r.samples = append(r.samples, v)
	}
	r.mu.Unlock()
}

// Count adds to a named monitor counter reported in the evidence.
func (r *Run) Count(name string, delta int) {
	r.mu.Lock()
	r.counters[name] += int64(delta)
	r.mu.Unlock()
}

func (r *Run) Counter(name string) int64 {
	r.mu.Lock()
	defer r.mu.Unlock()
	return r.counters[name]
}

// Extra sets an arbitrary evidence key under coverage.
func (r *Run) Extra(name string, v any) {
	r.mu.Lock()
	r.extra[name] = v
	r.mu.Unlock()
}

func (r *Run) Rule(s string) { r.rule = s }

func (r *Run) Assume(s ...string) { r.assumptions = append(r.assumptions, s...) }

// Inconclusive records that (part of) the run could not reach a verdict.
func (r *Run) Inconclusive(format string, args ...any) {
	r.mu.Lock()
	r.inconcl = append(r.inconcl, fmt.Sprintf(format, args...))
	r.mu.Unlock()
}

func sanitize(s string) string {
	var b strings.Builder
	for _, c := range s {
		switch {
		case c >= 'a' && c <= 'z', c >= 'A' && c <= 'Z', c >= '0' && c <= '9', c == '-', c == '_', c == '.':
			b.WriteRune(c)
		default:
			b.WriteByte('_')
		}
	}
	out := b.String()
	if len(out) > 80 {
		out = out[:80]
	}
	return out
}

// Violation records a refutation of the property. key classifies the witness
// (it is matched against known_findings.json); witness is written to the
// replay file. Only the first 3 witnesses per key are kept in full.
func (r *Run) Violation(key string, witness any, format string, args ...any) {
	detail := fmt.Sprintf(format, args...)
	r.mu.Lock()
	defer r.mu.Unlock()
	r.seenKeys[key]++
	if r.seenKeys[key] > 3 {
		return
	}
	known := false
	for _, f := range r.known {
		if f.Status == "open" && f.Key == key {
			known = true
		}
	}
	wb, err := json.Marshal(witness)
	if err != nil {
		wb, _ = json.Marshal(fmt.Sprintf("%+v", witness))
	}
	rf := ReplayFile{Property: r.Prop, Key: key, Tier: r.tier, Seed: r.seed, Detail: detail, Witness: wb}
	dir := os.Getenv("VERIF_REPLAYS") // scratch-tree runs keep their witnesses apart
	if dir == "" {
		dir = filepath.Join(Root(), "replays")
	}
	_ = os.MkdirAll(dir, 0o755)
	tag := ""
	if r.replayIn != nil {
		tag = "-replayed" // never overwrite the witness being replayed
	}
	path := filepath.Join(dir, fmt.Sprintf("%s-%s-s%d-%d%s.json", r.Prop, sanitize(key), r.seed, r.seenKeys[key], tag))
	b, _ := json.MarshalIndent(rf, "", " ")
	_ = os.WriteFile(path, b, 0o644)
	r.violations = append(r.violations, violation{Key: key, Detail: detail, Replay: path, Known: known})
}

// Violations returns the number of (unknown) violations so far.
func (r *Run) Violations() int {
	r.mu.Lock()
	defer r.mu.Unlock()
	n := 0
	for _, v := range r.violations {
		if !v.Known {
			n++
		}
	}
	return n
}

// Guard runs f and turns a panic into a violation with key "panic/<where>".
func (r *Run) Guard(where string, witness any, f func()) {
	defer func() {
		if p := recover(); p != nil {
			r.Violation("panic/"+where, witness, "panic in %s: %v\n%s", where, p, debug.Stack())
		}
	}()
	f()
}

type evidence struct {
	PropertyID  string         `json:"property_id"`
	Tier        string         `json:"tier"`
	Seed        int64          `json:"seed"`
	Level       string         `json:"level"`
	Coverage    map[string]any `json:"coverage"`
	Assumptions []string       `json:"assumptions,omitempty"`
	WallS       float64        `json:"wall_s"`
	Violations  int            `json:"violations"`
}

// Finish writes the evidence file and the verdict file and fails the test on
// violation / inconclusive. minDistinct is the minimum number of distinct
// non-trivial cases below which the run is inconclusive (>= 2).
func (r *Run) Finish(minDistinct int) {
	r.mu.Lock()
	defer r.mu.Unlock()
	if r.finished {
		return
	}
	r.finished = true
	if minDistinct < 2 {
		minDistinct = 2
	}
	replaying := r.replayIn != nil
	if len(r.distinct) < minDistinct && !replaying {
		r.inconcl = append(r.inconcl, fmt.Sprintf("only %d distinct non-trivial cases observed (minimum %d)", len(r.distinct), minDistinct))
	}
	var lines []string
	nviol := 0
	knownPrinted := map[string]bool{}
	for _, v := range r.violations {
		if v.Known {
			if !knownPrinted[v.Key] {
				knownPrinted[v.Key] = true
				lines = append(lines, fmt.Sprintf("KNOWN-FINDING: property=%s key=%s %s (occurrences=%d, witness=%s)", r.Prop, v.Key, oneLine(v.Detail), r.seenKeys[v.Key], v.Replay))
			}
			continue
		}
		nviol++
		lines = append(lines, fmt.Sprintf("VIOLATION property=%s replay=%s", r.Prop, v.Replay))
		lines = append(lines, fmt.Sprintf("  key=%s occurrences=%d: %s", v.Key, r.seenKeys[v.Key], oneLine(v.Detail)))
	}
	for _, s := range r.inconcl {
		lines = append(lines, fmt.Sprintf("INCONCLUSIVE property=%s %s", r.Prop, oneLine(s)))
	}
	cov := map[string]any{
		"evaluations":         r.evals,
		"distinct_nontrivial": len(r.distinct),
		"rule":                r.rule,
		"samples":             r.samples,
	}
	if len(r.samples) == 0 {
		cov["samples"] = r.autoSamples
		if len(r.autoSamples) == 0 {
			cov["samples"] = []any{}
		}
	}
	names := make([]string, 0, len(r.counters))
	for k := range r.counters {
		names = append(names, k)
	}
	sort.Strings(names)
	ctr := map[string]int64{}
	for _, k := range names {
		ctr[k] = r.counters[k]
	}
	cov["counters"] = ctr
	for k, v := range r.extra {
		cov[k] = v
	}
	if len(r.seenKeys) > 0 {
		cov["violation_keys"] = r.seenKeys
	}
	if len(r.inconcl) > 0 {
		cov["inconclusive"] = r.inconcl
	}
	ev := evidence{
		PropertyID: r.Prop, Tier: r.tier, Seed: int64(r.seed), Level: r.Level,
		Coverage: cov, Assumptions: r.assumptions,
		WallS: time.Since(r.start).Seconds(), Violations: nviol,
	}
	summary := fmt.Sprintf("SUMMARY property=%s tier=%s seed=%d evaluations=%d distinct_nontrivial=%d violations=%d known=%d inconclusive=%d wall_s=%.1f",
		r.Prop, r.tier, r.seed, r.evals, len(r.distinct), nviol, len(knownPrinted), len(r.inconcl), ev.WallS)
	lines = append(lines, summary)
	if !replaying {
		evPath := os.Getenv("VERIF_EVIDENCE")
		if evPath == "" {
			evPath = filepath.Join(Root(), "evidence", r.Prop+".json")
		}
		_ = os.MkdirAll(filepath.Dir(evPath), 0o755)
		b, err := json.MarshalIndent(ev, "", " ")
		if err != nil {
			r.T.Fatalf("evidence marshal: %v", err)
		}
		if err := os.WriteFile(evPath, append(b, '\n'), 0o644); err != nil {
			r.T.Fatalf("evidence write: %v", err)
		}
	}
	out := strings.Join(lines, "\n") + "\n"
	if vf := os.Getenv("VERIF_VERDICT"); vf != "" {
		f, err := os.OpenFile(vf, os.O_APPEND|os.O_CREATE|os.O_WRONLY, 0o644)
		if err == nil {
			_, _ = f.WriteString(out)
			_ = f.Close()
		}
	}
	r.T.Log("\n" + out)
	if nviol > 0 {
		r.T.Fail()
	} else if len(r.inconcl) > 0 {
		r.T.Fail()
	}
}

func oneLine(s string) string {
	s = strings.ReplaceAll(s, "\n", " | ")
	if len(s) > 600 {
		s = s[:600] + "…"
	}
	return s
}

// Hex is a small helper for witnesses.
func Hex(b []byte) string { return hex.EncodeToString(b) }
