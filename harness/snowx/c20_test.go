package snowx

import (
	"bytes"
	"encoding/json"
	"errors"
	"fmt"
	"math/rand/v2"
	"runtime"
	"sync"
	"sync/atomic"
	"testing"
	"time"

	"github.com/ava-labs/avalanchego/ids"

	"github.com/ava-labs/hypersdk/zzverif/kit"
	"github.com/ava-labs/hypersdk/zzverif/kit/hooks"
)

// ------------------------------------------------------- lookup oracle ----

// checkHeight compares every lookup of one accepted height with the model.
func (e *engine) checkHeight(n *node) {
	h, id := n.b.Hght, n.b.id
	e.stat["lookups"] += 3
	gotID, err := e.vm.GetBlockIDAtHeight(e.ctx, h)
	if err != nil || gotID != id {
		e.cc.violation("lookup-height", "GetBlockIDAtHeight(%d) = (%s, %v), accepted chain has %s", h, short(gotID), err, n.b)
	}
	sb, err := e.vm.GetBlock(e.ctx, id)
	if err != nil || sb == nil || sb.ID() != id || sb.Height() != h || !bytes.Equal(sb.Bytes(), n.b.bytes) {
		e.cc.violation("lookup-id", "GetBlock(%s) = (%v, %v), accepted chain has %s", short(id), sb, err, n.b)
	}
	sb, err = e.vm.GetBlockByHeight(e.ctx, h)
	if err != nil || sb == nil || sb.ID() != id || sb.Height() != h {
		e.cc.violation("lookup-height", "GetBlockByHeight(%d) = (%v, %v), accepted chain has %s", h, sb, err, n.b)
	}
}

// checkLookups: after every step GetBlock / GetBlockIDAtHeight / LastAccepted
// must describe the model's accepted chain (sampled heights; all if full).
func (e *engine) checkLookups(full bool) {
	e.r.Guard("lookups", e.cc.witness(), func() {
		tip := e.last
		id, err := e.vm.LastAccepted(e.ctx)
		if err != nil || id != tip.b.id {
			e.cc.violation("lookup-last-accepted", "LastAccepted() = (%s, %v), engine's last accepted block is %s", short(id), err, tip.b)
		}
		if la := e.vm.LastAcceptedBlock(e.ctx); la == nil || la.ID() != tip.b.id {
			e.cc.violation("lookup-last-accepted", "LastAcceptedBlock() = %v, engine's last accepted block is %s", la, tip.b)
		}
		k := len(e.accepted)
		if full || k <= 12 {
			for _, n := range e.accepted {
				e.checkHeight(n)
			}
		} else {
			for i := 0; i < 2; i++ {
				e.checkHeight(e.accepted[i])
			}
			for i := k - 6; i < k; i++ {
				e.checkHeight(e.accepted[i])
			}
			for i := 0; i < 4; i++ {
				e.checkHeight(e.accepted[2+e.rng.IntN(k-8)])
			}
		}
		// heights above the tip are not part of the accepted chain
		for _, h := range []uint64{tip.b.Hght + 1, tip.b.Hght + 2, tip.b.Hght + 1 + uint64(e.rng.IntN(8))} {
			e.stat["lookups_above_tip"] += 2
			if gotID, err := e.vm.GetBlockIDAtHeight(e.ctx, h); err == nil {
				e.cc.violation("lookup-height", "GetBlockIDAtHeight(%d) = %s although the accepted chain ends at height %d", h, short(gotID), tip.b.Hght)
			}
			if sb, err := e.vm.GetBlockByHeight(e.ctx, h); err == nil {
				e.cc.violation("lookup-height", "GetBlockByHeight(%d) = %v although the accepted chain ends at height %d", h, sb, tip.b.Hght)
			}
		}
	})
}

// ----------------------------------------------------- concurrent readers ----

type readObs struct {
	kind      byte
	h         uint64
	want      ids.ID
	got       ids.ID
	gotH      uint64
	failed    bool
	errStr    string
	tipBefore uint64
}

// reader calls the application-facing lookup API (ConsensusIndex) while the
// engine thread and the async accepter run. Observations are judged after the
// case against the final accepted chain (accepted blocks are final).
//
// hammer: ask mostly for the height of the current tip, the lookup that is
// answered from the last-accepted pointer the engine thread is replacing.
func (e *engine) reader(seed uint64, hammer bool, stop *atomic.Bool, out *int, wg *sync.WaitGroup) {
	defer wg.Done()
	rng := rand.New(rand.NewPCG(seed, 77))
	ci := e.chain.ci
	nobs := 0
	for !stop.Load() {
		e.amu.Lock()
		tip := e.tipH
		h := uint64(rng.IntN(int(tip) + 3))
		k := rng.IntN(3)
		if hammer && rng.IntN(10) < 8 {
			h, k = tip, 0
		}
		want, have := e.accByH[h]
		e.amu.Unlock()
		o := readObs{h: h, tipBefore: tip, want: want}
		switch {
		case k == 0:
			o.kind = 'H'
			b, err := ci.GetBlockByHeight(e.ctx, h)
			if err != nil || b == nil {
				o.failed, o.errStr = true, fmt.Sprint(err)
			} else {
				o.got, o.gotH = b.GetID(), b.GetHeight()
			}
		case k == 1 && have:
			o.kind = 'I'
			b, err := ci.GetBlock(e.ctx, want)
			if err != nil || b == nil {
				o.failed, o.errStr = true, fmt.Sprint(err)
			} else {
				o.got, o.gotH = b.GetID(), b.GetHeight()
			}
		default:
			o.kind = 'L'
			a, err := ci.GetLastAccepted(e.ctx)
			if err != nil || a == nil {
				o.failed, o.errStr = true, fmt.Sprint(err)
			} else {
				o.got, o.gotH = a.GetID(), a.GetHeight()
			}
		}
		e.judgeRead(o) // reads only facts that are already final
		nobs++
		if !hammer {
			runtime.Gosched()
		}
	}
	*out = nobs
}

// judgeRead judges one concurrent observation. Accepted blocks are final, so
// a successful lookup must name the block the engine accepted at that height
// (the engine publishes its decision to accByH right after Accept returns; a
// lookup that already sees a block the model does not list yet is re-checked
// at the end of the case).
func (e *engine) judgeRead(o readObs) {
	lookup := func(h uint64) (ids.ID, bool) {
		e.amu.Lock()
		defer e.amu.Unlock()
		id, ok := e.accByH[h]
		return id, ok
	}
	switch o.kind {
	case 'H':
		if o.failed {
			if o.h <= o.tipBefore {
				e.cc.violation("lookup-concurrent", "concurrent GetBlockByHeight(%d) failed (%s) although height %d was already accepted", o.h, o.errStr, o.tipBefore)
			}
			return
		}
		if o.gotH != o.h {
			e.cc.violation("lookup-concurrent", "concurrent GetBlockByHeight(%d) returned block %s of height %d", o.h, short(o.got), o.gotH)
			return
		}
		if want, ok := lookup(o.h); ok && want != o.got {
			e.cc.violation("lookup-concurrent", "concurrent GetBlockByHeight(%d) returned block %s; accepted chain has %s there", o.h, short(o.got), short(want))
		} else if !ok {
			e.deferRead(o)
		}
	case 'I':
		if o.failed || o.got != o.want || o.gotH != o.h {
			e.cc.violation("lookup-concurrent", "concurrent GetBlock(%s) (accepted at height %d) = (%s, h=%d, err=%v)", short(o.want), o.h, short(o.got), o.gotH, o.errStr)
		}
	case 'L':
		if o.failed {
			e.cc.violation("lookup-concurrent", "concurrent GetLastAccepted failed: %s", o.errStr)
			return
		}
		if want, ok := lookup(o.gotH); ok && want != o.got {
			e.cc.violation("lookup-concurrent", "concurrent GetLastAccepted returned %s at height %d which is not on the accepted chain", short(o.got), o.gotH)
		} else if !ok {
			e.deferRead(o)
		}
	}
}

func (e *engine) deferRead(o readObs) {
	e.amu.Lock()
	if len(e.deferred) < 10000 {
		e.deferred = append(e.deferred, o)
	}
	e.amu.Unlock()
}

// judgeDeferred re-checks, against the final chain, the observations that ran
// ahead of the model.
func (e *engine) judgeDeferred() {
	for _, o := range e.deferred {
		if want, ok := e.accByH[o.gotH]; !ok || want != o.got {
			e.cc.violation("lookup-concurrent", "concurrent lookup (%c, height %d) returned %s at height %d which never became part of the accepted chain", o.kind, o.h, short(o.got), o.gotH)
		}
	}
}

// ------------------------------------------- lookups overlapping an Accept ----

// acceptDuringLookup accepts m (a processing child of the last accepted block
// n, height h) exactly while a lookup by height issued on another goroutine is
// inspecting n: the lookup goroutine is held inside GetHeight() of n's block
// object (the fixture's own block type, see recChain.heightHook) until
// Accept(m) returned on the engine thread. This is the schedule "the reader is
// descheduled between looking at the last accepted block and answering"; it is
// reached by a handshake, nothing sleeps. The lookup started when h was
// accepted, so an answer for a height <= h must be the accepted block of that
// height; for h+1 it may be "not found" or m.
func (e *engine) acceptDuringLookup(m *node, sync bool) {
	n := e.last
	h := n.b.Hght
	x := h
	switch y := e.rng.IntN(10); {
	case y < 1 && h > 0:
		x = h - 1
	case y < 3:
		x = h + 1
	}
	api := [...]string{"VM.GetBlockIDAtHeight", "VM.GetBlockIDAtHeight", "VM.GetBlockByHeight", "ConsensusIndex.GetBlockByHeight"}[e.rng.IntN(4)]
	e.op('f', "lookup %s(%d) overlapped by the accept of %s", api, x, m.b)
	w := &forcedWin{id: n.b.id, trigger: make(chan struct{}), done: make(chan struct{})}
	var (
		got  ids.ID
		gotH uint64
		err  error
	)
	vm, ci, ctx, chain := e.vm, e.chain.ci, e.ctx, e.chain
	wit := e.cc.witness()
	lookupDone := kit.Go(func() {
		w.goid = curGoid()
		chain.forced.Store(w)
		defer chain.forced.Store(nil)
		e.r.Guard(api, wit, func() {
			switch api {
			case "VM.GetBlockIDAtHeight":
				got, err = vm.GetBlockIDAtHeight(ctx, x)
				gotH = x
			case "VM.GetBlockByHeight":
				var sb *sblock
				if sb, err = vm.GetBlockByHeight(ctx, x); err == nil && sb != nil {
					got, gotH = sb.ID(), sb.Height()
				} else if err == nil {
					err = errors.New("nil block")
				}
			default:
				var b *blk
				if b, err = ci.GetBlockByHeight(ctx, x); err == nil && b != nil {
					got, gotH = b.id, b.Hght
				} else if err == nil {
					err = errors.New("nil block")
				}
			}
		})
	})
	select {
	case <-w.trigger:
		e.stat["forced_windows"]++
		e.stat["forced_windows_"+api]++
		e.accept(m, sync)
		close(w.done)
	case <-lookupDone:
		// the lookup never inspected the last accepted block: no window to use
		e.stat["forced_window_not_reached"]++
		e.accept(m, sync)
	}
	res, stacks := kit.AwaitOrDeadlock(lookupDone, []string{"hypersdk/snow.", "hypersdk/snow/"}, deadlockGrace, deadlockWatchdog)
	if res == kit.Deadlock {
		e.fail("lookup-deadlock", "%s(%d) overlapped by Accept(%s) never returned; every goroutine of the wrapper is parked:\n%s", api, x, m.b, stacks)
		return
	} else if res == kit.Unknown {
		e.dead = true
		e.r.Inconclusive("case %d: a lookup by height overlapped by an Accept did not return within the watchdog and no deadlock witness was found", e.cc.wit.Case)
		return
	}
	if w.escaped.Load() {
		e.stat["forced_window_escaped"]++
	}
	if e.dead {
		return
	}
	accepted := m.st == stAccepted
	switch {
	case x <= h:
		want := e.accepted[x].b // C20 chains start at height 0
		if err != nil {
			e.cc.violation("lookup-height-during-accept", "%s(%d) issued while height %d was the last accepted block and overlapped by Accept(%s) failed: %v", api, x, h, m.b, err)
		} else if got != want.id || gotH != x {
			what := "another block"
			if got == m.b.id {
				what = fmt.Sprintf("the block of height %d accepted during the call", m.b.Hght)
			}
			e.cc.violation("lookup-height-during-accept", "%s(%d) issued while height %d was the last accepted block and overlapped by Accept(%s) returned %s (h=%d) = %s; the accepted chain has %s at height %d", api, x, h, m.b, short(got), gotH, what, want, x)
		}
	default:
		if err == nil && (!accepted || got != m.b.id || gotH != x) {
			e.cc.violation("lookup-height-during-accept", "%s(%d) overlapped by Accept(%s) returned %s (h=%d) which is not the block accepted at that height", api, x, m.b, short(got), gotH)
		} else if err != nil {
			e.stat["forced_lookup_above_tip_not_found"]++
		}
	}
}

// hammerObs is one answer of VM.GetBlockIDAtHeight obtained by a hammering reader.
type hammerObs struct {
	h      uint64
	pub    uint64 // tip the engine had published before the call started
	got    ids.ID
	failed bool
	errStr string
}

type hammerRes struct {
	reads, atTip, overlapped, notFoundAhead int
	bad                                     []hammerObs // contradict the published chain
	deferred                                []hammerObs // answered ahead of what the engine had published
}

// hammer asks VM.GetBlockIDAtHeight for the height that is the last accepted
// one at the time of the call (and its neighbours) as fast as it can while the
// engine thread accepts a run of consecutive blocks. An answer for height h
// must be the accepted block of height h, or "not found" if the engine had not
// yet accepted h when the call started - never the block of another height.
func (e *engine) hammer(seed uint64, stop *atomic.Bool, res *hammerRes, wg *sync.WaitGroup) {
	defer wg.Done()
	rng := rand.New(rand.NewPCG(seed, 99))
	hl := e.hlog
	for !stop.Load() {
		pub := uint64(hl.n.Load() - 1)
		s0 := e.acceptSeq.Load()
		h := pub
		switch y := rng.IntN(20); {
		case y < 13:
			h = e.vm.LastAcceptedBlock(e.ctx).Height() // the very block the next Accept replaces
			res.atTip++
		case y < 15:
			res.atTip++
		case y < 17:
			if pub > 0 {
				h = pub - 1
			}
		case y < 19:
			h = pub + 1
		default:
			h = pub + 2
		}
		id, err := e.vm.GetBlockIDAtHeight(e.ctx, h)
		res.reads++
		if s1 := e.acceptSeq.Load(); s1 != s0 || s0&1 == 1 {
			res.overlapped++
		}
		o := hammerObs{h: h, pub: pub, got: id}
		if err != nil {
			if h > pub {
				res.notFoundAhead++
				continue
			}
			o.failed, o.errStr = true, err.Error()
			if len(res.bad) < 4 {
				res.bad = append(res.bad, o)
			}
			continue
		}
		if want, ok := hl.get(h); ok {
			if want != id && len(res.bad) < 4 {
				res.bad = append(res.bad, o)
			}
		} else if len(res.deferred) < 1<<16 {
			res.deferred = append(res.deferred, o)
		}
	}
}

// judgeHammer reports what the hammering readers saw (engine thread, readers stopped).
func (e *engine) judgeHammer(all []hammerRes) {
	report := func(o hammerObs) {
		want, ok := e.accByH[o.h]
		switch {
		case o.failed:
			e.cc.violation("lookup-concurrent", "concurrent GetBlockIDAtHeight(%d) failed (%s) although the engine had accepted height %d before the call", o.h, o.errStr, o.pub)
		case ok && want == o.got:
		default:
			if x := e.byID[o.got]; x != nil && x.st == stAccepted && x.b.Hght != o.h {
				e.cc.violation("lookup-height-concurrent-other-height", "concurrent GetBlockIDAtHeight(%d) (engine's tip before the call: %d) returned %s, the accepted block of height %d; the accepted chain has %s at height %d", o.h, o.pub, short(o.got), x.b.Hght, short(want), o.h)
			} else {
				e.cc.violation("lookup-concurrent", "concurrent GetBlockIDAtHeight(%d) returned %s; the accepted chain has %s there (known=%v)", o.h, short(o.got), short(want), ok)
			}
		}
	}
	for _, res := range all {
		e.stat["hammer_reads"] += res.reads
		e.stat["hammer_reads_for_tip_height"] += res.atTip
		e.stat["hammer_reads_overlapping_accept"] += res.overlapped
		e.stat["hammer_not_found_above_tip"] += res.notFoundAhead
		e.stat["hammer_answers_ahead_of_engine"] += len(res.deferred)
		for _, o := range res.bad {
			report(o)
		}
		nbad := 0
		for _, o := range res.deferred {
			if want, ok := e.accByH[o.h]; (!ok || want != o.got) && nbad < 4 {
				nbad++
				report(o)
			}
		}
	}
}

// --------------------------------------------------------------- a case ----

type c20Result struct {
	shape      string
	nontrivial bool
	stat       map[string]int
	sample     any
}

// c20Mode is the part of a case that is not derived from its seed.
type c20Mode struct {
	Readers int  `json:"readers"` // goroutines calling the lookup API concurrently
	Stress  bool `json:"stress"`  // straight-line accept stream with readers asking for the tip height
	Hammer  int  `json:"hammer"`  // stress only: goroutines hammering VM.GetBlockIDAtHeight(tip height)
}

func runC20Case(t testing.TB, r *kit.Run, idx int, seed [2]uint64, mode c20Mode) c20Result {
	rng := rand.New(rand.NewPCG(seed[0], seed[1]))
	sizes := []int{1, 2, 4}
	lags := []int{0, 1, 2, 3, 6, 12}
	cfg := vmCfg{
		ParsedCache:   sizes[rng.IntN(3)],
		AcceptedCache: sizes[rng.IntN(3)],
		MaxLag:        lags[rng.IntN(len(lags))],
		Ready:         true,
	}
	steps := 30 + rng.IntN(70)
	if mode.Stress {
		steps = 36 + rng.IntN(10)
	}
	cc := &caseCtx{r: r, prop: "C20", wit: caseWitness{Case: idx, Seed: seed, Cfg: map[string]any{"vm": cfg, "mode": mode}}}
	genesis := makeBlk(ids.Empty, 0, 1_000, uint64(idx), false, 0)
	chain, vm, err := startVM(t, cc, cfg, genesis)
	if err != nil {
		cc.violation("initialize-failed", "Initialize: %v", err)
		return c20Result{}
	}
	e := newEngine(cc, r, rng, cfg, chain, vm, genesis)
	e.ctxP, e.probeP = 30, 30
	e.firstHandleP, e.checkKnown, e.forceP = 60, true, 20
	if cfg.MaxLag > 0 {
		chain.gate.setOpen(false)
	}
	var hres []hammerRes
	if mode.Stress {
		e.forceP = 30
		e.hlog = newHeightLog(steps+2, genesis.id)
		chain.yieldHeights.Store(true)
		hres = make([]hammerRes, mode.Hammer)
	}

	var stop atomic.Bool
	var wg sync.WaitGroup
	reads := make([]int, mode.Readers)
	for i := 0; i < mode.Readers; i++ {
		wg.Add(1)
		go e.reader(seed[0]+uint64(i), mode.Stress, &stop, &reads[i], &wg)
	}
	for i := range hres {
		wg.Add(1)
		go e.hammer(seed[1]+uint64(i), &stop, &hres[i], &wg)
	}

	e.checkLookups(true)
	for s := 0; s < steps && !e.dead; s++ {
		if mode.Stress {
			e.stepStress()
			continue
		}
		e.stepC20()
		if !e.dead {
			e.checkLookups(false)
		}
	}
	stop.Store(true)
	wg.Wait()
	for _, k := range reads {
		e.stat["concurrent_reads"] += k
	}
	chain.yieldHeights.Store(false)
	if mode.Stress {
		e.stat["stress_cases"] = 1
		e.r.Guard("judgeHammer", cc.witness(), func() { e.judgeHammer(hres) })
	}

	quiesced := e.shutdown()
	if quiesced && !e.dead {
		e.checkLookups(true)
		e.checkNotifications(e.accepted[0])
		e.judgeDeferred()
	}

	chain.mu.Lock()
	e.stat["chain_verify_calls"] = len(chain.verifyCalls)
	e.stat["chain_accept_calls"] = len(chain.acceptCalls)
	e.stat["accept_parent_unpopulated"] = chain.parentUnpopulated
	for _, m := range []struct {
		n string
		m map[ids.ID]int
	}{{"notif_verified", chain.nVerified}, {"notif_accepted", chain.nAccepted}, {"notif_rejected", chain.nRejected}} {
		for _, k := range m.m {
			e.stat[m.n] += k
		}
	}
	chain.mu.Unlock()
	if e.maxSeen > 0 {
		e.stat["cases_with_lag"] = 1
	}
	if e.stat["accepts"] > cfg.AcceptedCache {
		e.stat["cases_with_accepted_cache_eviction"] = 1
	}
	if e.stat["verify_ctx_mismatch_refused"] > 0 {
		e.stat["cases_with_ctx_mismatch_verify"] = 1
	}
	if e.stat["accept_probes"] > 0 {
		e.stat["cases_with_accept_probe"] = 1
	}
	res := c20Result{
		shape:      fmt.Sprintf("%d/%d/%d/%s", cfg.ParsedCache, cfg.AcceptedCache, cfg.MaxLag, e.shape),
		nontrivial: e.stat["accepts"] >= 3 && e.stat["rejects"] >= 1 && !e.dead && quiesced && !mode.Stress,
		stat:       e.stat,
	}
	if idx < 3 {
		res.sample = map[string]any{"cfg": cfg, "steps": steps, "ops": string(e.shape), "accepts": e.stat["accepts"], "rejects": e.stat["rejects"], "max_lag": e.maxSeen}
	}
	return res
}

// stepStress extends the accepted chain by one block (sometimes with a
// rejected sibling) as fast as the wrapper allows.
func (e *engine) stepStress() {
	n := e.parseNew(e.last, false, 0)
	if n == nil {
		return
	}
	e.verify(n)
	if e.dead || n.st != stProcessing {
		return
	}
	if e.rng.IntN(8) == 0 {
		if s := e.parseNew(e.last, false, 0); s != nil {
			e.verify(s)
		}
	}
	if !e.dead {
		e.acceptMaybeForced(n, false)
	}
	if e.rng.IntN(4) == 0 {
		e.grantSome()
	}
}

// acceptMaybeForced issues the accept of n, forceP% of the time exactly while
// a lookup by height is in flight (see acceptDuringLookup).
func (e *engine) acceptMaybeForced(n *node, sync bool) {
	if e.forceP > 0 && e.rng.IntN(100) < e.forceP && n.parent == e.last {
		e.acceptDuringLookup(n, sync)
		return
	}
	e.accept(n, sync)
}

// stepStale plays the history in which the parsed-block cache holds a stale
// wrapper of a block the VM meanwhile verified or accepted: a pending block X
// (the engine keeps its first wrapper) is pushed out of the cache by unrelated
// parses, arrives again (second wrapper, dropped by the engine), is then
// verified - mostly through the first wrapper - and its bytes arrive once
// more while it is processing and, after its acceptance, while it is the last
// accepted block. What ParseBlock returns is judged in reparse.
func (e *engine) stepStale() {
	var x *node
	if e.rng.IntN(2) == 0 {
		x = e.pick(e.verifiable)
	}
	if x == nil {
		if e.rng.IntN(4) == 0 && e.prefOK(e.pref) {
			x = e.build() // a built block left pending
		} else {
			parent := e.last
			if e.rng.IntN(2) == 0 {
				if p := e.pick(func(n *node) bool { return n.st == stProcessing && e.usable(n) }); p != nil {
					parent = p
				}
			}
			x = e.parseNew(parent, false, 0)
		}
	}
	if x == nil || e.dead {
		return
	}
	e.stat["stale_scenarios"]++
	e.parseNoise(e.cfg.ParsedCache + e.rng.IntN(2)) // X leaves the parsed-block cache
	e.reparse(x)                                    // gossiped again
	if e.dead {
		return
	}
	if e.rng.IntN(3) == 0 {
		e.parseNoise(e.rng.IntN(e.cfg.ParsedCache + 1)) // the second wrapper may be evicted as well
	}
	if !e.verifiable(x) {
		return
	}
	e.verify(x)
	if e.dead || x.st != stProcessing {
		return
	}
	if e.rng.IntN(4) > 0 {
		e.stat["stale_reparse_processing"]++
		e.reparse(x)
	}
	if e.dead || x.parent != e.last || x.b.Invalid || !e.usable(x) || e.rng.IntN(2) == 0 {
		return
	}
	e.accept(x, e.cfg.MaxLag == 0 && e.rng.IntN(2) == 0)
	if !e.dead {
		e.stat["stale_reparse_last_accepted"]++
		e.reparse(x)
		e.repairPref()
	}
}

// stepC20 performs one randomly chosen engine action (ready VM).
func (e *engine) stepC20() {
	x := e.rng.IntN(100)
	switch {
	case x < 13: // build on the preference
		if !e.prefOK(e.pref) {
			e.repairPref()
			return
		}
		n := e.build()
		if n == nil {
			return
		}
		if e.rng.IntN(100) < 85 {
			e.verify(n)
			if n.st == stProcessing && e.rng.IntN(100) < 60 {
				e.setPref(n)
			}
		}
	case x < 39: // a new block arrives from the network
		var parent *node
		y := e.rng.IntN(100)
		switch {
		case y < 35: // extend the deepest processing block (deep forks)
			for _, n := range e.nodes {
				if n.st == stProcessing && (parent == nil || n.b.Hght > parent.b.Hght) {
					parent = n
				}
			}
			if parent == nil {
				parent = e.last
			}
		case y < 60:
			parent = e.pick(func(n *node) bool { return n.st == stProcessing })
			if parent == nil {
				parent = e.last
			}
		case y < 80:
			parent = e.last
		case y < 86: // child of a block that is itself not verified yet
			parent = e.pick(func(n *node) bool { return n.st == stKnown })
		case y < 91: // conflicts with the accepted chain
			parent = e.pick(func(n *node) bool { return n.st == stAccepted })
		case y < 96: // child of a rejected block
			parent = e.pick(func(n *node) bool { return n.st == stRejected })
		default: // unknown parent
		}
		invalid := e.rng.IntN(100) < 15
		flaky := 0
		if !invalid && e.rng.IntN(100) < 12 {
			flaky = 1 + e.rng.IntN(2)
		}
		n := e.parseNew(parent, invalid, flaky)
		if n != nil && e.verifiable(n) && e.rng.IntN(100) < 80 {
			e.verify(n)
		}
	case x < 47: // issue a pending block
		if n := e.pick(e.verifiable); n != nil {
			if e.rng.IntN(2) == 0 {
				e.reparse(n)
			}
			if !e.dead {
				e.verify(n)
			}
		}
	case x < 58: // bytes of an already known block arrive again, at times after enough other parses to evict it from the parsed-block cache
		var n *node
		switch y := e.rng.IntN(10); {
		case y < 3:
			n = e.pick(func(n *node) bool { return n.st == stProcessing })
		case y < 5:
			n = e.last
		}
		if n == nil {
			n = e.pick(func(*node) bool { return true })
		}
		if e.rng.IntN(100) < 35 {
			e.parseNoise(e.cfg.ParsedCache + e.rng.IntN(2))
		}
		if !e.dead {
			e.reparse(n)
		}
	case x < 65: // eviction / re-gossip / verify / re-gossip history of one pending block
		e.stepStale()
	case x < 70:
		if n := e.pick(e.prefOK); n != nil {
			e.setPref(n)
		}
	case x < 89: // a poll finalizes one or more blocks
		depth := 1
		if e.rng.IntN(100) < 40 {
			depth += e.rng.IntN(5)
		}
		for d := 0; d < depth && !e.dead; d++ {
			n := e.acceptCandidate()
			if n == nil {
				break
			}
			e.acceptMaybeForced(n, e.cfg.MaxLag == 0 && e.rng.IntN(2) == 0)
		}
		e.repairPref()
	default:
		e.grantSome()
	}
}

// --------------------------------------------------------------- the test ----

func TestC20(t *testing.T) {
	r := kit.Start(t, "C20", "exploration")
	r.Rule("case = (VM config with ParsedBlockCacheSize, AcceptedBlockWindowCache in {1,2,4}, async accept lag bound in {0,1,2,3,6,12}) + 30..99 random actions of a model snowman engine (build on preference, parse new block on a processing/last-accepted/unverified/accepted/rejected/unknown parent, valid/invalid/transiently failing, issue pending block, re-parse known bytes, set preference, accept 1..5 blocks of a branch with transitive rejection of the conflicting subtrees, release the gated accept queue). " +
		"30% of the new (parsed or built) blocks embed a P-Chain context; 22% of the verifications are preceded by a VerifyWithContext of the same block with a mismatching context (missing / extra / other height), followed at once or later by the call with the right one. " +
		"30% of the accepts are stopped inside ChainIndex.UpdateLastAccepted (before the write and right after = hook window snow.accept.afterIndex) while a reader goroutine looks up by id the block being accepted and up to 7 other processing blocks. " +
		"Already-known blocks: 60% of the verifications go through the engine's FIRST wrapper of the block; known bytes (pending, processing, accepted, rejected blocks, with a bias to processing blocks and the last accepted block) are parsed again at arbitrary points, 35% of the time after ParsedBlockCacheSize(+1) unrelated parses; 7% of the actions play the history pending block -> evicted from the parsed-block cache -> parsed again -> verified -> parsed again (-> accepted -> parsed again). " +
		"20% of the accepts (30% in stress cases) are issued exactly while a lookup by height (VM.GetBlockIDAtHeight / VM.GetBlockByHeight / ConsensusIndex.GetBlockByHeight for the tip height h, h-1 or h+1) is held inside GetHeight() of the last accepted block (handshake in the fixture's block type, no sleeps). " +
		"The last cases are reader-stress cases: 36..45 consecutive accepts while 3 goroutines hammer VM.GetBlockIDAtHeight with the height that is the last accepted one at call time (and h-1, h+1, h+2) and every 4th GetHeight() call yields the processor. " +
		"Non-trivial = at least 3 accepts and 1 reject; distinct = (config, sequence of action kinds incl. verify/reject sub-steps).")
	r.Assume(
		"the engine model issues only calls snowman can issue: Verify only when the parent is processing or last accepted and the block is undecided, Accept only on a processing child of the last accepted block, Reject exactly on the processing blocks of the conflicting subtrees (parents first), decisions go through the handle that was verified",
		"statement silent on locally built blocks: a built block may produce 0 or 1 verified notification (less demanding reading); every other successfully verified block exactly 1",
		"the one accepted notification of the start-up last accepted block (documented at-least-once delivery) is allowed in addition",
		"whether AcceptBlock receives a populated accepted parent is outside the statement: counted as accept_parent_unpopulated",
		"quiescence point = VM.Shutdown (closes the accept queue and waits for the accepter), judged by a deadlock witness, never by a timeout",
		"the accepted chain of the fixture's ChainIndex is never pruned (window 50000 > case length)",
		"the engine's decision about a Verify call is its result: a call that returned an error (refused by the chain or because of a mismatching P-Chain context) verified nothing, so no verified notification may be sent during it; whether a mismatching context is refused at all is outside the statement (an accepted call is interpreted like any other successful Verify)",
		"lookups by id while an Accept is in flight: a block the engine verified and has not rejected is processing or accepted at every instant of the call, so VM.GetBlock / ConsensusIndex.GetBlock must find it (the lookups run on a second goroutine while Accept is parked inside the chain index update; they are awaited, not timed)",
		"parsing already-known blocks (less demanding reading): for a block the chain verified on the engine's request and that is undecided, and for the last accepted block, ParseBlock must return a wrapper that carries the Output of that execution (any wrapper object); for older accepted blocks only id/height/parent/bytes are compared (the wrapper may serve them from the index without state). A caller may verify what it parsed: Verify on the wrapper returned for a processing block must not make the chain execute the block again nor send another verified notification (the engine took one decision). The engine itself keeps deciding through the wrapper it verified",
		"lookups by height concurrent with an Accept: a lookup for height x that started when x was already accepted (Accept returned) must return the accepted block of height x; a lookup for a height whose Accept had not returned when the lookup started may fail or return that block; never a block of another height. A GetHeight() call on a block object may take arbitrarily long (it is the chain's block type): holding the looking-up goroutine there while the engine thread accepts the next block is a feasible schedule unless the wrapper holds a lock across the call (then the 1 s escape ends the hold and nothing is concluded from it)",
	)
	p := hooks.NewPerturb(r.Rand("hooks"))
	p.PYield, p.PSleep, p.MaxSleep = 0.25, 0.10, 100*time.Microsecond
	p.Install()
	defer hooks.Uninstall()

	mode := c20Mode{Readers: 1}
	workers := 2
	if r.Thorough() {
		mode.Readers = 2
		workers = 4
	}
	if rf := r.Replay(); rf != nil {
		var w caseWitness
		if err := json.Unmarshal(rf.Witness, &w); err != nil {
			t.Fatalf("replay witness: %v", err)
		}
		if m, ok := w.Cfg.(map[string]any); ok {
			if raw, err := json.Marshal(m["mode"]); err == nil {
				_ = json.Unmarshal(raw, &mode)
			}
		}
		runC20Case(t, r, w.Case, w.Seed, mode)
		r.Eval()
		r.Finish(0)
		return
	}
	nStress := r.N(400, 1600) // the last nStress cases are reader stress cases
	n := r.N(2500, 6000) + nStress
	master := r.Rand("cases")
	seeds := make([][2]uint64, n)
	for i := range seeds {
		seeds[i] = [2]uint64{master.Uint64(), master.Uint64()}
	}
	var next atomic.Int64
	var wg sync.WaitGroup
	var mu sync.Mutex
	total := map[string]int{}
	for w := 0; w < workers; w++ {
		wg.Add(1)
		go func() {
			defer wg.Done()
			for {
				i := int(next.Add(1)) - 1
				if i >= n {
					return
				}
				m := mode
				if i >= n-nStress {
					m.Stress, m.Readers, m.Hammer = true, 1, 3
				}
				res := runC20Case(t, r, i, seeds[i], m)
				r.Eval()
				if res.nontrivial {
					r.Distinct(res.shape)
				}
				if res.sample != nil {
					r.Sample(res.sample)
				}
				mu.Lock()
				for k, v := range res.stat {
					total[k] += v
				}
				mu.Unlock()
			}
		}()
	}
	wg.Wait()
	for k, v := range total {
		r.Count(k, v)
	}
	for k, v := range p.Hits() {
		r.Count("hook_"+k, int(v))
	}
	if total["forced_windows"] == 0 || total["reparse_processing_same_handle"]+total["reparse_processing_other_handle"] == 0 || total["hammer_reads_overlapping_accept"] == 0 {
		r.Inconclusive("observation points never reached: forced lookup windows=%d, re-parses of processing blocks=%d, hammer lookups overlapping an Accept=%d",
			total["forced_windows"], total["reparse_processing_same_handle"]+total["reparse_processing_other_handle"], total["hammer_reads_overlapping_accept"])
	}
	r.Extra("cache_sizes", []int{1, 2, 4})
	r.Extra("lag_bounds", []int{0, 1, 2, 3, 6, 12})
	r.Finish(r.N(800, 2500))
}
