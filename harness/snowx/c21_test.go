package snowx

import (
	"encoding/json"
	"fmt"
	"math/rand/v2"
	"os"
	"runtime"
	"sync"
	"sync/atomic"
	"testing"
	"time"

	"github.com/ava-labs/avalanchego/ids"

	"github.com/ava-labs/hypersdk/zzverif/kit"
	"github.com/ava-labs/hypersdk/zzverif/kit/hooks"
)

// c21Cfg is the configuration of one state sync case (all derived from the
// case seed; kept in the witness for the reader).
type c21Cfg struct {
	VM          vmCfg  `json:"vm"`
	Prefix      int    `json:"prefix_blocks"` // blocks executed normally before the sync starts (VM started ready)
	StartGap    int    `json:"start_gap"`     // 0: sync starts at the last accepted block; k: at a block k heights ahead
	SyncSteps   int    `json:"sync_steps"`
	PostSteps   int    `json:"post_steps"`
	FinishMode  string `json:"finish"`   // seq | racing | verify-racing (the engine's Verify of a new block overlaps the finish)
	RaceTrigger int    `json:"trigger"`  // racing: 1 = the rejections run inside a chosen chain callback of FinishStateSync, 0 = unsynchronised
	Finalize    bool   `json:"finalize"` // decide every invalid processing block before the end
	// SplitRejects (seq only): the engine accepts a block, performs only a prefix
	// of the transitive rejections it owes (parents first), calls FinishStateSync
	// from its own thread and performs the remaining rejections afterwards
	SplitRejects bool `json:"split_rejects,omitempty"`
}

// ------------------------------------------------------------ sync start ----

func (e *engine) startSync(gap int) {
	target := e.last
	if gap > 0 {
		e.nonce++
		parent := e.last.b.id
		if gap > 1 {
			parent = ids.ID(foldState(e.last.b.id, ids.ID{byte(gap)}))
		}
		b := makeBlk(parent, e.last.b.Hght+uint64(gap), e.last.b.Tmstmp+int64(gap), e.nonce, false, 0)
		target = &node{b: b, st: stAccepted, base: true}
		e.add(target)
	}
	e.op('S', "StartStateSync %s gap=%d", target.b, gap)
	var err error
	e.r.Guard("StartStateSync", e.cc.witness(), func() { err = e.vm.StartStateSync(e.ctx, target.b) })
	if err != nil {
		e.fail("engine-call-error", "StartStateSync(%s): %v", target.b, err)
		return
	}
	e.ready = false
	if target != e.last {
		e.last = target
		e.accepted = append(e.accepted, target)
	}
	e.syncStart = len(e.accepted) - 1
	e.setPref(target)
}

// stepSync performs one engine action while the VM is syncing: everything is
// vacuous, valid and invalid blocks are indistinguishable to the wrapper.
func (e *engine) stepSync() {
	x := e.rng.IntN(100)
	switch {
	case x < 50:
		var parent *node
		switch y := e.rng.IntN(100); {
		case y < 35:
			for _, n := range e.nodes {
				if n.st == stProcessing && (parent == nil || n.b.Hght > parent.b.Hght) {
					parent = n
				}
			}
		case y < 70:
			parent = e.pick(func(n *node) bool { return n.st == stProcessing })
		}
		if parent == nil {
			parent = e.last
		}
		n := e.parseNew(parent, e.rng.IntN(100) < 30, 0)
		if n != nil && e.rng.IntN(100) < 90 {
			e.verify(n)
		}
	case x < 56:
		if n := e.pick(e.verifiable); n != nil {
			e.verify(n)
		}
	case x < 64:
		if n := e.pick(func(*node) bool { return true }); n != nil {
			e.reparse(n)
		}
	case x < 70:
		if n := e.pick(e.prefOK); n != nil {
			e.setPref(n)
		}
	case x < 92:
		depth := 1 + e.rng.IntN(3)
		for d := 0; d < depth && !e.dead; d++ {
			n := e.acceptCandidate()
			if n == nil {
				break
			}
			e.accept(n, false)
		}
		e.repairPref()
	default:
		e.observeHealth("during_sync")
	}
}

// acceptCandidate: consensus only finalizes valid blocks.
func (e *engine) acceptCandidate() *node {
	var cands []*node
	for _, c := range e.last.children {
		if c.st == stProcessing && !c.b.Invalid && e.usable(c) {
			cands = append(cands, c)
		}
	}
	if len(cands) == 0 {
		return nil
	}
	return cands[e.rng.IntN(len(cands))]
}

func (e *engine) observeHealth(when string) {
	_, err := e.vm.HealthCheck(e.ctx)
	if err != nil {
		e.stat["health_err_"+when]++
	} else {
		e.stat["health_ok_"+when]++
	}
}

// ------------------------------------------------------------ the finish ----

// finishPlan is what the model expects FinishStateSync to make the chain do.
type finishPlan struct {
	targetIdx int
	tip       *node
	reprocess []*node        // accepted blocks target+1..tip
	expectRun map[*node]bool // processing blocks whose parent has an output: must be re-verified
	proc      []*node        // all processing blocks at the time of the finish
}

func (e *engine) planFinish(targetIdx int) finishPlan {
	p := finishPlan{targetIdx: targetIdx, tip: e.last, expectRun: map[*node]bool{}}
	p.reprocess = append(p.reprocess, e.accepted[targetIdx+1:]...)
	var ancOK func(n *node) bool
	memo := map[*node]bool{}
	ancOK = func(n *node) bool { // every block between the tip and n (exclusive) is a valid processing block
		if v, ok := memo[n]; ok {
			return v
		}
		par := n.parent
		v := par == p.tip || par != nil && par.st == stProcessing && !par.b.Invalid && ancOK(par)
		memo[n] = v
		return v
	}
	e.handoverInvalid, e.handoverReprocess = 0, len(p.reprocess)
	for _, n := range e.nodes {
		if n.st == stProcessing {
			p.proc = append(p.proc, n)
			if ancOK(n) {
				p.expectRun[n] = true
				if n.b.Invalid {
					// will be re-verified and refused by the chain; nothing decides it while the finish runs
					e.handoverInvalid++
				}
			}
		}
	}
	return p
}

// handoverProbe observes HealthCheck while FinishStateSync is in progress:
// a health probe (AvalancheGo's health goroutine, HealthCheck takes no lock)
// issued at the start of every chain callback the finish makes on its own
// goroutine - 2 per reprocessed block, 1 per re-verified block. While the
// finish has not returned and a processing block that fails its re-verification
// is undecided, the node must not report healthy (which checker says so is not
// judged). The probe blocks the finish's goroutine, so the finish cannot return
// while a probe is in flight.
type handoverProbe struct {
	goid      uint64
	invalid   int // processing blocks that fail their own re-verification, undecided during the whole finish
	reprocess int // accepted blocks the finish executes and accepts first (2 callbacks each)

	mu         sync.Mutex
	probes     int
	asserted   int
	unhealthy  int
	healthy    int // healthy answers while invalid > 0 (violations)
	inReverify int // asserted probes issued from a re-verification callback
	blocked    bool
}

// arm is called on the goroutine that is about to call FinishStateSync.
func (hp *handoverProbe) arm(e *engine) {
	hp.goid = curGoid()
	hp.invalid, hp.reprocess = e.handoverInvalid, e.handoverReprocess
	vm, ctx, cc := e.vm, e.ctx, e.cc
	e.chain.setOnProbe(func(kind string) {
		if curGoid() != hp.goid {
			return // a callback of somebody else (async accepter, the engine's own Verify)
		}
		hp.mu.Lock()
		if hp.blocked {
			hp.mu.Unlock()
			return
		}
		hp.probes++
		idx := hp.probes
		// the finish reprocesses first (verify+accept pairs) and re-verifies afterwards
		reverify := idx > 2*hp.reprocess
		hp.mu.Unlock()
		var err error
		var details any
		done := kit.Go(func() {
			e.r.Guard("HealthCheck", cc.witness(), func() { details, err = vm.HealthCheck(ctx) })
		})
		select {
		case <-done:
		case <-time.After(forcedEscape):
			// liveness escape for a wrapper whose HealthCheck waits for the finish; no verdict
			hp.mu.Lock()
			hp.blocked = true
			hp.mu.Unlock()
			return
		}
		hp.mu.Lock()
		defer hp.mu.Unlock()
		if hp.invalid == 0 {
			return
		}
		hp.asserted++
		if reverify {
			hp.inReverify++
		}
		if err != nil {
			hp.unhealthy++
			return
		}
		hp.healthy++
		if hp.healthy == 1 {
			cc.violation("healthy-during-handover", "HealthCheck = healthy (%v) in chain callback #%d (%s, re-verification phase: %v) of a FinishStateSync that has not returned, although %d processing block(s) that fail re-verification are undecided", details, idx, kind, reverify, hp.invalid)
		}
	})
}

func (hp *handoverProbe) disarm(e *engine) { e.chain.setOnProbe(nil) }

// fold is called on the engine thread after FinishStateSync returned.
func (hp *handoverProbe) fold(e *engine) {
	hp.mu.Lock()
	defer hp.mu.Unlock()
	e.stat["handover_health_probes"] += hp.probes
	e.stat["handover_health_probes_asserted"] += hp.asserted
	e.stat["handover_health_probes_asserted_in_reverification"] += hp.inReverify
	e.stat["handover_health_unhealthy_observed"] += hp.unhealthy
	if hp.asserted > 0 {
		e.stat["handover_finishes_probed_with_invalid_processing"]++
	}
	if hp.blocked {
		e.stat["handover_health_probe_blocked"]++
	}
}

// judgeFinish compares the chain callbacks FinishStateSync produced with the plan.
func (e *engine) judgeFinish(p finishPlan, calls []verifyCall, accs []acceptCall) {
	k := len(p.reprocess)
	// (a) executed + accepted exactly target+1..tip, in order, each on its parent's output
	if len(calls) < k || len(accs) != k {
		e.cc.violation("reprocess-range", "finish at height %d with tip %d: chain executed %d and accepted %d blocks, expected %d accepted blocks to be executed and accepted", e.accepted[p.targetIdx].b.Hght, p.tip.b.Hght, len(calls), len(accs), k)
		return
	}
	for i, n := range p.reprocess {
		c, a := calls[i], accs[i]
		prev := e.accepted[p.targetIdx+i]
		switch {
		case c.id != n.b.id || !c.ok:
			e.cc.violation("reprocess-range", "reprocessing step %d executed %s (ok=%v), expected accepted block %s", i, short(c.id), c.ok, n.b)
			return
		case a.id != n.b.id:
			e.cc.violation("reprocess-range", "reprocessing step %d accepted %s, expected %s", i, short(a.id), n.b)
			return
		case !(c.seq < a.seq) || i+1 < k && !(a.seq < calls[i+1].seq):
			e.cc.violation("reprocess-range", "reprocessing did not execute and accept block %s in order", n.b)
			return
		case c.parentSt != prev.modelState() || c.outState != n.modelState():
			e.cc.violation("reprocess-state", "block %s was executed on a state different from the one of its accepted parent %s", n.b, prev.b)
			return
		}
		e.stat["reprocessed_blocks"]++
	}
	// (b) every still-processing block whose parent has an output was re-verified on it
	ran := map[*node]int{}
	lastH := uint64(0)
	for _, c := range calls[k:] {
		n := e.byID[c.id]
		if n == nil || n.st != stProcessing || !p.expectRun[n] {
			// (also reported by the recorder as verify-parent-unverified when the parent has no output)
			e.cc.violation("reverify-unexpected", "FinishStateSync verified %s which is not a processing block with a verified parent", short(c.id))
			continue
		}
		if c.parentSt != n.parent.modelState() {
			e.cc.violation("reverify-state", "processing block %s was re-verified on a state different from its parent's", n.b)
		}
		if c.height < lastH {
			e.stat["reverify_height_inversions"]++
		}
		lastH = c.height
		ran[n]++
		if c.ok {
			n.reverOK = true
			n.vMin, n.vMax = 1, 1
		}
	}
	for _, n := range p.proc {
		switch {
		case p.expectRun[n] && ran[n] == 0:
			e.cc.violation("processing-not-reverified", "processing block %s (parent %s verified) was not re-verified by FinishStateSync", n.b, n.parent.b)
			n.failedAnc = true
		case p.expectRun[n] && !n.reverOK:
			n.failedOwn = true
			e.stat["processing_failed_reverify"]++
		case p.expectRun[n]:
			e.stat["processing_reverified_ok"]++
			if ran[n] > 1 {
				e.stat["reverified_more_than_once"]++
			}
		default:
			n.failedAnc = true
			e.stat["processing_skipped_invalid_ancestor"]++
		}
	}
}

// checkLastAccepted: GetLastAccepted = engine tip with the state of a node that executed the chain.
func (e *engine) checkLastAccepted(when string) {
	var a *accBlk
	var err error
	e.r.Guard("GetLastAccepted", e.cc.witness(), func() { a, err = e.chain.ci.GetLastAccepted(e.ctx) })
	tip := e.last
	switch {
	case err != nil || a == nil:
		e.cc.violation("last-accepted-missing", "%s: GetLastAccepted failed: %v (engine tip %s)", when, err, tip.b)
	case a.id != tip.b.id:
		e.cc.violation("last-accepted-tip", "%s: GetLastAccepted = %s, engine tip is %s", when, a, tip.b)
	case a.outBlk == nil || a.State != tip.modelState():
		e.cc.violation("last-accepted-state", "%s: state of last accepted %s differs from the state of a node that executed the chain", when, a)
	default:
		e.stat["last_accepted_checks"]++
	}
}

// checkHealth: unhealthy while a processing block that failed re-verification
// is undecided; healthy once every block that failed (or was skipped because
// an ancestor failed) is rejected. In between the statement is silent.
//
// One more case is asserted: a block that was still processing when
// FinishStateSync ran from the engine thread although the engine had already
// rejected its parent (the finish came between the transitive rejections that
// follow an accept) cannot be re-verified at all - it has no parent to be
// verified on - so it failed re-verification and the node is unhealthy until
// the engine delivers the outstanding rejection.
func (e *engine) checkHealth(when string) {
	own, orph, all := 0, 0, 0
	for _, n := range e.nodes {
		if n.st == stProcessing && n.vacuous {
			if n.failedOwn {
				own++
			}
			if n.orphaned {
				orph++
			}
			if n.failedOwn || n.failedAnc || n.orphaned {
				all++
			}
		}
	}
	var err error
	e.r.Guard("HealthCheck", e.cc.witness(), func() { _, err = e.vm.HealthCheck(e.ctx) })
	switch {
	case own > 0 && err == nil:
		e.cc.violation("health-healthy-with-unresolved", "%s: HealthCheck is healthy although %d processing block(s) that failed re-verification are undecided", when, own)
	case orph > 0 && err == nil:
		e.cc.violation("health-healthy-with-orphaned-processing", "%s: HealthCheck is healthy although %d processing block(s) whose ancestor the engine had rejected before FinishStateSync (so they could not be re-verified) are undecided", when, orph)
	case all == 0 && err != nil:
		e.cc.violation("health-unhealthy-after-resolved", "%s: HealthCheck still fails (%v) although every processing block that failed re-verification has been rejected", when, err)
	case own == 0 && orph > 0:
		e.stat["health_unhealthy_observed_orphaned_only"]++
	case own > 0:
		e.stat["health_unhealthy_observed"]++
	case all == 0:
		e.stat["health_healthy_observed"]++
	default:
		e.stat["health_unasserted"]++
	}
}

// finishSeq calls FinishStateSync from the engine thread.
func (e *engine) finish(cfg c21Cfg, racingAccept *node) {
	// choose the target: the block the syncers finished on, anywhere between the start and the tip
	lo, hi := e.syncStart, len(e.accepted)-1
	targetIdx := lo + e.rng.IntN(hi-lo+1)
	switch y := e.rng.IntN(100); {
	case y < 35:
		targetIdx = hi
	case y < 55:
		targetIdx = lo
	}
	target := e.accepted[targetIdx]
	out, acc := e.chain.materialize(target.b, target.modelState(), "sync")
	e.stat[fmt.Sprintf("finish_behind_tip_%d", min(len(e.accepted)-1-targetIdx, 3))]++

	v0, a0 := e.chain.marks()
	var err error
	hp := &handoverProbe{}
	call := func() {
		// planFinish ran on the engine thread before call is invoked (possibly on another goroutine)
		hp.arm(e)
		defer hp.disarm(e)
		e.r.Guard("FinishStateSync", e.cc.witness(), func() { err = e.vm.FinishStateSync(e.ctx, target.b, out, acc) })
	}
	var plan finishPlan
	var ov *overlapVerify
	switch {
	case cfg.FinishMode == "verify-racing":
		plan, ov = e.overlapFinish(targetIdx, call)
	case racingAccept == nil:
		plan = e.planFinish(targetIdx)
		e.op('F', "FinishStateSync target=%s tip=%s processing=%d", target.b, e.last.b, len(plan.proc))
		call()
	default:
		plan = e.raceFinish(cfg, targetIdx, racingAccept, call)
	}
	hp.fold(e)
	if err != nil {
		e.fail("finish-error", "FinishStateSync(%s) with tip %s failed: %v", target.b, e.last.b, err)
		return
	}
	e.ready = true
	calls := e.chain.verifySince(v0)
	if ov != nil {
		// the chain's verifications of the block issued by the overlapping Verify are judged apart
		finishCalls := calls[:0:0]
		for _, c := range calls {
			if c.id == ov.n.b.id {
				ov.calls = append(ov.calls, c)
			} else {
				finishCalls = append(finishCalls, c)
			}
		}
		calls = finishCalls
	}
	e.judgeFinish(plan, calls, e.chain.acceptSince(a0))
	if ov != nil && !e.dead {
		e.judgeOverlap(ov)
	}
	e.checkLastAccepted("after FinishStateSync")
	e.checkHealth("after FinishStateSync")
	if ov != nil && !e.dead {
		e.acceptOverlapped(ov)
	}
	if e.cfg.MaxLag > 0 {
		e.chain.gate.setOpen(false)
	}
}

// overlapVerify is one engine Verify of a new block issued while
// FinishStateSync is in progress on the syncer's goroutine.
type overlapVerify struct {
	n      *node
	h      *sblock
	nv0    int
	err    error
	inside bool // Verify was called from inside a chain callback of the finish
	inRev  bool // ... a callback of the re-verification phase
	calls  []verifyCall
}

// overlapFinish realises the schedule
//
//	syncer:  FinishStateSync(target) [ ... chain callback k ........ ] ... returns
//	engine:                                     Verify(new block) ............ returns
//
// The new block is a child of the tip or of a processing block. The engine's
// Verify is called while the finish sits in its trigger-th chain callback
// (2 per reprocessed block, 1 per re-verified block); the callback stays open
// for a bounded number of short naps after the call started (a wrapper that
// serialises Verify with the finish keeps the engine waiting until the finish
// is over, so the callback cannot wait for Verify to return). The naps only
// steer the schedule; every verdict is taken after both calls returned.
func (e *engine) overlapFinish(targetIdx int, call func()) (finishPlan, *overlapVerify) {
	plan := e.planFinish(targetIdx)
	var parent *node
	switch y := e.rng.IntN(100); {
	case y < 40:
		parent = e.last
	case y < 80: // a block the finish will re-verify successfully
		parent = e.pick(func(n *node) bool { return plan.expectRun[n] && !n.b.Invalid })
	default: // any processing block (possibly one that fails or is skipped)
		parent = e.pick(func(n *node) bool { return n.st == stProcessing })
	}
	if parent == nil {
		parent = e.last
	}
	nb := e.parseNew(parent, e.rng.IntN(100) < 25, 0)
	if nb == nil {
		call()
		return plan, nil
	}
	ov := &overlapVerify{n: nb, h: nb.handles[0], nv0: e.chain.notif(e.chain.nVerified, nb.b.id)}
	ncb := 2*len(plan.reprocess) + len(plan.expectRun)
	trigger := 0
	if ncb > 0 {
		trigger = 1 + e.rng.IntN(ncb)
	}
	e.op('F', "FinishStateSync (overlapped by the engine's Verify of %s, child of %s) target=%s reprocess=%d reverify=%d trigger=%d", nb.b, parent.b, e.accepted[targetIdx].b, len(plan.reprocess), len(plan.expectRun), trigger)
	doVerify := func() {
		e.r.Guard("Verify", e.cc.witness(), func() {
			if e.rng.IntN(2) == 0 {
				ov.err = ov.h.Verify(e.ctx)
			} else {
				ov.err = ov.h.VerifyWithContext(e.ctx, nil)
			}
		})
	}
	if trigger == 0 {
		call()
		e.stat["overlap_verify_nothing_to_hand_over"]++
		doVerify()
		return plan, ov
	}
	reached := make(chan struct{})
	started := make(chan struct{})
	var cnt atomic.Int32
	e.chain.setOnCallback(func() {
		if int(cnt.Add(1)) != trigger {
			return
		}
		close(reached)
		<-started
		for i := 0; i < 12; i++ {
			runtime.Gosched()
			time.Sleep(20 * time.Microsecond)
		}
	})
	done := kit.Go(call)
	select {
	case <-reached:
		ov.inside = true
		ov.inRev = trigger > 2*len(plan.reprocess)
		close(started)
		doVerify()
		<-done
		e.chain.setOnCallback(nil)
	case <-done:
		e.chain.setOnCallback(nil)
		e.stat["overlap_verify_trigger_not_reached"]++
		doVerify()
	}
	return plan, ov
}

// judgeOverlap: after both calls returned the VM is ready, so the engine's
// Verify has the meaning of a normal Verify: if it succeeded, the block is
// processing and must have been verified by the chain against its parent's
// state (by the Verify itself after the hand-over, or by the finish if the
// wrapper took it vacuously first).
func (e *engine) judgeOverlap(ov *overlapVerify) {
	nb := ov.n
	e.stat["overlap_verify_cases"]++
	if ov.inside {
		e.stat["overlap_verify_inside_finish"]++
		if ov.inRev {
			e.stat["overlap_verify_inside_reverification"]++
		} else {
			e.stat["overlap_verify_inside_reprocessing"]++
		}
	}
	for _, c := range ov.calls {
		if c.parentOK && c.parentSt != nb.parent.modelState() {
			e.cc.violation("reverify-state", "block %s issued during the hand-over was verified on a state different from its parent's", nb.b)
		}
	}
	e.interpretVerify(nb, ov.h, ov.calls, ov.nv0, ov.err, false, "overlap-verify-not-reverified")
	switch {
	case e.dead:
	case nb.st == stProcessing && nb.reverOK:
		e.stat["overlap_verify_ok"]++
	case nb.st == stKnown:
		e.stat["overlap_verify_refused"]++
	}
}

// acceptOverlapped: consensus can accept a valid block issued during the
// hand-over once it is a child of the last accepted block.
func (e *engine) acceptOverlapped(ov *overlapVerify) {
	nb := ov.n
	if nb.st != stProcessing || nb.b.Invalid || nb.parent != e.last || e.rng.IntN(100) >= 60 {
		return
	}
	e.acceptErrKey = "accept-valid-processing-failed"
	e.accept(nb, false)
	e.acceptErrKey = ""
	if !e.dead {
		e.stat["overlap_accept_ok"]++
		e.repairPref()
		e.checkHealth("after accepting the block issued during the hand-over")
	}
}

// raceFinish realises the schedule
//
//	engine:  Accept(x) ........................ Reject(sibling subtrees of x)
//	syncer:            FinishStateSync(target) ....................
//
// Accept holds the chain lock, Reject does not, so the rejections that follow
// an accept can run while FinishStateSync is in progress. The rejections are
// run inside the trigger-th chain callback FinishStateSync makes (a fixed
// point of its progress), or unsynchronised when trigger = 0.
func (e *engine) raceFinish(cfg c21Cfg, targetIdx int, x *node, call func()) finishPlan {
	old := e.last
	e.acceptOnly(x)
	// the rejections the engine owes after accepting x
	var owed []*node
	queue := append([]*node(nil), old.children...)
	for len(queue) > 0 {
		s := queue[0]
		queue = queue[1:]
		if s == x || s.st != stProcessing {
			continue
		}
		owed = append(owed, s)
		queue = append(queue, s.children...)
	}
	// Model: the owed blocks conflict with the accepted chain; none of them has a verified parent.
	for _, s := range owed {
		s.st = stRejected // decided as far as the plan is concerned
	}
	plan := e.planFinish(targetIdx)
	for _, s := range owed {
		s.st = stProcessing
	}
	// the window is opened in a uniformly chosen chain callback of the finish:
	// 2 per reprocessed block (execute, accept), then 1 per re-verified block
	trigger := 0
	if cfg.RaceTrigger > 0 {
		trigger = 1 + e.rng.IntN(2*len(plan.reprocess)+len(plan.expectRun))
	}
	e.op('F', "FinishStateSync (racing the %d rejections after accept of %s) target=%s reprocess=%d reverify=%d trigger=%d", len(owed), x.b, e.accepted[targetIdx].b, len(plan.reprocess), len(plan.expectRun), trigger)
	doRejects := func() {
		for _, s := range owed {
			s.vacuous = true
			s.failedAnc = true // whether or not the finish saw it, it can only have been skipped
			e.reject(s)
		}
	}
	// The callback opens the window and keeps it open until the rejections
	// are done - or gives up after a bounded number of short naps, because a
	// wrapper that serialises Reject with FinishStateSync legitimately keeps
	// the engine waiting until the finish is over. The bound only steers the
	// schedule; no verdict depends on it.
	reached := make(chan struct{})
	rejectsDone := make(chan struct{})
	var inside atomic.Bool
	if cfg.RaceTrigger > 0 {
		var n atomic.Int32
		e.chain.setOnCallback(func() {
			if int(n.Add(1)) != trigger {
				return
			}
			close(reached)
			for i := 0; i < 60; i++ {
				select {
				case <-rejectsDone:
					inside.Store(true)
					return
				default:
					time.Sleep(20 * time.Microsecond)
				}
			}
		})
	}
	done := kit.Go(call)
	if cfg.RaceTrigger > 0 {
		select {
		case <-reached:
			doRejects()
			close(rejectsDone)
			<-done
			if len(owed) == 0 {
				e.stat["race_nothing_to_reject"]++
			} else if inside.Load() {
				e.stat["race_rejects_inside_finish"]++
				if trigger > 2*len(plan.reprocess) {
					e.stat["race_rejects_inside_reverification"]++
				}
			} else {
				e.stat["race_rejects_kept_out_of_finish"]++
			}
		case <-done:
			e.stat["race_trigger_not_reached"]++
			doRejects()
		}
		e.chain.setOnCallback(nil)
	} else {
		doRejects()
		<-done
		e.stat["race_rejects_unsynchronised"]++
	}
	return plan
}

// splitRejects realises, on the engine thread alone, the history
//
//	engine:  Accept(x)  Reject(owed[:k])  FinishStateSync(target)  Reject(owed[k:])
//
// snowman rejects the subtrees that conflict with an accepted block one block
// at a time, parents before children; the syncer's completion may be delivered
// between two of these calls. prepareSplit builds the subtrees, accepts x and
// performs the first k rejections; the caller then runs the sequential finish
// and completeSplit delivers the rest. A block that is still processing at the
// finish while its parent is already rejected (P rejected, child C owed) can
// not be re-verified: the node is unhealthy until Reject(C) arrives, and
// healthy afterwards unless other failed blocks are undecided.
type splitRejects struct {
	x        *node
	owed     []*node
	k        int
	orphaned int // owed[k:] blocks whose parent is in owed[:k]
}

func (e *engine) prepareSplit() *splitRejects {
	// conflicting subtrees under the tip: P -> C (-> D ...), at times with a second child
	for i, k := 0, 1+e.rng.IntN(2); i < k && !e.dead; i++ {
		par := e.parseNew(e.last, e.rng.IntN(4) == 0, 0)
		if par == nil {
			return nil
		}
		e.verify(par)
		for d, depth := 0, 1+e.rng.IntN(3); d < depth && !e.dead; d++ {
			c := e.parseNew(par, e.rng.IntN(4) == 0, 0)
			if c == nil {
				return nil
			}
			e.verify(c)
			if !e.dead && e.rng.IntN(3) == 0 {
				if c2 := e.parseNew(par, e.rng.IntN(4) == 0, 0); c2 != nil {
					e.verify(c2)
				}
			}
			par = c
		}
	}
	if e.dead {
		return nil
	}
	// the block consensus accepts, often with processing descendants the finish re-verifies
	x := e.parseNew(e.last, false, 0)
	if x == nil {
		return nil
	}
	e.verify(x)
	for d, par, depth := 0, x, e.rng.IntN(3); d < depth && !e.dead; d++ {
		c := e.parseNew(par, e.rng.IntN(4) == 0, 0)
		if c == nil {
			return nil
		}
		e.verify(c)
		par = c
	}
	if e.dead || x.st != stProcessing {
		return nil
	}
	old := e.last
	e.acceptOnly(x)
	if e.dead {
		return nil
	}
	sp := &splitRejects{x: x}
	// the rejections the engine owes: siblings' subtrees, parents before children, siblings in random order
	queue := append([]*node(nil), old.children...)
	e.rng.Shuffle(len(queue), func(i, j int) { queue[i], queue[j] = queue[j], queue[i] })
	for len(queue) > 0 {
		s := queue[0]
		queue = queue[1:]
		if s == x || s.st != stProcessing {
			continue
		}
		sp.owed = append(sp.owed, s)
		queue = append(queue, s.children...)
	}
	// mostly a proper prefix, so that the finish falls between the rejections
	if n := len(sp.owed); n > 1 && e.rng.IntN(100) < 80 {
		sp.k = 1 + e.rng.IntN(n-1)
	} else {
		sp.k = e.rng.IntN(n + 1)
	}
	e.op('f', "split rejections: %d owed after accept of %s, %d before FinishStateSync", len(sp.owed), x.b, sp.k)
	early := map[*node]bool{}
	for _, s := range sp.owed[:sp.k] {
		early[s] = true
		e.reject(s)
		if e.dead {
			return nil
		}
	}
	for _, s := range sp.owed[sp.k:] {
		if early[s.parent] {
			s.orphaned = true
			sp.orphaned++
		}
	}
	e.stat["split_rejects_cases"]++
	e.stat["split_rejects_before_finish"] += sp.k
	e.stat["split_rejects_after_finish"] += len(sp.owed) - sp.k
	if sp.orphaned > 0 {
		e.stat["finish_between_transitive_rejections"]++
		e.stat["processing_with_rejected_parent_at_finish"] += sp.orphaned
	}
	return sp
}

// completeSplit delivers the rejections left over after the finish and judges
// the health after each of them (checkHealth: unhealthy while a block whose
// parent was rejected before the finish is undecided, healthy once nothing
// that failed re-verification is left).
func (e *engine) completeSplit(sp *splitRejects) {
	for _, s := range sp.owed[sp.k:] {
		e.reject(s)
		if e.dead {
			return
		}
		e.checkHealth("after a transitive rejection delivered after FinishStateSync")
	}
	if sp.orphaned > 0 {
		left := 0
		for _, n := range e.nodes {
			if n.st == stProcessing && n.vacuous && (n.failedOwn || n.failedAnc || n.orphaned) {
				left++
			}
		}
		if left == 0 {
			e.stat["finish_between_transitive_rejections_healthy_asserted_at_once"]++
		} else {
			e.stat["finish_between_transitive_rejections_other_invalid_left"]++
		}
	}
	e.repairPref()
}

// acceptOnly issues Accept without the rejections that normally follow.
func (e *engine) acceptOnly(n *node) {
	e.op('a', "accept %s (rejections deferred)", n.b)
	var err error
	e.r.Guard("Accept", e.cc.witness(), func() { err = n.dec.Accept(e.ctx) })
	if err != nil {
		e.fail("engine-call-error", "Accept(%s): %v", n.b, err)
		return
	}
	n.st = stAccepted
	e.last = n
	e.accepted = append(e.accepted, n)
	e.stat["accepts"]++
}

// finalize makes consensus decide every invalid processing block: the parent
// of each invalid subtree becomes the last accepted block and a valid sibling
// of the subtree's root is accepted.
func (e *engine) finalize() {
	for iter := 0; iter < 200 && !e.dead; iter++ {
		root := e.pick(func(n *node) bool {
			return n.st == stProcessing && n.vacuous && !n.reverOK && e.usable(n.parent)
		})
		if root == nil {
			return
		}
		var path []*node
		for x := root.parent; x != e.last; x = x.parent {
			if x == nil || x.st != stProcessing {
				e.fail("harness-bug", "finalize: no processing path from the tip to %s", root.b)
				return
			}
			path = append(path, x)
		}
		for i := len(path) - 1; i >= 0 && !e.dead; i-- {
			e.accept(path[i], false)
			e.checkHealth("finalize")
		}
		if e.dead || root.st != stProcessing {
			continue
		}
		sib := e.acceptCandidate()
		if sib == nil {
			sib = e.parseNew(e.last, false, 0)
			if sib == nil {
				return
			}
			e.verify(sib)
			if sib.st != stProcessing {
				return
			}
		}
		e.accept(sib, false)
		e.repairPref()
		e.checkHealth("finalize")
	}
}

// --------------------------------------------------------------- a case ----

func runC21Case(t testing.TB, r *kit.Run, idx int, seed [2]uint64) c20Result {
	rng := rand.New(rand.NewPCG(seed[0], seed[1]))
	sizes := []int{1, 2, 4, 128}
	lags := []int{0, 1, 3}
	cfg := c21Cfg{
		VM:         vmCfg{ParsedCache: sizes[rng.IntN(4)], AcceptedCache: sizes[rng.IntN(4)], MaxLag: lags[rng.IntN(3)], Ready: rng.IntN(100) < 30},
		SyncSteps:  4 + rng.IntN(36),
		PostSteps:  rng.IntN(25),
		FinishMode: "seq",
		Finalize:   rng.IntN(100) < 80,
	}
	if cfg.VM.Ready {
		cfg.Prefix = rng.IntN(4)
		cfg.StartGap = 1 + rng.IntN(5)
	} else if rng.IntN(2) == 0 {
		cfg.StartGap = 1 + rng.IntN(5)
	}
	if rng.IntN(100) < 35 && os.Getenv("VERIF_C21_SEQ_ONLY") == "" { // diagnostic knob: sequential hand-over only
		cfg.FinishMode = "racing"
		cfg.RaceTrigger = min(rng.IntN(5), 1)
	} else if rng.IntN(100) < 30 {
		cfg.FinishMode = "verify-racing"
	} else if rng.IntN(100) < 50 {
		cfg.SplitRejects = true
	}
	cc := &caseCtx{r: r, prop: "C21", wit: caseWitness{Case: idx, Seed: seed, Cfg: cfg}}
	genesis := makeBlk(ids.Empty, 0, 1_000, uint64(idx), false, 0)
	chain, vm, err := startVM(t, cc, cfg.VM, genesis)
	if err != nil {
		cc.violation("initialize-failed", "Initialize: %v", err)
		return c20Result{}
	}
	e := newEngine(cc, r, rng, cfg.VM, chain, vm, genesis)

	// normal operation before the sync (only when the VM came up with state)
	for i := 0; i < cfg.Prefix && !e.dead; i++ {
		if n := e.parseNew(e.last, false, 0); n != nil {
			e.verify(n)
			if n.st == stProcessing {
				e.accept(n, true)
			}
		}
	}
	if !e.dead {
		e.startSync(cfg.StartGap)
	}
	for s := 0; s < cfg.SyncSteps && !e.dead; s++ {
		e.stepSync()
	}
	if !e.dead {
		var racing *node
		if cfg.FinishMode == "verify-racing" {
			// give the finish something to re-verify while the engine's Verify arrives
			for i, k := 0, 1+e.rng.IntN(2); i < k && !e.dead; i++ {
				if s := e.parseNew(e.last, e.rng.IntN(4) == 0, 0); s != nil {
					e.verify(s)
					if !e.dead && e.rng.IntN(2) == 0 {
						if c := e.parseNew(s, e.rng.IntN(4) == 0, 0); c != nil {
							e.verify(c)
						}
					}
				}
			}
		}
		if cfg.FinishMode == "racing" {
			// needs an accept whose rejections can race the finish: make sure the
			// tip has a valid child x, x has conflicting siblings (some with
			// children) and, often, processing descendants to re-verify
			for i := 0; i < 2 && !e.dead; i++ {
				if s := e.parseNew(e.last, e.rng.IntN(3) == 0, 0); s != nil {
					e.verify(s)
					if !e.dead && e.rng.IntN(2) == 0 {
						if c := e.parseNew(s, e.rng.IntN(3) == 0, 0); c != nil {
							e.verify(c)
						}
					}
				}
			}
			if x := e.acceptCandidate(); x != nil && !e.dead {
				for d, par := 0, x; d < e.rng.IntN(3) && !e.dead; d++ {
					c := e.parseNew(par, e.rng.IntN(4) == 0, 0)
					if c == nil {
						break
					}
					e.verify(c)
					par = c
				}
				racing = x
			} else {
				e.stat["race_no_candidate"]++
			}
		}
		var split *splitRejects
		if cfg.SplitRejects {
			split = e.prepareSplit()
		}
		if !e.dead {
			e.finish(cfg, racing)
		}
		if split != nil && !e.dead {
			e.completeSplit(split)
		}
	}
	for s := 0; s < cfg.PostSteps && !e.dead; s++ {
		e.stepC20()
		if !e.dead {
			e.checkHealth("normal operation")
		}
	}
	if cfg.Finalize && !e.dead {
		e.finalize()
		if !e.dead {
			e.checkHealth("after every invalid block was decided")
		}
	}
	quiesced := e.shutdown()
	if quiesced && !e.dead {
		e.checkLastAccepted("at the end")
		e.checkHealth("at the end")
	}

	chain.mu.Lock()
	e.stat["chain_verify_calls"] = len(chain.verifyCalls)
	e.stat["chain_accept_calls"] = len(chain.acceptCalls)
	for _, k := range chain.nPreAccepted {
		e.stat["notif_pre_accepted"] += k
	}
	for _, k := range chain.nPreRejected {
		e.stat["notif_pre_rejected"] += k
	}
	chain.mu.Unlock()
	invalidProc := e.stat["processing_failed_reverify"] + e.stat["processing_skipped_invalid_ancestor"]
	res := c20Result{
		shape: fmt.Sprintf("%v/%d/%d/%s/%d/%s", cfg.VM, cfg.Prefix, cfg.StartGap, cfg.FinishMode, cfg.RaceTrigger, e.shape),
		// non-trivial: the finish had something to hand over
		nontrivial: quiesced && !e.dead && (e.stat["reprocessed_blocks"] > 0 || invalidProc > 0 || e.stat["processing_reverified_ok"] > 0),
		stat:       e.stat,
	}
	if e.stat["reprocessed_blocks"] > 0 && invalidProc > 0 {
		e.stat["cases_behind_tip_with_invalid_processing"] = 1
	}
	if idx < 3 {
		res.sample = map[string]any{"cfg": cfg, "ops": string(e.shape), "reprocessed": e.stat["reprocessed_blocks"], "failed_reverify": e.stat["processing_failed_reverify"], "skipped": e.stat["processing_skipped_invalid_ancestor"], "reverified_ok": e.stat["processing_reverified_ok"]}
	}
	return res
}

func TestC21(t *testing.T) {
	r := kit.Start(t, "C21", "exploration")
	r.Rule("case = VM config (caches in {1,2,4,128}, async accept lag bound in {0,1,3}), VM started without state (70%) or with state and 0..3 normally executed blocks (30%), StartStateSync at the last accepted block or at a block 1..5 heights ahead, 4..39 vacuous engine actions (parse+verify valid/invalid blocks on processing/last-accepted parents, re-parse, set preference, accept 1..3 valid blocks with transitive rejection), FinishStateSync at a target anywhere between the start and the tip - from the engine thread (in half of these cases right in the middle of the transitive rejections of an accept: the engine builds conflicting subtrees P->C(->D) under the tip, accepts a sibling x, delivers only a prefix of the rejections it owes, parents first, calls FinishStateSync itself and delivers the remaining rejections afterwards, health judged after the finish and after every late rejection), or (35%) concurrently with the rejections that follow an accept, run inside a uniformly chosen chain callback of the finish (or unsynchronised), or (~20%) overlapped by the engine's Verify of a new valid/invalid block (child of the tip or of a processing block) called from the engine thread while the finish sits in a uniformly chosen chain callback on the syncer's goroutine - then 0..24 normal engine actions and (80%) consensus deciding every invalid processing block. In every mode a health probe (HealthCheck from a second goroutine) is issued at the start of every chain callback FinishStateSync makes on its own goroutine (2 per reprocessed block, 1 per re-verified block). " +
		"Non-trivial = the finish reprocessed accepted blocks or re-verified / skipped processing blocks; distinct = (config, action kind sequence).")
	r.Assume(
		"the state of a block is modelled as the hash chain H(parent state || block id); the target's state handed to FinishStateSync is the one a node that executed the chain would have",
		"consensus only accepts valid blocks and only issues snowman-consistent calls; Reject is not serialised with FinishStateSync (it does not take the chain lock; FinishStateSync is called from the syncer's goroutine in vm/statesync.go)",
		"health: asserted unhealthy while a block that itself failed re-verification is undecided, asserted healthy once every block that failed or was skipped because of a failed ancestor is rejected; not asserted in between and not asserted during the sync (counted)",
		"a block that is still processing at FinishStateSync while the engine has already rejected its parent (finish between the transitive rejections of an accept, all on the engine thread) has no parent to be re-verified on, i.e. it failed re-verification: unhealthy is asserted until the engine rejects it (key health-healthy-with-orphaned-processing); its own descendants are treated like descendants of failed blocks (not asserted unhealthy, must be rejected before healthy is asserted)",
		"health during the hand-over: while FinishStateSync has not returned and a processing block that will fail its own re-verification is undecided, a probe must not answer healthy; which checker reports unhealthy (not ready / unresolved blocks) is not judged, and nothing is asserted when only valid or skipped blocks are processing. A probe that does not return within 1 s (a HealthCheck that waits for the finish) stops the probing of that finish, without verdict",
		"the order of re-verification is only constrained by parents-before-children (the parent output must exist); height inversions are counted, not judged",
		"quiescence point = VM.Shutdown (waits for the async accepter)",
		"a Verify that overlaps FinishStateSync is judged after both returned: the VM is then ready, so a successful Verify means the block is processing and the chain must have verified it on its parent's state (during the finish or after it); a valid one that is a child of the last accepted block must be acceptable. The bounded naps that keep the finish's callback open only steer the schedule",
	)
	p := hooks.NewPerturb(r.Rand("hooks"))
	p.PYield, p.PSleep, p.MaxSleep = 0.25, 0.10, 100*time.Microsecond
	p.Install()
	defer hooks.Uninstall()

	if rf := r.Replay(); rf != nil {
		var w caseWitness
		if err := json.Unmarshal(rf.Witness, &w); err != nil {
			t.Fatalf("replay witness: %v", err)
		}
		runC21Case(t, r, w.Case, w.Seed)
		r.Eval()
		r.Finish(0)
		return
	}
	n := r.N(2000, 100000)
	workers := r.N(2, 6)
	master := r.Rand("cases")
	seeds := make([][2]uint64, n)
	for i := range seeds {
		seeds[i] = [2]uint64{master.Uint64(), master.Uint64()}
	}
	var next atomic.Int64
	var wg sync.WaitGroup
	var mu sync.Mutex
	total := map[string]int{}
	for w := 0; w < workers; w++ {
		wg.Add(1)
		go func() {
			defer wg.Done()
			for {
				i := int(next.Add(1)) - 1
				if i >= n {
					return
				}
				res := runC21Case(t, r, i, seeds[i])
				r.Eval()
				if res.nontrivial {
					r.Distinct(res.shape)
				}
				if res.sample != nil {
					r.Sample(res.sample)
				}
				mu.Lock()
				for k, v := range res.stat {
					total[k] += v
				}
				mu.Unlock()
			}
		}()
	}
	wg.Wait()
	for k, v := range total {
		r.Count(k, v)
	}
	for k, v := range p.Hits() {
		r.Count("hook_"+k, int(v))
	}
	r.Finish(r.N(800, 40000))
}
