// Package snowx holds the runtime monitors of the consensus wrapper
// (/repo/snow): C20 (block lifecycle) and C21 (dynamic state sync hand-over).
//
// The fixture is an external implementation of snow.Chain that records every
// callback and every subscriber notification (recChain), three distinct block
// types for the Input / Output / Accepted stages (so "the parent output
// exists" is a fact about pointers the recorder itself handed out), a gate that
// lets the asynchronous accept queue lag under the control of the engine
// thread, and a model snowman engine (engine) that issues only calls a
// snowman engine could issue and remembers its own decisions.
package snowx

import (
	"bytes"
	"context"
	"crypto/sha256"
	"encoding/json"
	"errors"
	"fmt"
	"math/rand/v2"
	"runtime"
	"sync"
	"sync/atomic"
	"testing"
	"time"

	"github.com/ava-labs/avalanchego/database/memdb"
	"github.com/ava-labs/avalanchego/ids"
	"github.com/ava-labs/avalanchego/snow/engine/common"
	"github.com/ava-labs/avalanchego/snow/engine/enginetest"
	"github.com/ava-labs/avalanchego/snow/engine/snowman/block"
	"github.com/ava-labs/avalanchego/snow/snowtest"
	"github.com/prometheus/client_golang/prometheus"

	"github.com/ava-labs/hypersdk/chainindex"
	"github.com/ava-labs/hypersdk/event"
	"github.com/ava-labs/hypersdk/snow"
	"github.com/ava-labs/hypersdk/zzverif/kit"
)

// ---------------------------------------------------------------- blocks ----

// blk is the Input block. Immutable after construction.
type blk struct {
	Prnt    ids.ID `json:"parent"`
	Hght    uint64 `json:"height"`
	Tmstmp  int64  `json:"timestamp"`
	Nonce   uint64 `json:"nonce"`
	Invalid bool   `json:"invalid,omitempty"` // the chain refuses to verify it, always
	Flaky   int    `json:"flaky,omitempty"`   // the chain refuses the first Flaky verifications
	// PCtx, when set, is the P-Chain height of the block's embedded P-Chain
	// context (proposervm era block): the engine must verify the block with a
	// context of the same height.
	PCtx *uint64 `json:"pctx,omitempty"`

	id    ids.ID
	bytes []byte
	// chain is the recorder that parsed / built this block object (nil for
	// objects made by the engine model). Set before the object is published.
	chain *recChain
}

func makeBlk(parent ids.ID, height uint64, ts int64, nonce uint64, invalid bool, flaky int) *blk {
	return makeBlkCtx(parent, height, ts, nonce, invalid, flaky, nil)
}

// makeBlkCtx additionally embeds a P-Chain context (nil = none).
func makeBlkCtx(parent ids.ID, height uint64, ts int64, nonce uint64, invalid bool, flaky int, pctx *uint64) *blk {
	b := &blk{Prnt: parent, Hght: height, Tmstmp: ts, Nonce: nonce, Invalid: invalid, Flaky: flaky}
	if pctx != nil {
		v := *pctx
		b.PCtx = &v
	}
	raw, err := json.Marshal(b)
	if err != nil {
		panic(err)
	}
	b.bytes = raw
	b.id = sha256.Sum256(raw) // == utils.ToID(bytes), the key snow.VM.ParseBlock looks up
	return b
}

func parseBlk(raw []byte) (*blk, error) {
	b := &blk{}
	if err := json.Unmarshal(raw, b); err != nil {
		return nil, err
	}
	b.bytes = append([]byte(nil), raw...)
	b.id = sha256.Sum256(b.bytes)
	return b, nil
}

func (b *blk) GetID() ids.ID       { return b.id }
func (b *blk) GetParent() ids.ID   { return b.Prnt }
func (b *blk) GetTimestamp() int64 { return b.Tmstmp }
func (b *blk) GetBytes() []byte    { return b.bytes }


// GetHeight is also an observation point of the fixture: the wrapper calls it
// on the block it is looking at (e.g. the last accepted block during a lookup
// by height), so the recorder can yield there or let the engine thread run an
// Accept before the call returns (see recChain.heightHook). It never changes
// the value returned.
func (b *blk) GetHeight() uint64 {
	if c := b.chain; c != nil {
		c.heightHook(b)
	}
	return b.Hght
}
func (b *blk) GetContext() *block.Context {
	if b.PCtx == nil {
		return nil
	}
	return &block.Context{PChainHeight: *b.PCtx}
}
func (b *blk) String() string {
	if b == nil {
		return "blk(nil)"
	}
	return fmt.Sprintf("blk(h=%d %s)", b.Hght, short(b.id))
}

func short(id ids.ID) string { return kit.Hex(id[:4]) }

// outBlk is the Output (verified) stage. State is the hash chain
// H(parent.State || id): it is equal to the model's fold over the accepted
// chain iff every block was executed on the output of its true parent.
type outBlk struct {
	*blk
	State ids.ID
	Src   string // genesis | build | verify | sync
}

func (o *outBlk) String() string {
	if o == nil {
		return "out(nil)"
	}
	return fmt.Sprintf("out(h=%d %s %s)", o.Hght, short(o.id), o.Src)
}

// accBlk is the Accepted stage.
type accBlk struct {
	*outBlk
	ParentPopulated bool
}

func (a *accBlk) String() string {
	if a == nil {
		return "acc(nil)"
	}
	return fmt.Sprintf("acc(h=%d %s)", a.Hght, short(a.id))
}

func baseState(id ids.ID) ids.ID {
	return sha256.Sum256(append([]byte("base"), id[:]...))
}

func foldState(parent ids.ID, id ids.ID) ids.ID {
	return sha256.Sum256(append(append([]byte(nil), parent[:]...), id[:]...))
}

type (
	sblock = snow.StatefulBlock[*blk, *outBlk, *accBlk]
	xvm    = snow.VM[*blk, *outBlk, *accBlk]
	xindex = snow.ConsensusIndex[*blk, *outBlk, *accBlk]
)

// ------------------------------------------------------------------ gate ----

// gate blocks the caller (the async accepter inside Chain.AcceptBlock) until
// the engine thread grants a permit. It is how the accept queue is made to lag
// by a chosen number of blocks without sleeping.
type gate struct {
	mu      sync.Mutex
	cond    *sync.Cond
	permits int
	open    bool
	waiting int
}

func newGate() *gate {
	g := &gate{open: true}
	g.cond = sync.NewCond(&g.mu)
	return g
}

func (g *gate) pass() {
	g.mu.Lock()
	g.waiting++
	for !g.open && g.permits == 0 {
		g.cond.Wait()
	}
	if !g.open {
		g.permits--
	}
	g.waiting--
	g.mu.Unlock()
}

func (g *gate) grant(n int) {
	g.mu.Lock()
	g.permits += n
	g.mu.Unlock()
	g.cond.Broadcast()
}

func (g *gate) setOpen(open bool) {
	g.mu.Lock()
	g.open = open
	if open {
		g.permits = 0
	}
	g.mu.Unlock()
	g.cond.Broadcast()
}

// ------------------------------------------------------------- case ctx ----

// caseCtx carries what a violation needs: the run, the witness of the case
// and a bounded operation log.
type caseCtx struct {
	r    *kit.Run
	prop string

	mu   sync.Mutex
	wit  caseWitness
	nvio int
}

type caseWitness struct {
	Case int       `json:"case"`
	Seed [2]uint64 `json:"case_seed"`
	Cfg  any       `json:"cfg"`
	Ops  []string  `json:"ops"`
}

func (c *caseCtx) logf(format string, args ...any) {
	c.mu.Lock()
	if len(c.wit.Ops) < 400 {
		c.wit.Ops = append(c.wit.Ops, fmt.Sprintf(format, args...))
	}
	c.mu.Unlock()
}

func (c *caseCtx) witness() caseWitness {
	c.mu.Lock()
	defer c.mu.Unlock()
	w := c.wit
	w.Ops = append([]string(nil), c.wit.Ops...)
	return w
}

func (c *caseCtx) violation(key string, format string, args ...any) {
	c.mu.Lock()
	c.nvio++
	c.mu.Unlock()
	c.r.Count("violations_"+key, 1) // how often each key fired (the run keeps only the first witnesses)
	c.r.Violation(c.prop+"/"+key, c.witness(), format, args...)
}

func (c *caseCtx) violations() int {
	c.mu.Lock()
	defer c.mu.Unlock()
	return c.nvio
}

// ------------------------------------------------------------- recorder ----

type verifyCall struct {
	seq      int
	id       ids.ID
	height   uint64
	parentOK bool   // parent output was produced by this chain and is the block's parent
	parentSt ids.ID // state of the parent output handed in
	ok       bool   // the chain accepted the block
	outState ids.ID
}

type acceptCall struct {
	seq             int
	id              ids.ID
	height          uint64
	parentPopulated bool
}

// recChain implements snow.Chain and records everything it is told.
type recChain struct {
	cc      *caseCtx
	genesis *blk
	ready   bool // what Initialize reports as stateReady

	vm    *xvm
	ci    *xindex
	index *chainindex.ChainIndex[*blk]
	gate  *gate

	mu          sync.Mutex
	seq         int
	outputs     map[*outBlk]struct{} // every Output this chain ever produced
	verifyCalls []verifyCall
	acceptCalls []acceptCall
	acceptedIDs map[ids.ID]int
	haveAccept  bool
	lastAccH    uint64
	engRejected map[ids.ID]struct{} // decisions of the engine (written by the engine thread)
	flakyUsed   map[ids.ID]int
	buildNonce  uint64

	nVerified    map[ids.ID]int
	nAccepted    map[ids.ID]int
	nRejected    map[ids.ID]int
	nPreAccepted map[ids.ID]int
	nPreRejected map[ids.ID]int

	parentUnpopulated int

	// onCallback, when set, runs at the start of every VerifyBlock/AcceptBlock
	// (on the calling goroutine, no recorder lock held): a synchronisation point
	// inside the wrapper's progress.
	onCallback atomic.Pointer[func()]

	// onProbe, when set, runs at the start of every VerifyBlock/AcceptBlock,
	// before onCallback (on the calling goroutine, no recorder lock held). It is
	// a pure observation point (C21: health probes while FinishStateSync is in
	// progress) and is independent of the schedule-steering onCallback.
	onProbe atomic.Pointer[func(kind string)]

	// onIndex, when set, runs inside ChainIndex.UpdateLastAccepted as the
	// wrapper calls it from Accept (on the accepting goroutine): before the
	// block is written to the index and right after (the latter is the window
	// of the hook point snow.accept.afterIndex).
	onIndex atomic.Pointer[func(b *blk, phase string)]

	// forced, when set, is an armed lookup window (see forcedWin); yieldHeights
	// makes every 4th GetHeight call on a block of this chain yield the
	// processor (reader stress cases).
	forced       atomic.Pointer[forcedWin]
	yieldHeights atomic.Bool
	heightCalls  atomic.Uint64
}

// forcedWin is one armed window: the next GetHeight call that goroutine goid
// makes on a block object with the given id lets the engine thread run (close
// of trigger) and returns only after the engine thread is done (close of
// done). This is the schedule "the lookup goroutine is descheduled while it
// inspects the last accepted block, the engine accepts the next block".
type forcedWin struct {
	id      ids.ID
	goid    uint64
	fired   atomic.Bool
	escaped atomic.Bool
	trigger chan struct{}
	done    chan struct{}
}

// forcedEscape bounds the time a lookup is held inside GetHeight. It is a
// liveness escape for wrappers that inspect the block while holding a lock the
// Accept needs (then the window is not a feasible schedule); no verdict
// depends on it.
const forcedEscape = time.Second

func (c *recChain) heightHook(b *blk) {
	if w := c.forced.Load(); w != nil && b.id == w.id && curGoid() == w.goid && w.fired.CompareAndSwap(false, true) {
		close(w.trigger)
		select {
		case <-w.done:
		case <-time.After(forcedEscape):
			w.escaped.Store(true)
		}
		return
	}
	if c.yieldHeights.Load() && c.heightCalls.Add(1)&3 == 0 {
		runtime.Gosched()
	}
}

// curGoid returns the id of the calling goroutine (parsed from its stack
// header "goroutine N [running]:").
func curGoid() uint64 {
	var buf [48]byte
	n := runtime.Stack(buf[:], false)
	var id uint64
	for _, ch := range buf[len("goroutine "):n] {
		if ch < '0' || ch > '9' {
			break
		}
		id = id*10 + uint64(ch-'0')
	}
	return id
}

func (c *recChain) setOnIndex(f func(b *blk, phase string)) {
	if f == nil {
		c.onIndex.Store(nil)
		return
	}
	c.onIndex.Store(&f)
}

// probeIndex is the ChainIndex handed to the wrapper: the real chainindex
// plus an observation window around UpdateLastAccepted. It never alters what
// the index does or returns.
type probeIndex struct {
	snow.ChainIndex[*blk]
	c *recChain
}

func (p *probeIndex) UpdateLastAccepted(ctx context.Context, b *blk) error {
	f := p.c.onIndex.Load()
	if f != nil {
		(*f)(b, "before-index")
	}
	err := p.ChainIndex.UpdateLastAccepted(ctx, b)
	if f != nil && err == nil {
		(*f)(b, "after-index")
	}
	return err
}

func (c *recChain) setOnCallback(f func()) {
	if f == nil {
		c.onCallback.Store(nil)
		return
	}
	c.onCallback.Store(&f)
}

func (c *recChain) callback() {
	if f := c.onCallback.Load(); f != nil {
		(*f)()
	}
}

func (c *recChain) setOnProbe(f func(kind string)) {
	if f == nil {
		c.onProbe.Store(nil)
		return
	}
	c.onProbe.Store(&f)
}

func (c *recChain) probe(kind string) {
	if f := c.onProbe.Load(); f != nil {
		(*f)(kind)
	}
}

func newRecChain(cc *caseCtx, genesis *blk, ready bool) *recChain {
	return &recChain{
		cc: cc, genesis: genesis, ready: ready, gate: newGate(),
		outputs:      map[*outBlk]struct{}{},
		acceptedIDs:  map[ids.ID]int{},
		engRejected:  map[ids.ID]struct{}{},
		flakyUsed:    map[ids.ID]int{},
		nVerified:    map[ids.ID]int{},
		nAccepted:    map[ids.ID]int{},
		nRejected:    map[ids.ID]int{},
		nPreAccepted: map[ids.ID]int{},
		nPreRejected: map[ids.ID]int{},
		buildNonce:   1 << 40,
	}
}

// materialize produces the Output/Accepted pair of a block whose state became
// available other than by executing it here (genesis, state-sync target).
func (c *recChain) materialize(b *blk, state ids.ID, src string) (*outBlk, *accBlk) {
	o := &outBlk{blk: b, State: state, Src: src}
	a := &accBlk{outBlk: o, ParentPopulated: true}
	c.mu.Lock()
	c.outputs[o] = struct{}{}
	c.haveAccept = true
	c.lastAccH = b.Hght
	c.acceptedIDs[b.id]++
	c.mu.Unlock()
	return o, a
}

func (c *recChain) Initialize(ctx context.Context, in snow.ChainInput, vm *xvm) (snow.ChainIndex[*blk], *outBlk, *accBlk, bool, error) {
	c.vm = vm
	idx, err := chainindex.New[*blk](ctx, in.SnowCtx.Log, prometheus.NewRegistry(), chainindex.NewDefaultConfig(), c, memdb.New())
	if err != nil {
		return nil, nil, nil, false, err
	}
	c.index = idx
	if err := idx.UpdateLastAccepted(ctx, c.genesis); err != nil {
		return nil, nil, nil, false, err
	}
	sub := func(m map[ids.ID]int) func(id ids.ID) {
		return func(id ids.ID) {
			c.mu.Lock()
			m[id]++
			c.mu.Unlock()
		}
	}
	ver, acc, rej, pacc, prej := sub(c.nVerified), sub(c.nAccepted), sub(c.nRejected), sub(c.nPreAccepted), sub(c.nPreRejected)
	vm.AddVerifiedSub(event.SubscriptionFunc[*outBlk]{NotifyF: func(_ context.Context, o *outBlk) error {
		if o == nil {
			c.cc.violation("notify-nil-payload", "verified notification with nil output")
			return nil
		}
		ver(o.id)
		return nil
	}})
	vm.AddAcceptedSub(event.SubscriptionFunc[*accBlk]{NotifyF: func(_ context.Context, a *accBlk) error {
		if a == nil {
			c.cc.violation("notify-nil-payload", "accepted notification with nil accepted block")
			return nil
		}
		acc(a.id)
		return nil
	}})
	vm.AddRejectedSub(event.SubscriptionFunc[*outBlk]{NotifyF: func(_ context.Context, o *outBlk) error {
		if o == nil {
			c.cc.violation("notify-nil-payload", "rejected notification with nil output")
			return nil
		}
		rej(o.id)
		return nil
	}})
	vm.AddPreReadyAcceptedSub(event.SubscriptionFunc[*blk]{NotifyF: func(_ context.Context, b *blk) error {
		pacc(b.id)
		return nil
	}})
	vm.AddPreRejectedSub(event.SubscriptionFunc[*blk]{NotifyF: func(_ context.Context, b *blk) error {
		prej(b.id)
		return nil
	}})
	pidx := &probeIndex{ChainIndex: idx, c: c}
	if !c.ready {
		return pidx, nil, nil, false, nil
	}
	o, a := c.materialize(c.genesis, baseState(c.genesis.id), "genesis")
	return pidx, o, a, true, nil
}

func (c *recChain) SetConsensusIndex(ci *xindex) { c.ci = ci }

func (c *recChain) ParseBlock(_ context.Context, raw []byte) (*blk, error) {
	b, err := parseBlk(raw)
	if err != nil {
		return nil, err
	}
	b.chain = c
	return b, nil
}

var errNoParent = errors.New("snowx: parent output missing")

func (c *recChain) knownOutput(o *outBlk) bool {
	if o == nil {
		return false
	}
	_, ok := c.outputs[o]
	return ok
}

// isOutputOf: o is an Output this chain produced for block id.
func (c *recChain) isOutputOf(o *outBlk, id ids.ID) bool {
	c.mu.Lock()
	defer c.mu.Unlock()
	return c.knownOutput(o) && o.id == id
}

func (c *recChain) BuildBlock(_ context.Context, blockCtx *block.Context, parent *outBlk) (*blk, *outBlk, error) {
	c.mu.Lock()
	defer c.mu.Unlock()
	if !c.knownOutput(parent) {
		return nil, nil, errNoParent
	}
	c.buildNonce++
	var pctx *uint64
	if blockCtx != nil {
		pctx = &blockCtx.PChainHeight
	}
	b := makeBlkCtx(parent.id, parent.Hght+1, parent.Tmstmp+1, c.buildNonce, false, 0, pctx)
	b.chain = c
	o := &outBlk{blk: b, State: foldState(parent.State, b.id), Src: "build"}
	c.outputs[o] = struct{}{}
	return b, o, nil
}

var errInvalidBlock = errors.New("snowx: block refused by the chain")

func (c *recChain) VerifyBlock(_ context.Context, parent *outBlk, b *blk) (*outBlk, error) {
	c.probe("verify")
	c.callback()
	c.mu.Lock()
	c.seq++
	vc := verifyCall{seq: c.seq, id: b.id, height: b.Hght}
	vc.parentOK = c.knownOutput(parent) && parent.id == b.Prnt && parent.Hght+1 == b.Hght
	if parent != nil {
		vc.parentSt = parent.State
	}
	if !vc.parentOK {
		c.verifyCalls = append(c.verifyCalls, vc)
		c.mu.Unlock()
		c.cc.violation("verify-parent-unverified", "VerifyBlock(%s, %s): the parent output was not produced by a verification/acceptance of the block's parent", parent, b)
		return nil, errNoParent
	}
	refuse := b.Invalid
	if !refuse && c.flakyUsed[b.id] < b.Flaky {
		c.flakyUsed[b.id]++
		refuse = true
	}
	if refuse {
		c.verifyCalls = append(c.verifyCalls, vc)
		c.mu.Unlock()
		return nil, errInvalidBlock
	}
	o := &outBlk{blk: b, State: foldState(parent.State, b.id), Src: "verify"}
	c.outputs[o] = struct{}{}
	vc.ok = true
	vc.outState = o.State
	c.verifyCalls = append(c.verifyCalls, vc)
	c.mu.Unlock()
	return o, nil
}

func (c *recChain) AcceptBlock(_ context.Context, parent *accBlk, o *outBlk) (*accBlk, error) {
	c.probe("accept")
	c.callback()
	c.gate.pass()
	c.mu.Lock()
	known := c.knownOutput(o)
	c.mu.Unlock()
	if !known {
		c.cc.violation("accept-unverified", "AcceptBlock on %s which is not an output of a verification by this chain", o)
		if o == nil {
			return nil, errNoParent
		}
	}
	c.mu.Lock()
	c.seq++
	ac := acceptCall{seq: c.seq, id: o.id, height: o.Hght, parentPopulated: parent != nil}
	var complaints [][2]string
	if _, rejected := c.engRejected[o.id]; rejected {
		complaints = append(complaints, [2]string{"accept-rejected", fmt.Sprintf("AcceptBlock on %s which the engine rejected", o)})
	}
	if c.acceptedIDs[o.id] > 0 {
		complaints = append(complaints, [2]string{"accept-twice", fmt.Sprintf("AcceptBlock called again on %s", o)})
	}
	if c.haveAccept && o.Hght <= c.lastAccH {
		complaints = append(complaints, [2]string{"accept-out-of-order", fmt.Sprintf("AcceptBlock on %s after height %d was accepted", o, c.lastAccH)})
	}
	c.acceptedIDs[o.id]++
	c.haveAccept = true
	if o.Hght > c.lastAccH {
		c.lastAccH = o.Hght
	}
	if parent == nil {
		c.parentUnpopulated++
	}
	c.acceptCalls = append(c.acceptCalls, ac)
	c.mu.Unlock()
	for _, x := range complaints {
		c.cc.violation(x[0], "%s", x[1])
	}
	return &accBlk{outBlk: o, ParentPopulated: parent != nil}, nil
}

func (c *recChain) markRejected(id ids.ID) {
	c.mu.Lock()
	c.engRejected[id] = struct{}{}
	c.mu.Unlock()
}

// marks returns the current length of both call logs.
func (c *recChain) marks() (int, int) {
	c.mu.Lock()
	defer c.mu.Unlock()
	return len(c.verifyCalls), len(c.acceptCalls)
}

func (c *recChain) verifySince(i int) []verifyCall {
	c.mu.Lock()
	defer c.mu.Unlock()
	return append([]verifyCall(nil), c.verifyCalls[i:]...)
}

func (c *recChain) acceptSince(i int) []acceptCall {
	c.mu.Lock()
	defer c.mu.Unlock()
	return append([]acceptCall(nil), c.acceptCalls[i:]...)
}

func (c *recChain) notif(m map[ids.ID]int, id ids.ID) int {
	c.mu.Lock()
	defer c.mu.Unlock()
	return m[id]
}

// -------------------------------------------------------------- VM setup ----

type vmCfg struct {
	ParsedCache   int  `json:"parsed_cache"`
	AcceptedCache int  `json:"accepted_cache"`
	MaxLag        int  `json:"max_lag"`
	Ready         bool `json:"ready"`
}

func startVM(t testing.TB, cc *caseCtx, cfg vmCfg, genesis *blk) (*recChain, *xvm, error) {
	ctx := context.Background()
	chain := newRecChain(cc, genesis, cfg.Ready)
	vm := snow.NewVM[*blk, *outBlk, *accBlk]("v0.0.1", chain)
	snowCtx := snowtest.Context(t, ids.GenerateTestID())
	snowCtx.ChainDataDir = "" // nothing in the fixture touches the disk
	configBytes, err := json.Marshal(map[string]any{
		snow.SnowVMConfigKey: snow.VMConfig{ParsedBlockCacheSize: cfg.ParsedCache, AcceptedBlockWindowCache: cfg.AcceptedCache},
	})
	if err != nil {
		return nil, nil, err
	}
	// NOTE: the config is the 6th argument (the 5th is the upgrade bytes).
	if err := vm.Initialize(ctx, snowCtx, nil, nil, nil, configBytes, make(chan common.Message, 1), nil, &enginetest.Sender{}); err != nil {
		return nil, nil, err
	}
	return chain, vm, nil
}

// --------------------------------------------------------------- engine ----

type status int

const (
	stallGrace       = 3 * time.Second
	deadlockGrace    = 5 * time.Second
	deadlockWatchdog = 120 * time.Second
)

const (
	stKnown      status = iota // parsed/built, not (successfully) verified
	stProcessing               // verified, undecided
	stAccepted
	stRejected
)

type node struct {
	b        *blk
	parent   *node
	children []*node
	st       status
	handles  []*sblock // handles a not yet verified block is known by
	built    *sblock   // the handle BuildBlock returned (carries an output already)
	dec      *sblock   // the handle that was verified: decisions go through it
	base     bool      // state is given (genesis / state sync start target)
	state    ids.ID
	hasState bool

	vMin, vMax int // bounds for the number of verified notifications
	wantAcc    int
	wantRej    int

	// state sync (C21)
	vacuous   bool // verified while the VM was not ready
	reverOK   bool // re-verified successfully at FinishStateSync
	failedOwn bool // failed its own re-verification
	failedAnc bool // skipped because an ancestor failed
	// orphaned: still processing at FinishStateSync although the engine had
	// already rejected one of its ancestors (the finish ran from the engine
	// thread between the transitive rejections that follow an accept)
	orphaned bool
}

func (n *node) modelState() ids.ID {
	if n.hasState {
		return n.state
	}
	if n.base || n.parent == nil {
		n.state = baseState(n.b.id)
	} else {
		n.state = foldState(n.parent.modelState(), n.b.id)
	}
	n.hasState = true
	return n.state
}

type engine struct {
	cc    *caseCtx
	r     *kit.Run
	rng   *rand.Rand
	cfg   vmCfg
	chain *recChain
	vm    *xvm
	ctx   context.Context

	nodes     []*node
	byID      map[ids.ID]*node
	accepted  []*node // accepted chain in order of acceptance (first = genesis / sync start)
	last      *node
	pref      *node
	nonce     uint64
	ready     bool
	syncStart int // index in accepted of the block the state sync started at

	// shared with reader goroutines
	amu      sync.Mutex
	accByH   map[uint64]ids.ID
	deferred []readObs
	tipH     uint64

	// scenario knobs (0 = scenario off)
	ctxP   int // % of new blocks that embed a P-Chain context; > 0 also enables verifications with a mismatching context
	probeP int // % of accepts during which blocks are looked up by id from inside the accept (see probeAccept)
	// acceptErrKey, when set, classifies a failing Accept (default engine-call-error)
	acceptErrKey string
	// firstHandleP: % of the verifications that go through the FIRST wrapper the
	// engine got for the block (a real engine keeps the block object of its first
	// parse as the pending block and drops later parses); otherwise any handle.
	firstHandleP int
	// checkKnown: judge what ParseBlock returns for blocks the VM has verified
	// or accepted (see reparse); off in C21 where blocks are verified vacuously.
	checkKnown bool
	// forceP: % of the accepts issued exactly while a lookup by height is in
	// flight (C20, see acceptDuringLookup).
	forceP int
	// hlog, when set, is the lock-free copy of the accepted chain by height the
	// hammering readers judge against; acceptSeq is bumped before and after
	// every Accept call of the engine thread.
	hlog      *heightLog
	acceptSeq atomic.Uint64

	// handoverInvalid is set by planFinish (C21): the processing blocks that
	// will fail their own re-verification in the coming FinishStateSync and that
	// nobody decides while it runs.
	handoverInvalid   int
	handoverReprocess int

	lag     int // accepts issued - permits granted (only while the gate is closed)
	maxSeen int
	stat    map[string]int
	shape   []byte
	dead    bool // a call that must succeed failed: the history cannot continue
}

func newEngine(cc *caseCtx, r *kit.Run, rng *rand.Rand, cfg vmCfg, chain *recChain, vm *xvm, genesis *blk) *engine {
	e := &engine{
		cc: cc, r: r, rng: rng, cfg: cfg, chain: chain, vm: vm, ctx: context.Background(),
		byID: map[ids.ID]*node{}, accByH: map[uint64]ids.ID{}, stat: map[string]int{}, ready: cfg.Ready,
	}
	g := &node{b: genesis, st: stAccepted, base: true, vMax: 0, wantAcc: 0}
	e.add(g)
	e.accepted = []*node{g}
	e.last, e.pref = g, g
	e.accByH[0] = genesis.id
	return e
}

func (e *engine) add(n *node) {
	e.nodes = append(e.nodes, n)
	e.byID[n.b.id] = n
	if n.parent != nil {
		n.parent.children = append(n.parent.children, n)
	}
}

func (e *engine) op(kind byte, format string, args ...any) {
	e.shape = append(e.shape, kind)
	e.stat["op_"+string(kind)]++
	e.cc.logf(format, args...)
}

func (e *engine) fail(key, format string, args ...any) {
	e.dead = true
	e.cc.violation(key, format, args...)
}

func (e *engine) pick(f func(*node) bool) *node {
	var c []*node
	for _, n := range e.nodes {
		if f(n) {
			c = append(c, n)
		}
	}
	if len(c) == 0 {
		return nil
	}
	return c[e.rng.IntN(len(c))]
}

// verifiable: a snowman engine only verifies a block whose parent is
// processing or the last accepted block.
func (e *engine) verifiable(n *node) bool {
	return n.st == stKnown && n.parent != nil && (n.parent.st == stProcessing || n.parent == e.last) && len(n.handles) > 0
}

// usable: the block carries an output the chain can build/verify on.
func (e *engine) usable(n *node) bool {
	return n == e.last || n.st == stProcessing && (!e.ready || !n.vacuous || n.reverOK)
}

func (e *engine) prefOK(n *node) bool { return e.usable(n) }

// parseNew creates a new block on the given parent (nil = unknown parent) and
// hands its bytes to ParseBlock.
func (e *engine) parseNew(parent *node, invalid bool, flaky int) *node {
	e.nonce++
	var b *blk
	if parent == nil {
		b = makeBlk(ids.ID(sha256.Sum256([]byte(fmt.Sprint("orphan", e.nonce)))), 1000+e.nonce, 1, e.nonce, invalid, flaky)
	} else {
		var pctx *uint64
		if e.ctxP > 0 && e.rng.IntN(100) < e.ctxP {
			v := uint64(e.rng.IntN(4))
			pctx = &v
			e.stat["blocks_with_pchain_ctx"]++
		}
		b = makeBlkCtx(parent.b.id, parent.b.Hght+1, parent.b.Tmstmp+1, e.nonce, invalid, flaky, pctx)
	}
	e.op('p', "parseNew %s parent=%v invalid=%v flaky=%d pctx=%s", b, parent != nil, invalid, flaky, ctxStr(b.GetContext()))
	var h *sblock
	var err error
	e.r.Guard("ParseBlock", e.cc.witness(), func() { h, err = e.vm.ParseBlock(e.ctx, b.bytes) })
	if err != nil || h == nil {
		e.fail("parse-failed", "ParseBlock of well-formed bytes of %s failed: %v", b, err)
		return nil
	}
	if h.ID() != b.id || h.Height() != b.Hght || h.Parent() != b.Prnt {
		e.fail("parse-wrong-block", "ParseBlock(%s) returned %s", b, h)
		return nil
	}
	n := &node{b: b, parent: parent, st: stKnown, handles: []*sblock{h}}
	e.add(n)
	return n
}

// reparse hands the bytes of a known block to ParseBlock again.
func (e *engine) reparse(n *node) {
	e.op('k', "parseKnown %s st=%d", n.b, n.st)
	var h *sblock
	var err error
	e.r.Guard("ParseBlock", e.cc.witness(), func() { h, err = e.vm.ParseBlock(e.ctx, n.b.bytes) })
	if err != nil || h == nil {
		e.fail("parse-failed", "ParseBlock of the bytes of known block %s failed: %v", n.b, err)
		return
	}
	if h.ID() != n.b.id {
		e.fail("parse-wrong-block", "ParseBlock(%s) returned %s", n.b, h)
		return
	}
	if e.checkKnown && (h.Height() != n.b.Hght || h.Parent() != n.b.Prnt || !bytes.Equal(h.Bytes(), n.b.bytes)) {
		e.fail("parse-wrong-block", "ParseBlock of the bytes of known block %s returned %s", n.b, h)
		return
	}
	switch n.st {
	case stKnown:
		for _, x := range n.handles {
			if x == h {
				e.stat["reparse_same_handle"]++
				return
			}
		}
		e.stat["reparse_new_handle"]++
		n.handles = append(n.handles, h)
	case stProcessing:
		if h == n.dec {
			e.stat["reparse_processing_same_handle"]++
		} else {
			e.stat["reparse_processing_other_handle"]++
		}
		if e.checkKnown && e.ready && !n.vacuous {
			e.checkParsedProcessing(n, h)
		}
	case stAccepted:
		e.stat["reparse_accepted"]++
		if e.checkKnown && e.ready && n == e.last {
			// The wrapper always knows the last accepted block (it builds and
			// verifies on it): parsing its bytes must yield a block that carries the
			// executed state, not a fresh never-verified one. Output is only written
			// by the engine thread, so it can be read here.
			e.stat["reparse_last_accepted"]++
			if o := h.Output; !e.chain.isOutputOf(o, n.b.id) {
				e.cc.violation("parse-known-last-accepted-unverified", "ParseBlock of the bytes of the last accepted block %s returned a wrapper without the output of its execution (Output=%v): a stale never-verified block instead of the accepted one", n.b, o)
			}
		}
	}
}

// checkParsedProcessing judges the wrapper ParseBlock returned for the bytes
// of a block the VM verified on the engine's request and that is undecided:
// the wrapper must reflect that status. Observable through the exported API:
// it carries the Output the chain produced for the block, and a caller that
// verifies what it parsed does not make the chain execute the block again nor
// produce another verified notification (one engine decision, one
// notification). The engine keeps deciding through its own handle (n.dec).
func (e *engine) checkParsedProcessing(n *node, h *sblock) {
	if o := h.Output; !e.chain.isOutputOf(o, n.b.id) {
		e.cc.violation("parse-known-processing-unverified", "ParseBlock of the bytes of processing block %s (verified by the chain, undecided) returned a wrapper without the output of its verification (Output=%v, same wrapper as the verified one: %v)", n.b, o, h == n.dec)
	}
	if h == n.dec && e.rng.IntN(100) >= 35 {
		return
	}
	v0, _ := e.chain.marks()
	nv0 := e.chain.notif(e.chain.nVerified, n.b.id)
	pctx := rightCtx(n.b)
	e.op('w', "verify parsed wrapper of processing %s same=%v", n.b, h == n.dec)
	e.stat["reverify_parsed_processing"]++
	var err error
	e.r.Guard("Verify", e.cc.witness(), func() {
		if pctx == nil && e.rng.IntN(2) == 0 {
			err = h.Verify(e.ctx)
		} else {
			err = h.VerifyWithContext(e.ctx, pctx)
		}
	})
	again := 0
	for _, c := range e.chain.verifySince(v0) {
		if c.id == n.b.id {
			again++
		} else {
			e.cc.violation("verify-foreign-block", "Verify(%s) made the chain verify %s", n.b, short(c.id))
		}
	}
	nv1 := e.chain.notif(e.chain.nVerified, n.b.id)
	if again > 0 || nv1 != nv0 {
		e.cc.violation("parse-known-processing-reverified", "Verify on the wrapper ParseBlock returned for processing block %s (same wrapper as the verified one: %v) made the chain execute the block again (%d VerifyBlock call(s), %d more verified notification(s), err=%v) although the engine took one decision about it", n.b, h == n.dec, again, nv1-nv0, err)
		return
	}
	if err != nil {
		e.cc.violation("parse-known-processing-verify-error", "Verify on the wrapper ParseBlock returned for processing block %s failed: %v", n.b, err)
	}
}

// parseNoise hands k fresh, unrelated blocks to ParseBlock and drops them
// (gossip of blocks the engine has no use for): it is what pushes older
// entries out of the parsed-block cache.
func (e *engine) parseNoise(k int) {
	e.op('n', "parse %d unrelated blocks", k)
	for i := 0; i < k && !e.dead; i++ {
		e.nonce++
		b := makeBlk(ids.ID(sha256.Sum256([]byte(fmt.Sprint("noise", e.nonce)))), 5000+e.nonce, 1, e.nonce, false, 0)
		var h *sblock
		var err error
		e.r.Guard("ParseBlock", e.cc.witness(), func() { h, err = e.vm.ParseBlock(e.ctx, b.bytes) })
		if err != nil || h == nil || h.ID() != b.id {
			e.fail("parse-failed", "ParseBlock of well-formed bytes of %s = (%v, %v)", b, h, err)
			return
		}
		e.stat["noise_parses"]++
	}
}

// heightLog is an append-only copy of the accepted chain indexed by height
// (C20 chains start at height 0 and grow by one), published by the engine
// thread after each Accept returned and read lock-free by reader goroutines.
type heightLog struct {
	ids []ids.ID
	n   atomic.Int64 // heights [0, n) are published
}

func newHeightLog(capacity int, genesis ids.ID) *heightLog {
	l := &heightLog{ids: make([]ids.ID, capacity)}
	l.ids[0] = genesis
	l.n.Store(1)
	return l
}

func (l *heightLog) publish(h uint64, id ids.ID) {
	if int64(h) != l.n.Load() || int(h) >= len(l.ids) {
		return // not the next height / full: readers keep such answers for the final check
	}
	l.ids[h] = id
	l.n.Store(int64(h) + 1)
}

// get returns the accepted id of a published height.
func (l *heightLog) get(h uint64) (ids.ID, bool) {
	if h >= uint64(l.n.Load()) {
		return ids.Empty, false
	}
	return l.ids[h], true
}

func ctxStr(c *block.Context) string {
	if c == nil {
		return "none"
	}
	return fmt.Sprint(c.PChainHeight)
}

// rightCtx is the P-Chain context proposervm hands to the wrapper for this
// block: the one embedded in the block.
func rightCtx(b *blk) *block.Context { return b.GetContext() }

// wrongCtx is a context that does not match the block's: missing / present
// the other way round, or a different P-Chain height.
func (e *engine) wrongCtx(b *blk) (*block.Context, string) {
	switch {
	case b.PCtx == nil:
		return &block.Context{PChainHeight: uint64(e.rng.IntN(4))}, "extra"
	case e.rng.IntN(2) == 0:
		return nil, "missing"
	default:
		return &block.Context{PChainHeight: *b.PCtx + 1 + uint64(e.rng.IntN(3))}, "height"
	}
}

// verify issues a not yet verified block whose parent is processing or last
// accepted: Verify / VerifyWithContext on one of its handles with the block's
// P-Chain context. On a ready VM (scenario knob ctxP) the engine sometimes
// first gets the block through an outer block carrying a different context:
// that call runs first, and unless the wrapper took the block, the call with
// the right context follows (at once, or in a later step).
func (e *engine) verify(n *node) {
	h := n.handles[e.rng.IntN(len(n.handles))]
	if e.firstHandleP > 0 && e.rng.IntN(100) < e.firstHandleP {
		h = n.handles[0]
	}
	if len(n.handles) > 1 {
		if h == n.handles[0] {
			e.stat["verify_first_of_several_handles"]++
		} else {
			e.stat["verify_later_handle"]++
		}
	}
	if e.ready && e.ctxP > 0 && e.rng.IntN(100) < 22 {
		wrong, kind := e.wrongCtx(n.b)
		e.stat["verify_ctx_mismatch_calls"]++
		e.stat["verify_ctx_mismatch_"+kind]++
		e.verifyWith(n, h, wrong, true)
		if e.dead || n.st != stKnown {
			return
		}
		if e.rng.IntN(100) < 20 {
			e.stat["verify_ctx_mismatch_left_pending"]++
			return
		}
		h = n.handles[e.rng.IntN(len(n.handles))]
		e.stat["verify_ctx_right_after_mismatch"]++
	}
	e.verifyWith(n, h, rightCtx(n.b), false)
}

// verifyWith makes one Verify call and interprets the outcome using what the
// recorder saw.
func (e *engine) verifyWith(n *node, h *sblock, pctx *block.Context, mismatch bool) {
	v0, _ := e.chain.marks()
	nv0 := e.chain.notif(e.chain.nVerified, n.b.id)
	e.op('v', "verify %s built=%v ready=%v ctx=%s mismatch=%v", n.b, h == n.built, e.ready, ctxStr(pctx), mismatch)
	var err error
	e.r.Guard("Verify", e.cc.witness(), func() {
		if pctx == nil && e.rng.IntN(2) == 0 {
			err = h.Verify(e.ctx)
		} else {
			err = h.VerifyWithContext(e.ctx, pctx)
		}
	})
	e.interpretVerify(n, h, e.chain.verifySince(v0), nv0, err, mismatch, "")
}

// interpretVerify judges one returned Verify call. calls = the chain's
// VerifyBlock calls attributable to it, nv0 = verified notifications for the
// block before the call. overlapKey != "" marks a Verify that overlapped
// FinishStateSync (C21): a success without any verification by the chain is
// reported under that key.
func (e *engine) interpretVerify(n *node, h *sblock, calls []verifyCall, nv0 int, err error, mismatch bool, overlapKey string) {
	viaBuilt := h == n.built
	mine := 0
	okCall := false
	for _, c := range calls {
		if c.id == n.b.id {
			mine++
			okCall = okCall || c.ok
		} else {
			e.cc.violation("verify-foreign-block", "Verify(%s) made the chain verify %s", n.b, short(c.id))
		}
	}
	// The engine's decision is the result of the call: a Verify that failed did
	// not verify the block, whatever the reason (verified notifications are only
	// sent from the engine's calls, which are serialised).
	if nv1 := e.chain.notif(e.chain.nVerified, n.b.id); err != nil && nv1 != nv0 {
		e.cc.violation("notify-verified-on-failed-verify", "Verify(%s) (mismatching P-Chain context: %v) failed with %q, yet %d verified notification(s) were sent for the block during the call (chain VerifyBlock calls: %d, ok=%v)", n.b, mismatch, err, nv1-nv0, mine, okCall)
	}
	switch {
	case !e.ready:
		// vacuous verification during dynamic state sync
		if err != nil {
			e.fail("engine-call-error", "Verify(%s) during state sync failed: %v", n.b, err)
			return
		}
		n.st, n.dec, n.vacuous = stProcessing, h, true
		e.stat["verify_vacuous"]++
	case mismatch && mine == 0 && err != nil:
		// refused because of the context, the chain was not asked: the block stays unverified
		e.stat["verify_ctx_mismatch_refused"]++
		if viaBuilt {
			e.stat["verify_ctx_mismatch_refused_built"]++
		}
	case mine == 0 && viaBuilt:
		if err != nil {
			e.fail("verify-spurious-error", "Verify of locally built %s failed: %v", n.b, err)
			return
		}
		n.st, n.dec = stProcessing, h
		n.vMin, n.vMax = 0, 1 // statement silent on built blocks: 0 or 1 verified notification
		e.stat["verify_built_skipped"]++
	case mine == 0:
		// the wrapper refused without asking the chain
		if err == nil {
			if overlapKey != "" {
				// keep the history going: the engine now holds the block as processing
				n.st, n.dec, n.vacuous = stProcessing, h, true
				e.cc.violation(overlapKey, "Verify(%s) overlapping FinishStateSync returned success on the ready VM, but the block was never verified against the handed-over state (no VerifyBlock call by the chain)", n.b)
				return
			}
			e.fail("verify-without-chain", "Verify(%s) succeeded although the chain never verified it", n.b)
			return
		}
		if n.parent.st == stProcessing && !n.parent.reverOK && n.parent.vacuous {
			e.stat["verify_child_of_failed"]++ // parent failed its re-verification: refusal expected
			return
		}
		e.fail("verify-spurious-error", "Verify(%s) failed without consulting the chain although its parent is verified: %v", n.b, err)
	case okCall:
		if err != nil {
			e.fail("verify-spurious-error", "Verify(%s) failed although the chain verified it: %v", n.b, err)
			return
		}
		if mine > 1 {
			e.cc.violation("verify-repeated", "one Verify(%s) made the chain verify it %d times", n.b, mine)
		}
		n.st, n.dec = stProcessing, h
		n.vMin, n.vMax = 1, 1
		n.reverOK = true
		e.stat["verify_ok"]++
	default:
		if err == nil {
			e.fail("verify-invalid-passed", "Verify(%s) succeeded although the chain refused the block", n.b)
			return
		}
		e.stat["verify_refused"]++
	}
}

func (e *engine) setPref(n *node) {
	e.op('s', "setPreference %s", n.b)
	if err := e.vm.SetPreference(e.ctx, n.b.id); err != nil {
		e.fail("engine-call-error", "SetPreference(%s): %v", n.b, err)
		return
	}
	e.pref = n
}

func (e *engine) build() *node {
	e.op('b', "build on %s", e.pref.b)
	var h *sblock
	var err error
	var bctx *block.Context
	if e.ctxP > 0 && e.rng.IntN(100) < e.ctxP {
		bctx = &block.Context{PChainHeight: uint64(e.rng.IntN(4))}
		e.stat["blocks_with_pchain_ctx"]++
		e.stat["built_with_pchain_ctx"]++
	}
	e.r.Guard("BuildBlock", e.cc.witness(), func() {
		if bctx == nil {
			h, err = e.vm.BuildBlock(e.ctx)
		} else {
			h, err = e.vm.BuildBlockWithContext(e.ctx, bctx)
		}
	})
	if err != nil || h == nil {
		e.fail("build-failed", "BuildBlock on preference %s (st=%d) failed: %v", e.pref.b, e.pref.st, err)
		return nil
	}
	parent := e.byID[h.Parent()]
	if parent == nil || e.byID[h.ID()] != nil {
		e.fail("build-wrong-block", "BuildBlock returned %s (unknown parent or duplicate)", h)
		return nil
	}
	n := &node{b: h.Input, parent: parent, st: stKnown, handles: []*sblock{h}, built: h}
	e.add(n)
	return n
}

// accept issues Accept on a processing child of the last accepted block and
// then rejects the conflicting subtrees like snowman does.
func (e *engine) accept(n *node, sync bool) {
	if e.ready && !sync {
		for e.lag >= e.cfg.MaxLag && e.lag > 0 {
			e.chain.gate.grant(1)
			e.lag--
		}
	}
	e.op('a', "accept %s sync=%v lag=%d", n.b, sync, e.lag)
	if e.ready && e.probeP > 0 && e.rng.IntN(100) < e.probeP {
		pr := e.armProbe(n)
		defer e.disarmProbe(pr)
	}
	var err error
	e.acceptSeq.Add(1)
	done := kit.Go(func() {
		e.r.Guard("Accept", e.cc.witness(), func() {
			if sync {
				err = n.dec.SyncAccept(e.ctx)
			} else {
				err = n.dec.Accept(e.ctx)
			}
		})
	})
	select {
	case <-done:
	case <-time.After(stallGrace):
		// Accept can only wait for the accept queue, and the queue can only be
		// full if the wrapper queued more than the engine accepted (the lag is
		// bounded below the queue size). Stop gating so the case can finish;
		// whatever was queued in excess is judged by the recorder.
		e.stat["gate_forced_open"]++
		e.chain.gate.setOpen(true)
		e.cfg.MaxLag, e.lag = 0, 0
		res, stacks := kit.AwaitOrDeadlock(done, []string{"hypersdk/snow.", "hypersdk/snow/"}, deadlockGrace, deadlockWatchdog)
		if res == kit.Deadlock {
			e.fail("accept-deadlock", "Accept(%s) never returned; every goroutine of the wrapper is parked:\n%s", n.b, stacks)
			return
		} else if res == kit.Unknown {
			e.dead = true
			e.r.Inconclusive("case %d: Accept did not return within the watchdog and no deadlock witness was found", e.cc.wit.Case)
			return
		}
	}
	e.acceptSeq.Add(1)
	if err != nil {
		key := "engine-call-error"
		if e.acceptErrKey != "" {
			key = e.acceptErrKey
		}
		e.fail(key, "Accept(%s): %v", n.b, err)
		return
	}
	if e.ready {
		n.wantAcc = 1
		if !sync && e.cfg.MaxLag > 0 {
			if e.lag >= e.cfg.AcceptedCache {
				e.stat["accepts_with_lag_ge_accepted_cache"]++
			}
			e.lag++
			if e.lag > e.maxSeen {
				e.maxSeen = e.lag
			}
		}
	}
	old := e.last
	n.st = stAccepted
	e.last = n
	e.accepted = append(e.accepted, n)
	e.amu.Lock()
	e.accByH[n.b.Hght] = n.b.id
	e.tipH = n.b.Hght
	e.amu.Unlock()
	if e.hlog != nil {
		e.hlog.publish(n.b.Hght, n.b.id)
	}
	e.stat["accepts"]++
	// reject the siblings' subtrees, parents before children, siblings in random order
	sib := append([]*node(nil), old.children...)
	e.rng.Shuffle(len(sib), func(i, j int) { sib[i], sib[j] = sib[j], sib[i] })
	queue := sib
	for len(queue) > 0 && !e.dead {
		x := queue[0]
		queue = queue[1:]
		if x == n || x.st != stProcessing {
			continue
		}
		e.reject(x)
		queue = append(queue, x.children...)
	}
}

// ------------------------------------------------- lookups inside Accept ----

type probeTarget struct {
	id   ids.ID
	h    uint64
	role string // accepting | sibling | descendant
}

// acceptProbe is the state of one armed accept (written on the accepting
// goroutine, read by the engine thread after Accept returned).
type acceptProbe struct {
	mu      sync.Mutex
	windows int
	lookups int
	byRole  map[string]int
	blocked bool
}

// armProbe makes the next Accept(n) stop inside ChainIndex.UpdateLastAccepted
// - before the block is written to the index and right after (the
// snow.accept.afterIndex window) - while a reader goroutine looks up by id the
// block being accepted and the other blocks the engine holds as verified and
// undecided (its siblings' and its own subtrees). Accept continues when the
// reader is done; nothing sleeps. A verified, not rejected block is either
// processing or accepted at every instant, so every lookup must find it.
func (e *engine) armProbe(n *node) *acceptProbe {
	targets := []probeTarget{{n.b.id, n.b.Hght, "accepting"}}
	queue := append([]*node(nil), e.last.children...)
	for len(queue) > 0 && len(targets) < 8 {
		x := queue[0]
		queue = queue[1:]
		if x.st != stProcessing {
			continue
		}
		if x != n {
			role := "sibling"
			if x.parent != e.last {
				role = "descendant"
			}
			targets = append(targets, probeTarget{x.b.id, x.b.Hght, role})
		}
		queue = append(queue, x.children...)
	}
	pr := &acceptProbe{byRole: map[string]int{}}
	accepting := n.b
	vm, ci, ctx := e.vm, e.chain.ci, e.ctx
	e.chain.setOnIndex(func(b *blk, phase string) {
		if b.id != accepting.id {
			return
		}
		type miss struct {
			t   probeTarget
			api string
			err string
		}
		var misses []miss
		done := kit.Go(func() {
			for _, t := range targets {
				sb, err := vm.GetBlock(ctx, t.id)
				if err != nil || sb == nil || sb.ID() != t.id || sb.Height() != t.h {
					misses = append(misses, miss{t, "VM.GetBlock", fmt.Sprintf("(%v, %v)", sb, err)})
				}
				in, err := ci.GetBlock(ctx, t.id)
				if err != nil || in == nil || in.GetID() != t.id {
					misses = append(misses, miss{t, "ConsensusIndex.GetBlock", fmt.Sprintf("(%v, %v)", in, err)})
				}
			}
		})
		res, _ := kit.AwaitOrDeadlock(done, []string{"hypersdk/snow.", "hypersdk/snow/"}, deadlockGrace, deadlockWatchdog)
		pr.mu.Lock()
		defer pr.mu.Unlock()
		if res != kit.Returned {
			pr.blocked = true
			return
		}
		pr.windows++
		pr.lookups += 2 * len(targets)
		for _, t := range targets {
			pr.byRole[t.role]++
		}
		for _, m := range misses {
			e.cc.violation("lookup-id-during-accept", "%s(%s) = %s while Accept(%s) is in progress (%s): %s block h=%d, verified by the engine and not rejected, is not found by id", m.api, short(m.t.id), m.err, accepting, phase, m.t.role, m.t.h)
		}
	})
	return pr
}

func (e *engine) disarmProbe(pr *acceptProbe) {
	e.chain.setOnIndex(nil)
	pr.mu.Lock()
	defer pr.mu.Unlock()
	if pr.blocked {
		e.r.Inconclusive("case %d: a lookup by id issued while Accept was inside the index update did not return", e.cc.wit.Case)
	}
	if pr.windows > 0 {
		e.stat["accept_probes"]++
	}
	e.stat["accept_probe_windows"] += pr.windows
	e.stat["accept_probe_lookups"] += pr.lookups
	for role, k := range pr.byRole {
		e.stat["accept_probe_targets_"+role] += k
	}
}

func (e *engine) reject(x *node) {
	e.op('r', "reject %s", x.b)
	e.chain.markRejected(x.b.id)
	var err error
	e.r.Guard("Reject", e.cc.witness(), func() { err = x.dec.Reject(e.ctx) })
	if err != nil {
		e.fail("engine-call-error", "Reject(%s): %v", x.b, err)
		return
	}
	x.st = stRejected
	if x.reverOK || !x.vacuous {
		x.wantRej = 1
	}
	e.stat["rejects"]++
}

// repairPref moves the preference back into the processing tree after a
// decision removed it (the real engine sets the preference after every poll).
func (e *engine) repairPref() {
	if e.dead || e.prefOK(e.pref) && e.rng.IntN(3) > 0 {
		return
	}
	c := e.pick(e.prefOK)
	if c == nil {
		c = e.last
	}
	e.setPref(c)
}

// grantSome lets the async accepter advance by a random number of blocks.
func (e *engine) grantSome() {
	if e.lag == 0 {
		return
	}
	k := 1 + e.rng.IntN(e.lag)
	e.chain.gate.grant(k)
	e.lag -= k
	e.op('g', "grant %d", k)
}

// shutdown opens the gate and shuts the VM down: Shutdown closes the accept
// queue and waits for the accepter, i.e. it returns when every queued block
// has been processed (the quiescence point of a case).
func (e *engine) shutdown() bool {
	e.chain.gate.setOpen(true)
	e.lag = 0
	var err error
	done := kit.Go(func() { e.r.Guard("Shutdown", e.cc.witness(), func() { err = e.vm.Shutdown(e.ctx) }) })
	res, stacks := kit.AwaitOrDeadlock(done, []string{"hypersdk/snow.", "hypersdk/snow/"}, deadlockGrace, deadlockWatchdog)
	switch res {
	case kit.Deadlock:
		e.cc.violation("accepter-deadlock", "Shutdown never returned; every goroutine of the wrapper is parked:\n%s", stacks)
		return false
	case kit.Unknown:
		e.r.Inconclusive("case %d: Shutdown did not return within the watchdog and no deadlock witness was found", e.cc.wit.Case)
		return false
	}
	if err != nil {
		e.cc.violation("engine-call-error", "Shutdown: %v", err)
	}
	return true
}

// checkNotifications compares the notification multisets with the engine's
// decisions at quiescence.
func (e *engine) checkNotifications(startupRepeat *node) {
	c := e.chain
	var bad [][2]string
	c.mu.Lock()
	seen := map[ids.ID]struct{}{}
	for _, n := range e.nodes {
		id := n.b.id
		seen[id] = struct{}{}
		if v := c.nVerified[id]; v < n.vMin || v > n.vMax {
			bad = append(bad, [2]string{"notify-verified-mismatch", fmt.Sprintf("%s: %d verified notifications, engine decisions allow [%d,%d]", n.b, v, n.vMin, n.vMax)})
		}
		wantAccMax := n.wantAcc
		if n == startupRepeat {
			wantAccMax++ // documented at-least-once re-delivery of the last accepted block at start-up
		}
		if a := c.nAccepted[id]; a < n.wantAcc || a > wantAccMax {
			bad = append(bad, [2]string{"notify-accepted-mismatch", fmt.Sprintf("%s: %d accepted notifications, engine accepted it %d time(s)", n.b, a, n.wantAcc)})
		}
		if x := c.nRejected[id]; x != n.wantRej {
			bad = append(bad, [2]string{"notify-rejected-mismatch", fmt.Sprintf("%s: %d rejected notifications, engine rejected it %d time(s)", n.b, x, n.wantRej)})
		}
	}
	for _, m := range []struct {
		name string
		m    map[ids.ID]int
	}{{"verified", c.nVerified}, {"accepted", c.nAccepted}, {"rejected", c.nRejected}} {
		for id, k := range m.m {
			if _, ok := seen[id]; !ok {
				bad = append(bad, [2]string{"notify-" + m.name + "-mismatch", fmt.Sprintf("%d %s notification(s) for block %s the engine never decided", k, m.name, short(id))})
			}
		}
	}
	c.mu.Unlock()
	for _, b := range bad {
		e.cc.violation(b[0], "%s", b[1])
	}
}
