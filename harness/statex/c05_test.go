package statex

import (
	"bytes"
	"context"
	"encoding/hex"
	"errors"
	"fmt"
	"math/rand/v2"
	"sort"
	"strings"
	"testing"

	"github.com/ava-labs/avalanchego/database"
	"github.com/ava-labs/avalanchego/x/merkledb"

	"github.com/ava-labs/hypersdk/chain"
	"github.com/ava-labs/hypersdk/codec"
	"github.com/ava-labs/hypersdk/fees"
	ifees "github.com/ava-labs/hypersdk/internal/fees"
	"github.com/ava-labs/hypersdk/keys"
	"github.com/ava-labs/hypersdk/state"
	"github.com/ava-labs/hypersdk/state/balance"
	"github.com/ava-labs/hypersdk/state/tstate"
	"github.com/ava-labs/hypersdk/zzverif/chainfx"
	"github.com/ava-labs/hypersdk/zzverif/kit"
)

// ---------------------------------------------------------------------------
// oracle: permission bits from the statement (read / allocate / write), a
// declared byte grants an access iff it contains every bit the access needs.
// ---------------------------------------------------------------------------

const (
	c05Read  byte = 1
	c05Alloc byte = 2 | 1 // allocate implies read
	c05Write byte = 4 | 1 // write implies read
)

func c05Grants(declared, need byte) bool { return need&^declared == 0 }

// ---- view level ----

type c05Decl struct {
	Key  string `json:"key_hex"`
	Perm byte   `json:"perm"`
}

type c05VOp struct {
	Kind string `json:"op"` // get | put | del
	Key  string `json:"key_hex"`
	Val  string `json:"val,omitempty"`
}

type c05ViewCase struct {
	Part string            `json:"part"`         // view
	Adds []c05Decl         `json:"declarations"` // applied in order with Keys.Add (duplicates must union)
	Base map[string]string `json:"base"`         // hex key -> value present in storage
	Ops  []c05VOp          `json:"ops"`
}

func c05Shape(c c05ViewCase) string {
	var b strings.Builder
	for _, a := range c.Adds {
		fmt.Fprintf(&b, "%s:%d,", a.Key, a.Perm)
	}
	b.WriteByte('|')
	ks := make([]string, 0, len(c.Base))
	for k := range c.Base {
		ks = append(ks, k)
	}
	sort.Strings(ks)
	for _, k := range ks {
		fmt.Fprintf(&b, "%s=%s,", k, c.Base[k])
	}
	b.WriteByte('|')
	for _, o := range c.Ops {
		fmt.Fprintf(&b, "%s(%s,%s)", o.Kind, o.Key, o.Val)
	}
	return b.String()
}

type c05ViewStats struct{ allowed, denied int }

// runC05View drives a real scoped TStateView and a map model side by side.
func runC05View(c c05ViewCase, universe []string) (string, string, c05ViewStats) {
	var st c05ViewStats
	ctx := context.Background()
	unhex := func(s string) string { b, _ := hex.DecodeString(s); return string(b) }
	scope := state.Keys{}
	mscope := map[string]byte{}
	for _, a := range c.Adds {
		k := unhex(a.Key)
		if !scope.Add(k, state.Permissions(a.Perm)) {
			return "valid-key-not-added", fmt.Sprintf("Keys.Add(%s,%d) refused a well-formed key", a.Key, a.Perm), st
		}
		mscope[k] |= a.Perm
	}
	if len(scope) != len(mscope) {
		return "union-not-or", fmt.Sprintf("scope has %d keys, declarations name %d", len(scope), len(mscope)), st
	}
	for k, p := range mscope {
		if byte(scope[k]) != p {
			return "union-not-or", fmt.Sprintf("key %x declared %v: Keys holds %d, bitwise OR is %d", k, c.Adds, scope[k], p), st
		}
	}
	storage := state.ImmutableStorage{}
	base := map[string]string{}
	for hk, v := range c.Base {
		storage[unhex(hk)] = []byte(v)
		base[unhex(hk)] = v
	}
	model := map[string]string{}
	for k, v := range base {
		model[k] = v
	}
	ts := tstate.New(4)
	view := ts.NewView(scope, storage, 4)
	readAll := func(when string) (string, string) {
		for _, hk := range universe {
			k := unhex(hk)
			if !c05Grants(mscope[k], c05Read) {
				continue
			}
			got, err := view.GetValue(ctx, []byte(k))
			want, ok := model[k]
			if ok && (err != nil || string(got) != want) {
				return "read-mismatch", fmt.Sprintf("%s: readable key %s reads (%q,%v), model %q", when, hk, got, err, want)
			}
			if !ok && !errors.Is(err, database.ErrNotFound) {
				return "read-mismatch", fmt.Sprintf("%s: readable key %s reads (%q,%v), model absent", when, hk, got, err)
			}
		}
		return "", ""
	}
	for i, o := range c.Ops {
		k := unhex(o.Key)
		p := mscope[k]
		when := fmt.Sprintf("step %d %s(%s) with declared byte %d", i, o.Kind, o.Key, p)
		opIdx, pend := view.OpIndex(), view.PendingChanges()
		_, exists := model[k]
		var err error
		var got []byte
		var allowed bool
		var deniedKey string
		switch o.Kind {
		case "get":
			allowed = c05Grants(p, c05Read)
			deniedKey = "read-without-permission-allowed"
			got, err = view.GetValue(ctx, []byte(k))
			if allowed {
				want, ok := model[k]
				if ok && (err != nil || string(got) != want) {
					return "declared-read-wrong", fmt.Sprintf("%s: got (%q,%v) want %q", when, got, err, want), st
				}
				if !ok && !errors.Is(err, database.ErrNotFound) {
					return "declared-read-wrong", fmt.Sprintf("%s: got (%q,%v) want not-found", when, got, err), st
				}
			} else if err == nil || errors.Is(err, database.ErrNotFound) || got != nil {
				return deniedKey, fmt.Sprintf("%s: read returned (%q,%v); an undeclared read must fail without revealing presence", when, got, err), st
			}
		case "put":
			allowed = c05Grants(p, c05Write) && (exists || c05Grants(p, c05Alloc))
			deniedKey = "write-without-permission-allowed"
			if c05Grants(p, c05Write) && !exists {
				deniedKey = "create-without-allocate-allowed"
			}
			err = view.Insert(ctx, []byte(k), []byte(o.Val))
			if allowed {
				if err != nil {
					return "declared-access-denied", fmt.Sprintf("%s: insert failed: %v (key exists: %v)", when, err, exists), st
				}
				model[k] = o.Val
			} else if err == nil {
				return deniedKey, fmt.Sprintf("%s: insert succeeded (key exists: %v)", when, exists), st
			}
		case "del":
			allowed = c05Grants(p, c05Write)
			deniedKey = "remove-without-permission-allowed"
			err = view.Remove(ctx, []byte(k))
			if allowed {
				if err != nil {
					return "declared-access-denied", fmt.Sprintf("%s: remove failed: %v", when, err), st
				}
				delete(model, k)
			} else if err == nil {
				return deniedKey, fmt.Sprintf("%s: remove succeeded (key exists: %v)", when, exists), st
			}
		}
		if allowed {
			st.allowed++
		} else {
			st.denied++
			if view.OpIndex() != opIdx || view.PendingChanges() != pend {
				return "denied-op-changed-view", fmt.Sprintf("%s: denied, but OpIndex %d->%d PendingChanges %d->%d", when, opIdx, view.OpIndex(), pend, view.PendingChanges()), st
			}
		}
		if key, d := readAll(when); d != "" {
			return key, d, st
		}
	}
	// what the view publishes: exactly the model's difference to the base, and only writable keys
	view.Commit()
	changed := ts.ChangedKeys()
	for k, v := range changed {
		if !c05Grants(mscope[k], c05Write) {
			return "commit-touched-unwritable-key", fmt.Sprintf("commit published key %x (declared byte %d, no write permission) = %s", k, mscope[k], mstr(v)), st
		}
	}
	for _, hk := range universe {
		k := unhex(hk)
		mv, mok := model[k]
		bv, bok := base[k]
		differs := mok != bok || mv != bv
		cv, has := changed[k]
		switch {
		case differs && !has:
			return "commit-differs-from-model", fmt.Sprintf("key %s changed in the model (%q,%v) but was not published", hk, mv, mok), st
		case differs && (cv.HasValue() != mok || (mok && string(cv.Value()) != mv)):
			return "commit-differs-from-model", fmt.Sprintf("key %s published as %s, model (%q,%v)", hk, mstr(cv), mv, mok), st
		case !differs && has:
			return "commit-differs-from-model", fmt.Sprintf("key %s unchanged in the model but published as %s", hk, mstr(cv)), st
		}
	}
	return "", "", st
}

// c05PresenceLeak: a denied read must fail identically whether or not the key exists.
func c05PresenceLeak(key []byte, decl state.Keys) (string, bool) {
	ctx := context.Background()
	var errs [2]string
	for i, present := range []bool{false, true} {
		storage := state.ImmutableStorage{}
		if present {
			storage[string(key)] = []byte("secret")
		}
		v, err := tstate.New(1).NewView(decl, storage, 1).GetValue(ctx, key)
		if err == nil || v != nil {
			return fmt.Sprintf("read returned (%q,%v) with the key present=%v", v, err, present), true
		}
		errs[i] = err.Error()
	}
	if errs[0] != errs[1] {
		return fmt.Sprintf("denied read answers %q when the key is absent and %q when it is present", errs[0], errs[1]), true
	}
	return "", false
}

// ---- StateKeys union ----

type c05UnionCase struct {
	Part    string      `json:"part"` // statekeys
	Actions [][]c05Decl `json:"actions"`
	Sponsor []c05Decl   `json:"sponsor_extra,omitempty"`
}

type c05BH struct {
	*balance.PrefixBalanceHandler
	extra state.Keys
}

func (b c05BH) SponsorStateKeys(addr codec.Address) state.Keys {
	ks := b.PrefixBalanceHandler.SponsorStateKeys(addr)
	for k, p := range b.extra {
		ks[k] |= p
	}
	return ks
}

func runC05Union(c c05UnionCase, nonce uint64) (string, string) {
	want := map[string]byte{}
	var actions []chain.Action
	for i, ds := range c.Actions {
		a := &chainfx.ProgAction{Nonce: nonce*8 + uint64(i), Start: -1, End: -1}
		for _, d := range ds {
			k, _ := hex.DecodeString(d.Key)
			a.Keys = append(a.Keys, chainfx.KeyDecl{Key: k, Perm: state.Permissions(d.Perm)})
			want[string(k)] |= d.Perm
		}
		a.Canonicalize()
		actions = append(actions, a)
	}
	addr := chainfx.SpyAddr(int(nonce % 5))
	pbh := balance.NewPrefixBalanceHandler([]byte{0})
	bh := c05BH{PrefixBalanceHandler: pbh, extra: state.Keys{}}
	for _, d := range c.Sponsor {
		k, _ := hex.DecodeString(d.Key)
		bh.extra[string(k)] |= state.Permissions(d.Perm)
		want[string(k)] |= d.Perm
	}
	want[string(pbh.BalanceKey(addr))] |= c05Read | c05Write
	f := &chainfx.SpyFactory{Auth: chainfx.SpyAuth{ActorAddr: addr, SponsorAddr: addr, Start: -1, End: -1, OK: true}}
	tx, err := chainfx.Tx(chain.Base{Timestamp: 1000, MaxFee: 1}, actions, f)
	if err != nil {
		return "harness", "sign: " + err.Error()
	}
	got, err := tx.StateKeys(bh)
	if err != nil {
		return "statekeys-error", fmt.Sprintf("StateKeys failed on well-formed keys: %v", err)
	}
	if len(got) != len(want) {
		return "statekeys-union-not-or", fmt.Sprintf("StateKeys has %d keys, declarations name %d", len(got), len(want))
	}
	for k, p := range want {
		if byte(got[k]) != p {
			return "statekeys-union-not-or", fmt.Sprintf("key %x: StateKeys holds %d, bitwise OR of all declarations is %d", k, got[k], p)
		}
	}
	// second call (cached) must answer the same
	again, err := tx.StateKeys(bh)
	if err != nil || len(again) != len(want) {
		return "statekeys-union-not-or", fmt.Sprintf("second StateKeys call: %d keys, err %v", len(again), err)
	}
	return "", ""
}

// ---- transaction level ----

type c05TxPlan struct {
	Category string `json:"category"` // "" = no planted undeclared access
	Action   int    `json:"action"`
	Pos      int    `json:"pos"`
	PriorMut int    `json:"prior_mutations"`
}

type c05TxWitness struct {
	Part    string            `json:"part"` // tx
	World   int               `json:"world"`
	Block   int               `json:"block"`
	Cfg     string            `json:"cfg"`
	Txs     []string          `json:"txs"`
	TxBytes []string          `json:"tx_bytes"`
	Plans   []c05TxPlan       `json:"plans"`
	Parent  map[string]string `json:"parent_state"`
}

var c05PermPool = []byte{1, 5, 3, 7, 7, 7, 5, 0, 2, 4, 6, 0x80, 0x85}

func c05NextPrices(ctx context.Context, fx *chainfx.Fixture, view merkledb.View, ts int64) (fees.Dimensions, error) {
	raw, err := view.GetValue(ctx, chain.FeeKey(fx.MM.FeePrefix()))
	if err != nil {
		return fees.Dimensions{}, err
	}
	return ifees.NewManager(raw).ComputeNext(ts, fx.Rules).UnitPrices(), nil
}

// c05GenTx draws a transaction that performs some declared accesses and (usually) one planted access outside its declarations.
func c05GenTx(rng *rand.Rand, w *chainfx.World, fx *chainfx.Fixture, cur map[string][]byte, nonce *uint64, ts int64) (*chain.Transaction, c05TxPlan, error) {
	si := rng.IntN(len(w.Factories))
	sponsorKey := []byte(fx.BalanceKey(w.Addrs[si]))
	na := 1 + rng.IntN(3)
	acts := make([]*chainfx.ProgAction, na)
	union := map[string]byte{string(sponsorKey): c05Read | c05Write}
	for i := range acts {
		*nonce++
		a := &chainfx.ProgAction{Nonce: *nonce, Compute: uint64(rng.IntN(3)), Start: -1, End: -1}
		nd := 1 + rng.IntN(3)
		for j := 0; j < nd; j++ {
			k := w.Keys[rng.IntN(len(w.Keys))]
			p := byte(7)
			if rng.IntN(2) == 0 {
				p = c05PermPool[rng.IntN(len(c05PermPool))]
			}
			a.Keys = append(a.Keys, chainfx.KeyDecl{Key: k, Perm: state.Permissions(p)})
			union[string(k)] |= p
		}
		a.Canonicalize()
		acts[i] = a
	}
	val := func(k []byte) []byte {
		v := w.Value(rng, k, true)
		if len(v) == 0 {
			return nil
		}
		return v
	}
	// ordinary ops: on keys of the transaction's union, permitted as far as the generator can tell
	for _, a := range acts {
		no := rng.IntN(4)
		for j := 0; j < no; j++ {
			d := a.Keys[rng.IntN(len(a.Keys))]
			if rng.IntN(4) == 0 { // a key declared by another action of the same transaction (allowed through the union)
				o := acts[rng.IntN(len(acts))]
				d = o.Keys[rng.IntN(len(o.Keys))]
			}
			p := union[string(d.Key)]
			switch {
			case c05Grants(p, 7) && rng.IntN(3) != 0:
				if rng.IntN(3) == 0 {
					a.Ops = append(a.Ops, chainfx.Op{Kind: chainfx.OpDel, Key: d.Key})
				} else {
					a.Ops = append(a.Ops, chainfx.Op{Kind: chainfx.OpPut, Key: d.Key, Val: val(d.Key)})
				}
			case c05Grants(p, c05Read):
				a.Ops = append(a.Ops, chainfx.Op{Kind: chainfx.OpGet, Key: d.Key})
			}
		}
		if rng.IntN(8) == 0 { // the sponsor's own balance key is readable through the sponsor declaration
			a.Ops = append(a.Ops, chainfx.Op{Kind: chainfx.OpGet, Key: sponsorKey})
		}
	}
	plan := c05TxPlan{}
	if rng.IntN(5) != 0 {
		ai := rng.IntN(na)
		a := acts[ai]
		var bad *chainfx.Op
		var undeclared [][]byte
		for _, k := range w.Keys {
			if _, ok := union[string(k)]; !ok {
				undeclared = append(undeclared, k)
			}
		}
		pickDeclared := func(pred func(k string, p byte) bool) []byte {
			var c []string
			for k, p := range union {
				if k != string(sponsorKey) && pred(k, p) {
					c = append(c, k)
				}
			}
			if len(c) == 0 {
				return nil
			}
			sort.Strings(c)
			return []byte(c[rng.IntN(len(c))])
		}
		kinds := []byte{chainfx.OpGet, chainfx.OpPut, chainfx.OpDel}
		for attempt := 0; attempt < 4 && bad == nil; attempt++ {
			switch cat := rng.IntN(7); cat {
			case 0: // key declared nowhere in the transaction
				if len(undeclared) > 0 {
					k := undeclared[rng.IntN(len(undeclared))]
					bad = &chainfx.Op{Kind: kinds[rng.IntN(3)], Key: k}
					plan.Category = "undeclared-key"
				}
			case 1: // same prefix, different size suffix
				if k := pickDeclared(func(string, byte) bool { return true }); k != nil {
					suf, _ := keys.MaxChunks(k)
					twin := keys.EncodeChunks(append([]byte{}, k[:len(k)-2]...), suf+1+uint16(rng.IntN(2)))
					if _, ok := union[string(twin)]; !ok {
						bad = &chainfx.Op{Kind: kinds[rng.IntN(3)], Key: twin}
						plan.Category = "suffix-twin"
					}
				}
			case 2: // declared readable but not writable
				if k := pickDeclared(func(_ string, p byte) bool { return !c05Grants(p, c05Write) }); k != nil {
					bad = &chainfx.Op{Kind: kinds[1+rng.IntN(2)], Key: k}
					plan.Category = "write-without-write-permission"
				}
			case 3: // writable but not allocatable, and absent: creation
				if k := pickDeclared(func(k string, p byte) bool {
					_, exists := cur[k]
					return c05Grants(p, c05Write) && !c05Grants(p, c05Alloc) && !exists
				}); k != nil {
					bad = &chainfx.Op{Kind: chainfx.OpPut, Key: k}
					plan.Category = "create-without-allocate"
				}
			case 4: // declared without the read bit
				if k := pickDeclared(func(_ string, p byte) bool { return !c05Grants(p, c05Read) }); k != nil {
					bad = &chainfx.Op{Kind: chainfx.OpGet, Key: k}
					plan.Category = "read-without-read-permission"
				}
			case 5: // somebody else's balance
				oi := (si + 1 + rng.IntN(len(w.Addrs)-1)) % len(w.Addrs)
				k := []byte(fx.BalanceKey(w.Addrs[oi]))
				if _, ok := union[string(k)]; !ok {
					bad = &chainfx.Op{Kind: kinds[rng.IntN(3)], Key: k}
					plan.Category = "foreign-balance-key"
				}
			case 6: // own balance key: declared read|write by the sponsor, never allocate; delete then re-create needs allocate
				bad = &chainfx.Op{Kind: chainfx.OpDel, Key: sponsorKey}
				plan.Category = "delete-own-balance-then-recreate"
			}
		}
		if bad != nil {
			if bad.Kind == chainfx.OpPut {
				bad.Val = val(bad.Key)
				if len(bad.Key) == 36 && bad.Key[0] == 0 {
					bad.Val = []byte{0, 0, 0, 0, 0, 0, 0, 9}
				}
			}
			pos := rng.IntN(len(a.Ops) + 1)
			ops := append([]chainfx.Op{}, a.Ops[:pos]...)
			ops = append(ops, *bad)
			if plan.Category == "delete-own-balance-then-recreate" {
				ops = append(ops, chainfx.Op{Kind: chainfx.OpPut, Key: sponsorKey, Val: []byte{0, 0, 0, 0, 0, 0, 0, 7}})
			}
			a.Ops = append(ops, a.Ops[pos:]...)
			plan.Action, plan.Pos = ai, pos
			for i := 0; i <= ai; i++ {
				lim := len(acts[i].Ops)
				if i == ai {
					lim = pos
				}
				for _, o := range acts[i].Ops[:lim] {
					if o.Kind == chainfx.OpPut || o.Kind == chainfx.OpDel {
						plan.PriorMut++
					}
				}
			}
		}
	}
	var actions []chain.Action
	for _, a := range acts {
		actions = append(actions, a)
	}
	expiry := (ts/1000 + 1 + int64(rng.IntN(20))) * 1000
	tx, err := chainfx.Tx(chain.Base{Timestamp: expiry, ChainID: w.Rules.ChainID, MaxFee: 1 << 50}, actions, w.Factories[si])
	return tx, plan, err
}

func c05Exec(ctx context.Context, fx *chainfx.Fixture, cfg chainfx.ChainCfg, blk *chain.ExecutionBlock, parentView merkledb.View) (*chain.OutputBlock, error) {
	inst, err := fx.NewChain(cfg)
	if err != nil {
		return nil, fmt.Errorf("harness: %w", err)
	}
	defer inst.Close()
	rb, err := fx.Reparse(blk)
	if err != nil {
		return nil, fmt.Errorf("harness reparse: %w", err)
	}
	return inst.Chain.Execute(ctx, parentView, rb, true)
}

func c05TxLevel(t *testing.T, r *kit.Run) {
	ctx := context.Background()
	rng := r.Rand("tx")
	nWorlds := r.N(500, 25000)
	var nonce uint64
	for wi := 0; wi < nWorlds && r.Violations() < 10; wi++ {
		w := chainfx.NewWorld(rng, 6+rng.IntN(7), 3+rng.IntN(2), false, chainfx.LooseRules())
		fx, err := w.Fixture()
		if err != nil {
			t.Fatalf("fixture: %v", err)
		}
		model := w.Model()
		parent := fx.Genesis
		var parentView merkledb.View = fx.DB
		ts := int64(1_700_000_000_000)
		nBlocks := 2 + rng.IntN(4)
		for bi := 0; bi < nBlocks; bi++ {
			ts += int64(1000 * (1 + rng.IntN(6)))
			ntx := 1
			if rng.IntN(3) == 0 {
				ntx = 2 + rng.IntN(3)
			}
			var txs []*chain.Transaction
			var plans []c05TxPlan
			for i := 0; i < ntx; i++ {
				tx, plan, err := c05GenTx(rng, w, fx, model.State, &nonce, ts)
				if err != nil {
					t.Fatalf("gen tx: %v", err)
				}
				txs = append(txs, tx)
				plans = append(plans, plan)
			}
			blk, err := fx.Block(parent, parentView, ts, txs)
			if err != nil {
				t.Fatalf("block: %v", err)
			}
			prices, err := c05NextPrices(ctx, fx, parentView, ts)
			if err != nil {
				t.Fatalf("prices: %v", err)
			}
			pm := model.Clone()
			pred := pm.ApplyBlock(txs, prices)
			cfg := chainfx.ChainCfg{Cores: 1, Fetch: 1}
			if rng.IntN(3) == 0 {
				cfg = chainfx.ChainCfg{Cores: 4, Fetch: 4, SigWorkers: 2}
			}
			wit := c05TxWitness{Part: "tx", World: wi, Block: bi, Cfg: fmt.Sprintf("cores=%d fetch=%d", cfg.Cores, cfg.Fetch), Plans: plans, Parent: map[string]string{}}
			for _, tx := range txs {
				wit.Txs = append(wit.Txs, chainfx.DescribeTx(tx))
				wit.TxBytes = append(wit.TxBytes, kit.Hex(tx.Bytes()))
			}
			for k, v := range model.State {
				wit.Parent[kit.Hex([]byte(k))] = kit.Hex(v)
			}
			var out *chain.OutputBlock
			var xerr error
			r.Guard("Chain.Execute", wit, func() { out, xerr = c05Exec(ctx, fx, cfg, blk, parentView) })
			r.Eval()
			if pred.Invalid != "" {
				// not what this workload aims at (every sponsor is funded, every key well formed)
				r.Count("tx_blocks_model_invalid", 1)
				if xerr == nil {
					r.Violation("C05/tx-model-invalid-block-accepted", wit, "model rejects the block (%s) but it executed", pred.Invalid)
				}
				break
			}
			if xerr != nil || out == nil {
				r.Violation("C05/block-rejected-on-undeclared-access", wit, "a block whose transactions only fail by touching undeclared keys must execute with failed results, got error: %v", xerr)
				break
			}
			res := out.ExecutionResults.Results
			if len(res) != len(txs) {
				r.Violation("C05/tx-result-count", wit, "%d results for %d transactions", len(res), len(txs))
				break
			}
			bad := false
			for i, got := range res {
				want := pred.Results[i]
				pl := plans[i]
				r.Count("tx_total", 1)
				if want.Success {
					r.Count("tx_model_success", 1)
				} else {
					r.Count("tx_model_failed", 1)
					if pl.Category != "" {
						r.Count("tx_failed_with_planted_"+pl.Category, 1)
						if pl.PriorMut > 0 {
							r.Count("tx_failed_after_prior_mutations", 1)
						}
						r.Distinct("tx", pl.Category, pl.Action, pl.Pos, pl.PriorMut, len(txs[i].Actions), i)
					}
				}
				switch {
				case got == nil:
					r.Violation("C05/tx-result-count", wit, "tx %d: nil result", i)
					bad = true
				case got.Success && !want.Success:
					r.Violation("C05/tx-undeclared-access-succeeded", wit, "tx %d (%s, planted %q): the model denies an access but the transaction succeeded", i, txs[i].GetID(), pl.Category)
					bad = true
				case !got.Success && want.Success:
					r.Violation("C05/tx-declared-access-denied", wit, "tx %d (%s): every access is covered by the union of declarations but the transaction failed: %s", i, txs[i].GetID(), got.Error)
					bad = true
				case got.Fee != want.Fee:
					r.Violation("C05/tx-fee-not-kept", wit, "tx %d: fee %d, model %d (success=%v)", i, got.Fee, want.Fee, want.Success)
					bad = true
				default:
					if d := chainfx.CompareResult(got, want); d != "" {
						r.Violation("C05/tx-result-differs-from-model", wit, "tx %d: %s", i, d)
						bad = true
					}
				}
			}
			// post-state: failed transactions must have left nothing but the fee
			all := w.AllKeys()
			post, err := chainfx.ReadKeys(ctx, out.View, all)
			if err != nil {
				t.Fatalf("read post state: %v", err)
			}
			anyFailed := false
			for _, m := range pred.Results {
				if !m.Success {
					anyFailed = true
				}
			}
			for _, k := range all {
				gv, gok := post[k]
				mv, mok := pm.State[k]
				if gok != mok || !bytes.Equal(gv, mv) {
					key := "C05/tx-state-differs-from-model"
					if anyFailed {
						key = "C05/tx-failed-effects-not-reverted"
					}
					r.Violation(key, wit, "post-state key %x = (%x,present=%v), model (%x,present=%v)", k, gv, gok, mv, mok)
					bad = true
					break
				}
			}
			if bad {
				break
			}
			model = pm
			parent = blk
			parentView = out.View
			fx.Index.Put(blk)
		}
	}
}

func TestC05(t *testing.T) {
	r := kit.Start(t, "C05", "exploration")
	r.Rule("(view, exhaustive) every permission byte 0..255 declared for one key x target in {declared key, undeclared key, same prefix with a different size suffix} x key present/absent x op in {get, put new value, put identical value, remove}: success iff the declared byte contains the needed bits (read=1, write=4|1, create additionally allocate=2|1); a denied op must leave OpIndex/PendingChanges/all readable keys unchanged, a denied read must fail identically whether the key exists; Commit publishes exactly the model's writes and never a key without write permission. (union) all 65536 pairs of bytes added twice for one key = bitwise OR. (view, random) 0..6 declarations (duplicates) over 6 keys (3 prefixes x 2 suffixes), random storage, 1..10 ops against a map model. (statekeys) Transaction.StateKeys over 1..4 actions + sponsor declarations with overlapping keys = OR of all bytes. (tx) worlds of 6..12 keys (prefix twins) and 3..4 sponsors; blocks of 1..4 transactions of 1..3 programmable actions performing declared accesses (also through another action's declaration) and usually one planted access outside the union (undeclared key, suffix twin, write on read-only, create without allocate, read without read bit, foreign balance key, delete+re-create of the own balance key), executed by the real Chain.Execute and compared with the independent chainfx model: failed, earlier effects reverted, fee kept, block still valid. Non-trivial = view sequences with both an allowed and a denied op / transactions failing on a planted access; distinct = distinct (declarations, storage, op sequence) resp. (category, action, position, prior mutations, #actions, tx index).")
	r.Assume("permission byte semantics: an access needing bits N is granted by declared byte D iff N&^D==0, with read=1, allocate=2|1, write=4|1 (state/keys.go constants, DESIGN C05)",
		"a remove is a write access even when the key is absent; re-inserting the identical value is a write access",
		"unit prices of a block are taken from the real fee manager (judged by C13); chunk limits are judged by C40")

	universe := []string{}
	names := map[string]string{}
	for _, pre := range []string{"a", "b", "c"} {
		for _, suf := range []uint16{1, 2} {
			k := keys.EncodeChunks([]byte(pre), suf)
			universe = append(universe, kit.Hex(k))
			names[kit.Hex(k)] = fmt.Sprintf("%s/%d", pre, suf)
		}
	}
	judgeView := func(c c05ViewCase, nontrivialOnlyMixed bool) {
		r.Eval()
		var key, d string
		var st c05ViewStats
		r.Guard("tstate-scoped-view", c, func() { key, d, st = runC05View(c, universe) })
		if d != "" {
			r.Violation("C05/"+key, c, "%s", d)
		}
		r.Count("view_ops_allowed", st.allowed)
		r.Count("view_ops_denied", st.denied)
		if !nontrivialOnlyMixed || (st.allowed > 0 && st.denied > 0) {
			r.Distinct("view", c05Shape(c))
			r.Sample(c)
		}
	}

	if rf := r.Replay(); rf != nil && len(rf.Witness) > 0 {
		var probe struct {
			Part string `json:"part"`
		}
		_ = jsonUnmarshal(rf.Witness, &probe)
		switch probe.Part {
		case "view":
			var c c05ViewCase
			if err := jsonUnmarshal(rf.Witness, &c); err == nil {
				judgeView(c, false)
				r.Finish(0)
				return
			}
		case "statekeys":
			var c c05UnionCase
			if err := jsonUnmarshal(rf.Witness, &c); err == nil {
				if key, d := runC05Union(c, 1); d != "" {
					r.Violation("C05/"+key, c, "%s", d)
				}
				r.Finish(0)
				return
			}
		}
		// tx witnesses: the whole (seeded, deterministic) workload is re-run
	}

	// (1) exhaustive single-op lattice
	D, S, U := universe[0], universe[1], universe[2] // a/1 declared, a/2 twin, b/1 undeclared
	for p := 0; p < 256; p++ {
		for _, target := range []string{D, S, U} {
			for _, present := range []bool{false, true} {
				for _, op := range []string{"get", "put", "putsame", "del"} {
					c := c05ViewCase{Part: "view", Adds: []c05Decl{{Key: D, Perm: byte(p)}}, Base: map[string]string{S: "twin", U: "other"}}
					if target == D {
						delete(c.Base, D)
					}
					if present {
						c.Base[target] = "cur"
					} else {
						delete(c.Base, target)
					}
					o := c05VOp{Kind: op, Key: target, Val: "new"}
					if op == "putsame" {
						o.Kind = "put"
						o.Val = "cur"
					}
					c.Ops = []c05VOp{o}
					judgeView(c, false)
					r.Count("lattice_cases", 1)
				}
			}
			// presence must not leak through a denied read
			tk, _ := hex.DecodeString(target)
			dk, _ := hex.DecodeString(D)
			declared := byte(p)
			if target != D {
				declared = 0
			}
			if !c05Grants(declared, c05Read) {
				scope := state.Keys{}
				scope.Add(string(dk), state.Permissions(p))
				wc := map[string]any{"part": "presence", "declared_key": D, "perm": p, "target": target}
				r.Guard("presence", wc, func() {
					if d, bad := c05PresenceLeak(tk, scope); bad {
						r.Violation("C05/denied-read-observes-presence", wc, "declared %s with byte %d, read of %s: %s", names[D], p, names[target], d)
					}
				})
				r.Eval()
				r.Count("presence_probes", 1)
			}
		}
	}

	// (2) union of duplicate declarations, all byte pairs
	dk, _ := hex.DecodeString(D)
	for p1 := 0; p1 < 256; p1++ {
		for p2 := 0; p2 < 256; p2++ {
			ks := state.Keys{}
			ok1 := ks.Add(string(dk), state.Permissions(p1))
			ok2 := ks.Add(string(dk), state.Permissions(p2))
			or := byte(p1 | p2)
			wc := map[string]any{"part": "union", "p1": p1, "p2": p2}
			if !ok1 || !ok2 || len(ks) != 1 || byte(ks[string(dk)]) != or {
				r.Violation("C05/union-not-or", wc, "Add(%d) then Add(%d): Keys holds %d (len %d), bitwise OR is %d", p1, p2, ks[string(dk)], len(ks), or)
			}
			for _, need := range []byte{c05Read, c05Alloc, c05Write, 7} {
				if ks.Has(dk, state.Permissions(need)) != c05Grants(or, need) {
					r.Violation("C05/union-has-mismatch", wc, "bytes %d|%d=%d: Has(%d)=%v, want %v", p1, p2, or, need, !c05Grants(or, need), c05Grants(or, need))
				}
			}
			r.Eval()
		}
	}
	r.Count("union_pairs", 65536)

	// (3) random scoped sequences
	rng := r.Rand("view")
	vals := []string{"A", "B", "cur", ""}
	nSeq := r.N(40000, 2500000)
	for i := 0; i < nSeq && r.Violations() < 20; i++ {
		c := c05ViewCase{Part: "view", Base: map[string]string{}}
		for _, k := range universe {
			if rng.IntN(2) == 0 {
				c.Base[k] = vals[rng.IntN(3)]
			}
		}
		na := rng.IntN(7)
		for j := 0; j < na; j++ {
			p := c05PermPool[rng.IntN(len(c05PermPool))]
			if rng.IntN(4) == 0 {
				p = byte(rng.UintN(256))
			}
			c.Adds = append(c.Adds, c05Decl{Key: universe[rng.IntN(len(universe))], Perm: p})
		}
		no := 1 + rng.IntN(10)
		for j := 0; j < no; j++ {
			k := universe[rng.IntN(len(universe))]
			if len(c.Adds) > 0 && rng.IntN(3) != 0 {
				k = c.Adds[rng.IntN(len(c.Adds))].Key
			}
			switch rng.IntN(3) {
			case 0:
				c.Ops = append(c.Ops, c05VOp{Kind: "get", Key: k})
			case 1:
				c.Ops = append(c.Ops, c05VOp{Kind: "put", Key: k, Val: vals[rng.IntN(len(vals))]})
			default:
				c.Ops = append(c.Ops, c05VOp{Kind: "del", Key: k})
			}
		}
		judgeView(c, true)
	}

	// (4) Transaction.StateKeys = OR over actions and sponsor
	urng := r.Rand("statekeys")
	nU := r.N(5000, 150000)
	for i := 0; i < nU && r.Violations() < 20; i++ {
		c := c05UnionCase{Part: "statekeys"}
		na := 1 + urng.IntN(4)
		pool := universe[:2+urng.IntN(len(universe)-1)]
		dup := false
		seen := map[string]bool{}
		for a := 0; a < na; a++ {
			var ds []c05Decl
			nk := urng.IntN(4)
			for k := 0; k < nk; k++ {
				d := c05Decl{Key: pool[urng.IntN(len(pool))], Perm: byte(urng.UintN(8))}
				if urng.IntN(5) == 0 {
					d.Perm = byte(urng.UintN(256))
				}
				if seen[d.Key] {
					dup = true
				}
				seen[d.Key] = true
				ds = append(ds, d)
			}
			c.Actions = append(c.Actions, ds)
		}
		if urng.IntN(3) == 0 {
			d := c05Decl{Key: pool[urng.IntN(len(pool))], Perm: byte(1 + urng.UintN(7))}
			if seen[d.Key] {
				dup = true
			}
			c.Sponsor = append(c.Sponsor, d)
		}
		if urng.IntN(6) == 0 { // an action declares the sponsor's balance key itself
			addr := chainfx.SpyAddr(int(uint64(i+1) % 5))
			bk := balance.NewPrefixBalanceHandler([]byte{0}).BalanceKey(addr)
			c.Actions[0] = append(c.Actions[0], c05Decl{Key: kit.Hex(bk), Perm: byte(urng.UintN(8))})
			dup = true
		}
		var key, d string
		r.Guard("Transaction.StateKeys", c, func() { key, d = runC05Union(c, uint64(i+1)) })
		r.Eval()
		if d != "" {
			r.Violation("C05/"+key, c, "%s", d)
		}
		r.Count("statekeys_cases", 1)
		if dup {
			r.Count("statekeys_cases_with_duplicates", 1)
			r.Distinct("sk", fmt.Sprint(c.Actions), fmt.Sprint(c.Sponsor))
		}
	}

	// (5) transaction level through the real processor
	c05TxLevel(t, r)

	r.Finish(r.N(3000, 50000))
}
