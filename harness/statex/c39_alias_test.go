package statex

import (
	"bytes"
	"encoding/hex"
	"fmt"
	"math/rand/v2"
	"sync"

	"github.com/ava-labs/hypersdk/chain"
	"github.com/ava-labs/hypersdk/state/metadata"
	"github.com/ava-labs/hypersdk/zzverif/kit"
)

// ---- C39, histories: the check is a query ----
//
// The statement fixes the answer of EVERY call as a function of the prefixes passed to it.
// The parts below call the check the way a VM / the chain does over time: on slices with
// spare capacity, on shorter and longer views of one registry array, repeatedly, from
// several goroutines, and on managers whose prefixes have been used to derive the chain's
// state keys. Each single answer is judged by the same pairwise oracle on private deep
// copies of what the caller configured; in addition the caller's array (up to its
// capacity), every prefix byte string and the manager's prefixes must be what the caller
// put there (otherwise the next answer is not about the caller's prefixes any more).

const c39Nil = "nil" // witness spelling of a nil byte slice (hex "" is the empty, non-nil one)

func c39Enc(b []byte) string {
	if b == nil {
		return c39Nil
	}
	return hex.EncodeToString(b)
}

func c39Dec(s string) []byte {
	if s == c39Nil {
		return nil
	}
	b, _ := hex.DecodeString(s)
	if b == nil {
		b = []byte{}
	}
	return b
}

func c39EncAll(l [][]byte) []string {
	out := make([]string, len(l))
	for i := range l {
		out[i] = c39Enc(l[i])
	}
	return out
}

func c39DecAll(l []string) [][]byte {
	out := make([][]byte, len(l))
	for i := range l {
		out[i] = c39Dec(l[i])
	}
	return out
}

// c39Alloc returns a private copy of b with the given spare capacity (nil stays nil).
func c39Alloc(b []byte, spare int) []byte {
	if b == nil {
		return nil
	}
	out := make([]byte, len(b), len(b)+spare)
	copy(out, b)
	return out
}

// c39Array is a caller-owned registry of prefixes: arr has len == cap == number of slots;
// the byte strings are either separate allocations (with some spare capacity) or adjacent,
// uncapped sub-slices of ONE byte buffer (so an append on one would run into the next).
type c39Array struct {
	arr     [][]byte
	buf     []byte
	snap    [][]byte // deep copy of the configured slots
	bufSnap []byte
}

func c39BuildArray(slots [][]byte, shared bool) *c39Array {
	a := &c39Array{arr: make([][]byte, len(slots)), snap: make([][]byte, len(slots))}
	if shared {
		total := 0
		for _, s := range slots {
			total += len(s)
		}
		a.buf = make([]byte, total+8)
		for i := total; i < len(a.buf); i++ {
			a.buf[i] = 0xa5
		}
		off := 0
		for i, s := range slots {
			if s != nil {
				a.arr[i] = a.buf[off : off+len(s)] // capacity runs to the end of the buffer
				copy(a.arr[i], s)
				off += len(s)
			}
		}
		a.bufSnap = append([]byte{}, a.buf...)
	} else {
		for i, s := range slots {
			a.arr[i] = c39Alloc(s, (i%3)*2)
		}
	}
	for i, s := range slots {
		a.snap[i] = c39Alloc(s, 0)
	}
	return a
}

// changed compares the caller's array and byte strings with the configured ones.
func (a *c39Array) changed() string {
	for i := range a.arr {
		got, want := a.arr[i], a.snap[i]
		if (got == nil) != (want == nil) || !bytes.Equal(got, want) {
			return fmt.Sprintf("slot %d of the caller's array was %s and is now %s", i, c39Enc(want), c39Enc(got))
		}
	}
	if a.buf != nil && !bytes.Equal(a.buf, a.bufSnap) {
		return fmt.Sprintf("the byte buffer holding the caller's prefixes was %x and is now %x", a.bufSnap, a.buf)
	}
	return ""
}

// c39Mgr builds the manager under test from configured prefixes; the slices handed over
// are private, separately allocated copies (spare capacity 0 or 4).
type c39Mgr struct {
	mm  chain.MetadataManager
	cfg [3][]byte // deep copies of the configured prefixes (oracle side)
}

func c39NewMgr(meta [3][]byte, own bool, spare int) *c39Mgr {
	m := &c39Mgr{}
	var in [3][]byte
	for i := range meta {
		m.cfg[i] = c39Alloc(meta[i], 0)
		in[i] = c39Alloc(meta[i], spare)
	}
	if own {
		m.mm = c39Manager{h: in[0], f: in[1], t: in[2]}
	} else {
		m.mm = metadata.NewManager(in[0], in[1], in[2])
	}
	return m
}

// changed reports a manager prefix that is no longer the configured one.
func (m *c39Mgr) changed() string {
	got := [3][]byte{m.mm.HeightPrefix(), m.mm.FeePrefix(), m.mm.TimestampPrefix()}
	for i, name := range []string{"height", "fee", "timestamp"} {
		if !bytes.Equal(got[i], m.cfg[i]) {
			return fmt.Sprintf("the manager's %s prefix was configured as %x and is now %x", name, m.cfg[i], got[i])
		}
	}
	return ""
}

func (m *c39Mgr) want(vm [][]byte) (bool, int, int, [][]byte) {
	list := append([][]byte{m.cfg[0], m.cfg[1], m.cfg[2]}, vm...)
	w, i, j := c39Oracle(list)
	return w, i, j, list
}

// ---- generation ----

var c39Alphabets = [][]byte{{0x00, 0x01}, {0x00, 0xff}, {0x00, 0x01, 0x02}, {0x03, 0x04, 0xfe, 0xff}, {0x00, 0x01, 0x08, 0x07}}

// c39GenList draws n prefixes: half of the time prefix-free by construction (the verdict
// hinges on the entries really passed), otherwise free random strings with shared stems.
func c39GenList(rng *rand.Rand, n int) [][]byte {
	syms := c39Alphabets[rng.IntN(len(c39Alphabets))]
	maxLen := 1 + rng.IntN(5)
	var list [][]byte
	if rng.IntN(2) == 0 {
		for tries := 0; len(list) < n && tries < 300; tries++ {
			p := make([]byte, 1+rng.IntN(maxLen+1))
			for j := range p {
				p[j] = syms[rng.IntN(len(syms))]
				if rng.IntN(6) == 0 {
					p[j] = byte(rng.UintN(256))
				}
			}
			free := true
			for _, q := range list {
				if c39IsPrefix(p, q) || c39IsPrefix(q, p) {
					free = false
					break
				}
			}
			if free {
				list = append(list, p)
			}
		}
	}
	for len(list) < n {
		var p []byte
		if len(list) > 0 && rng.IntN(5) == 0 {
			base := list[rng.IntN(len(list))]
			p = append([]byte{}, base...)
			switch rng.IntN(3) {
			case 0:
				p = append(p, syms[rng.IntN(len(syms))])
			case 1:
				if len(p) > 0 {
					p = p[:rng.IntN(len(p))]
				}
			default:
				if len(p) > 0 {
					p[len(p)-1] = syms[rng.IntN(len(syms))]
				}
			}
		} else {
			l := 1 + rng.IntN(maxLen)
			if rng.IntN(15) == 0 {
				l = 0
			}
			p = make([]byte, l)
			for j := range p {
				p[j] = syms[rng.IntN(len(syms))]
			}
		}
		if len(p) == 0 && rng.IntN(2) == 0 {
			p = nil
		}
		list = append(list, p)
	}
	return list
}

// c39GenMeta draws three metadata prefixes that mostly do not conflict with each other
// nor with base; with relate, one of them is an equal / extended / truncated copy of an
// entry of base (a planted conflict).
func c39GenMeta(rng *rand.Rand, base [][]byte, relate bool) [3][]byte {
	var meta [3][]byte
	all := append([][]byte{}, base...)
	for i := range meta {
		var p []byte
		for tries := 0; tries < 50; tries++ {
			p = make([]byte, 1+rng.IntN(4))
			for j := range p {
				p[j] = byte(rng.UintN(256))
				if rng.IntN(2) == 0 {
					p[j] = byte(rng.UintN(4))
				}
			}
			free := true
			for _, q := range all {
				if c39IsPrefix(p, q) || c39IsPrefix(q, p) {
					free = false
					break
				}
			}
			if free {
				break
			}
		}
		meta[i] = p
		all = append(all, p)
	}
	if relate && len(base) > 0 {
		src := base[rng.IntN(len(base))]
		var p []byte
		switch rng.IntN(3) {
		case 0:
			p = append([]byte{}, src...)
		case 1:
			p = append(append([]byte{}, src...), byte(rng.UintN(256)))
		default:
			p = append([]byte{}, src[:rng.IntN(len(src)+1)]...)
		}
		meta[rng.IntN(3)] = p
	}
	return meta
}

// ---- (4) views of one caller-owned array, sequentially ----

type c39AliasStep struct {
	Meta   [3]string `json:"meta"`
	Own    bool      `json:"own_manager,omitempty"`
	Spare  int       `json:"meta_spare_capacity"`
	Lo     int       `json:"lo"`
	Hi     int       `json:"hi"`
	Capped bool      `json:"capped,omitempty"` // arr[lo:hi:hi]: no spare capacity behind the view
}

type c39AliasHist struct {
	Part        string         `json:"part"` // "alias"
	Backing     []string       `json:"backing_array"`
	SharedBytes bool           `json:"prefixes_share_one_byte_buffer,omitempty"`
	Steps       []c39AliasStep `json:"steps"`
	FailedStep  int            `json:"failed_step"`
}

func c39RunAlias(r *kit.Run, h c39AliasHist) {
	a := c39BuildArray(c39DecAll(h.Backing), h.SharedBytes)
	type ck struct {
		meta   [3]string
		own    bool
		lo, hi int
	}
	earlier := map[ck]bool{}
	modified := false
	spareViews := 0
	for si, st := range h.Steps {
		h.FailedStep = si
		var meta [3][]byte
		for i := range meta {
			meta[i] = c39Dec(st.Meta[i])
		}
		m := c39NewMgr(meta, st.Own, st.Spare)
		view := a.arr[st.Lo:st.Hi]
		if st.Capped {
			view = a.arr[st.Lo:st.Hi:st.Hi]
		}
		if cap(view)-len(view) >= 3 {
			spareViews++
		}
		want, wi, wj, list := m.want(a.snap[st.Lo:st.Hi])
		var got, ok bool
		r.Guard("HasConflictingPrefixes", h, func() { got = metadata.HasConflictingPrefixes(m.mm, view); ok = true })
		r.Eval()
		if !ok {
			return
		}
		if want {
			r.Count("alias_oracle_conflict", 1)
		} else {
			r.Count("alias_oracle_no_conflict", 1)
		}
		switch {
		case want && !got:
			r.Violation("C39/conflict-missed", h, "step %d, view [%d:%d] of the caller's array: entry %d (%x) is a prefix of entry %d (%x) but no conflict was reported [list: height,fee,timestamp,view...]", si, st.Lo, st.Hi, wi, list[wi], wj, list[wj])
		case !want && got:
			r.Violation("C39/spurious-conflict", h, "step %d, view [%d:%d] of the caller's array: no entry is a prefix of another but a conflict was reported", si, st.Lo, st.Hi)
		}
		k := ck{st.Meta, st.Own, st.Lo, st.Hi}
		if prev, seen := earlier[k]; seen {
			r.Count("alias_repeated_checks", 1)
			if prev != got {
				r.Violation("C39/answer-changes-on-repeat", h, "step %d repeats an earlier check (same manager prefixes, same view [%d:%d] of the same array): the answer was %v and is now %v", si, st.Lo, st.Hi, prev, got)
			}
		}
		earlier[k] = got
		if !modified {
			if what := a.changed(); what != "" {
				modified = true
				r.Violation("C39/caller-slice-modified", h, "step %d, check over view [%d:%d] (len %d, cap %d) of the caller's array: %s", si, st.Lo, st.Hi, len(view), cap(view), what)
			}
		}
		if what := m.changed(); what != "" {
			r.Violation("C39/manager-prefix-modified-by-check", h, "step %d: %s", si, what)
		}
	}
	if spareViews >= 1 && len(h.Steps) >= 2 {
		r.Distinct("alias|", fmt.Sprint(h.Backing, h.SharedBytes, h.Steps))
		r.Sample(h)
	}
}

func c39GenAlias(rng *rand.Rand) c39AliasHist {
	slots := c39GenList(rng, 2+rng.IntN(9))
	h := c39AliasHist{Part: "alias", Backing: c39EncAll(slots), SharedBytes: rng.IntN(3) == 0}
	n := len(slots)
	nsteps := 2 + rng.IntN(5)
	// the views grow, shrink or repeat
	for len(h.Steps) < nsteps {
		if len(h.Steps) > 0 && rng.IntN(4) == 0 {
			st := h.Steps[rng.IntN(len(h.Steps))] // the very same check again
			st.Capped = rng.IntN(4) == 0
			h.Steps = append(h.Steps, st)
			continue
		}
		lo := 0
		if rng.IntN(4) == 0 {
			lo = rng.IntN(n + 1)
		}
		hi := lo + rng.IntN(n-lo+1)
		if len(h.Steps) > 0 && rng.IntN(2) == 0 { // a longer view of what was checked before
			prev := h.Steps[len(h.Steps)-1]
			lo = prev.Lo
			hi = prev.Hi + rng.IntN(n-prev.Hi+1)
		}
		view := slots[lo:hi]
		meta := c39GenMeta(rng, view, rng.IntN(3) == 0)
		if len(h.Steps) > 0 && rng.IntN(2) == 0 { // same chain as before
			for i, s := range h.Steps[len(h.Steps)-1].Meta {
				meta[i] = c39Dec(s)
			}
		}
		h.Steps = append(h.Steps, c39AliasStep{
			Meta: [3]string{c39Enc(meta[0]), c39Enc(meta[1]), c39Enc(meta[2])},
			Own:  rng.IntN(2) == 0, Spare: 4 * rng.IntN(2), Lo: lo, Hi: hi, Capped: rng.IntN(6) == 0,
		})
	}
	return h
}

// ---- (5) several chains check views of one shared array at the same time ----

type c39ConcWorker struct {
	Meta [3]string `json:"meta"`
	Own  bool      `json:"own_manager,omitempty"`
	Lo   int       `json:"lo"`
	Hi   int       `json:"hi"`
	Want bool      `json:"oracle_conflict"`
}

type c39ConcCase struct {
	Part        string          `json:"part"` // "concurrent"
	Backing     []string        `json:"backing_array"`
	SharedBytes bool            `json:"prefixes_share_one_byte_buffer,omitempty"`
	Workers     []c39ConcWorker `json:"workers"`
	Iters       int             `json:"calls_per_worker"`
	Failed      int             `json:"failed_worker"`
	FailedCall  int             `json:"failed_call"`
}

func c39RunConc(r *kit.Run, c c39ConcCase) {
	a := c39BuildArray(c39DecAll(c.Backing), c.SharedBytes)
	mgrs := make([]*c39Mgr, len(c.Workers))
	for i, w := range c.Workers {
		var meta [3][]byte
		for j := range meta {
			meta[j] = c39Dec(w.Meta[j])
		}
		mgrs[i] = c39NewMgr(meta, w.Own, 0)
		// the expected answer is recomputed here (replays carry it only for the reader)
		c.Workers[i].Want, _, _, _ = mgrs[i].want(a.snap[w.Lo:w.Hi])
	}
	type out struct {
		calls, wrong, firstWrong int
		gotWrong                 bool
	}
	outs := make([]out, len(c.Workers))
	start := make(chan struct{})
	var wg sync.WaitGroup
	for i := range c.Workers {
		wg.Add(1)
		go func(i int) {
			defer wg.Done()
			w := c.Workers[i]
			view := a.arr[w.Lo:w.Hi] // spare capacity behind the view: shared with the other workers
			o := &outs[i]
			o.firstWrong = -1
			<-start
			r.Guard("concurrent/HasConflictingPrefixes", c, func() {
				for k := 0; k < c.Iters; k++ {
					got := metadata.HasConflictingPrefixes(mgrs[i].mm, view)
					o.calls++
					if got != w.Want {
						o.wrong++
						if o.firstWrong < 0 {
							o.firstWrong, o.gotWrong = k, got
						}
					}
				}
			})
		}(i)
	}
	close(start)
	wg.Wait()
	calls := 0
	wantT, wantF := 0, 0
	for i, o := range outs {
		calls += o.calls
		if c.Workers[i].Want {
			wantT++
		} else {
			wantF++
		}
		if o.wrong > 0 {
			c.Failed, c.FailedCall = i, o.firstWrong
			key := "C39/concurrent/spurious-conflict"
			if c.Workers[i].Want {
				key = "C39/concurrent/conflict-missed"
			}
			r.Violation(key, c, "worker %d (view [%d:%d] of the shared array, %d workers with different managers checking at the same time): %d of %d calls answered %v, the oracle says %v (first at call %d)",
				i, c.Workers[i].Lo, c.Workers[i].Hi, len(c.Workers), o.wrong, o.calls, o.gotWrong, c.Workers[i].Want, o.firstWrong)
		}
	}
	r.EvalN(calls)
	r.Count("concurrent_calls", calls)
	r.Count("concurrent_workers_oracle_conflict", wantT)
	r.Count("concurrent_workers_oracle_no_conflict", wantF)
	if what := a.changed(); what != "" {
		r.Violation("C39/caller-slice-modified", c, "after %d concurrent checks over views of one shared array: %s", calls, what)
	}
	for i, m := range mgrs {
		if what := m.changed(); what != "" {
			r.Violation("C39/manager-prefix-modified-by-check", c, "worker %d: %s", i, what)
		}
	}
	if wantT > 0 && wantF > 0 {
		r.Distinct("conc|", fmt.Sprint(c.Backing, c.SharedBytes, c.Workers))
	}
}

func c39GenConc(rng *rand.Rand, iters int) c39ConcCase {
	slots := c39GenList(rng, 4+rng.IntN(8))
	n := len(slots)
	c := c39ConcCase{Part: "concurrent", Backing: c39EncAll(slots), SharedBytes: rng.IntN(3) == 0, Iters: iters}
	hi := 1 + rng.IntN(n-3) // at least 3 slots behind the common view
	nw := 2 + rng.IntN(5)
	for i := 0; i < nw; i++ {
		lo, h := 0, hi
		if rng.IntN(3) == 0 {
			h = rng.IntN(n + 1)
			lo = rng.IntN(h + 1)
		}
		meta := c39GenMeta(rng, slots[lo:h], i%2 == 0)
		c.Workers = append(c.Workers, c39ConcWorker{Meta: [3]string{c39Enc(meta[0]), c39Enc(meta[1]), c39Enc(meta[2])}, Own: rng.IntN(2) == 0, Lo: lo, Hi: h})
	}
	return c
}

// ---- (6) managers whose prefixes the chain derives its state keys from ----

type c39DeriveOp struct {
	Op string   `json:"op"` // height-key | fee-key | timestamp-key | check
	VM []string `json:"vm,omitempty"`
}

type c39DeriveHist struct {
	Part     string        `json:"part"` // "derive"
	Meta     [3]string     `json:"meta"`
	Default  bool          `json:"default_manager,omitempty"` // metadata.NewDefaultManager()
	Spare    int           `json:"meta_spare_capacity"`
	Ops      []c39DeriveOp `json:"ops"`
	FailedOp int           `json:"failed_op"`
}

func c39RunDerive(r *kit.Run, h c39DeriveHist) {
	var m *c39Mgr
	if h.Default {
		dm := metadata.NewDefaultManager()
		m = &c39Mgr{mm: dm}
		// configured = what the fresh manager reports
		m.cfg = [3][]byte{c39Alloc(dm.HeightPrefix(), 0), c39Alloc(dm.FeePrefix(), 0), c39Alloc(dm.TimestampPrefix(), 0)}
	} else {
		var meta [3][]byte
		for i := range meta {
			meta[i] = c39Dec(h.Meta[i])
		}
		m = c39NewMgr(meta, false, h.Spare)
	}
	derived := 0
	checksAfter := 0
	for oi, op := range h.Ops {
		h.FailedOp = oi
		ok := false
		switch op.Op {
		case "height-key":
			r.Guard("chain.HeightKey", h, func() { _ = chain.HeightKey(m.mm.HeightPrefix()); ok = true })
			derived++
		case "fee-key":
			r.Guard("chain.FeeKey", h, func() { _ = chain.FeeKey(m.mm.FeePrefix()); ok = true })
			derived++
		case "timestamp-key":
			r.Guard("chain.TimestampKey", h, func() { _ = chain.TimestampKey(m.mm.TimestampPrefix()); ok = true })
			derived++
		default:
			vm := c39DecAll(op.VM)
			vmc := make([][]byte, len(vm))
			for i := range vm {
				vmc[i] = c39Alloc(vm[i], 0)
			}
			if op.VM == nil {
				vmc = nil
			}
			want, wi, wj, list := m.want(vm)
			var got bool
			r.Guard("HasConflictingPrefixes", h, func() { got = metadata.HasConflictingPrefixes(m.mm, vmc); ok = true })
			r.Eval()
			if !ok {
				return
			}
			suffix := ""
			if derived > 0 {
				suffix = "-after-key-derivation"
				checksAfter++
				if want {
					r.Count("derive_oracle_conflict_after_derivation", 1)
				} else {
					r.Count("derive_oracle_no_conflict_after_derivation", 1)
				}
			}
			switch {
			case want && !got:
				r.Violation("C39/conflict-missed"+suffix, h, "op %d (%d state keys derived from the manager's prefixes before): entry %d (%x) is a prefix of entry %d (%x) but no conflict was reported [list: configured height,fee,timestamp,vm...]", oi, derived, wi, list[wi], wj, list[wj])
			case !want && got:
				r.Violation("C39/spurious-conflict"+suffix, h, "op %d (%d state keys derived from the manager's prefixes before): no configured prefix is a prefix of another but a conflict was reported", oi, derived)
			}
		}
		if !ok {
			return
		}
		if what := m.changed(); what != "" {
			key := "C39/manager-prefix-corrupted-by-key-derivation"
			if derived == 0 {
				key = "C39/manager-prefix-modified-by-check"
			}
			r.Violation(key, h, "after op %d (%s): %s", oi, op.Op, what)
			return
		}
	}
	r.Count("derive_keys_derived", derived)
	if checksAfter > 0 {
		r.Distinct("derive|", fmt.Sprint(h.Meta, h.Default, h.Spare, h.Ops))
		r.Sample(h)
	}
}

func c39GenDerive(rng *rand.Rand) c39DeriveHist {
	h := c39DeriveHist{Part: "derive", Spare: 4 * rng.IntN(2)}
	meta := c39GenMeta(rng, nil, false)
	if rng.IntN(12) == 0 {
		h.Default = true
		meta = [3][]byte{{0x0}, {0x2}, {0x1}} // only used to relate the VM prefixes below
	}
	h.Meta = [3]string{c39Enc(meta[0]), c39Enc(meta[1]), c39Enc(meta[2])}
	keyOps := []string{"height-key", "fee-key", "timestamp-key"}
	n := 3 + rng.IntN(8)
	for i := 0; i < n; i++ {
		if rng.IntN(2) == 0 {
			h.Ops = append(h.Ops, c39DeriveOp{Op: keyOps[rng.IntN(3)]})
			continue
		}
		// VM prefixes: unrelated / related to a configured prefix / related to what an
		// in-place append of a 2-byte chunk count (0001, 0008) would leave behind
		var vm [][]byte
		nv := rng.IntN(4)
		for j := 0; j < nv; j++ {
			var p []byte
			switch rng.IntN(6) {
			case 0: // first byte(s) of a configured prefix
				src := meta[rng.IntN(3)]
				p = append([]byte{}, src[:1+rng.IntN(len(src))]...)
			case 1: // extension of a configured prefix
				p = append(append([]byte{}, meta[rng.IntN(3)]...), byte(rng.UintN(256)))
			case 2: // a configured prefix with its first bytes replaced by a chunk count
				src := meta[rng.IntN(3)]
				p = append([]byte{}, src...)
				chunk := [][]byte{{0x00, 0x01}, {0x00, 0x08}}[rng.IntN(2)]
				copy(p, chunk)
				if rng.IntN(2) == 0 {
					copy(p, chunk[1:])
				}
			case 3:
				p = [][]byte{{0x00}, {0x01}, {0x08}, {0x00, 0x01}, {0x00, 0x08}}[rng.IntN(5)]
				p = append([]byte{}, p...)
			default:
				p = make([]byte, 1+rng.IntN(3))
				for k := range p {
					p[k] = byte(rng.UintN(256))
				}
			}
			vm = append(vm, p)
		}
		h.Ops = append(h.Ops, c39DeriveOp{Op: "check", VM: c39EncAll(vm)})
	}
	if h.Ops[len(h.Ops)-1].Op != "check" {
		h.Ops = append(h.Ops, c39DeriveOp{Op: "check", VM: []string{c39Enc(meta[1][:1])}})
	}
	return h
}

// c39Histories runs parts (4)-(6).
func c39Histories(r *kit.Run) {
	rng := r.Rand("histories")
	n := r.N(8000, 300000)
	for i := 0; i < n && r.Violations() < 20; i++ {
		c39RunAlias(r, c39GenAlias(rng))
		r.Count("alias_histories", 1)
	}
	for i := 0; i < n && r.Violations() < 20; i++ {
		c39RunDerive(r, c39GenDerive(rng))
		r.Count("derive_histories", 1)
	}
	if r.Violations() > 0 {
		// an implementation that writes into the caller's array makes concurrent checks over
		// that array memory-unsafe: the sequential parts have already reported the cause
		r.Count("concurrent_part_skipped_after_violation", 1)
		return
	}
	groups := r.N(400, 8000)
	for i := 0; i < groups && r.Violations() < 20; i++ {
		c39RunConc(r, c39GenConc(rng, 200))
		r.Count("concurrent_groups", 1)
	}
}
